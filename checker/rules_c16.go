package main

import (
	"fmt"
	"go/token"
	"go/types"
	"strings"

	"golang.org/x/tools/go/ssa"
)

func init() {
	register("C16", "Decides structural necessary conditions of 'a scan delivers every entry of its range exactly once' (compositional: channel delivery is the axiom, each premise is a shape of the code): "+
		"(R1) the range generator emits consecutive, abutting, non-empty ranges: next covers the indices start … start + min(end − start, batch) − 1 (its end field is that last index + δ for one constant δ, the same δ the worker takes off again — inclusive and half-open ranges are both decided), the following start is this start + the batch length, the first start is StartIndex, the loop stops only when start ≥ end and not continuous, the STH is refreshed only when start = end, the send can always be abandoned on context end, the channel is closed by its producer; "+
		"(R2) a worker works off the range it received from the ranges channel: it requests up to the last index of the range (r.end − δ) and requests again exactly while its cursor has not passed that last index (decided for every state the loop test can tell apart, and for cursor = last / last + 1), a failed request is tried again for the same range; and what reaches the callback is every index of the range once, under its own label, with the entries of the response that was asked for it — decided by walking the worker (every path from the receive of a range to the request loop, every path through one round of it, every way out; a request has two outcomes), with a ghost counter \"first index not delivered\" that every batch handed to the callback advances, under the strongest linear equalities that the start of a range and all rounds keep between the loop-carried integers, the lengths of the loop-carried slices and that counter (affine hull; tests that came out \"=\" restrict the states a path applies to): a batch is labelled with the first index not delivered; every chunk of a batch lies at the index its request asked for and is the response of a request that succeeded; what a round keeps for a later batch lies at consecutive indices from the first index not delivered, is empty when a range is taken up, and is not collected on the backing array of a batch already handed over; the loop is left for the next range only when the first index not delivered has passed the last index; every kind of round (failed request, …) keeps the equalities the fetching rounds keep — whether responses are handed over one by one or collected, under whichever cursor and label variables; "+
		"(R3) single producer / single consumer structure: only the generator sends ranges, only workers invoke the callback, ScanLog's entry channel is fed only by its flatten callback and closed after the fetcher returns; "+
		"(R4) indices are derived as batch.Start + i at all three consumers (scanner flatten, migrillian submitter, client.GetEntries); "+
		"(R5) the scanner calls at most one of the two callbacks per entry, exactly when the matcher selected it (and, for certificates, not in precert-only mode); "+
		"(R6) Fetcher.cancel is guarded by its mutex and the scanner's counters are touched only through sync/atomic once goroutines run; Prepare clamps EndIndex to the tree size. "+
		"NOT covered: schedules as such, termination/liveness (a worker that drops what it collected and fetches it again on every failure is accepted), what happens to entries already fetched when the context is cancelled (they may or may not be handed over), servers returning more entries than asked, behaviour of backoff.Retry, a worker that hands the callback on to another function or delivers from a function literal (undecided ⇒ fails).",
		runC16)
}

func runC16(r *Run) {
	r.Assume("Go channels deliver each sent value to exactly one receiver; backoff.Retry returns nil only after its function returned nil")
	r.Assume("the worker's delivery accounting treats the function literal handed to backoff.Retry as run to its last call: when Retry returns nil the response variable holds the response of a request that succeeded, otherwise it holds nothing the log returned for the indices asked; a successful response holds entries for consecutive indices from the first index requested; locals of the worker whose address is not passed on are changed only by the worker's own stores")
	r.D.PhiByName = true
	defer func() { r.D.PhiByName = false }()

	r.Rule("C16.R1")
	if fn := r.Fn("(*scanner.Fetcher).genRanges$1"); fn != nil {
		c16GenRanges(r, fn)
	}
	if fn := r.Fn("(*scanner.Fetcher).genRanges"); fn != nil {
		ngo := 0
		eachInstr(fn, func(in ssa.Instruction) {
			if _, ok := in.(*ssa.Go); ok {
				ngo++
			}
		})
		r.Check("genRanges:one-generator", ngo == 1, r.FnPos(fn), fmt.Sprintf("%d generator goroutines per Run", ngo))
	}

	r.Rule("C16.R2")
	if fn := r.Fn("(*scanner.Fetcher).runWorker"); fn != nil {
		c16Worker(r, fn)
	}

	r.Rule("C16.R3")
	c16Channels(r)

	r.Rule("C16.R4")
	c16Indices(r)

	r.Rule("C16.R5")
	c16Matcher(r)

	// the migration controller's use of the fetcher: a failed submitter must make the pass
	// fail (rule set of C20.R4), otherwise the tail after the failure is never delivered
	r.Shared("C16.R7", func() {
		r.Rule("C20.R4")
		c20FetchTail(r)
	})

	r.Rule("C16.R6")
	r.LockCheck(lockTable["Fetcher"])
	c16Atomics(r)
	if fn := r.Fn("(*scanner.Fetcher).Prepare"); fn != nil {
		sts := r.StoresTo(fn, "&(p0.opts.EndIndex)")
		r.Check("Prepare:clamp", len(sts) == 1 && glob("iface(scanner.LogClient).GetSTH(*)#0.TreeSize", r.D.D(sts[0].Val)), r.FnPos(fn), "EndIndex is only ever reset to the tree size of the STH just fetched")
		if len(sts) == 1 {
			// the reset happens when EndIndex == 0 or EndIndex > size
			_, err := r.D.Table(fn, nil, nil, []RuleAtom{{Name: "zero", OrdA: "p0.opts.EndIndex", OrdB: "0", Dom: []string{"=", ">"}}, {Name: "big", OrdA: "p0.opts.EndIndex", OrdB: "iface(scanner.LogClient).GetSTH(*)#0.TreeSize"},
				{Name: "cached", Pat: "nil?p0.sth", Dom: []string{"nil"}}, {Name: "err", Pat: "nil?iface(scanner.LogClient).GetSTH(*)#1", Dom: []string{"nil"}}},
				func(val map[string]string, reach *Reach, s Sigma) {
					r.Valuations++
					want := val["zero"] == "=" || val["big"] == ">"
					r.Check("Prepare:clamp[EndIndex"+val["zero"]+"0,EndIndex"+val["big"]+"size]", reach.Has(sts[0]) == want, r.Where(sts[0]), fmt.Sprintf("EndIndex reset=%v, wanted %v", reach.Has(sts[0]), want))
				})
			if err != nil {
				r.Fail("Prepare:clamp-table", r.FnPos(fn), "undecided: "+err.Error())
			}
		}
		r.ErrorsGate(fn, "Prepare:errors", "iface(scanner.LogClient).GetSTH", 1)
	}
}

func loopPhi(fn *ssa.Function, pred func(p *ssa.Phi) bool) *ssa.Phi {
	var out *ssa.Phi
	eachInstr(fn, func(in ssa.Instruction) {
		if p, ok := in.(*ssa.Phi); ok && out == nil && pred(p) {
			out = p
		}
	})
	return out
}

func c16GenRanges(r *Run, fn *ssa.Function) {
	// the literal sent: stores to fetchRange.start / .end
	ss := r.StoresTo(fn, "&(new:scanner.fetchRange#*.start)")
	es := r.StoresTo(fn, "&(new:scanner.fetchRange#*.end)")
	if len(ss) != 1 || len(es) != 1 {
		r.Fail("genRanges:next", r.FnPos(fn), fmt.Sprintf("expected one fetchRange literal, found %d/%d field stores", len(ss), len(es)))
		return
	}
	// the cursor: a variable carried round the loop, held in a register (φ) or in a cell that the
	// goroutine captured and has to itself (rules_t5c16.go)
	S := c16VarOf(r, fn, ss[0].Val)
	if S.why != "" {
		r.Fail("genRanges:start-cursor", r.Where(ss[0]), "undecided: next.start is not the loop-carried cursor: "+S.why)
		return
	}
	sv := ss[0].Val
	sends := sendsOn(fn, "chan scanner.fetchRange")
	var header *ssa.BasicBlock
	if S.phi != nil {
		header = S.phi.Block()
	} else {
		h, why := c16CursorDiscipline(r, fn, S, ss[0].Block(), sends)
		if why != "" {
			r.Fail("genRanges:start-cursor", r.Where(ss[0]), "undecided: next.start is not the loop-carried cursor: "+why)
			return
		}
		header = h
	}
	// the batch length is the minimum of two values — whichever way the minimum is taken (the
	// builtin, a helper function whose body decides "the smaller of its two parameters", or an
	// inline comparison merging the two values)
	mins := c16Minima(r, fn)
	if len(mins) != 1 {
		r.Fail("genRanges:batch-length", r.FnPos(fn), fmt.Sprintf("undecided: expected one call of min(end-start, batch), found %d minima", len(mins)))
		return
	}
	M := mins[0].V
	lS := r.D.Lin(sv, nil)
	// the range emitted covers start … start + min − 1: end = start + min − 1 + δ, δ being the
	// constant the worker takes off the end again (rules_t6c16.go)
	diff := r.D.Lin(es[0].Val, nil).add(lS, -1)
	c16GenEndCheck(r, fn, es[0], diff)
	// min(end − start, batch): one operand is end − start of the cursor, the other the batch size
	var E ssa.Value
	isRemaining := func(v ssa.Value) ssa.Value {
		if b, ok := v.(*ssa.BinOp); ok && b.Op == token.SUB && S.is(b.Y) {
			return b.X
		}
		return nil
	}
	rem, bat := mins[0].A, mins[0].B
	if isRemaining(rem) == nil && isRemaining(bat) != nil {
		rem, bat = bat, rem
	}
	if E = isRemaining(rem); E != nil {
		r.Pass("genRanges:batch-length.remaining", r.Where(mins[0].At), "batch length = min(end − start, …) over the loop's own cursor")
	} else {
		r.Fail("genRanges:batch-length.remaining", r.Where(mins[0].At), "first operand of min is "+r.D.Lin(rem, nil).String()+", not end − start of the cursor")
	}
	r.Check("genRanges:batch-length.batch", c16IsBatch(r, fn, bat), r.Where(mins[0].At), "second operand of min is the configured batch size: "+r.D.D(bat))
	// cursor: first value StartIndex, next round's value start + min
	entryOK, backOK := false, false
	if S.phi != nil {
		for i, e := range S.phi.Edges {
			if S.phi.Block().Preds[i].Index < S.phi.Block().Index && S.phi.Block().Preds[i].Index == 0 {
				entryOK = true
				for _, in := range c16Resolve(r, fn, e) {
					if !c16OptsField(r, in, "StartIndex") {
						entryOK = false
					}
				}
				continue
			}
			back := r.D.Lin(e, nil).add(lS, -1).String()
			backOK = back == r.D.Lin(M, nil).String()
			r.Check("genRanges:abut", backOK, r.Where(ss[0]), "next round's start − this round's start = "+back+" (must be the batch length, i.e. previous end + 1)")
		}
		r.Check("genRanges:first-start", entryOK, r.Where(ss[0]), "the first range starts at opts.StartIndex")
	} else {
		for _, st := range S.stores {
			back := r.D.Lin(st.Val, nil).add(lS, -1).String()
			backOK = back == r.D.Lin(M, nil).String()
			r.Check("genRanges:abut", backOK, r.Where(st), "next round's start − this round's start = "+back+" (must be the batch length, i.e. previous end + 1)")
		}
		entryOK = len(S.inits) > 0
		first := ""
		for _, in := range S.inits {
			if !c16OptsField(r, in, "StartIndex") {
				entryOK = false
			}
			first += " " + c16Strip(r.D.D(in.v)) + in.by(r)
		}
		r.Check("genRanges:first-start", entryOK, r.Where(ss[0]), "the first range starts at opts.StartIndex:"+first)
	}
	var EV *c16Var
	if E != nil {
		// where the end comes from: initially and after every assignment, the configured
		// opts.EndIndex of this fetcher — read once Prepare has fitted it to the tree, or after
		// an STH update
		EV = c16VarOf(r, fn, E)
		okE := EV.why == ""
		detail := EV.why
		var srcs []c16Init
		if EV.phi != nil {
			for _, l := range PhiLeaves(EV.phi, nil) {
				srcs = append(srcs, c16Resolve(r, fn, l)...)
			}
		} else if okE {
			srcs = append(srcs, EV.inits...)
			for _, st := range EV.stores {
				srcs = append(srcs, c16Init{fn: fn, v: st.Val})
			}
		}
		if okE && len(srcs) == 0 {
			okE, detail = false, "no value is ever assigned to the end"
		}
		// ... and an STH update is followed by a fresh assignment of the end
		if upd := CallsTo(fn, "(*scanner.Fetcher).updateSTH"); okE && len(upd) == 1 {
			refreshed := false
			if EV.phi != nil {
				for _, l := range PhiLeaves(EV.phi, nil) {
					if li, ok := l.(ssa.Instruction); ok && c16Precedes(upd[0], li) {
						refreshed = true
					}
				}
			} else {
				for _, st := range EV.stores {
					if c16Precedes(upd[0], st) {
						refreshed = true
					}
				}
			}
			if !refreshed {
				okE, detail = false, "the end is not assigned afresh after the STH update"
			}
		}
		var direct []c16Init
		for _, in := range srcs {
			ok, isDirect, d := c16EndSource(r, in)
			if !ok {
				okE = false
				detail += "; " + d + in.by(r)
			} else if isDirect {
				direct = append(direct, in)
			}
		}
		r.Check("genRanges:end-bound", okE, r.Where(mins[0].At), "the range end is opts.EndIndex (re-read only after an STH update)"+c16Detail(detail))
		if okE {
			okP, dP := true, ""
			for _, in := range direct {
				if ok, d := c16CurrentRead(r, in, fn); !ok {
					okP = false
					dP += "; " + d
				}
			}
			if len(direct) == 0 {
				okP, dP = false, "undecided: the first end is not a read of opts.EndIndex"
			}
			r.Check("genRanges:end-as-prepared", okP, r.Where(mins[0].At), "the end in force is opts.EndIndex as Prepare (or an STH update) left it"+c16Detail(dP))
		}
	}
	// loop condition table
	if E != nil {
		// the comparisons of the cursor with the end: the end may be held in several registers
		// (one φ per loop header it is carried round) — they all stand for the one variable
		endD := map[string]bool{r.D.D(E): true}
		if ep, ok := E.(*ssa.Phi); ok {
			seen := map[*ssa.Phi]bool{}
			var web func(p *ssa.Phi)
			web = func(p *ssa.Phi) {
				if seen[p] {
					return
				}
				seen[p] = true
				endD[r.D.D(p)] = true
				for _, e := range p.Edges {
					if q, ok := e.(*ssa.Phi); ok {
						web(q)
					}
				}
			}
			web(ep)
		}
		ordKey := ""
		ordKeys := map[string]bool{} // key → the cursor is the atom's second operand
		for k, ci := range r.D.AtomsOf(fn) {
			if ci.Kind == "ord" && ((ci.A == r.D.D(sv) && endD[ci.B]) || (ci.B == r.D.D(sv) && endD[ci.A])) {
				ordKeys[k] = ci.A != r.D.D(sv)
				if ordKey == "" || (ci.A == r.D.D(E) || ci.B == r.D.D(E)) {
					ordKey = k
				}
			}
		}
		contKey, updKey := "", ""
		for k := range r.D.AtomsOf(fn) {
			if glob("*.opts.Continuous", k) {
				contKey = k
			}
			if glob("nil?(*scanner.Fetcher).updateSTH(*", k) {
				updKey = k
			}
		}
		upd := asInstrs(CallsTo(fn, "(*scanner.Fetcher).updateSTH"))
		if ordKey == "" || contKey == "" || len(sends) != 1 || len(upd) != 1 {
			r.Fail("genRanges:loop", r.FnPos(fn), fmt.Sprintf("undecided: loop condition atoms (%q, %q), %d sends, %d STH updates", ordKey, contKey, len(sends), len(upd)))
		} else {
			if EV != nil && EV.why == "" && EV.phi == nil {
				if why := c16EndStable(r, fn, EV, ordKey, ss[0].Block()); why != "" {
					r.Fail("genRanges:loop", r.FnPos(fn), "undecided: "+why)
				}
			}
			flip := map[string]string{"<": ">", "=": "=", ">": "<"}
			if updKey == "" {
				updKey = "nil?(*scanner.Fetcher).updateSTH(*^&(p0), *^&(p1))"
			}
			for _, o := range []struct{ name, v string }{{"start<end", "<"}, {"start=end", "="}, {"start>end", ">"}} {
				for _, c := range []string{"T", "F"} {
					sg := Sigma{contKey: c, updKey: "nil"}
					for k, flipped := range ordKeys {
						if flipped {
							sg[k] = flip[o.v]
						} else {
							sg[k] = o.v
						}
					}
					reach := r.D.Walk(fn, sg, header, map[*ssa.BasicBlock]bool{header: true})
					r.Valuations++
					sent := reach.Has(sends[0])
					updated := reach.Has(upd[0])
					// a range is only emitted while the cursor is below the end in force (a start index at or
					// beyond the tree — Prepare clamps EndIndex to the tree size, not StartIndex — waits for
					// growth in continuous mode and ends the scan otherwise; emitting there would move the
					// cursor backwards and deliver indices below the requested start)
					wantSend := o.name == "start<end"
					r.Check("genRanges:loop["+o.name+",continuous="+c+"].emits", sent == wantSend, r.Where(sends[0]), fmt.Sprintf("range emitted=%v, wanted %v", sent, wantSend))
					wantUpd := o.name != "start<end" && c == "T"
					r.Check("genRanges:loop["+o.name+",continuous="+c+"].refreshes-sth", updated == wantUpd, r.Where(upd[0]), fmt.Sprintf("STH refreshed=%v, wanted %v", updated, wantUpd))
				}
			}
			r.MustGuardAfter(fn, "genRanges:sth-error-stops", "nil?(*scanner.Fetcher).updateSTH(*", "non", sends, "emission of a range")
		}
		// the send is a select with ctx.Done()
		if len(sends) == 1 {
			sel, isSel := sends[0].(*ssa.Select)
			okSel := false
			if isSel && sel.Blocking {
				for _, st := range sel.States {
					if st.Dir == types.RecvOnly && glob("iface(context.Context).Done(*)", r.D.D(st.Chan)) {
						okSel = true
					}
				}
			}
			r.Check("genRanges:send-abandonable", okSel, r.Where(sends[0]), "the range is sent in a select that also waits for ctx.Done()")
			if isSel {
				for _, st := range sel.States {
					if st.Dir == types.SendOnly {
						a := baseAlloc(st.Send)
						r.Check("genRanges:sends-next", a != nil && a == baseAlloc(ss[0].Addr), r.Where(sel), "the value sent is the range literal just built")
					}
				}
			}
		}
	}
	// closed by its producer
	closed := false
	eachInstr(fn, func(in ssa.Instruction) {
		if d, ok := in.(*ssa.Defer); ok {
			if b, ok := d.Call.Value.(*ssa.Builtin); ok && b.Name() == "close" {
				closed = true
			}
		}
	})
	r.Check("genRanges:closes-channel", closed, r.FnPos(fn), "the generator closes the ranges channel when it ends (deferred)")
}

// sendsOn lists the send operations (plain or within a select) of fn on channels of the named type.
func sendsOn(fn *ssa.Function, chanType string) []ssa.Instruction {
	var out []ssa.Instruction
	eachInstr(fn, func(in ssa.Instruction) {
		switch x := in.(type) {
		case *ssa.Send:
			if strings.HasSuffix(TypeName(x.Chan.Type()), chanType) {
				out = append(out, in)
			}
		case *ssa.Select:
			for _, st := range x.States {
				if st.Dir == types.SendOnly && strings.HasSuffix(TypeName(st.Chan.Type()), chanType) {
					out = append(out, in)
				}
			}
		}
	})
	return out
}

func c16Worker(r *Run, fn *ssa.Function) {
	// the one get-entries request of the worker: made by the worker function itself or by a
	// function literal of it (the one it hands to the retry helper)
	var reqs []ssa.CallInstruction
	for _, f := range append([]*ssa.Function{fn}, fn.AnonFuncs...) {
		reqs = append(reqs, CallsTo(f, "iface(scanner.LogClient).GetRawEntries")...)
	}
	_, cbs := c16Callbacks(r, fn)
	if !r.Check("runWorker:request", len(reqs) == 1, r.FnPos(fn), fmt.Sprintf("expected exactly one call of iface(scanner.LogClient).GetRawEntries in %s, found %d", FuncName(fn), len(reqs))) || len(cbs) == 0 {
		r.Fail("runWorker:callback", r.FnPos(fn), fmt.Sprintf("undecided: %d get-entries requests, %d callback invocations", len(reqs), len(cbs)))
		return
	}
	req := reqs[0]
	// the request ends at, and the inner loop runs up to, the last index of the range the
	// generator emitted — whichever index the range's end field stands for (rules_t6c16.go)
	c16WorkerEndChecks(r, fn, req)
	// what reaches the callback: every index of the range once, under its own label, with the
	// bytes of the response that was asked for it — however the worker collects, labels and
	// hands over (rules_t8c16.go)
	if cv := c16Convention(r); cv.q != nil && cv.reqWhy == "" {
		c16Account(r, fn, cv.q, req)
	} else {
		r.Fail("runWorker:accounting", r.FnPos(fn), "undecided: "+cv.reqWhy)
	}
	if clo := req.Parent(); clo != fn {
		if retry := r.OneCall(fn, "runWorker:retry", "(*backoff.Backoff).Retry"); retry != nil {
			r.ExpectArg(retry, "runWorker:retry.fn", 2, "closure:"+FuncName(clo))
		}
		for _, ret := range Returns(clo) {
			r.Check("runWorker:request-error-returned", glob("iface(scanner.LogClient).GetRawEntries(*)#1", r.D.D(ret.Results[0])), r.Where(ret), "the retry closure returns the request's error")
		}
	}
}

func c16Channels(r *Run) {
	// who sends fetchRange values
	for _, fn := range r.P.ModFuncs {
		if s := sendsOn(fn, "chan scanner.fetchRange"); len(s) > 0 {
			r.Check("who-sends:fetchRange@"+FuncName(fn), FuncName(fn) == "(*scanner.Fetcher).genRanges$1", r.Where(s[0]), FuncName(fn)+" sends on the ranges channel")
		}
		if s := sendsOn(fn, "chan scanner.entryInfo"); len(s) > 0 {
			r.Check("who-sends:entryInfo@"+FuncName(fn), glob("(*scanner.Scanner).ScanLog$*", FuncName(fn)), r.Where(s[0]), FuncName(fn)+" sends on the entries channel")
		}
	}
	// the fetch callback is invoked only by runWorker
	if fn := r.Fn("(*scanner.Fetcher).Run"); fn != nil {
		n := len(CallsToDeep(fn, "dyn(*p2*)"))
		r.Check("who-calls:fn@Run", n == 0, r.FnPos(fn), fmt.Sprintf("Run itself invokes the callback %d times (only workers may)", n))
		w := CallsToDeep(fn, "(*scanner.Fetcher).runWorker")
		r.Check("Run:workers", len(w) == 1, r.FnPos(fn), "Run starts runWorker in its worker goroutines")
		for _, c := range w {
			r.Check("Run:worker.callback", glob("*p2*", r.D.D(CallArgs(c)[3])), r.Where(c), "workers get Run's callback: "+r.D.D(CallArgs(c)[3]))
			okR := false
			if g := CallsTo(fn, "(*scanner.Fetcher).genRanges"); len(g) == 1 {
				want := strings.TrimLeft(r.D.D(CallArgs(c)[2]), "*^")
				for _, ref := range *g[0].Value().Referrers() {
					if st, ok := ref.(*ssa.Store); ok && r.D.D(st.Addr) == want {
						okR = true
					}
				}
				if glob("*(*scanner.Fetcher).genRanges(*)", r.D.D(CallArgs(c)[2])) {
					okR = true
				}
			}
			r.Check("Run:worker.ranges", okR, r.Where(c), "workers read the generator's channel: "+r.D.D(CallArgs(c)[2]))
		}
		g := CallsTo(fn, "(*scanner.Fetcher).genRanges")
		r.Check("Run:one-generator", len(g) == 1, r.FnPos(fn), fmt.Sprintf("%d range generators per Run", len(g)))
	}
	if fn := r.Fn("(*scanner.Scanner).ScanLog"); fn != nil {
		run := r.OneCall(fn, "ScanLog:run", "(*scanner.Fetcher).Run")
		var closeEntries ssa.Instruction
		eachInstr(fn, func(in ssa.Instruction) {
			if c, ok := in.(*ssa.Call); ok {
				if b, ok := c.Call.Value.(*ssa.Builtin); ok && b.Name() == "close" && strings.Contains(TypeName(c.Call.Args[0].Type()), "entryInfo") {
					closeEntries = in
				}
			}
		})
		if run != nil {
			r.Check("ScanLog:close-after-run", closeEntries != nil && (run.Block() == closeEntries.Block() || run.Block().Dominates(closeEntries.Block())), r.Where(run), "the entries channel is closed after fetcher.Run returned")
			r.Check("ScanLog:run.callback", glob("closure:(*scanner.Scanner).ScanLog$*", r.D.D(CallArgs(run)[2])), r.Where(run), "the fetcher's callback is ScanLog's flatten closure")
		}
	}
}

func c16Indices(r *Run) {
	// scanner flatten
	if sl := r.Fn("(*scanner.Scanner).ScanLog"); sl != nil {
		n := 0
		for _, af := range sl.AnonFuncs {
			for _, s := range sendsOn(af, "chan scanner.entryInfo") {
				n++
				snd := s.(*ssa.Send)
				a := baseAlloc(snd.X)
				if a == nil {
					r.Fail("flatten:entry", r.Where(s), "undecided: sent value not built locally")
					continue
				}
				name := r.D.allocName(a)
				for _, st := range r.StoresTo(af, "&("+name+".index)") {
					got := r.D.Lin(st.Val, nil).String()
					r.Check("flatten:index", linNoConst(got) && (glob("+*p0.Start* +φ*", got) || glob("+φ* +*p0.Start*", got) || glob("+p0.Start +φ*", got)), r.Where(st), "entry index = "+got+" (batch.Start + i)")
					// and the entry is element i of the batch
					for _, se := range r.StoresTo(af, "&("+name+".entry)") {
						idx := ""
						if u, ok := se.Val.(*ssa.UnOp); ok {
							if ia, ok := u.X.(*ssa.IndexAddr); ok {
								idx = r.D.Lin(ia.Index, nil).String()
								r.Check("flatten:entry-source", glob("p0.Entries", r.D.D(ia.X)), r.Where(se), "entry taken from batch.Entries: "+r.D.D(ia.X))
							}
						}
						r.Check("flatten:same-i", idx != "" && lin2(idx, "+p0.Start") == got, r.Where(se), "index and entry use the same i ("+idx+")")
					}
				}
			}
		}
		r.Check("flatten:found", n == 1, r.FnPos(sl), fmt.Sprintf("%d sends on the entries channel in ScanLog's closures", n))
	}
	// migrillian: leaves[i] = buildLogLeaf(b.Start+i, &b.Entries[i])
	if fn := r.Fn("(*trillian/migrillian/core.PreorderedLogClient).addSequencedLeaves"); fn != nil {
		ip, _ := c20LeafParams(r) // the int64 (index) parameter of buildLogLeaf, wherever it is declared
		for _, c := range CallsTo(fn, "(*trillian/migrillian/core.PreorderedLogClient).buildLogLeaf") {
			if ip >= len(CallArgs(c)) {
				r.Fail("migrillian:index", r.Where(c), "undecided: buildLogLeaf is called without an index")
				continue
			}
			got := r.D.Lin(CallArgs(c)[ip], nil).String()
			r.Check("migrillian:index", linNoConst(got) && (glob("+p2.Start +φ*", got) || glob("+φ* +p2.Start", got)), r.Where(c), "leaf index = "+got+" (batch.Start + i)")
		}
	}
	if fn := r.Fn("(*client.LogClient).GetEntries"); fn != nil {
		for _, c := range CallsTo(fn, "ct.LogEntryFromLeaf") {
			got := r.D.Lin(CallArgs(c)[0], nil).String()
			r.Check("client.GetEntries:index", linNoConst(got) && (glob("+p2 +φ*", got) || glob("+φ* +p2", got)), r.Where(c), "entry index = "+got+" (start + i)")
		}
	}
}

func c16CertErr(r *Run) {
	fn := r.Fn("(*scanner.Scanner).isCertErrorFatal")
	if fn == nil {
		return
	}
	// nil ⇒ false; not fatal (x509.IsFatal false) ⇒ false (entry still delivered); fatal ⇒ true
	_, err := r.D.Table(fn, nil, nil, []RuleAtom{{Name: "err", Pat: "nil?p1"}, {Name: "fatal", Pat: "x509.IsFatal(p1)"}}, func(val map[string]string, reach *Reach, s Sigma) {
		r.Valuations++
		if val["err"] == "nil" && val["fatal"] == "T" {
			return // infeasible: IsFatal(nil) is false
		}
		want := "false"
		if val["err"] == "non" && val["fatal"] == "T" {
			want = "true"
		}
		var got []string
		for _, ret := range reachableReturns(fn, reach) {
			got = append(got, r.D.D(ret.Results[0]))
		}
		r.Check("isCertErrorFatal[err="+val["err"]+",IsFatal="+val["fatal"]+"]", len(got) == 1 && got[0] == want, r.FnPos(fn), fmt.Sprintf("returns %v, statement wants %s (entries with only non-fatal parse errors are still delivered)", got, want))
	})
	if err != nil {
		r.Fail("isCertErrorFatal", r.FnPos(fn), "undecided: "+err.Error()+" — the fatal / non-fatal distinction must be made by x509.IsFatal on the parser's error")
	}
	if me := r.Fn("(*scanner.Scanner).processMatcherEntry"); me != nil {
		if c := r.OneCall(me, "processMatcherEntry:error-class", "(*scanner.Scanner).isCertErrorFatal"); c != nil {
			r.ExpectArg(c, "processMatcherEntry:error-class.err", 1, "(*ct.RawLogEntry).ToLogEntry(*)#1")
		}
	}
}

func c16Matcher(r *Run) {
	c16CertErr(r)
	if fn := r.Fn("(*scanner.Scanner).processMatcherEntry"); fn != nil {
		fc, fp, unk := c16CallbackSites(r, fn)
		if len(fc) != 1 || len(fp) != 1 || len(unk) != 0 {
			r.Fail("processMatcherEntry:callbacks", r.FnPos(fn), fmt.Sprintf("%d certificate / %d precertificate callback sites, %d calls of function values of other origin", len(fc), len(fp), len(unk)))
		} else {
			atoms := []RuleAtom{
				{Name: "x509", Pat: "nil?*.X509Cert"},
				{Name: "pre", Pat: "nil?*.Precert"},
				{Name: "only", Pat: "p0.opts.PrecertOnly"},
				{Name: "mc", Pat: "iface(scanner.Matcher).CertificateMatches(*)"},
				{Name: "mp", Pat: "iface(scanner.Matcher).PrecertificateMatches(*)"},
				{Name: "e1", Pat: "nil?ct.RawLogEntryFromLeaf(*)#1", Dom: []string{"nil"}},
				{Name: "e2", Pat: "(*scanner.Scanner).isCertErrorFatal(*)", Dom: []string{"F"}},
			}
			res, err := r.D.Table(fn, nil, nil, atoms, func(val map[string]string, reach *Reach, s Sigma) {
				c, p := reach.Has(fc[0]), reach.Has(fp[0])
				wantC := val["x509"] == "non" && val["only"] == "F" && val["mc"] == "T"
				wantP := val["x509"] == "nil" && val["pre"] == "non" && val["mp"] == "T"
				k := fmt.Sprintf("processMatcherEntry[x509=%s,precert=%s,precertOnly=%s,certMatches=%s,precertMatches=%s]", val["x509"], val["pre"], val["only"], val["mc"], val["mp"])
				if c != wantC || p != wantP {
					r.Fail(k, r.FnPos(fn), fmt.Sprintf("cert callback=%v (want %v), precert callback=%v (want %v)", c, wantC, p, wantP))
				}
			})
			if err != nil {
				r.Fail("processMatcherEntry:table", r.FnPos(fn), "undecided: "+err.Error())
			} else {
				r.Valuations += res.Valuations
				r.Pass("processMatcherEntry:table", r.FnPos(fn), fmt.Sprintf("%d valuations: at most one callback, exactly when the matcher selects the entry", res.Valuations))
			}
			for _, c := range append(fc, fp...) {
				r.ExpectArg(c.(ssa.CallInstruction), "processMatcherEntry:callback-arg", 0, "ct.RawLogEntryFromLeaf(*)#0")
			}
		}
	}
	if fn := r.Fn("(*scanner.Scanner).processMatcherLeafEntry"); fn != nil {
		fc, fp, unk := c16CallbackSites(r, fn)
		if len(fc) == 1 && len(fp) == 1 && len(unk) == 0 {
			r.MustGuard(fn, "processMatcherLeafEntry:unmatched-not-delivered", "iface(scanner.LeafMatcher).Matches(*)", "F", append(fc, fp...), "callbacks")
			cases, err := r.D.ConstTable(fn, "*.Leaf.TimestampedEntry.EntryType", nil)
			if err != nil {
				r.Fail("processMatcherLeafEntry:type-switch", r.FnPos(fn), "undecided: "+err.Error())
			}
			for _, c := range cases {
				r.Valuations++
				cc, pp := c.Reach.Has(fc[0]), c.Reach.Has(fp[0])
				switch {
				case c.Default:
					r.Check("processMatcherLeafEntry:type=other", !cc && !pp, r.FnPos(fn), "unknown entry type: no callback")
				case c.Value == 0:
					r.Check("processMatcherLeafEntry:type=x509", cc && !pp, r.FnPos(fn), "X509 entry: certificate callback only")
				case c.Value == 1:
					r.Check("processMatcherLeafEntry:type=precert", pp && !cc, r.FnPos(fn), "precert entry: precertificate callback only")
				}
			}
			r.MustGuardAfter(fn, "processMatcherLeafEntry:precert-only", "p0.opts.PrecertOnly", "T", fc, "certificate callback")
		} else {
			r.Fail("processMatcherLeafEntry:callbacks", r.FnPos(fn), "callback sites not found")
		}
	}
	if fn := r.Fn("(*scanner.Scanner).matcherJob"); fn != nil {
		c := CallsTo(fn, "(*scanner.Scanner).processEntry")
		r.Check("matcherJob:once-per-entry", len(c) == 1, r.FnPos(fn), "each received entry is processed by one processEntry call")
	}
}

// ---- which callback is invoked: provenance of function values across calls -------------------
//
// The scan's two callbacks are the arguments foundCert (p2) and foundPrecert (p3) of the
// exported (*Scanner).ScanLog.  A call of a function value inside the matcher functions is
// "the certificate callback" iff that value is, on every call chain from ScanLog, ScanLog's
// p2 — however it travels: as a parameter of its own, captured by a goroutine closure, or as
// a field of a struct that is built once and passed along (by value or by pointer).

type c16Site struct {
	fn   *ssa.Function
	call ssa.CallInstruction
}

type c16Prov struct {
	r       *Run
	root    *ssa.Function
	callers map[*ssa.Function][]c16Site
	closure map[*ssa.Function][]*ssa.MakeClosure
	escaped map[*ssa.Function]bool // used as a function value: may be called from sites that are not static calls
}

func newC16Prov(r *Run, root *ssa.Function) *c16Prov {
	p := &c16Prov{r: r, root: root, callers: map[*ssa.Function][]c16Site{}, closure: map[*ssa.Function][]*ssa.MakeClosure{}, escaped: map[*ssa.Function]bool{}}
	escape := func(f *ssa.Function) {
		p.escaped[f] = true
		// a bound-method / thunk wrapper stands for the method it wraps
		if f.Synthetic != "" {
			if obj, ok := f.Object().(*types.Func); ok && f.Prog != nil {
				if t := f.Prog.FuncValue(obj); t != nil {
					p.escaped[t] = true
				}
			}
		}
	}
	for _, fn := range r.P.ModFuncs {
		eachInstr(fn, func(in ssa.Instruction) {
			ci, isCall := in.(ssa.CallInstruction)
			if isCall {
				if cal := ci.Common().StaticCallee(); cal != nil {
					p.callers[cal] = append(p.callers[cal], c16Site{fn, ci})
				}
			}
			if mc, ok := in.(*ssa.MakeClosure); ok {
				if f, ok := mc.Fn.(*ssa.Function); ok {
					p.closure[f] = append(p.closure[f], mc)
					if f.Synthetic != "" {
						escape(f)
					}
					// the closure value is only ever called on the spot?
					if mc.Referrers() != nil {
						for _, ref := range *mc.Referrers() {
							if rc, ok := ref.(ssa.CallInstruction); ok && rc.Common().Value == ssa.Value(mc) {
								continue
							}
							if _, ok := ref.(*ssa.DebugRef); ok {
								continue
							}
							escape(f)
						}
					}
				}
				return
			}
			for _, op := range in.Operands(nil) {
				if op == nil || *op == nil {
					continue
				}
				if f, ok := (*op).(*ssa.Function); ok {
					if isCall && ci.Common().Value == ssa.Value(f) {
						continue
					}
					escape(f)
				}
			}
		})
	}
	return p
}

// merge: all alternatives must agree on one resolved origin ("" = unresolved).
func c16Merge(acc *string, first *bool, got string) bool {
	if got == "" {
		return false
	}
	if *first {
		*acc, *first = got, false
		return true
	}
	return *acc == got
}

// value: origin of the (component path of the) value v of fn: "p<k>" of the root function, or "".
func (p *c16Prov) value(fn *ssa.Function, v ssa.Value, path []int, depth int) string {
	if depth > 24 {
		return ""
	}
	switch x := v.(type) {
	case *ssa.Parameter:
		k := -1
		for i, q := range fn.Params {
			if q == x {
				k = i
			}
		}
		if k < 0 {
			return ""
		}
		if fn == p.root {
			if len(path) != 0 {
				return ""
			}
			return fmt.Sprintf("p%d", k)
		}
		sites := p.callers[fn]
		if len(sites) == 0 || p.escaped[fn] {
			return "" // no static caller, or callers that cannot be enumerated
		}
		acc, first := "", true
		for _, s := range sites {
			args := s.call.Common().Args
			if k >= len(args) {
				return ""
			}
			var got string
			if _, isPtr := x.Type().Underlying().(*types.Pointer); isPtr && len(path) > 0 {
				got = p.addr(s.fn, args[k], path, depth+1)
			} else {
				got = p.value(s.fn, args[k], path, depth+1)
			}
			if !c16Merge(&acc, &first, got) {
				return ""
			}
		}
		return acc
	case *ssa.Field:
		return p.value(fn, x.X, append([]int{x.Field}, path...), depth+1)
	case *ssa.UnOp:
		if x.Op != token.MUL {
			return ""
		}
		return p.addr(fn, x.X, path, depth+1)
	case *ssa.Phi:
		acc, first := "", true
		for _, e := range x.Edges {
			if !c16Merge(&acc, &first, p.value(fn, e, path, depth+1)) {
				return ""
			}
		}
		return acc
	case *ssa.ChangeType:
		return p.value(fn, x.X, path, depth+1)
	}
	return ""
}

// addr: origin of the (component path of the) value stored at address a of fn.  The cell must
// be written exactly once on the way (a single assignment of the whole, or of the component).
func (p *c16Prov) addr(fn *ssa.Function, a ssa.Value, path []int, depth int) string {
	if depth > 24 {
		return ""
	}
	switch x := a.(type) {
	case *ssa.FieldAddr:
		return p.addr(fn, x.X, append([]int{x.Field}, path...), depth+1)
	case *ssa.FreeVar:
		k := -1
		for i, fv := range fn.FreeVars {
			if fv == x {
				k = i
			}
		}
		par := fn.Parent()
		if k < 0 || par == nil || len(p.closure[fn]) == 0 {
			return ""
		}
		acc, first := "", true
		for _, mc := range p.closure[fn] {
			if k >= len(mc.Bindings) || mc.Parent() != par {
				return ""
			}
			if !c16Merge(&acc, &first, p.addr(par, mc.Bindings[k], path, depth+1)) {
				return ""
			}
		}
		return acc
	case *ssa.Parameter:
		// a pointer handed in by the callers
		return p.value(fn, x, path, depth+1)
	case *ssa.Alloc:
		var defs []func() string
		escapes := false
		var scan func(cf *ssa.Function, base ssa.Value, rest []int, depth2 int)
		scan = func(cf *ssa.Function, base ssa.Value, rest []int, depth2 int) {
			refs := base.Referrers()
			if refs == nil {
				return
			}
			if depth2 > 6 {
				escapes = true
				return
			}
			for _, ref := range *refs {
				switch y := ref.(type) {
				case *ssa.Store:
					if y.Addr == base {
						rest, val := rest, y.Val
						defs = append(defs, func() string { return p.value(cf, val, rest, depth+1) })
					} else if y.Val == base {
						escapes = true // the address itself is stored somewhere
					}
				case *ssa.FieldAddr:
					if y.X != base {
						continue
					}
					if len(rest) == 0 {
						// a component of the wanted value is written separately: not a single definition
						if !p.readOnlyAddr(y, 0) {
							escapes = true
						}
						continue
					}
					if y.Field == rest[0] {
						scan(cf, y, rest[1:], depth2+1)
					}
				case ssa.CallInstruction:
					// the address is passed to a call that might write through it — unless the
					// callee is a module function that only reads through that parameter
					if !p.readOnlyArg(y, base) {
						escapes = true
					}
				case *ssa.MakeClosure:
					// captured by reference: writes inside the closure count as well
					f, ok := y.Fn.(*ssa.Function)
					if !ok {
						escapes = true
						continue
					}
					for k, b := range y.Bindings {
						if b == base && k < len(f.FreeVars) {
							scan(f, f.FreeVars[k], rest, depth2+1)
						}
					}
				case *ssa.UnOp, *ssa.DebugRef:
				default:
					escapes = true
				}
			}
		}
		scan(fn, x, path, 0)
		if escapes || len(defs) != 1 {
			return ""
		}
		return defs[0]()
	}
	return ""
}

// readOnlyAddr: the address v is only read through (loads, field reads), never written,
// stored, captured or passed on.
func (p *c16Prov) readOnlyAddr(v ssa.Value, depth int) bool {
	if depth > 4 || v.Referrers() == nil {
		return false
	}
	for _, ref := range *v.Referrers() {
		switch y := ref.(type) {
		case *ssa.UnOp, *ssa.DebugRef:
		case *ssa.FieldAddr:
			if !p.readOnlyAddr(y, depth+1) {
				return false
			}
		default:
			return false
		}
	}
	return true
}

// readOnlyArg: the callee of call is a module function that only reads through the pointer
// parameter(s) bound to arg.
func (p *c16Prov) readOnlyArg(call ssa.CallInstruction, arg ssa.Value) bool {
	cal := call.Common().StaticCallee()
	if cal == nil || len(cal.Blocks) == 0 {
		return false
	}
	for i, a := range call.Common().Args {
		if a != arg {
			continue
		}
		if i >= len(cal.Params) || !p.readOnlyAddr(cal.Params[i], 0) {
			return false
		}
	}
	return true
}

// c16CallbackSites classifies the calls of function values in fn (a matcher function of the
// Scanner): invocations of ScanLog's certificate callback, of its precertificate callback,
// and of function values of any other / undetermined origin.
func c16CallbackSites(r *Run, fn *ssa.Function) (cert, precert, unknown []ssa.Instruction) {
	root := r.P.Func("(*scanner.Scanner).ScanLog")
	if root == nil || len(root.Params) != 4 {
		r.Fail("callbacks:ScanLog", "-", "undecided: (*scanner.Scanner).ScanLog(ctx, foundCert, foundPrecert) not found")
		return nil, nil, nil
	}
	prov := newC16Prov(r, root)
	eachInstr(fn, func(in ssa.Instruction) {
		ci, ok := in.(ssa.CallInstruction)
		if !ok {
			return
		}
		c := ci.Common()
		if c.IsInvoke() || c.StaticCallee() != nil {
			return
		}
		if _, isB := c.Value.(*ssa.Builtin); isB {
			return
		}
		switch prov.value(fn, c.Value, nil, 0) {
		case "p2":
			cert = append(cert, in)
		case "p3":
			precert = append(precert, in)
		default:
			unknown = append(unknown, in)
		}
	})
	return cert, precert, unknown
}

func c16Atomics(r *Run) {
	named := r.P.LookupType("scanner.Scanner")
	if named == nil {
		r.Fail("atomics", "-", "scanner.Scanner not found")
		return
	}
	counters := map[string]bool{"certsProcessed": true, "certsMatched": true, "precertsSeen": true, "unparsableEntries": true, "entriesWithNonFatalErrors": true}
	n := 0
	for _, fn := range r.P.ModFuncs {
		eachInstr(fn, func(in ssa.Instruction) {
			fa, ok := in.(*ssa.FieldAddr)
			if !ok {
				return
			}
			f := fieldOf(fa)
			if f == nil || !counters[f.Name()] {
				return
			}
			pt := fa.X.Type().Underlying().(*types.Pointer)
			if nt, ok := pt.Elem().(*types.Named); !ok || nt.Obj() != named.Obj() {
				return
			}
			for _, ref := range *fa.Referrers() {
				n++
				okUse := false
				if c, ok := ref.(*ssa.Call); ok {
					if cal := c.Call.StaticCallee(); cal != nil && strings.HasPrefix(FuncName(cal), "atomic.") {
						okUse = true
					}
				}
				// plain resets are allowed only in ScanLog's prologue, before any goroutine is started
				if st, ok := ref.(*ssa.Store); ok && FuncName(fn) == "(*scanner.Scanner).ScanLog" && st.Block().Index == 0 {
					before := true
					for _, x := range st.Block().Instrs {
						if x == ssa.Instruction(st) {
							break
						}
						if _, isGo := x.(*ssa.Go); isGo {
							before = false
						}
					}
					okUse = before
				}
				if !okUse {
					r.Fail("atomic:"+f.Name()+"@"+FuncName(fn), r.Where(ref), "counter "+f.Name()+" is accessed without sync/atomic while matcher goroutines may run")
				}
			}
		})
	}
	r.Check("atomic:counter-uses", n >= 12, "-", fmt.Sprintf("%d counter accesses inspected", n))
}

// c16IsBatch: v is the configured batch size (directly, or through the variable the enclosing function captured it in).
func c16IsBatch(r *Run, fn *ssa.Function, v ssa.Value) bool {
	d := r.D.D(v)
	if glob("*.opts.BatchSize", d) {
		return true
	}
	par := fn.Parent()
	if par == nil {
		return false
	}
	want := strings.TrimLeft(d, "*^")
	ok := false
	eachInstr(par, func(in ssa.Instruction) {
		if st, isSt := in.(*ssa.Store); isSt && r.D.D(st.Addr) == want && glob("*.opts.BatchSize", r.D.D(st.Val)) {
			ok = true
		}
	})
	return ok
}

// c16Min is a value established to be the minimum of A and B.
type c16Min struct {
	V    ssa.Value
	A, B ssa.Value
	At   ssa.Instruction
}

// c16Minima lists the values of fn that are the minimum of two integer values:
//   - a call of the builtin min with two operands,
//   - a call of a two-parameter function of the module that returns its first parameter
//     whenever it is the smaller and its second whenever that is the smaller (decided by
//     walking its body under each outcome of the comparison of the two parameters),
//   - a φ merging exactly two values a, b whose incoming edges are selected by a comparison
//     of a with b such that a arrives when a < b and b arrives when a > b.
func c16Minima(r *Run, fn *ssa.Function) []c16Min {
	var out []c16Min
	eachInstr(fn, func(in ssa.Instruction) {
		switch x := in.(type) {
		case *ssa.Call:
			if len(x.Call.Args) != 2 || x.Call.IsInvoke() || !c16Integer(x.Type()) {
				return
			}
			if b, ok := x.Call.Value.(*ssa.Builtin); ok {
				if b.Name() == "min" {
					out = append(out, c16Min{x, x.Call.Args[0], x.Call.Args[1], x})
				}
				return
			}
			if f := x.Call.StaticCallee(); f != nil && c16ReturnsSmaller(r, f) {
				out = append(out, c16Min{x, x.Call.Args[0], x.Call.Args[1], x})
			}
		case *ssa.Phi:
			if !c16Integer(x.Type()) {
				return
			}
			if a, b, ok := c16PhiSmaller(r, fn, x); ok {
				out = append(out, c16Min{x, a, b, x})
			}
		}
	})
	return out
}

func c16Integer(t types.Type) bool {
	b, ok := t.Underlying().(*types.Basic)
	return ok && b.Info()&types.IsInteger != 0
}

// c16ReturnsSmaller decides whether f(a, b) returns a whenever a < b, b whenever a > b and one
// of them when a = b, for a function with two integer parameters and one result.
func c16ReturnsSmaller(r *Run, f *ssa.Function) bool {
	if len(f.Blocks) == 0 || len(f.Params) != 2 || f.Signature.Results().Len() != 1 || f.Signature.Recv() != nil {
		return false
	}
	if !c16Integer(f.Params[0].Type()) || !types.Identical(f.Params[0].Type(), f.Params[1].Type()) {
		return false
	}
	key := ""
	for k, ci := range r.D.AtomsOf(f) {
		if ci.Kind == "ord" && ci.A == "p0" && ci.B == "p1" {
			key = k
		}
	}
	if key == "" {
		return false
	}
	for _, v := range []string{"<", "=", ">"} {
		reach := r.D.Walk(f, Sigma{key: v}, nil, nil)
		r.Valuations++
		rets := reachableReturns(f, reach)
		if len(rets) == 0 {
			return false
		}
		for _, ret := range rets {
			for _, l := range PhiLeaves(ret.Results[0], reach) {
				p, isParam := l.(*ssa.Parameter)
				if !isParam || v == "<" && p != f.Params[0] || v == ">" && p != f.Params[1] {
					return false
				}
			}
		}
	}
	return true
}

// c16PhiSmaller decides whether φ carries the smaller of its two distinct incoming values.
func c16PhiSmaller(r *Run, fn *ssa.Function, p *ssa.Phi) (ssa.Value, ssa.Value, bool) {
	var a, b ssa.Value
	for _, l := range p.Edges {
		switch {
		case a == nil || r.D.D(l) == r.D.D(a):
			if a == nil {
				a = l
			}
		case b == nil || r.D.D(l) == r.D.D(b):
			if b == nil {
				b = l
			}
		default:
			return nil, nil, false
		}
	}
	if a == nil || b == nil {
		return nil, nil, false
	}
	da, db := r.D.D(a), r.D.D(b)
	if db < da {
		a, b, da, db = b, a, db, da
	}
	key := ""
	for k, ci := range r.D.AtomsOf(fn) {
		if ci.Kind == "ord" && ci.A == da && ci.B == db {
			key = k
		}
	}
	if key == "" {
		return nil, nil, false
	}
	tests := r.blocksTesting(fn, func(ci *CondInfo) bool { return ci.Key == key })
	if len(tests) != 1 || !tests[0].Dominates(p.Block()) {
		return nil, nil, false
	}
	for _, v := range []string{"<", ">"} {
		reach := r.D.Walk(fn, Sigma{key: v}, tests[0], nil)
		r.Valuations++
		n := 0
		for i, l := range p.Edges {
			if !reach.Edges[[2]int{p.Block().Preds[i].Index, p.Block().Index}] {
				continue
			}
			n++
			if v == "<" && r.D.D(l) != da || v == ">" && r.D.D(l) != db {
				return nil, nil, false
			}
		}
		if n == 0 {
			return nil, nil, false
		}
	}
	return a, b, true
}
