package main

import (
	"fmt"
	"strings"

	"golang.org/x/tools/go/ssa"
)

func init() {
	register("C02", "Decides structural necessary conditions of 'only chains that lead, in submitted order, to a trusted root are admitted': "+
		"(R1) ValidateChain's leaf filters block chain verification exactly as the property states: the NotAfter window start ≤ t < limit over all presence/order cases, CA-only ∧ ¬IsCA, rejectExpired ∧ expired, rejectUnexpired ∧ ¬expired (48 valuations), a hit in the forbidden-extension set / list, no hit in a non-empty required-EKU set; all filters read element 0 of the parsed chain, every raw certificate is parsed and a fatal parse error rejects; each filter is unavoidable however the others turn out: the first test of the window, of the CA-only/expiry table and of the required-EKU table lies on every path from the entry to Verify, and so does (unless there is nothing to look for) the scan for forbidden extensions, which visits every extension of the leaf, probes each one in a set holding every configured OID (or compares it with every configured OID in a nested scan), and goes on after a miss; "+
		"(R2) x509 Verify runs on that leaf with Roots = the configured trusted pool, Intermediates = a fresh pool holding exactly the submitted certificates after the first, name chaining enabled and exactly the five documented relaxations; "+
		"(R3) the path handed on is an element of Verify's result for which chainsEquivalent(parsed chain, it) held, otherwise an error; chainsEquivalent refuses other lengths than n or n+1 and any position where the certificates differ (Certificate.Equal = equality of Raw); "+
		"(R4) IsPrecertificate: (true,nil) iff poison ∧ critical ∧ value = ASN.1 NULL, poison otherwise ⇒ error, no poison ⇒ (false,nil); the OID and NULL constants; "+
		"(R5) verifyAddChain errs when validation or the precert test errs or the leaf kind differs from the endpoint's; add-chain / add-pre-chain pass false / true; "+
		"(R6) chain building: a candidate already in the chain, a failed CheckSignatureFrom or a failed isValid adds nothing; arguments unswapped; roots come from opts.Roots, intermediates from opts.Intermediates; every chain added extends the current chain; "+
		"(R7) isValid: NameMismatch iff name checks on ∧ chain non-empty ∧ child.RawIssuer ≠ RawSubject; an intermediate without valid CA basic constraints never yields nil; CheckSignatureFrom: parent-not-CA and no-certSign rejections, nil only via parent.CheckSignature(alg, RawTBSCertificate, Signature); "+
		"(R8) checkSignature returns nil only as the verdict of rsa.VerifyPSS/PKCS1v15 or behind the true edge of dsa/ecdsa/ed25519.Verify over the key, the (hashed) signed bytes and the signature; key type ≠ algorithm ⇒ error; "+
		"(R10) 'expired' (and 'inside the NotAfter window') is judged at the time of the submission — no stale clock: the long-lived cells that ValidateChain's comparisons of instants read (found on the comparisons themselves: the configured current time, the window bounds, and transitively every field / global that feeds them) are never written with a sample of a clock that outlives the call that took it: every store to such a cell anywhere in the module (composite literals, constructors, package initialisers, assignments through a pointer held in the field) is followed back through copies, arithmetic, callees' results, parameters (to every call site) and interface calls (to the module's implementations) to time.Now / Since / Until / timers; a sample is accepted only in a struct that is a temporary of the call that read the clock (local, only read or handed to readers, returned along the call sites the sample came down, not consumed in a loop that does not read the clock again); with ValidateChain:wall-clock-by-default / configured-time-used (R1) the instant compared is then configuration or a clock read made during that call; (R5) correspondingly the options handed to ValidateChain are the log's own, or a per-call copy in which only a zero current time is replaced by a clock read of that call. "+
		"NOT covered: the iff over all hierarchies (Verify's candidate search by AuthorityKeyId/name, EKU nesting), signature mathematics, certificate parsing, the HTTP status of a rejection (C08); for R10: clocks that enter other than through package time (file times, HTTP Date headers, database time), samples carried through channels, reflection, unsafe or struct conversions, values parked in containers of library types; whether a CONFIGURED fixed time is sensible (a deployment that configures one freezes time by choice).",
		runC02)
}

func boolIs(v map[string]string, k string) bool { return v[k] == "T" }

func runC02(r *Run) {
	r.Assume("x509.IsFatal(err) is false for nil and for NonFatalErrors; ParseCertificate returns a certificate whenever its error is not fatal")
	r.Assume("crypto/rsa, crypto/dsa, crypto/ecdsa, crypto/ed25519 verification functions and bytes.Equal behave per their documentation")
	r.Assume("the trusted pool handed to ValidateChain holds exactly the configured roots (PEMCertPool.AddCert is the only writer)")

	vc := r.Fn("trillian/ctfe.ValidateChain")
	if vc != nil {
		c02ValidateChain(r, vc)
	}
	r.Rule("C02.R3")
	if fn := r.Fn("trillian/ctfe.chainsEquivalent"); fn != nil {
		c02ChainsEquivalent(r, fn)
	}
	if fn := r.Fn("(*x509.Certificate).Equal"); fn != nil {
		for _, ret := range Returns(fn) {
			r.Check("Certificate.Equal:compares-Raw", anyGlob("(p0 == p1) || bytes.Equal(p0.Raw, p1.Raw) || bytes.Equal(p1.Raw, p0.Raw)", r.D.D(ret.Results[0])), r.Where(ret), "returns "+r.D.D(ret.Results[0]))
		}
		r.Floor("Certificate.Equal:raw-comparison", len(CallsTo(fn, "bytes.Equal")), 1)
	}

	// ---- R4: precertificate test
	r.Rule("C02.R4")
	if fn := r.Fn("trillian/ctfe.IsPrecertificate"); fn != nil {
		r.CheckCases(fn, "IsPrecertificate", CaseTable{
			Atoms: []RuleAtom{{Name: "poison", Pat: "(asn1.ObjectIdentifier).Equal(*OIDExtensionCTPoison*)"}, {Name: "critical", Pat: "*.Critical"}, {Name: "null", Pat: "bytes.Equal(*NullBytes*)"}},
			Class: func(v map[string]string) string {
				switch {
				case !boolIs(v, "poison"):
					return "no poison extension"
				case boolIs(v, "critical") && boolIs(v, "null"):
					return "critical NULL poison"
				}
				return "malformed poison"
			},
			Want: map[string]func(*Run, *ssa.Return) (bool, string){
				"no poison extension": retIs(0, "false", "nil"), "critical NULL poison": retIs(0, "true", "nil"), "malformed poison": retIs(0, "false", "non")},
		})
		ext := r.allocOf(fn, "p0.Extensions[*]")
		ok := ext != ""
		for _, k := range append(r.bindAtom(fn, RuleAtom{Pat: "(asn1.ObjectIdentifier).Equal(*)"}), r.bindAtom(fn, RuleAtom{Pat: "bytes.Equal(*)"})...) {
			ok = ok && anyGlob("(asn1.ObjectIdentifier).Equal(g:x509.OIDExtensionCTPoison, "+ext+".Id) || (asn1.ObjectIdentifier).Equal("+ext+".Id, g:x509.OIDExtensionCTPoison) || bytes.Equal(g:asn1.NullBytes, "+ext+".Value) || bytes.Equal("+ext+".Value, g:asn1.NullBytes)", k)
		}
		for _, k := range r.bindAtom(fn, RuleAtom{Pat: "*.Critical"}) {
			ok = ok && k == ext+".Critical"
		}
		r.Check("IsPrecertificate:operands", ok, r.FnPos(fn), "Id, Critical and Value tested are those of one extension of the certificate ("+ext+" ← p0.Extensions[i])")
		r.Check("const:OIDExtensionCTPoison", r.pkgVarElems("x509", "OIDExtensionCTPoison") == "1.3.6.1.4.1.11129.2.4.3", "-", "x509.OIDExtensionCTPoison = "+r.pkgVarElems("x509", "OIDExtensionCTPoison"))
		r.Check("const:NullBytes", r.pkgVarElems("asn1", "NullBytes") == "5.0", "-", "asn1.NullBytes = {"+r.pkgVarElems("asn1", "NullBytes")+"} (DER NULL is 05 00)")
	}

	// ---- R5: leaf kind must match the endpoint
	r.Rule("C02.R5")
	if fn := r.Fn("trillian/ctfe.verifyAddChain"); fn != nil {
		c02VerifyAddChain(r, fn)
	}
	for name, want := range map[string]string{"trillian/ctfe.addChain": "false", "trillian/ctfe.addPreChain": "true"} {
		if fn := r.Fn(name); fn != nil {
			if c := r.OneCall(fn, name+":addChainInternal", "trillian/ctfe.addChainInternal"); c != nil {
				r.ExpectArg(c, name+":isPrecert", 4, want)
			}
		}
	}
	if fn := r.Fn("trillian/ctfe.addChainInternal"); fn != nil {
		if c := r.OneCall(fn, "addChainInternal:verifyAddChain", "trillian/ctfe.verifyAddChain"); c != nil {
			r.ExpectArg(c, "addChainInternal:expectingPrecert", 2, "p4")
			req := r.allocOf(fn, "trillian/ctfe.ParseBodyAsJSONChain(p3)#0")
			r.ExpectArg(c, "addChainInternal:request", 1, "*"+req+" || trillian/ctfe.ParseBodyAsJSONChain(p3)#0")
			r.ErrorsGate(fn, "addChainInternal:rejected-chain", "trillian/ctfe.verifyAddChain", 1)
		}
	}

	// ---- R6 .. R8: the X.509 path builder and its checks
	c02Builder(r)
	c02Signature(r)

	// R9: the configured forbidden-extension list reaches the filter intact
	r.Rule("C02.R9")
	c02ParseOIDs(r)

	// R10: no clock sample is stored into the long-lived state the temporal filters read (rules_t7c02clock.go)
	r.Rule("C02.R10")
	noStaleClock(r, []clkFilter{{"trillian/ctfe.ValidateChain", 3}})
}

func c02ValidateChain(r *Run, fn *ssa.Function) {
	r.Rule("C02.R1")
	c18ValidateChainWindow(r, fn, "ValidateChain")
	verify := r.OneCall(fn, "ValidateChain:Verify", "(*x509.Certificate).Verify")
	ce := r.OneCall(fn, "ValidateChain:chainsEquivalent", "trillian/ctfe.chainsEquivalent")
	if verify == nil || ce == nil {
		return
	}
	chain := r.D.D(CallArgs(ce)[0])
	leaf := chain + "[0]"
	vi := []ssa.Instruction{verify}
	r.CheckCases(fn, "ValidateChain:filters", CaseTable{
		Atoms: []RuleAtom{{Name: "caOnly", Pat: "p1.acceptOnlyCA"}, {Name: "isCA", Pat: "*[0].IsCA"}, {Name: "rejExp", Pat: "p1.rejectExpired"}, {Name: "rejUnexp", Pat: "p1.rejectUnexpired"},
			{Name: "now", OrdA: "*p1.currentTime*", OrdB: "*[0].NotAfter"}},
		Class: func(v map[string]string) string {
			expired := v["now"] == ">"
			if boolIs(v, "caOnly") && !boolIs(v, "isCA") || boolIs(v, "rejExp") && expired || boolIs(v, "rejUnexp") && !expired {
				return "blocked"
			}
			return "pass"
		},
		Want:    map[string]func(*Run, *ssa.Return) (bool, string){"blocked": wantErr(true)},
		Unreach: map[string][]ssa.Instruction{"blocked": vi}, Reach: map[string][]ssa.Instruction{"pass": vi},
	})
	nowAtom := RuleAtom{OrdA: "*p1.currentTime*", OrdB: "*[0].NotAfter"}
	for _, site := range r.atomSites(fn, wKeySet(r.bindAtom(fn, nowAtom))) {
		c, ok := site.(*ssa.Call)
		if !ok || len(c.Call.Args) != 2 {
			r.Fail("ValidateChain:expiry-test", r.FnPos(fn), "expiry test "+r.D.D(site)+" is not a comparison of two instants")
			continue
		}
		now, na := c.Call.Args[0], c.Call.Args[1]
		if glob("*[0].NotAfter", r.D.D(now)) {
			now, na = na, now
		}
		r.Check("ValidateChain:expiry-of-leaf", r.D.D(na) == leaf+".NotAfter", r.Where(c), "expiry is judged on "+clipStr(r.D.D(na), 140))
		got := r.ValueUnder(fn, now, Sigma{"(time.Time).IsZero(p1.currentTime)": "F"})
		r.Check("ValidateChain:configured-time-used", got == "p1.currentTime", r.Where(c), "with a configured current time, expiry is judged at "+got)
		// … and at the wall clock when none is configured (the zero time is year 1: nothing would ever be expired)
		got0 := r.ValueUnder(fn, now, Sigma{"(time.Time).IsZero(p1.currentTime)": "T"})
		r.Check("ValidateChain:wall-clock-by-default", got0 == "time.Now()", r.Where(c), "without a configured current time, expiry is judged at "+got0)
	}
	for _, k := range r.bindAtom(fn, RuleAtom{Pat: "*[0].IsCA"}) {
		r.Check("ValidateChain:CA-bit-of-leaf", k == leaf+".IsCA", r.FnPos(fn), "CA-only filter reads "+clipStr(k, 140))
	}
	// forbidden extensions: a hit rejects.  Membership of an extension's OID in the configured list is decided
	// either by a nested scan that compares the two OIDs (rules_t5c18.go) or by a set probe: the set is the
	// configured OIDs, the probe an extension of the leaf (the set is a map keyed by the OID string, whatever
	// its value type: membership is what is tested)
	rej := "make:map[string]*[(asn1.ObjectIdentifier).String(*.Id)]*"
	if c02ForbiddenExtScan(r, fn, leaf, vi) {
		rej = "" // decided, unavoidability included, on the scan form
	} else {
		r.FailEdge(fn, "ValidateChain", EdgeSpec{Name: "forbidden-extension", Atom: boolAtom(rej), Bad: "T", Want: wantErr(true), Unreach: vi})
		ext := r.allocOf(fn, leaf+".Extensions[*]")
		for _, k := range r.bindAtom(fn, boolAtom(rej)) {
			r.Check("ValidateChain:forbidden-extension-probe", ext != "" && glob("make:map[string]*[(asn1.ObjectIdentifier).String("+ext+".Id)]*", k) && strings.Count(k, "(asn1.ObjectIdentifier).String(") == 1, r.FnPos(fn), "probes the OID of "+ext+" ← leaf.Extensions[i]")
		}
		c02MapSet(r, fn, "ValidateChain:forbidden-extension-set", rej, "(asn1.ObjectIdentifier).String(p1.rejectExtIds[*])")
	}
	// required EKUs: with a non-empty list, no hit rejects (set probe, slices.Contains or scan of the configured list)
	ekuAtoms := c02RequiredEKU(r, fn, leaf, vi)
	// every filter is unavoidable on the way to chain verification, however the other filters turn out
	c02FiltersUnavoidable(r, fn, leaf, vi, rej, ekuAtoms)

	// every raw certificate is parsed; a fatal error rejects; the parsed chain holds all of them in order
	parse := r.OneCall(fn, "ValidateChain:ParseCertificate", "x509.ParseCertificate")
	var feasible *Reach // the edges executions can take, given that a fatal error is not nil
	if parse != nil {
		r.ExpectArg(parse, "ValidateChain:parses-each-raw-cert", 0, "p0[*it@*]")
		// a fatal error is never nil (IsFatal(nil) = false, established on IsFatal itself): where the error
		// is handed on through a test `err != nil` the nil side cannot be taken after IsFatal(err)
		fatal := c02FatalImplications(r, fn)
		walk := func(s Sigma, from *ssa.BasicBlock) *Reach { return r.WalkImplied(fn, s, from, nil, fatal) }
		r.FailEdgeWalk(fn, "ValidateChain", EdgeSpec{Name: "unparsable-certificate", Atom: boolAtom("x509.IsFatal(x509.ParseCertificate(*)#1)"), Bad: "T", Want: wantErr(true), Unreach: vi}, walk)
		feasible = r.WalkImplied(fn, Sigma{}, nil, nil, fatal)
		r.Valuations++
		h := loopHeaderOf(parse.Block())
		ok := h != nil && len(r.bindAtom(fn, ordAtomR("*it@*", "len(p0)"))) > 0
		r.Check("ValidateChain:loop-over-whole-raw-chain", ok, r.Where(parse), "the parse loop runs over all len(rawChain) elements")
		// the parsed chain (the one compared with the verified path) is filled in the parse loop with each
		// parsed certificate: chain = append(chain, cert), or chain[i] = cert in a chain of len(rawChain)
		fills, makes, built := sliceFills(CallArgs(ce)[0])
		bd := "the parsed chain " + clipStr(chain, 100) + " is built by single-element appends / index assignments"
		if !built {
			bd = "the parsed chain " + clipStr(chain, 100) + " that is compared with the verified path is not built by single-element appends / index assignments alone (it is also cut, replaced or written some other way): it need not hold every submitted certificate"
		}
		r.Check("ValidateChain:chain-built-here", built, r.Where(ce), bd)
		var app []ssa.Instruction
		for _, f := range fills {
			if h == nil || loopHeaderOf(f.In.Block()) != h {
				r.Fail("ValidateChain:chain-element", r.Where(f.In), "the parsed chain is also filled outside the parse loop with "+r.D.D(f.Elem))
				continue
			}
			app = append(app, f.In)
			el := r.D.D(f.Elem)
			good := el == r.D.D(parse.Value())+"#0"
			what := "chain = append(chain, " + el + ")"
			if f.Index != nil { // position i holds the certificate parsed from raw entry i; the chain has one slot per entry
				what = "chain[" + r.D.D(f.Index) + "] = " + el
				good = good && r.D.D(CallArgs(parse)[0]) == "p0["+r.D.D(f.Index)+"]" && len(makes) == 1 && r.D.D(makes[0].Len) == "len(p0)"
			}
			r.Check("ValidateChain:chain-element", good, r.Where(f.In), what)
		}
		r.GuardAtom(fn, nil, "ValidateChain:every-parsed-cert-kept", boolAtom("x509.IsFatal(x509.ParseCertificate(*)#1)"), "T", app, "append of the parsed certificate to the chain")
		// … and kept unconditionally: without a fatal error no iteration ends before the certificate is in the chain
		if h != nil && h != parse.Block() && len(app) > 0 {
			s := Sigma{}
			for _, k := range r.bindAtom(fn, boolAtom("x509.IsFatal(x509.ParseCertificate(*)#1)")) {
				s[k] = "F"
			}
			stop := wBlockSet(app)
			skips := !stop[parse.Block()] && r.D.Walk(fn, s, parse.Block(), stop).Blocks[h]
			r.Valuations++
			r.Check("ValidateChain:every-parsed-cert-kept:unconditionally", !skips, r.Where(app[0]), "after a parse without fatal error the next iteration is reached only through the statement that puts the certificate into the chain")
		}
	}

	// ---- R2
	r.Rule("C02.R2")
	pool := "x509util.NewPEMCertPool()"
	r.ExpectArg(verify, "ValidateChain:Verify.leaf", 0, leaf)
	r.ExpectFields(fn, "ValidateChain:VerifyOptions", CallArgs(verify)[1], map[string]string{
		"Roots":             "(*x509util.PEMCertPool).CertPool(p1.trustedRoots)",
		"DisableNameChecks": "false", "DisableTimeChecks": "true", "DisableCriticalExtensionChecks": "true", "DisableEKUChecks": "true",
		"DisablePathLenChecks": "true", "DisableNameConstraintChecks": "true", "KeyUsages": "p1.extKeyUsages"})
	if a := baseAlloc(CallArgs(verify)[1]); a != nil {
		// the pool as it is on the paths executions can take (a pool handed on together with an error
		// merges with nil on the path of a fatal-but-nil error, which does not exist)
		r.ExpectStoresUnder(fn, "ValidateChain:VerifyOptions.Intermediates", "&("+r.D.allocName(a)+".Intermediates)", "(*x509util.PEMCertPool).CertPool("+pool+")", 1, feasible)
	} else {
		r.Fail("ValidateChain:VerifyOptions.Intermediates", r.Where(verify), "undecided: the options are not built in a local allocation")
	}
	if a := baseAlloc(CallArgs(verify)[1]); a != nil { // no further relaxation or constraint is set
		n := len(r.StoresTo(fn, "&("+r.D.allocName(a)+".*)"))
		r.Check("ValidateChain:VerifyOptions:no-other-field", n == 10, r.Where(verify), fmt.Sprintf("%d fields of VerifyOptions are set (Roots, CurrentTime, Intermediates, 6 switches, KeyUsages)", n))
	}
	adds := CallsTo(fn, "(*x509util.PEMCertPool).AddCert")
	// position 0 of the raw chain never enters the pool (a loop counter that cannot be negative has no case i < 0)
	pos := ordAtomR("*it@*", "0")
	if parse != nil {
		if i := indexOfElem(CallArgs(parse)[0]); i != nil && glob("*it@*", r.D.D(i)) {
			pos = ordAtomR(r.D.D(i), "0")
			if nonNegCounter(i) {
				pos.Dom = []string{"=", ">"}
			}
		}
	}
	r.GuardAtom(fn, nil, "ValidateChain:leaf-not-an-intermediate", pos, "<,=", asInstrs(adds), "AddCert to the intermediate pool")
	for _, c := range adds {
		r.ExpectArg(c, "ValidateChain:intermediate-pool", 0, pool)
		if parse != nil {
			r.ExpectArg(c, "ValidateChain:intermediate-is-submitted-cert", 1, r.D.D(parse.Value())+"#0")
		}
	}
	r.Check("ValidateChain:one-fresh-pool", len(CallsTo(fn, "x509util.NewPEMCertPool")) == 1 && len(adds) == 1, r.FnPos(fn), "one fresh intermediate pool, one AddCert site")

	// ---- R3
	r.Rule("C02.R3")
	paths := "(*x509.Certificate).Verify(*)#0"
	r.ExpectArg(ce, "ValidateChain:equivalent.candidate", 1, paths+"[*it@*]")
	succ := successReturns(fn)
	for _, ret := range Returns(fn) {
		got := r.D.D(ret.Results[0])
		if errKind(ret.Results[1]) == "nil" {
			// the path handed on, as the success return can see it: a position found by a search (−1 | position of
			// the hit) is the position of the hit wherever only the hit's edge leads to this return
			if want := r.D.D(CallArgs(ce)[1]); got != want {
				got = r.D.DUnder(ret.Results[0], r.edgesReaching(fn, Sigma{}, ret))
			}
			d := "hands on " + clipStr(got, 100) + " — the verified path that was compared with the submitted chain"
			if got != r.D.D(CallArgs(ce)[1]) {
				d = "hands on " + clipStr(got, 100) + ", which is not the verified path that chainsEquivalent compared with the submitted chain (" + clipStr(r.D.D(CallArgs(ce)[1]), 100) + "): the validated chain handed on need not contain the submitted certificates"
			}
			r.Check("ValidateChain:returns-the-compared-path", got == r.D.D(CallArgs(ce)[1]), r.Where(ret), d)
		} else {
			r.Check("ValidateChain:error⇒no-path", got == "nil", r.Where(ret), "error return carries path "+clipStr(got, 80))
		}
	}
	r.Check("ValidateChain:one-success-return", len(succ) == 1, r.FnPos(fn), fmt.Sprintf("%d success returns", len(succ)))
	r.GuardAtom(fn, nil, "ValidateChain:order-check-gates-success", boolAtom("trillian/ctfe.chainsEquivalent(*)"), "F", succ, "success return")
	r.ErrorsGate(fn, "ValidateChain:verify-error", "(*x509.Certificate).Verify", 1)
	r.FailEdge(fn, "ValidateChain", EdgeSpec{Name: "no-verified-path", Atom: ordAtomR("0", "len("+paths+")"), Bad: "=", Want: wantErr(true)})
}

// c02MapSet: the set probed by the branch conditions matching probeGlob (a map lookup) is only ever updated
// with keys matching keyGlob (at least once); a membership probe (`_, ok := set[k]`) holds for any stored
// value, a value probe (`set[k]`) needs the value true.
func c02MapSet(r *Run, fn *ssa.Function, key, probeGlob, keyGlob string) {
	n := 0
	for _, site := range r.atomSites(fn, wKeySet(r.bindAtom(fn, boolAtom(probeGlob)))) {
		member := false
		v := site
		if e, ok := v.(*ssa.Extract); ok {
			member = e.Index == 1
			v = e.Tuple
		}
		lk, ok := v.(*ssa.Lookup)
		if !ok {
			r.Fail(key, r.FnPos(fn), "undecided: the probe "+r.D.D(site)+" is not a map lookup")
			continue
		}
		eachInstr(fn, func(in ssa.Instruction) {
			if mu, ok := in.(*ssa.MapUpdate); ok && (mu.Map == lk.X || r.D.D(mu.Map) == r.D.D(lk.X)) {
				n++
				r.Check(key, anyGlob(keyGlob, r.D.D(mu.Key)) && (member || r.D.D(mu.Value) == "true"), r.Where(mu), "set["+r.D.D(mu.Key)+"] ← "+r.D.D(mu.Value))
			}
		})
	}
	if n == 0 {
		r.Fail(key, r.FnPos(fn), "no update of the set probed by "+probeGlob)
	}
}

// c02FatalImplications: for every x509.IsFatal(e) of fn the implication IsFatal(e) = T ⇒ e ≠ nil, after
// establishing on IsFatal itself that a nil error is not fatal (none when that cannot be established).
func c02FatalImplications(r *Run, fn *ssa.Function) []Implication {
	isf := r.P.Func("x509.IsFatal")
	if isf == nil || len(isf.Blocks) == 0 {
		return nil
	}
	good, n := len(r.bindAtom(isf, nilAtom("p0"))) == 1, 0
	if good {
		for _, ret := range reachableReturns(isf, r.D.Walk(isf, Sigma{"nil?p0": "nil"}, nil, nil)) {
			n++
			good = good && r.D.D(ret.Results[0]) == "false"
		}
		r.Valuations++
	}
	if !r.Check("IsFatal:nil-is-not-fatal", good && n > 0, r.FnPos(isf), fmt.Sprintf("x509.IsFatal(nil) returns false on all %d returns reachable with a nil argument", n)) {
		return nil
	}
	var out []Implication
	for _, c := range CallsTo(fn, "x509.IsFatal") {
		call, ok := c.(*ssa.Call)
		if !ok || len(call.Call.Args) != 1 {
			continue
		}
		im := Implication{If: r.D.D(call), IfVal: "T", Then: "nil?" + r.D.D(call.Call.Args[0]), ThenVal: "non"}
		if def, ok := call.Call.Args[0].(ssa.Instruction); ok {
			im.Def = def.Block()
		}
		out = append(out, im)
	}
	return out
}

func c02ChainsEquivalent(r *Run, fn *ssa.Function) {
	no := retIs(0, "false", "")
	// other lengths than n or n+1 are refused: decided per path on the branch outcomes, however the test is spelled
	c02LengthFact(r, fn)
	eq := "(*x509.Certificate).Equal(p0[*], p1[*])"
	if len(CallsTo(fn, "(*x509.Certificate).Equal")) == 0 && c02EqualFuncForm(r, fn) {
		return
	}
	r.FailEdge(fn, "chainsEquivalent", EdgeSpec{Name: "certificates-differ", Atom: boolAtom(eq), Bad: "F", Want: no})
	for _, c := range CallsTo(fn, "(*x509.Certificate).Equal") {
		a, b := r.D.D(CallArgs(c)[0]), r.D.D(CallArgs(c)[1])
		r.Check("chainsEquivalent:same-position", strings.TrimPrefix(a, "p0") == strings.TrimPrefix(b, "p1") && glob("p0[*it@*]", a), r.Where(c), "compares "+a+" with "+b)
		h := loopHeaderOf(c.Block())
		r.Check("chainsEquivalent:all-submitted-certs", h != nil && len(r.bindAtom(fn, ordAtomR("*it@*", "len(p0)"))) > 0, r.Where(c), "the comparison loop runs over every submitted certificate")
		for _, ret := range Returns(fn) {
			if r.D.D(ret.Results[0]) == "true" {
				r.Check("chainsEquivalent:true-only-after-loop", h != nil && len(ret.Block().Preds) == 1 && ret.Block().Preds[0] == h, r.Where(ret), "true is returned only when the comparison loop has finished")
			}
		}
	}
}

func c02VerifyAddChain(r *Run, fn *ssa.Function) {
	v := r.OneCall(fn, "verifyAddChain:ValidateChain", "trillian/ctfe.ValidateChain")
	p := r.OneCall(fn, "verifyAddChain:IsPrecertificate", "trillian/ctfe.IsPrecertificate")
	if v == nil || p == nil {
		return
	}
	r.ExpectArg(v, "verifyAddChain:submitted-chain", 0, "p1.Chain")
	c02LogOptions(r, fn, v) // p0.validationOpts, or a per-call copy of it (rules_t7c02clock.go)
	r.ExpectArg(p, "verifyAddChain:kind-of-validated-leaf", 0, "trillian/ctfe.ValidateChain(*)#0[0]")
	r.ErrorsGate(fn, "verifyAddChain:errors", "trillian/ctfe.*", 2)
	isPre := r.D.D(CallResult(p, 0))
	for _, want := range []string{"T", "F"} {
		for _, is := range []string{"T", "F"} {
			reach := r.D.Walk(fn, Sigma{"p2": want, isPre: is}, nil, nil)
			r.Valuations++
			n := 0
			for _, ret := range reachableReturns(fn, reach) {
				if errKind(ret.Results[1]) == "nil" {
					n++
					r.Check("verifyAddChain:returns-validated-path", r.D.D(ret.Results[0]) == r.D.D(CallResult(v, 0)), r.Where(ret), "returns "+r.D.D(ret.Results[0]))
				} else if ok, why := wantErr(true)(r, ret); !ok {
					r.Fail("verifyAddChain:error-shape", r.Where(ret), why)
				}
			}
			r.Check(fmt.Sprintf("verifyAddChain:kind[expecting=%s,is=%s]", want, is), (n > 0) == (want == is), r.Where(p), fmt.Sprintf("expecting precert=%s, leaf is precert=%s: %d success returns reachable", want, is, n))
		}
	}
}

func c02Builder(r *Run) {
	r.Rule("C02.R6")
	cc := r.Fn("(*x509.Certificate).buildChains$1")
	bc := r.Fn("(*x509.Certificate).buildChains")
	if cc != nil {
		rec := CallsTo(cc, "(*x509.Certificate).buildChains")
		grow := append(asInstrs(CallsTo(cc, "append")), asInstrs(rec)...)
		sig := r.OneCall(cc, "considerCandidate:CheckSignatureFrom", "(*x509.Certificate).CheckSignatureFrom")
		val := r.OneCall(cc, "considerCandidate:isValid", "(*x509.Certificate).isValid")
		r.MustGuardAfter(cc, "considerCandidate:already-in-chain", "(*x509.Certificate).Equal(*, p1)", "T", append(grow, asInstrs(CallsTo(cc, "(*x509.Certificate).CheckSignatureFrom"))...), "signature check / growth of the chain set")
		r.GuardAtom(cc, nil, "considerCandidate:bad-signature", nilAtom("(*x509.Certificate).CheckSignatureFrom(*)"), "non", grow, "growth of the chain set")
		if sig != nil {
			r.ExpectArg(sig, "considerCandidate:signed-cert", 0, "*^&(p0)")
			r.ExpectArg(sig, "considerCandidate:signer", 1, "p1")
		}
		if val != nil {
			for i, w := range []string{"p1", "p0", "*^&(p2)", "*^&(p4)"} {
				r.ExpectArg(val, fmt.Sprintf("considerCandidate:isValid.arg%d", i), i, w)
			}
			// the verdict is stored in the shared err and tested right away
			atom := ""
			for _, st := range r.StoresTo(cc, "*") {
				if st.Val == val.Value() {
					if ifi, ok := st.Block().Instrs[len(st.Block().Instrs)-1].(*ssa.If); ok {
						if k := r.D.Classify(ifi.Cond).Key; k == "nil?"+deref(r.D.D(st.Addr)) {
							atom = k
						}
					}
				}
			}
			if r.Check("considerCandidate:isValid-verdict-tested", atom != "", r.Where(val), "the result of candidate.isValid is tested in the block that stores it ("+atom+")") {
				r.MustGuardFrom(cc, val.Block(), "considerCandidate:invalid-candidate", atom, "non", grow, "growth of the chain set")
			}
		}
		for _, c := range CallsTo(cc, "x509.appendToFreshChain") {
			r.ExpectArg(c, "considerCandidate:extends-current-chain", 0, "*^&(p2)")
			r.ExpectArg(c, "considerCandidate:extends-by-candidate", 1, "p1")
		}
		r.Floor("considerCandidate:appendToFreshChain", len(CallsTo(cc, "x509.appendToFreshChain")), 2)
		for _, c := range rec {
			r.ExpectArg(c, "considerCandidate:recurse-on-candidate", 0, "p1")
			r.ExpectArg(c, "considerCandidate:recurse-with-extended-chain", 2, "x509.appendToFreshChain(*^&(p2), p1)")
			r.ExpectArg(c, "considerCandidate:recurse-same-options", 4, "*^&(p4)")
		}
		// every chain added extends the current chain by the candidate: either currentChain+candidate itself,
		// or the chains built by recursing from it (possibly remembered per candidate in the cache, which
		// only ever stores such recursion results under the candidate's key)
		fresh := "x509.appendToFreshChain(*^&(p2), p1)"
		recT := "(*x509.Certificate).buildChains(p1, *, " + fresh + ", *)#0"
		cache := ""
		eachInstr(cc, func(in ssa.Instruction) {
			if mu, ok := in.(*ssa.MapUpdate); ok {
				cache = r.D.D(mu.Map)
				r.Check("considerCandidate:cache-holds-recursion-results", r.D.D(mu.Key) == "p1" && glob(recT, r.D.D(mu.Value)), r.Where(mu), cache+"["+r.D.D(mu.Key)+"] ← "+clipStr(r.D.D(mu.Value), 120))
			}
		})
		for _, c := range CallsTo(cc, "append") {
			args := CallArgs(c)
			var alts []ssa.Value
			if a := baseAlloc(wSliceBase(args[1])); a != nil {
				for _, st := range r.storesAt(cc, "&("+r.D.allocName(a)+"[0])") {
					alts = append(alts, st.Val)
				}
			} else if ph, ok := args[1].(*ssa.Phi); ok {
				alts = ph.Edges
			} else {
				alts = []ssa.Value{args[1]}
			}
			for _, v := range alts {
				got := r.D.D(v)
				ok := glob(fresh, got) || glob(recT, got) || cache != "" && got == cache+"[p1]#0"
				r.Check("considerCandidate:added-chains-extend-current", ok && len(alts) > 0, r.Where(c), "chains added: "+clipStr(got, 160)+" — currentChain+candidate, the chains built from it, or the candidate's cache entry")
			}
		}
	}
	if bc != nil {
		calls := CallsTo(bc, "(*x509.Certificate).buildChains$1")
		seen := map[string]bool{}
		for _, c := range calls {
			t, cand := r.D.D(CallArgs(c)[0]), r.D.D(CallArgs(c)[1])
			for _, w := range [][3]string{{"2", "Roots", "rootCertificate"}, {"1", "Intermediates", "intermediateCertificate"}} {
				if t == w[0] {
					seen[w[1]] = true
					r.Check("buildChains:"+w[1]+"-candidates", glob("p4."+w[1]+".certs[(*x509.CertPool).findPotentialParents(p4."+w[1]+", p0)[*it@*]]", cand), r.Where(c), w[2]+" candidates are "+cand)
					k := r.P.LookupConst("x509." + w[2])
					r.Check("const:"+w[2], k != nil && k.Val().ExactString() == w[0], "-", w[2]+" = "+w[0])
				}
			}
		}
		r.Check("buildChains:both-pools-searched", len(calls) == 2 && seen["Roots"] && seen["Intermediates"], r.FnPos(bc), fmt.Sprintf("%d considerCandidate sites", len(calls)))
	}
	if fn := r.Fn("x509.appendToFreshChain"); fn != nil {
		n := "make:[]*x509.Certificate((1 + len(p0)))"
		for _, ret := range Returns(fn) {
			r.Check("appendToFreshChain:fresh", r.D.D(ret.Results[0]) == n, r.Where(ret), "returns "+r.D.D(ret.Results[0]))
		}
		if c := r.OneCall(fn, "appendToFreshChain:copy", "copy"); c != nil {
			r.ExpectArg(c, "appendToFreshChain:copy.dst", 0, n)
			r.ExpectArg(c, "appendToFreshChain:copy.src", 1, "p0")
		}
		r.ExpectStores(fn, "appendToFreshChain:last", "&("+n+"[len(p0)])", "p1", 1)
	}
	if fn := r.Fn("(*x509.Certificate).Verify"); fn != nil {
		if c := r.OneCall(fn, "Verify:buildChains", "(*x509.Certificate).buildChains"); c != nil {
			r.ExpectArg(c, "Verify:build-from-leaf", 0, "p0")
			r.ExpectArg(c, "Verify:options", 4, "&(p1)")
			st := r.storesAt(fn, "&("+strings.TrimSuffix(r.D.D(CallArgs(c)[2]), "[:]")+"[0])")
			r.Check("Verify:initial-chain=[leaf]", len(st) == 1 && r.D.D(st[0].Val) == "p0", r.Where(c), "chain building starts from the one-element chain of the leaf")
			r.GuardAtom(fn, nil, "Verify:leaf-is-root⇒no-search", boolAtom("(*x509.CertPool).contains(p1.Roots, p0)"), "T", []ssa.Instruction{c}, "chain search")
		}
		r.ErrorsGate(fn, "Verify:errors", "(*x509.Certificate).isValid", 1)
		r.ErrorsGate(fn, "Verify:errors", "(*x509.Certificate).buildChains", 1)
		if c := r.OneCall(fn, "Verify:isValid(leaf)", "(*x509.Certificate).isValid"); c != nil {
			r.ExpectArg(c, "Verify:isValid.leaf", 0, "p0")
			r.ExpectArg(c, "Verify:isValid.type", 1, "0")
		}
	}

	// ---- R7
	r.Rule("C02.R7")
	if fn := r.Fn("(*x509.Certificate).isValid"); fn != nil {
		reason := func(name string) string {
			if k := r.P.LookupConst("x509." + name); k != nil {
				return k.Val().ExactString()
			}
			return "?"
		}
		r.CheckCases(fn, "isValid:name-chaining", CaseTable{
			Atoms: []RuleAtom{{Name: "off", Pat: "p3.DisableNameChecks"}, {Name: "n", OrdA: "0", OrdB: "len(p2)"}, {Name: "eq", Pat: "bytes.Equal(p2[(len(p2) - 1)].RawIssuer, p0.RawSubject)"}},
			Class: func(v map[string]string) string {
				if !boolIs(v, "off") && v["n"] == "<" && !boolIs(v, "eq") {
					return "child.Issuer ≠ Subject"
				}
				return "ok"
			},
			Want: map[string]func(*Run, *ssa.Return) (bool, string){"child.Issuer ≠ Subject": structReturn(0, "x509.CertificateInvalidError", map[string]string{"Cert": "p0", "Reason": reason("NameMismatch")})},
		})
		var notAuth []ssa.Instruction
		for _, ret := range Returns(fn) {
			if ok, _ := structReturn(0, "x509.CertificateInvalidError", map[string]string{"Cert": "p0", "Reason": reason("NotAuthorizedToSign")})(r, ret); ok {
				notAuth = append(notAuth, ret)
			}
		}
		bad := "intermediate without valid CA basic constraints"
		r.CheckCases(fn, "isValid:CA-bit", CaseTable{
			Atoms: []RuleAtom{{Name: "t", OrdA: "p1", OrdB: "1"}, {Name: "bc", Pat: "p0.BasicConstraintsValid"}, {Name: "ca", Pat: "p0.IsCA"}},
			Class: func(v map[string]string) string {
				if v["t"] == "=" && (!boolIs(v, "bc") || !boolIs(v, "ca")) {
					return bad
				}
				return "ok"
			},
			Unreach: map[string][]ssa.Instruction{bad: successReturns(fn)}, Reach: map[string][]ssa.Instruction{bad: notAuth, "ok": successReturns(fn)},
			Shared: map[string]bool{bad: true, "ok": true},
		})
		r.Check("isValid:NotAuthorizedToSign-return", len(notAuth) == 1, r.FnPos(fn), fmt.Sprintf("%d returns of CertificateInvalidError{c, NotAuthorizedToSign}", len(notAuth)))
	}
	if fn := r.Fn("(*x509.Certificate).CheckSignatureFrom"); fn != nil {
		cve := retIs(0, "zero:x509.ConstraintViolationError", "non")
		r.CheckCases(fn, "CheckSignatureFrom:parent-CA", CaseTable{
			Atoms: []RuleAtom{{Name: "v", OrdA: "p1.Version", OrdB: "3"}, {Name: "bc", Pat: "p1.BasicConstraintsValid"}, {Name: "ca", Pat: "p1.IsCA"}, {Name: "entrust", Pat: "bytes.Equal(p0.RawSubjectPublicKeyInfo, g:x509.entrustBrokenSPKI)"}},
			Class: func(v map[string]string) string {
				if (v["v"] == "=" && !boolIs(v, "bc") || boolIs(v, "bc") && !boolIs(v, "ca")) && !boolIs(v, "entrust") {
					return "parent is not a CA"
				}
				return "ok"
			},
			Want: map[string]func(*Run, *ssa.Return) (bool, string){"parent is not a CA": cve},
		})
		r.CheckCases(fn, "CheckSignatureFrom:certSign", CaseTable{
			Atoms: []RuleAtom{{Name: "ku", OrdA: "p1.KeyUsage", OrdB: "0"}, {Name: "cs", OrdA: "(32 & p1.KeyUsage)", OrdB: "0"}},
			Class: func(v map[string]string) string {
				if v["ku"] != "=" && v["cs"] == "=" {
					return "key usage without certSign"
				}
				return "ok"
			},
			Want: map[string]func(*Run, *ssa.Return) (bool, string){"key usage without certSign": cve},
		})
		k := r.P.LookupConst("x509.KeyUsageCertSign")
		r.Check("const:KeyUsageCertSign", k != nil && k.Val().ExactString() == "32", "-", "KeyUsageCertSign = 32")
		c02NilOnlyVia(r, fn, "CheckSignatureFrom", "(*x509.Certificate).CheckSignature(p1, p0.SignatureAlgorithm, p0.RawTBSCertificate, p0.Signature)")
	}
	if fn := r.Fn("(*x509.Certificate).CheckSignature"); fn != nil {
		c02NilOnlyVia(r, fn, "CheckSignature", "x509.checkSignature(p1, p2, p3, p0.PublicKey)")
	}
}

func c02Signature(r *Run) {
	r.Rule("C02.R8")
	fn := r.Fn("x509.checkSignature")
	if fn == nil {
		return
	}
	digest := "phi(iface(hash.Hash).Sum(*)|p1)"
	verifiers := map[string][]string{ // callee -> expected arguments (key, digest, signature parts)
		"rsa.VerifyPSS":      {"p3.(*rsa.PublicKey)#0", "*", digest, "p2"},
		"rsa.VerifyPKCS1v15": {"p3.(*rsa.PublicKey)#0", "*", digest, "p2"},
		"dsa.Verify":         {"p3.(*dsa.PublicKey)#0", "*" + digest + "*", "new:x509.dsaSignature#*.R", "new:x509.dsaSignature#*.S"},
		"ecdsa.Verify":       {"p3.(*ecdsa.PublicKey)#0", digest, "new:x509.ecdsaSignature#*.R", "new:x509.ecdsaSignature#*.S"},
		"ed25519.Verify":     {"p3.(ed25519.PublicKey)#0", digest, "p2"},
	}
	boolVerify := map[ssa.CallInstruction]string{}
	for _, name := range keysOf(verifiers) {
		c := r.OneCall(fn, "checkSignature:"+name, name)
		if c == nil {
			continue
		}
		for i, w := range verifiers[name] {
			r.ExpectArg(c, fmt.Sprintf("checkSignature:%s.arg%d", name, i), i, w)
		}
		if !strings.HasPrefix(name, "rsa.") {
			boolVerify[c] = name
		}
	}
	for _, c := range CallsTo(fn, "asn1.Unmarshal") { // the signature parts verified are those decoded from the signature bytes
		r.ExpectArg(c, "checkSignature:decodes-signature", 0, "p2")
	}
	if c := r.OneCall(fn, "checkSignature:hash-input", "iface(hash.Hash).Write"); c != nil {
		r.ExpectArg(c, "checkSignature:hashes-signed-bytes", 1, "p1")
	}
	nNil := 0
	for _, ret := range Returns(fn) {
		d := r.D.D(ret.Results[0])
		key := "checkSignature:return[" + clipStr(strings.SplitN(d, "(", 2)[0], 40) + "]"
		switch {
		case errKind(ret.Results[0]) == "nil":
			nNil++
			// guarded by the true edge of exactly one boolean verifier
			by := ""
			for c, name := range boolVerify {
				k := r.D.D(c.Value())
				if !r.D.Walk(fn, Sigma{k: "F"}, nil, nil).Has(ret) && r.D.Walk(fn, Sigma{k: "T"}, nil, nil).Has(ret) && c.Block().Dominates(ret.Block()) {
					by = name
				}
				r.Valuations += 2
			}
			name := by
			if name == "" {
				name = "unguarded"
			}
			r.Check("checkSignature:nil-return["+name+"]", by != "", r.Where(ret), "return nil is reachable only when a boolean verifier ("+by+") reported true")
		case glob("rsa.Verify*(*)", d):
			r.Pass(key, r.Where(ret), "the verdict of "+clipStr(d, 30)+" is returned as is")
		case errKind(ret.Results[0]) == "non" || c02IsErrVar(r, d):
			r.Pass(key, r.Where(ret), "non-nil error "+clipStr(d, 80))
		case glob("*(*)#1", d) || glob("x509.signaturePublicKeyAlgoMismatchError(*)", d):
			if glob("x509.signaturePublicKeyAlgoMismatchError(*)", d) {
				r.Pass(key, r.Where(ret), "algorithm/key mismatch error")
			} else {
				r.MustGuard(fn, key, "nil?"+d, "nil", []ssa.Instruction{ret}, "return of a callee's error")
			}
		default:
			r.Fail(key, r.Where(ret), "undecided: cannot tell whether "+clipStr(d, 120)+" may be nil")
		}
	}
	r.Check("checkSignature:nil-returns", nNil == len(boolVerify) && nNil == 3, r.FnPos(fn), fmt.Sprintf("%d literal nil returns for %d boolean verifiers", nNil, len(boolVerify)))
	if f2 := r.Fn("x509.signaturePublicKeyAlgoMismatchError"); f2 != nil {
		for _, ret := range Returns(f2) {
			r.Check("signaturePublicKeyAlgoMismatchError:non-nil", errKind(ret.Results[0]) == "non", r.Where(ret), "returns "+clipStr(r.D.D(ret.Results[0]), 80))
		}
	}
	// key type and signature algorithm must agree
	algo := "*.pubKeyAlgo*"
	for _, kt := range [][2]string{{"1", "p3.(*rsa.PublicKey)#1"}, {"2", "p3.(*dsa.PublicKey)#1"}, {"3", "p3.(*ecdsa.PublicKey)#1"}, {"4", "p3.(ed25519.PublicKey)#1"}} {
		var ver []ssa.Instruction
		for c := range boolVerify {
			ver = append(ver, c)
		}
		ver = append(ver, asInstrs(CallsTo(fn, "rsa.Verify*"))...)
		blocks := r.blocksTesting(fn, func(ci *CondInfo) bool { return ci.Key == kt[1] })
		if len(blocks) != 1 {
			r.Fail("checkSignature:key-type["+kt[1]+"]", r.FnPos(fn), "undecided: no type switch arm "+kt[1])
			continue
		}
		// inside the arm of this key type: algorithm ≠ the key type's ⇒ error before any verifier
		ok, detail := true, ""
		for _, rel := range []string{"<", ">"} {
			s := Sigma{kt[1]: "T"}
			for _, k := range r.bindAtom(fn, ordAtomR(kt[0], algo)) {
				s[k] = rel
			}
			if len(s) < 2 {
				ok, detail = false, "no comparison of the algorithm's key type with "+kt[0]
			}
			reach := r.D.Walk(fn, s, blocks[0], nil)
			r.Valuations++
			for _, v := range ver {
				if reach.Has(v) {
					ok, detail = false, "a verifier at "+r.Where(v)+" is reachable with key "+kt[1]+" and algorithm key type ≠ "+kt[0]
				}
			}
		}
		r.Check("checkSignature:key-type["+kt[1]+"]", ok, r.Where(blocks[0].Instrs[len(blocks[0].Instrs)-1]), "key "+kt[1]+" with a signature algorithm of another key type reaches no verifier "+detail)
	}
	for name, want := range map[string]string{"RSA": "1", "DSA": "2", "ECDSA": "3", "Ed25519": "4"} {
		k := r.P.LookupConst("x509." + name)
		r.Check("const:PublicKeyAlgorithm."+name, k != nil && k.Val().ExactString() == want, "-", name+" = "+want)
	}
}
