package main

import (
	"fmt"
	"go/types"
	"strings"

	"golang.org/x/tools/go/ssa"
)

// Retry-signal classification against the pinned github.com/google/trillian/
// client/backoff package (used by C20.R3): is an error value handed back to
// (*backoff.Backoff).Retry one that Retry will actually retry?  Decided from
// the dependency's own SSA (does Retry consult IsRetryable; which gRPC codes
// does IsRetryable accept) and from the dynamic type of the value.

// c20Retryable decides whether the values returned to ask for a retry are
// retried by the pinned backoff package.
func c20Retryable(r *Run, k string, cl *ssa.Function, signals []ssa.Value, rpcErr ssa.Value, errVar string, extraCodes bool) {
	retryFn := r.sgExtFunc("(*backoff.Backoff).Retry")
	isRetryable := r.sgExtFunc("backoff.IsRetryable")
	if retryFn == nil {
		r.Fail(k+"retry-signal", r.FnPos(cl), "undecided: (*backoff.Backoff).Retry not found in the program")
		return
	}
	selective := len(CallsTo(retryFn, "backoff.IsRetryable")) > 0
	if !selective {
		for _, v := range signals {
			r.Check(k+"retry-signal", errKind(v) != "nil", r.FnPos(cl), "backoff.Retry retries on every non-nil error; signal "+r.D.D(v))
		}
		return
	}
	// which gRPC codes does IsRetryable accept on its own?
	quotaRetried := false
	if isRetryable != nil {
		if cases, err := r.D.ConstTable(isRetryable, "status.Code(*)", nil); err == nil {
			for _, c := range cases {
				if !c.Default && fmt.Sprint(c.Value) == "8" {
					quotaRetried = true
					for _, ret := range reachableReturns(isRetryable, c.Reach) {
						if r.D.D(ret.Results[0]) != "true" {
							quotaRetried = false
						}
					}
				}
			}
		}
	}
	if len(signals) == 0 {
		r.Fail(k+"retry-signal", r.FnPos(cl), "no value is returned to ask for a retry")
	}
	for _, v := range signals {
		d := r.D.D(v)
		why := ""
		ok := false
		switch {
		case extraCodes:
			ok, why = false, "undecided: explicit retry codes are passed to Retry; not modelled"
		case strings.Contains(TypeName(c20DynType(r, v)), "backoff.RetriableError"):
			ok, why = true, "a backoff.RetriableError"
		case glob("backoff.RetriableErrorf(*)", d):
			ok, why = true, "built by backoff.RetriableErrorf"
		case rpcErr != nil && (d == r.D.D(rpcErr) || (errVar != "" && d == deref(errVar))) && quotaRetried:
			ok, why = true, "the ResourceExhausted status error itself, which IsRetryable accepts"
		default:
			why = fmt.Sprintf("dynamic type %s carries no gRPC status (status.Code = Unknown) and is not a backoff.RetriableError, so backoff.IsRetryable is false and Retry returns after the first attempt: a ResourceExhausted reply is never retried and the batch error aborts the pass", TypeName(c20DynType(r, v)))
		}
		r.Check(k+"retry-signal-is-retried", ok, r.Where(v.(ssa.Instruction)), fmt.Sprintf("on ResourceExhausted the operation returns %s to backoff.Retry, which retries only errors accepted by backoff.IsRetryable: %s", d, why))
	}
}

// c20DynType finds the dynamic type of an error value: through a load of a
// package-level variable to the value its initialiser stores there.
func c20DynType(r *Run, v ssa.Value) types.Type {
	for i := 0; i < 4; i++ {
		switch x := v.(type) {
		case *ssa.MakeInterface:
			return x.X.Type()
		case *ssa.UnOp:
			g, ok := x.X.(*ssa.Global)
			if !ok || g.Pkg == nil {
				return v.Type()
			}
			ini := g.Pkg.Func("init")
			var sv ssa.Value
			if ini != nil {
				eachInstr(ini, func(in ssa.Instruction) {
					if st, ok := in.(*ssa.Store); ok && st.Addr == ssa.Value(g) {
						sv = st.Val
					}
				})
			}
			if sv == nil {
				return v.Type()
			}
			v = sv
		case *ssa.Call:
			if f := x.Call.StaticCallee(); f != nil {
				// result type of the constructor: errors.New / fmt.Errorf build plain errors
				for _, ret := range Returns(f) {
					if len(ret.Results) == 1 {
						if mi, ok := ret.Results[0].(*ssa.MakeInterface); ok {
							return mi.X.Type()
						}
					}
				}
			}
			return v.Type()
		default:
			return v.Type()
		}
	}
	return v.Type()
}
