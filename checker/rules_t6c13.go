package main

import (
	"fmt"
	"go/constant"
	"go/token"
	"sort"
	"strings"

	"golang.org/x/tools/go/ssa"
)

// C13.R3 restated on facts (round 6).
//
// backoff.set is decided by what it leaves behind, not by how it is written.  The function is
// evaluated symbolically over four symbols
//
//	now  the clock read under the lock (every time.Now() of one call is that instant)
//	N    p0.notBefore as it was on entry          O   *p1, the server-supplied override
//	M    p0.multiplier as it was on entry
//
// Instants and durations are linear forms over these (t.Add(d) = t+d, t.Sub(u) = t−u, time.Until(t)
// = t−now, time.Since(t) = now−t, c<<x = c·2^x); a load of a state field reads what the stores that
// reach it on the paths of the valuation put there.  A branch condition is the SIGN of a linear form,
// whatever spelled it: N.After(now), now.Before(N), N.Sub(now) > 0, time.Until(N) > 0 and
// N.Compare(now) > 0 are one atom, and so are now.Add(O).After(N) and O > N.Sub(now).  The rule then
// states, per case of the property, the value the state must have at every return:
//
//	back-off pending (N > now), no override            N' = N
//	pending, now+O  > N                                N' = now+O     (never less than Retry-After)
//	pending, now+O <= N                                N' = N         (never shortened)
//	idle, override                                     N' = now+O
//	idle, no override, M < 8                           M' = M+1, N' = now + 1 s·2^(M'−1)
//	idle, no override, M = 8                           M' = 8,   N' = now + 128 s   (the cap)
//
// (M ∈ [0,8] is the inductive invariant these two lines maintain; every client starts at 0 —
// who:JSONClient.backoff — and decreaseMultiplier only decrements.)  Whatever cannot be bound — a
// condition that is not a sign of such a form is left open and both edges are walked; state handed
// to another function; a case no valuation reaches; two different values reaching a return — fails.

// ---- linear forms over the symbols ------------------------------------------------

type c13Sym struct {
	r    *Run
	fn   *ssa.Function
	pow  map[string]LinForm // name of a 2^x leaf → x
	opaq []string           // why the evaluation is not trustworthy (state escapes)
	// stores per state cell ("&(p0.notBefore)", "&(p0.multiplier)")
	stores map[string][]*ssa.Store
}

const (
	c13CellN = "&(p0.notBefore)"
	c13CellM = "&(p0.multiplier)"
)

func c13NewSym(r *Run, fn *ssa.Function) *c13Sym {
	s := &c13Sym{r: r, fn: fn, pow: map[string]LinForm{}, stores: map[string][]*ssa.Store{}}
	eachInstr(fn, func(in ssa.Instruction) {
		switch x := in.(type) {
		case *ssa.Store:
			a := r.D.D(x.Addr)
			if a == c13CellN || a == c13CellM {
				s.stores[a] = append(s.stores[a], x)
			}
			if a == "p1" {
				s.opaq = append(s.opaq, "the override is written through its pointer at "+r.Where(in))
			}
			if a == "p0" {
				s.opaq = append(s.opaq, "the back-off state is overwritten as a whole at "+r.Where(in))
			}
		case *ssa.FieldAddr:
			a := r.D.D(x)
			if a != c13CellN && a != c13CellM {
				return
			}
			for _, ref := range *x.Referrers() {
				switch u := ref.(type) {
				case *ssa.UnOp:
					if u.Op == token.MUL {
						continue
					}
				case *ssa.Store:
					if u.Addr == ssa.Value(x) && u.Val != ssa.Value(x) {
						continue
					}
				case *ssa.DebugRef:
					continue
				}
				s.opaq = append(s.opaq, "the address "+a+" is used other than by a load or a store at "+r.Where(ref))
			}
		}
		if c, ok := in.(ssa.CallInstruction); ok {
			for _, a := range CallArgs(c) {
				if r.D.D(a) == "p0" {
					s.opaq = append(s.opaq, "the back-off state is handed to "+CalleeOf(c)+" at "+r.Where(in))
				}
			}
		}
	})
	return s
}

func c13K(c int64) LinForm { return LinForm{Coef: map[string]int64{}, Const: c} }

// pow2 returns c·2^x as a form (folded when x is a constant).
func (s *c13Sym) pow2(c int64, x LinForm) LinForm {
	if k, ok := x.isConst(); ok && k >= 0 && k < 40 {
		return c13K(c << uint(k))
	}
	name := "2^(" + x.String() + ")"
	s.pow[name] = x
	return linLeaf(name).scale(c)
}

// subst replaces symbol sym by the constant val (also inside exponents).
func (s *c13Sym) subst(l LinForm, sym string, val int64) LinForm {
	out := c13K(l.Const)
	for k, c := range l.Coef {
		switch {
		case c == 0:
		case k == sym:
			out.Const += c * val
		case s.pow[k].Coef != nil:
			out = out.add(s.pow2(c, s.subst(s.pow[k], sym, val)), 1)
		default:
			out.Coef[k] += c
		}
	}
	return out
}

// lin: the linear form of an instant, a duration or an integer, as it is under the walk
// (reach == nil: on every path).
func (s *c13Sym) lin(v ssa.Value, reach *Reach, depth int) LinForm {
	d := s.r.D
	leaf := func() LinForm {
		if reach != nil {
			return linLeaf("‹" + d.DUnder(v, reach) + "›")
		}
		return linLeaf("‹" + d.D(v) + "›")
	}
	if depth > 24 {
		return leaf()
	}
	switch x := v.(type) {
	case *ssa.Const:
		if x.Value != nil && x.Value.Kind() == constant.Int {
			if i, ok := constant.Int64Val(x.Value); ok {
				return c13K(i)
			}
		}
		if x.Value == nil && isNumeric(x.Type()) {
			return c13K(0)
		}
	case *ssa.Convert:
		if isNumeric(x.Type()) && isNumeric(x.X.Type()) {
			return s.lin(x.X, reach, depth+1)
		}
	case *ssa.ChangeType:
		return s.lin(x.X, reach, depth+1)
	case *ssa.UnOp:
		switch x.Op {
		case token.SUB:
			return s.lin(x.X, reach, depth+1).scale(-1)
		case token.MUL:
			a := d.D(x.X)
			switch {
			case a == "p1":
				return linLeaf("O")
			case a == c13CellN:
				return s.cellAt(c13CellN, "N", x, reach, depth)
			case a == c13CellM:
				return s.cellAt(c13CellM, "M", x, reach, depth)
			}
			if al, ok := x.X.(*ssa.Alloc); ok {
				if sv := uniqueStore(al); sv != nil {
					return s.lin(sv, reach, depth+1)
				}
			}
		}
	case *ssa.BinOp:
		if !isNumeric(x.Type()) {
			break
		}
		a, b := s.lin(x.X, reach, depth+1), s.lin(x.Y, reach, depth+1)
		switch x.Op {
		case token.ADD:
			return a.add(b, 1)
		case token.SUB:
			return a.add(b, -1)
		case token.MUL:
			if c, ok := a.isConst(); ok {
				return b.scale(c)
			}
			if c, ok := b.isConst(); ok {
				return a.scale(c)
			}
		case token.SHL:
			if c, ok := b.isConst(); ok && c >= 0 && c < 40 {
				return a.scale(1 << uint(c))
			}
			if c, ok := a.isConst(); ok {
				return s.pow2(c, b)
			}
		}
	case *ssa.Phi:
		var forms []LinForm
		for i, e := range x.Edges {
			if reach == nil || reach.Edges[[2]int{x.Block().Preds[i].Index, x.Block().Index}] {
				forms = append(forms, s.lin(e, reach, depth+1))
			}
		}
		if len(forms) > 0 {
			same := true
			for _, f := range forms[1:] {
				same = same && f.String() == forms[0].String()
			}
			if same {
				return forms[0]
			}
		}
	case *ssa.Call:
		f := x.Call.StaticCallee()
		if f == nil {
			break
		}
		args := x.Call.Args
		switch FuncName(f) {
		case "time.Now":
			return linLeaf("now")
		case "(time.Time).Add":
			return s.lin(args[0], reach, depth+1).add(s.lin(args[1], reach, depth+1), 1)
		case "(time.Time).Sub":
			return s.lin(args[0], reach, depth+1).add(s.lin(args[1], reach, depth+1), -1)
		case "time.Until":
			return s.lin(args[0], reach, depth+1).add(linLeaf("now"), -1)
		case "time.Since":
			return linLeaf("now").add(s.lin(args[0], reach, depth+1), -1)
		}
	}
	return leaf()
}

// reaching computes, for one state cell, which stores (nil = the value on entry) may be the last
// one executed before instruction at, on the paths of the walk.
func (s *c13Sym) reaching(cell string, at ssa.Instruction, reach *Reach) []*ssa.Store {
	type set map[*ssa.Store]bool
	live := func(b *ssa.BasicBlock) bool { return reach == nil || reach.Blocks[b] }
	edge := func(p, b *ssa.BasicBlock) bool {
		return reach == nil || reach.Edges[[2]int{p.Index, b.Index}]
	}
	lastIn := func(b *ssa.BasicBlock, before ssa.Instruction) *ssa.Store {
		var last *ssa.Store
		for _, in := range b.Instrs {
			if in == before {
				break
			}
			if st, ok := in.(*ssa.Store); ok && s.r.D.D(st.Addr) == cell {
				last = st
			}
		}
		return last
	}
	in := map[*ssa.BasicBlock]set{}
	out := map[*ssa.BasicBlock]set{}
	entry := s.fn.Blocks[0]
	for changed := true; changed; {
		changed = false
		for _, b := range s.fn.Blocks {
			if !live(b) {
				continue
			}
			ni := set{}
			if b == entry {
				ni[nil] = true
			}
			for _, p := range b.Preds {
				if live(p) && edge(p, b) {
					for k := range out[p] {
						ni[k] = true
					}
				}
			}
			no := ni
			if st := lastIn(b, nil); st != nil {
				no = set{st: true}
			}
			if len(ni) != len(in[b]) || len(no) != len(out[b]) {
				changed = true
			}
			for k := range no {
				if !out[b][k] {
					changed = true
				}
			}
			in[b], out[b] = ni, no
		}
	}
	if st := lastIn(at.Block(), at); st != nil {
		return []*ssa.Store{st}
	}
	var res []*ssa.Store
	for k := range in[at.Block()] {
		res = append(res, k)
	}
	sort.Slice(res, func(i, j int) bool {
		if res[i] == nil || res[j] == nil {
			return res[i] == nil && res[j] != nil
		}
		return res[i].Pos() < res[j].Pos()
	})
	return res
}

// cellAt: the value of a state cell as instruction at sees it.
func (s *c13Sym) cellAt(cell, sym string, at ssa.Instruction, reach *Reach, depth int) LinForm {
	defs := s.reaching(cell, at, reach)
	var forms []LinForm
	for _, st := range defs {
		if st == nil {
			forms = append(forms, linLeaf(sym))
		} else {
			forms = append(forms, s.lin(st.Val, reach, depth+1))
		}
	}
	if len(forms) == 0 {
		return linLeaf("‹unreached " + cell + "›")
	}
	for _, f := range forms[1:] {
		if f.String() != forms[0].String() {
			var alts []string
			for _, g := range forms {
				alts = append(alts, g.String())
			}
			return linLeaf("‹one of " + strings.Join(alts, " / ") + "›")
		}
	}
	return forms[0]
}

// ---- conditions as signs of linear forms ------------------------------------------------

func gcd64(a, b int64) int64 {
	if a < 0 {
		a = -a
	}
	if b < 0 {
		b = -b
	}
	for b != 0 {
		a, b = b, a%b
	}
	return a
}

// c13Canon: the form with its first symbol's coefficient made positive and common factors removed;
// orient is −1 when the form was negated.  ok is false for a constant.
func c13Canon(l LinForm) (string, int, bool) {
	_, c, o, ok := c13CanonF(l)
	return c, o, ok
}

func c13CanonF(l LinForm) (LinForm, string, int, bool) {
	var ks []string
	for k, c := range l.Coef {
		if c != 0 {
			ks = append(ks, k)
		}
	}
	if len(ks) == 0 {
		return l, "", 0, false
	}
	sort.Strings(ks)
	g := l.Const
	for _, k := range ks {
		g = gcd64(g, l.Coef[k])
	}
	orient := 1
	if l.Coef[ks[0]] < 0 {
		orient = -1
	}
	n := c13K(l.Const / g * int64(orient))
	for _, k := range ks {
		n.Coef[k] = l.Coef[k] / g * int64(orient)
	}
	return n, n.String(), orient, true
}

// c13SemAtom is one sign atom: the PSR keys that spell it and how each is oriented.
type c13SemAtom struct {
	canon  string
	form   LinForm        // the canonical form
	orient map[string]int // PSR key → +1: key value "<" (A < B) means canon > 0; −1: means canon < 0
}

// ordOperands returns the two compared values of an ordering condition in the order of the PSR key.
func (s *c13Sym) ordOperands(v ssa.Value, ci *CondInfo) (a, b ssa.Value, ok bool) {
	var x, y ssa.Value
	switch c := v.(type) {
	case *ssa.BinOp:
		x, y = c.X, c.Y
		for _, p := range [][2]ssa.Value{{c.X, c.Y}, {c.Y, c.X}} {
			if call, isCall := p[0].(*ssa.Call); isCall && isConstInt(p[1], 0) {
				if f := call.Call.StaticCallee(); f != nil && FuncName(f) == "(time.Time).Compare" && len(call.Call.Args) == 2 {
					x, y = call.Call.Args[0], call.Call.Args[1]
				}
			}
		}
	case *ssa.Call:
		if len(c.Call.Args) != 2 {
			return nil, nil, false
		}
		x, y = c.Call.Args[0], c.Call.Args[1]
	default:
		return nil, nil, false
	}
	dx, dy := s.r.D.D(x), s.r.D.D(y)
	switch {
	case ci.A == dx && ci.B == dy:
		return x, y, true
	case ci.A == dy && ci.B == dx:
		return y, x, true
	}
	return nil, nil, false
}

// atoms classifies every branch condition of the function.
func (s *c13Sym) atoms() (sem map[string]*c13SemAtom, nilKeys []string, clash []string) {
	sem = map[string]*c13SemAtom{}
	byKey := map[string]string{}
	seenNil := map[string]bool{}
	var visit func(v ssa.Value, depth int)
	visit = func(v ssa.Value, depth int) {
		if depth > 6 {
			return
		}
		if _, ok := isBoolConst(v); ok {
			return
		}
		switch x := v.(type) {
		case *ssa.Phi:
			for _, e := range x.Edges {
				visit(e, depth+1)
			}
			return
		case *ssa.UnOp:
			if x.Op == token.NOT {
				visit(x.X, depth+1)
				return
			}
		}
		ci := s.r.D.Classify(v)
		switch ci.Kind {
		case "nil":
			if ci.Key == "nil?p1" && !seenNil[ci.Key] {
				seenNil[ci.Key] = true
				nilKeys = append(nilKeys, ci.Key)
			}
		case "ord":
			a, b, ok := s.ordOperands(v, ci)
			if !ok {
				return
			}
			diff := s.lin(b, nil, 0).add(s.lin(a, nil, 0), -1) // key value "<" ⇔ diff > 0
			cform, canon, orient, ok := c13CanonF(diff)
			if !ok {
				return
			}
			tag := fmt.Sprintf("%s/%d", canon, orient)
			if old, dup := byKey[ci.Key]; dup && old != tag {
				clash = append(clash, ci.Key)
				return
			}
			byKey[ci.Key] = tag
			at := sem[canon]
			if at == nil {
				at = &c13SemAtom{canon: canon, form: cform, orient: map[string]int{}}
				sem[canon] = at
			}
			at.orient[ci.Key] = orient
		}
	}
	for _, b := range s.fn.Blocks {
		if len(b.Instrs) == 0 {
			continue
		}
		if ifi, ok := b.Instrs[len(b.Instrs)-1].(*ssa.If); ok {
			visit(ifi.Cond, 0)
		}
	}
	return
}

// fix writes sign sg (−1, 0, +1) of the atom's canonical form into the valuation.
func (a *c13SemAtom) fix(sg int, sigma Sigma) {
	for k, o := range a.orient {
		switch sg * o {
		case 1:
			sigma[k] = "<"
		case -1:
			sigma[k] = ">"
		default:
			sigma[k] = "="
		}
	}
}

// ---- the rule ------------------------------------------------------------------------

const c13Cap = 8 // maxMultiplier: 2^(8−1) s = 128 s

func c13SetFacts(r *Run, fn *ssa.Function) {
	r.Assume("every clock read inside one call of backoff.set (made under its lock) denotes the same instant 'now'")
	s := c13NewSym(r, fn)
	pos := r.FnPos(fn)
	const key = "set"
	if len(s.opaq) > 0 {
		r.Fail(key, pos, "undecided: "+strings.Join(s.opaq, "; "))
		return
	}
	sem, nilKeys, clash := s.atoms()
	if len(clash) > 0 {
		r.Fail(key, pos, "undecided: one branch condition text stands for two different comparisons (state read before and after a store): "+strings.Join(clash, ", "))
		return
	}
	// positive control of the state itself: set writes both cells somewhere
	r.Check("set:stores", len(s.stores[c13CellN]) >= 1 && len(s.stores[c13CellM]) >= 1, pos,
		fmt.Sprintf("%d stores to notBefore, %d to multiplier (what they store is decided per case below)", len(s.stores[c13CellN]), len(s.stores[c13CellM])))

	// the atoms the cases are stated in
	// An atom no branch condition spells is left open: both of its cases are then judged on the same
	// walk, so a function that does not make the distinction fails the case it gets wrong.
	var unbound []string
	want := func(name string, f LinForm) (*c13SemAtom, int) {
		cf, canon, orient, _ := c13CanonF(f)
		if sem[canon] == nil {
			sem[canon] = &c13SemAtom{canon: canon, form: cf, orient: map[string]int{}}
			unbound = append(unbound, fmt.Sprintf("no branch condition of %s compares %s with zero (%s)", FuncName(fn), canon, name))
		}
		return sem[canon], orient
	}
	pend, pendO := want("is a back-off pending", linLeaf("N").add(linLeaf("now"), -1))                              // N − now  > 0: a back-off is in force
	later, laterO := want("does the override end later", linLeaf("now").add(linLeaf("O"), 1).add(linLeaf("N"), -1)) // now+O−N > 0
	if len(nilKeys) == 0 {
		r.Fail(key, pos, "undecided: atom override: no branch condition of "+FuncName(fn)+" tests the override pointer for nil")
		return
	}
	// every other sign atom is enumerated too (a fully decided walk); those over M alone bound the multiplier
	var names []string
	for _, k := range keysOf(sem) {
		names = append(names, k)
	}
	if len(names) > 7 {
		r.Fail(key, pos, fmt.Sprintf("undecided: %d distinct comparisons in %s (more than the table enumerates)", len(names), FuncName(fn)))
		return
	}
	type mBound struct {
		idx int
		c   int64 // canon = M + c
	}
	var mb []mBound
	for i, k := range names {
		if f := sem[k].form; len(f.Coef) == 1 && f.Coef["M"] == 1 {
			mb = append(mb, mBound{i, f.Const})
		}
	}

	classes := []string{"pending,no-override", "pending,override-later", "pending,override-not-later", "idle,override", "idle,no-override,below-cap", "idle,no-override,at-cap"}
	hits := map[string]int{}
	bad := map[string]string{}
	note := func(class, msg string, sigma Sigma) {
		if msg != "" && bad[class] == "" {
			if len(unbound) > 0 {
				msg += "; " + strings.Join(unbound, "; ")
			}
			bad[class] = fmt.Sprintf("%s [valuation %s]", msg, sigma)
		}
	}
	rets := Returns(fn)
	sg := make([]int, len(names)) // −1, 0, +1 per atom
	for i := range sg {
		sg[i] = -1
	}
	for {
		for _, ov := range []string{"nil", "non"} {
			sigma := Sigma{}
			for _, k := range nilKeys {
				sigma[k] = ov
			}
			val := map[string]int{}
			for i, k := range names {
				sem[k].fix(sg[i], sigma)
				val[k] = sg[i]
			}
			// the multiplier range this valuation speaks about, within the invariant [0, cap]
			lo, hi := int64(0), int64(c13Cap)
			for _, b := range mb {
				switch sg[b.idx] { // M + c ? 0
				case -1:
					if -b.c-1 < hi {
						hi = -b.c - 1
					}
				case 0:
					if -b.c > lo {
						lo = -b.c
					}
					if -b.c < hi {
						hi = -b.c
					}
				case 1:
					if -b.c+1 > lo {
						lo = -b.c + 1
					}
				}
			}
			if lo > hi {
				continue // no multiplier of [0, 8] gives these answers
			}
			r.Valuations++
			isPending := val[pend.canon]*pendO > 0
			isLater := val[later.canon]*laterO > 0
			isSame := val[later.canon] == 0
			var class string
			switch {
			case isPending && ov == "nil":
				class = "pending,no-override"
			case isPending && isLater:
				class = "pending,override-later"
			case isPending:
				class = "pending,override-not-later"
			case ov == "non":
				class = "idle,override"
			case hi < c13Cap:
				class = "idle,no-override,below-cap"
			case lo == c13Cap:
				class = "idle,no-override,at-cap"
			default:
				hits["idle,no-override,below-cap"]++
				hits["idle,no-override,at-cap"]++
				msg := fmt.Sprintf("the cap decision does not separate a multiplier below %d (step it) from %d itself (128 s cap: keep it): multipliers %d…%d take the same path", c13Cap, c13Cap, lo, hi)
				note("idle,no-override,below-cap", msg, sigma)
				note("idle,no-override,at-cap", msg, sigma)
				continue
			}
			reach := r.D.Walk(fn, sigma, nil, nil)
			var live []*ssa.Return
			for _, ret := range rets {
				if reach.Has(ret) {
					live = append(live, ret)
				}
			}
			if len(live) == 0 {
				note(class, "undecided: no return is reached", sigma)
				hits[class]++
				continue
			}
			hits[class]++
			for _, ret := range live {
				n := s.cellAt(c13CellN, "N", ret, reach, 0)
				m := s.cellAt(c13CellM, "M", ret, reach, 0)
				if class == "idle,no-override,at-cap" {
					n, m = s.subst(n, "M", c13Cap), s.subst(m, "M", c13Cap)
				}
				ns, ms := n.String(), m.String()
				const keepN, ovr = "+N", "+O +now"
				switch class {
				case "pending,no-override":
					if ns != keepN {
						note(class, "a not-before instant still in the future must be kept when the server asked for nothing; at the return "+r.Where(ret)+" not-before = "+ns, sigma)
					}
				case "pending,override-not-later":
					if ns != keepN && !(isSame && ns == ovr) {
						note(class, "a pending not-before instant must not be shortened by an override that ends earlier; at the return "+r.Where(ret)+" not-before = "+ns, sigma)
					}
				case "pending,override-later":
					if ns != ovr {
						note(class, "never wait less than the server's Retry-After: an override that ends after the pending not-before instant must be stored as now+override; at the return "+r.Where(ret)+" not-before = "+c13Show(ns), sigma)
					}
				case "idle,override":
					if ns != ovr {
						note(class, "never wait less than the server's Retry-After: not-before must become now+override; at the return "+r.Where(ret)+" not-before = "+c13Show(ns), sigma)
					}
				case "idle,no-override,below-cap":
					if ms != "+M +1" {
						note(class, "the multiplier must be stepped by one below the cap; at the return "+r.Where(ret)+" multiplier = "+c13Show(ms), sigma)
					} else if ns != "+1000000000*2^(+M) +now" {
						note(class, "not-before must become now + 1 s·2^(multiplier−1) of the stepped multiplier (= now + 10^9·2^M); at the return "+r.Where(ret)+" not-before = "+c13Show(ns), sigma)
					}
				case "idle,no-override,at-cap":
					if ms != fmt.Sprintf("%+d", c13Cap) {
						note(class, fmt.Sprintf("the multiplier must not grow at the cap (%d ⇒ 128 s); at the return %s multiplier = %s", c13Cap, r.Where(ret), c13Show(ms)), sigma)
					} else if ns != "+now +128000000000" {
						note(class, "at the cap not-before must become now + 128 s; at the return "+r.Where(ret)+" not-before = "+c13Show(ns), sigma)
					}
				}
			}
		}
		i := 0
		for ; i < len(sg); i++ {
			sg[i]++
			if sg[i] <= 1 {
				break
			}
			sg[i] = -1
		}
		if i == len(sg) {
			break
		}
	}
	for _, c := range classes {
		k := key + "[" + c + "]"
		switch {
		case hits[c] == 0:
			r.Fail(k, pos, "undecided: no valuation falls into class "+c)
		case bad[c] != "":
			r.Fail(k, pos, bad[c])
		default:
			r.Pass(k, pos, fmt.Sprintf("%d valuations of class %s: the state at every return is what the property demands", hits[c], c))
		}
	}
}

func c13Show(form string) string {
	if form == "+N" {
		return "+N (the earlier instant is kept: nothing is stored)"
	}
	if form == "+M" {
		return "+M (unchanged)"
	}
	return form
}
