package main

import (
	"go/token"
	"go/types"

	"golang.org/x/tools/go/ssa"
)

// Lax-flag propagation analysis for package asn1 (E2 taint, shared by C10.R1–R3)
// and two small instruction-level helpers.

type c10LaxInfo struct {
	field  *types.Var              // asn1.fieldParameters.lax
	params map[*ssa.Parameter]bool // parameters that receive a lax-derived value at some call site
	fns    []*ssa.Function         // functions of package asn1
}

func c10Asn1Funcs(r *Run) []*ssa.Function {
	var out []*ssa.Function
	for _, fn := range r.P.ModFuncs {
		if pk := fnPkg(fn); pk != nil && ShortPkg(pk.Path()) == "asn1" && len(fn.Blocks) > 0 {
			out = append(out, fn)
		}
	}
	return out
}

// isLaxAny: v carries a lax flag — a lax parameter or a load of the lax field
// of any fieldParameters value (taint source for the propagation and for R2).
func (li *c10LaxInfo) isLaxAny(v ssa.Value) bool {
	switch v := v.(type) {
	case *ssa.Parameter:
		return li.params[v]
	case *ssa.UnOp:
		if fa, ok := v.X.(*ssa.FieldAddr); ok && v.Op == token.MUL {
			return fieldOf(fa) == li.field
		}
	case *ssa.Field:
		return fieldOfVal(v) == li.field
	case *ssa.ChangeType:
		return li.isLaxAny(v.X)
	}
	return false
}

// isLax: v is the *incoming* lax flag of its function — its lax parameter, or
// the lax field of a fieldParameters value that is itself a parameter.
func (li *c10LaxInfo) isLax(v ssa.Value) bool {
	if !li.isLaxAny(v) {
		return false
	}
	switch v := v.(type) {
	case *ssa.UnOp:
		return c10IsParam(v.X.(*ssa.FieldAddr).X)
	case *ssa.Field:
		return c10IsParam(v.X)
	case *ssa.ChangeType:
		return li.isLax(v.X)
	}
	return true
}

// c10IsParam: v is a parameter, the address of a spilled parameter, or a load of one.
func c10IsParam(v ssa.Value) bool {
	switch v := v.(type) {
	case *ssa.Parameter:
		return true
	case *ssa.Alloc:
		return paramSpill(v) != nil
	case *ssa.UnOp:
		return v.Op == token.MUL && c10IsParam(v.X)
	}
	return false
}

// dependsOnLax: a boolean built from a lax value by !, &&/|| (φ) and comparisons.
func (li *c10LaxInfo) dependsOnLax(v ssa.Value, depth int) bool {
	if depth > 6 {
		return false
	}
	if li.isLaxAny(v) {
		return true
	}
	switch v := v.(type) {
	case *ssa.UnOp:
		return v.Op == token.NOT && li.dependsOnLax(v.X, depth+1)
	case *ssa.BinOp:
		return li.dependsOnLax(v.X, depth+1) || li.dependsOnLax(v.Y, depth+1)
	case *ssa.Phi:
		for _, e := range v.Edges {
			if li.dependsOnLax(e, depth+1) {
				return true
			}
		}
	}
	return false
}

func c10ComputeLax(r *Run) *c10LaxInfo {
	li := &c10LaxInfo{field: r.P.LookupField("asn1.fieldParameters.lax"), params: map[*ssa.Parameter]bool{}, fns: c10Asn1Funcs(r)}
	if li.field == nil {
		return li
	}
	for changed := true; changed; {
		changed = false
		for _, fn := range li.fns {
			eachInstr(fn, func(in ssa.Instruction) {
				ci, ok := in.(ssa.CallInstruction)
				if !ok {
					return
				}
				cal := ci.Common().StaticCallee()
				if cal == nil || len(cal.Blocks) == 0 || len(cal.Params) != len(ci.Common().Args) {
					return
				}
				for i, a := range ci.Common().Args {
					if li.isLaxAny(a) && !li.params[cal.Params[i]] {
						li.params[cal.Params[i]] = true
						changed = true
					}
				}
			})
		}
	}
	return li
}

func (li *c10LaxInfo) laxParamOf(fn *ssa.Function) *ssa.Parameter {
	for _, p := range fn.Params {
		if li.params[p] {
			return p
		}
	}
	return nil
}

func c10InstrIndex(in ssa.Instruction) int {
	for i, x := range in.Block().Instrs {
		if x == in {
			return i
		}
	}
	return -1
}

func c10InstrDominates(a, b ssa.Instruction) bool {
	if a.Block() == b.Block() {
		return c10InstrIndex(a) < c10InstrIndex(b)
	}
	return a.Block().Dominates(b.Block())
}

// firstKillBetween searches forward from `from` along all paths, stopping at
// `to`; it returns a kill instruction that can execute in between, or nil.
func c10FirstKillBetween(from, to ssa.Instruction, kill map[ssa.Instruction]bool) ssa.Instruction {
	type pos struct {
		b *ssa.BasicBlock
		i int
	}
	seen := map[*ssa.BasicBlock]bool{}
	work := []pos{{from.Block(), c10InstrIndex(from) + 1}}
	for len(work) > 0 {
		p := work[len(work)-1]
		work = work[:len(work)-1]
		stopped := false
		for i := p.i; i < len(p.b.Instrs); i++ {
			in := p.b.Instrs[i]
			if in == to {
				stopped = true
				break
			}
			if kill[in] {
				return in
			}
		}
		if stopped {
			continue
		}
		for _, s := range p.b.Succs {
			if !seen[s] {
				seen[s] = true
				work = append(work, pos{s, 0})
			}
		}
	}
	return nil
}
