package main

// Round 4 additions for C17 (missed seed C17-h "defect by addition"; maintenance commit benign4/C17/m1):
//
//   C17.R9  the log list the policy sees is computed afresh, in this call, from this
//           certificate: on every path of addSomeChain's log-selection step the list is the
//           result of <distributor>.usableLl.Compatible(chain[0], nil | chain[len-1], roots)
//           where chain was parsed / validated from the raw chain of THIS call (and is the
//           chain handed on together with the list); it is never a value read from state
//           that outlives the call (a cache keyed by something coarser than the leaf, a
//           fallback to the unfiltered list, a memo of the previous submission).
//           Who may start a submission: GetSCTs is called only from addSomeChain (and its
//           function literals), with the groups of a LogsByGroup call made there.
//   helpers that find a function literal by what it does instead of by its `$n` index
//   (operator predicates of the Chrome policy, the per-group race goroutine).

import (
	"fmt"
	"go/token"
	"go/types"
	"strings"

	"golang.org/x/tools/go/ssa"
)

// c17Strip removes the decoration origin terms put around a captured / spilled parameter
// (`*^&(p0).f`, `^p0.f`, `p0.f` all name field f of parameter 0 of the enclosing method).
func c17Strip(s string) string {
	return strings.NewReplacer("*", "", "^", "", "&", "", "(", "", ")", "").Replace(s)
}

// c17FuncOf: the function a call runs when that is fixed at the call site: a static callee, a
// function literal (with or without captures), or a literal held in a local assigned once.
func c17FuncOf(v ssa.Value) *ssa.Function {
	switch x := v.(type) {
	case *ssa.Function:
		return x
	case *ssa.MakeClosure:
		f, _ := x.Fn.(*ssa.Function)
		return f
	case *ssa.ChangeType:
		return c17FuncOf(x.X)
	case *ssa.UnOp:
		a, ok := x.X.(*ssa.Alloc)
		if !ok || x.Op != token.MUL || a.Referrers() == nil {
			return nil
		}
		var only ssa.Value
		n := 0
		for _, ref := range *a.Referrers() {
			if st, ok := ref.(*ssa.Store); ok && st.Addr == ssa.Value(a) {
				only = st.Val
				n++
			}
		}
		if n == 1 {
			return c17FuncOf(only)
		}
	}
	return nil
}

func c17InModule(fn *ssa.Function) bool {
	if fn == nil || len(fn.Blocks) == 0 {
		return false
	}
	pk := fnPkg(fn)
	return pk != nil && (pk.Path() == ModPath || strings.HasPrefix(pk.Path(), ModPath+"/"))
}

// c17Within: fn is root or a function literal nested (at any depth) in root.
func c17Within(fn, root *ssa.Function) bool {
	for f := fn; f != nil; f = f.Parent() {
		if f == root {
			return true
		}
	}
	return false
}

// ---- C17.R9: provenance of the log list -----------------------------------------

type c17ListSrc struct {
	fn   *ssa.Function
	v    ssa.Value
	ret  *ssa.Return // the return of fn through which the value leaves fn; nil when used in place
	kind string      // "compatible" | "empty" | "other"
	why  string
}

type c17ListTracer struct {
	r    *Run
	out  []c17ListSrc
	seen map[ssa.Value]bool
}

func (t *c17ListTracer) add(fn *ssa.Function, v ssa.Value, ret *ssa.Return, kind, why string) {
	t.out = append(t.out, c17ListSrc{fn, v, ret, kind, why})
}

// trace follows a LogList value back to where it was made.  Every value that can flow into v
// is visited: φ inputs, every assignment to a local it is read from (including assignments made
// by function literals that capture the local), result k of every return of a module function
// or function literal it is the result of.  Leaves: a Compatible() call, an empty list, or
// "other" (anything else, in particular memory that exists before the call: fields, map
// entries, globals, dereferenced pointers).
func (t *c17ListTracer) trace(fn *ssa.Function, v ssa.Value, ret *ssa.Return, depth int) {
	r := t.r
	if depth > 6 {
		t.add(fn, v, ret, "other", "undecided: too many levels of helpers")
		return
	}
	if _, isPhi := v.(*ssa.Phi); isPhi {
		if t.seen[v] {
			return
		}
		t.seen[v] = true
	}
	fromCall := func(c *ssa.Call, idx int) {
		if f := c.Call.StaticCallee(); f != nil && FuncName(f) == "(*loglist3.LogList).Compatible" {
			t.add(fn, c, ret, "compatible", "")
			return
		}
		callee := c17FuncOf(c.Call.Value)
		if c.Call.IsInvoke() || !c17InModule(callee) || !c17SamePkg(callee, fn) {
			t.add(fn, c, ret, "other", "result of "+clipStr(r.D.D(c), 120))
			return
		}
		n := 0
		for _, cr := range Returns(callee) {
			if cr.Block().Comment == "recover" || idx >= len(cr.Results) {
				continue
			}
			n++
			t.trace(callee, RetVals(cr)[idx], cr, depth+1)
		}
		if n == 0 {
			t.add(fn, c, ret, "other", "undecided: "+FuncName(callee)+" has no return")
		}
	}
	switch x := v.(type) {
	case *ssa.Call:
		fromCall(x, 0)
	case *ssa.Extract:
		if c, ok := x.Tuple.(*ssa.Call); ok {
			fromCall(c, x.Index)
		} else {
			t.add(fn, v, ret, "other", "read from "+clipStr(r.D.D(v), 120))
		}
	case *ssa.Phi:
		for _, e := range x.Edges {
			t.trace(fn, e, ret, depth)
		}
	case *ssa.Const:
		t.add(fn, v, ret, "empty", "")
	case *ssa.UnOp:
		a, ok := x.X.(*ssa.Alloc)
		if !ok || x.Op != token.MUL {
			t.add(fn, v, ret, "other", "read from memory that exists before this call: "+clipStr(r.D.D(v), 120))
			return
		}
		t.local(fn, a, ret, depth)
	default:
		t.add(fn, v, ret, "other", "built as "+clipStr(r.D.D(v), 120))
	}
}

// local: every value assigned to the local a (a whole LogList); a write to one of its fields,
// or a use the rule cannot follow, is reported as "other".
func (t *c17ListTracer) local(fn *ssa.Function, a *ssa.Alloc, ret *ssa.Return, depth int) {
	r := t.r
	if t.seen[a] {
		return
	}
	t.seen[a] = true
	if a.Referrers() == nil {
		t.add(fn, a, ret, "other", "undecided: local without uses")
		return
	}
	stores := 0
	var fieldWritten func(addr ssa.Value) ssa.Instruction
	fieldWritten = func(addr ssa.Value) ssa.Instruction {
		if addr.Referrers() == nil {
			return nil
		}
		for _, ref := range *addr.Referrers() {
			switch y := ref.(type) {
			case *ssa.Store:
				if y.Addr == addr {
					return y
				}
			case *ssa.FieldAddr:
				if in := fieldWritten(y); in != nil {
					return in
				}
			case *ssa.IndexAddr:
				if in := fieldWritten(y); in != nil {
					return in
				}
			}
		}
		return nil
	}
	for _, ref := range *a.Referrers() {
		switch y := ref.(type) {
		case *ssa.Store:
			if y.Addr == ssa.Value(a) {
				stores++
				t.trace(fn, y.Val, ret, depth+1)
			}
		case *ssa.FieldAddr:
			if in := fieldWritten(y); in != nil {
				t.add(fn, a, ret, "other", "the list is edited in place at "+r.Where(in))
			}
		case *ssa.MakeClosure:
			// a function literal that captures the local may assign it
			cl, _ := y.Fn.(*ssa.Function)
			if cl == nil {
				continue
			}
			for i, b := range y.Bindings {
				if b != ssa.Value(a) || i >= len(cl.FreeVars) {
					continue
				}
				fv := cl.FreeVars[i]
				if fv.Referrers() == nil {
					continue
				}
				for _, fr := range *fv.Referrers() {
					switch z := fr.(type) {
					case *ssa.Store:
						if z.Addr == ssa.Value(fv) {
							stores++
							t.trace(cl, z.Val, nil, depth+1)
						}
					case *ssa.FieldAddr:
						if in := fieldWritten(z); in != nil {
							t.add(cl, fv, nil, "other", "the list is edited in place at "+r.Where(in))
						}
					case *ssa.MakeClosure:
						t.add(cl, fv, nil, "other", "undecided: the list variable is captured two levels deep")
					}
				}
			}
		}
	}
	if stores == 0 {
		// declared and never assigned: the zero list
		t.add(fn, a, ret, "empty", "")
	}
}

func c17SamePkg(a, b *ssa.Function) bool {
	pa, pb := fnPkg(a), fnPkg(b)
	return pa != nil && pb != nil && pa.Path() == pb.Path()
}

// c17ElemOf: v is chain[idx] — returns the chain and the index value.
func c17ElemOf(v ssa.Value) (chain, idx ssa.Value) {
	ld, ok := v.(*ssa.UnOp)
	if !ok || ld.Op != token.MUL {
		return nil, nil
	}
	ia, ok := ld.X.(*ssa.IndexAddr)
	if !ok {
		return nil, nil
	}
	return ia.X, ia.Index
}

// c17IsLastIndex: idx is len(chain) - 1.
func c17IsLastIndex(r *Run, idx, chain ssa.Value) bool {
	b, ok := idx.(*ssa.BinOp)
	if !ok || b.Op != token.SUB {
		return false
	}
	one, ok := b.Y.(*ssa.Const)
	if !ok || constString(one) != "1" {
		return false
	}
	c, ok := b.X.(*ssa.Call)
	if !ok {
		return false
	}
	bi, ok := c.Call.Value.(*ssa.Builtin)
	if !ok || bi.Name() != "len" || len(c.Call.Args) != 1 {
		return false
	}
	return c.Call.Args[0] == chain || r.D.D(c.Call.Args[0]) == r.D.D(chain)
}

func c17IsCertChain(t types.Type) bool {
	return strings.HasSuffix(types.TypeString(t, nil), "[]*"+ModPath+"/x509.Certificate")
}

// c17FreshChain: v is (on every path) a result of a call that is given the raw chain of this
// submission — the chain was parsed / validated from this call's input, not remembered.
func c17FreshChain(r *Run, v ssa.Value, pRaw string) bool {
	srcs := []ssa.Value{v}
	if ph, ok := v.(*ssa.Phi); ok {
		srcs = PhiLeaves(ph, nil)
	}
	for _, sv := range srcs {
		var mk *ssa.Call
		switch y := sv.(type) {
		case *ssa.Extract:
			mk, _ = y.Tuple.(*ssa.Call)
		case *ssa.Call:
			mk = y
		}
		fresh := false
		if mk != nil {
			for _, av := range mk.Call.Args {
				if c17Strip(r.D.D(av)) == pRaw {
					fresh = true
				}
			}
		}
		if !fresh {
			return false
		}
	}
	return len(srcs) > 0
}

// c17FreshSelection (C17.R9).
func c17FreshSelection(r *Run) {
	fn := r.Fn("(*submission.Distributor).addSomeChain")
	if fn == nil {
		return
	}
	rawIdx := paramOfType(fn, func(t types.Type) bool { return types.TypeString(t, nil) == "[][]byte" })
	if rawIdx < 0 {
		r.Fail("selection:raw-chain-parameter", r.FnPos(fn), "undecided: addSomeChain has no single [][]byte parameter")
		return
	}
	pRaw := fmt.Sprintf("p%d", rawIdx)

	// who may start a submission, and with which groups
	callers := r.CallersOf("submission.GetSCTs")
	nSub := 0
	var policyCalls []ssa.CallInstruction
	for _, k := range keysOf(callers) {
		cf := r.P.Func(k)
		if !r.Check("who:GetSCTs@"+k, cf != nil && c17Within(cf, fn), r.Where(callers[k][0]),
			k+" starts a multi-log submission (only addSomeChain, which selects the compatible logs first, may)") {
			continue
		}
		for _, gc := range callers[k] {
			nSub++
			args := CallArgs(gc)
			var pc ssa.CallInstruction
			if len(args) == 5 {
				if ex, ok := args[4].(*ssa.Extract); ok && ex.Index == 0 {
					if c, ok := ex.Tuple.(*ssa.Call); ok && c.Parent() == cf && glob("iface(ctpolicy.CTPolicy).LogsByGroup", CalleeOf(c)) {
						pc = c
					}
				}
			}
			if !r.Check("submission:groups-from-policy@"+k, pc != nil, r.Where(gc), "the groups raced are the result of a LogsByGroup call made here") {
				continue
			}
			policyCalls = append(policyCalls, pc)
		}
	}
	r.Floor("GetSCTs calls", nSub, 1)

	nCompat := 0
	for _, pc := range policyCalls {
		args := CallArgs(pc) // policy, cert, list
		where := r.Where(pc)
		k := short(FuncName(pc.Parent()))
		if len(args) != 3 {
			r.Fail("selection:policy-call@"+k, where, "undecided: LogsByGroup does not take (cert, list)")
			continue
		}
		pol, lst := c17Strip(r.D.D(args[0])), c17Strip(r.D.D(args[2]))
		if pol == "p0.pendingLogsPolicy" || lst == "p0.pendingQualifiedLl" {
			// the side submission to pending / qualified logs: its own list, its own policy
			r.Check("selection:pending@"+k, pol == "p0.pendingLogsPolicy" && lst == "p0.pendingQualifiedLl", where,
				"the pending-logs policy sees the pending/qualified list and nothing else: "+pol+" over "+lst)
			continue
		}
		r.Check("selection:policy@"+k, pol == "p0.policy", where, "the policy asked is the distributor's: "+pol)
		a := baseAlloc(args[2])
		if a == nil || a.Parent() != pc.Parent() {
			r.Fail("selection:list@"+k, where, "the log list handed to the policy is not a list made in this call: "+clipStr(r.D.D(args[2]), 120))
			continue
		}
		t := &c17ListTracer{r: r, seen: map[ssa.Value]bool{}}
		t.local(pc.Parent(), a, nil, 0)
		for _, s := range t.out {
			switch s.kind {
			case "empty":
				continue
			case "other":
				r.Fail("selection:list-source@"+short(FuncName(s.fn)), r.Where(c17InstrOf(s.v, pc)), "the log list handed to the policy can be a value that was not computed by Compatible() for this certificate: "+s.why)
				continue
			}
			nCompat++
			c := s.v.(*ssa.Call)
			ca := CallArgs(c) // list, cert, root, roots
			key := "selection:compatible@" + short(FuncName(s.fn))
			recv := c17Strip(r.D.D(ca[0]))
			r.Check(key+":usable-list", recv == "p0.usableLl", r.Where(c), "Compatible() filters the distributor's usable list: "+recv)
			// the certificate whose NotAfter selects the temporal shards: element 0 of a chain made from this
			// call's raw chain (on every path, when the value is merged from several)
			leafOK, leafWhy := true, ""
			for _, lv := range PhiLeaves(ca[1], nil) {
				chain, idx := c17ElemOf(lv)
				i0, _ := idx.(*ssa.Const)
				switch {
				case chain == nil || i0 == nil || constString(i0) != "0":
					leafOK, leafWhy = false, "not element 0 of a chain"
				case !c17FreshChain(r, chain, pRaw):
					leafOK, leafWhy = false, "of a chain that is not parsed / validated from the raw chain of this call ("+pRaw+")"
				}
			}
			r.Check(key+":this-certificate", leafOK, r.Where(c), "the certificate whose NotAfter selects the temporal shards is the leaf of the chain parsed / validated from this call's raw chain "+leafWhy+": "+clipStr(r.D.D(ca[1]), 120))
			// ... and so is the chain handed on together with the list (the one that is submitted)
			if s.ret != nil {
				for i, rv := range RetVals(s.ret) {
					if c17IsCertChain(rv.Type()) {
						r.Check(key+":chain-handed-on", c17FreshChain(r, rv, pRaw), r.Where(s.ret), fmt.Sprintf("result %d, the chain that is submitted, is parsed / validated from the same raw chain: %s", i, clipStr(r.D.D(rv), 120)))
					}
				}
			}
			// root: unknown (nil) or the last certificate of such a chain, and then decided on the recorded roots
			rootOK, mayBeKnown := true, false
			for _, rv := range PhiLeaves(ca[2], nil) {
				if isNilConst(rv) {
					continue
				}
				mayBeKnown = true
				rc, ridx := c17ElemOf(rv)
				if rc == nil || !c17IsLastIndex(r, ridx, rc) || !c17FreshChain(r, rc, pRaw) {
					rootOK = false
				}
			}
			r.Check(key+":root", rootOK, r.Where(c), "the root asked about is nil (unknown) or the last certificate of the chain validated from this call's raw chain: "+clipStr(r.D.D(ca[2]), 120))
			if mayBeKnown {
				roots := c17Strip(r.D.D(ca[3]))
				r.Check(key+":accepted-roots", roots == "p0.logRoots", r.Where(c), "root compatibility is decided on the recorded accepted roots: "+roots)
			}
		}
	}
	r.Floor("Compatible() results that reach the policy", nCompat, 1)
}

// c17InstrOf: an instruction to report a value at.
func c17InstrOf(v ssa.Value, dflt ssa.Instruction) ssa.Instruction {
	if in, ok := v.(ssa.Instruction); ok {
		return in
	}
	return dflt
}

// ---- C17.R5: operator predicates of the Chrome policy, found by what they do ------

// c17PredicateKind classifies the operator predicate handed to populate(): "google" when it
// is (*loglist3.Operator).GoogleOperated itself (method expression, with or without thunk) or a
// function whose every return is GoogleOperated(its parameter); "non-google" when every return
// is the negation; otherwise the rendering of what it returns.
func c17PredicateKind(r *Run, v ssa.Value) string {
	f := c17FuncOf(v)
	if f == nil {
		return "undecided: " + r.D.D(v)
	}
	const m = "(*loglist3.Operator).GoogleOperated"
	if FuncName(f) == m {
		return "google"
	}
	if len(f.Blocks) == 0 {
		return "undecided: " + FuncName(f) + " has no body"
	}
	kind := ""
	for _, ret := range Returns(f) {
		if ret.Block().Comment == "recover" || len(ret.Results) != 1 {
			continue
		}
		k := ""
		switch d := r.D.D(RetVals(ret)[0]); d {
		case m + "(p0)":
			k = "google"
		case "!" + m + "(p0)":
			k = "non-google"
		default:
			return "selects " + clipStr(d, 100)
		}
		if kind != "" && kind != k {
			return "selects differently on different paths"
		}
		kind = k
	}
	if kind == "" {
		return "undecided: no return"
	}
	return kind
}

// c17OperatorGroups: the two operator groups of the Chrome policy — each populate() call of
// LogsByGroup fills a group that then gets its minimum, one with the Google-operated
// predicate, the other with its negation.
func c17OperatorGroups(r *Run, fn *ssa.Function) {
	pops := CallsTo(fn, "(*ctpolicy.LogGroupInfo).populate")
	mins := CallsTo(fn, "(*ctpolicy.LogGroupInfo).setMinInclusions")
	got := map[string]int{}
	for _, pc := range pops {
		args := CallArgs(pc)
		if len(args) != 3 {
			r.Fail("Chrome:operator-predicate", r.Where(pc), "undecided: populate() does not take (list, predicate)")
			continue
		}
		k := c17PredicateKind(r, args[2])
		got[k]++
		switch k {
		case "google":
			r.Pass("Chrome:google-predicate", r.Where(pc), "Google group selects (*loglist3.Operator).GoogleOperated(op)")
		case "non-google":
			r.Pass("Chrome:non-google-predicate", r.Where(pc), "non-Google group selects !(*loglist3.Operator).GoogleOperated(op)")
		default:
			r.Fail("Chrome:operator-predicate", r.Where(pc), "an operator group "+k+" (expected GoogleOperated or its negation)")
		}
		// the group filled here is one of those that get a minimum
		ga := baseAlloc(args[0])
		tied := false
		for _, mc := range mins {
			if ga != nil && baseAlloc(CallArgs(mc)[0]) == ga {
				tied = true
			}
		}
		r.Check("Chrome:operator-group-has-minimum", tied, r.Where(pc), "the group populated here is given its minimum by setMinInclusions")
	}
	r.Check("Chrome:one-google-one-non-google", len(pops) == 2 && got["google"] == 1 && got["non-google"] == 1, r.FnPos(fn),
		fmt.Sprintf("%d operator groups populated: %d by GoogleOperated, %d by its negation", len(pops), got["google"], got["non-google"]))
}

// ---- C17.R3: each race gets the group of its own iteration ----------------------

// c17RaceLiteral: the function literal of GetSCTs that runs a group race (the only caller of
// groupRace), wherever it stands among the literals.
func c17RaceLiteral(r *Run, fn *ssa.Function) (*ssa.Function, ssa.CallInstruction) {
	callers := r.CallersOf("submission.groupRace")
	var clo *ssa.Function
	var call ssa.CallInstruction
	for _, k := range keysOf(callers) {
		cf := r.P.Func(k)
		ok := cf != nil && cf != fn && c17Within(cf, fn)
		r.Check("who:groupRace@"+k, ok, r.Where(callers[k][0]), k+" runs a group race (only a goroutine started by GetSCTs may)")
		if ok && clo == nil && len(callers[k]) == 1 {
			clo, call = cf, callers[k][0]
		} else if ok {
			r.Fail("GetSCTs:race", r.Where(callers[k][0]), "undecided: more than one groupRace call")
			return nil, nil
		}
	}
	if clo == nil {
		r.Fail("GetSCTs:race", r.FnPos(fn), "undecided: no function literal of GetSCTs calls groupRace")
		return nil, nil
	}
	r.Funcs[FuncName(clo)] = true
	r.Pass("GetSCTs:race", r.Where(call), FuncName(clo)+" runs the race")
	return clo, call
}

// c17RaceOwnGroup: the group handed to groupRace is the value of the enclosing `range groups`
// iteration in which the goroutine was started — either the literal's own parameter, bound by
// the go statement to the range value, or the captured per-iteration range variable itself.
func c17RaceOwnGroup(r *Run, fn, clo *ssa.Function, call ssa.CallInstruction, gi int) {
	pg := paramOfType(fn, func(t types.Type) bool { return strings.HasSuffix(types.TypeString(t, nil), "ctpolicy.LogPolicyData") })
	if pg < 0 {
		r.Fail("GetSCTs:race.group", r.Where(call), "undecided: GetSCTs has no single LogPolicyData parameter")
		return
	}
	own := fmt.Sprintf("rangeval(p%d)", pg)
	got := r.D.D(CallArgs(call)[gi])
	if got == "^"+own {
		r.Pass("GetSCTs:race.group", r.Where(call), "the race gets the captured per-iteration group "+got)
		return
	}
	// the literal's own parameter: what does the go statement bind it to?
	for i, p := range clo.Params {
		if CallArgs(call)[gi] != ssa.Value(p) {
			continue
		}
		n, ok := 0, true
		bound := ""
		eachInstr(fn, func(in ssa.Instruction) {
			g, isGo := in.(*ssa.Go)
			if !isGo || c17FuncOf(g.Call.Value) != clo {
				return
			}
			n++
			if i >= len(g.Call.Args) {
				ok = false
				return
			}
			bound = r.D.D(g.Call.Args[i])
			if bound != own {
				ok = false
			}
		})
		r.Check("GetSCTs:race.group", n >= 1 && ok, r.Where(call), fmt.Sprintf("the race gets parameter %d of the goroutine, which the go statement binds to %s (expected %s, the group of its own iteration)", i, bound, own))
		return
	}
	r.Fail("GetSCTs:race.group", r.Where(call), fmt.Sprintf("arg %d of submission.groupRace = %s (expected the group of the goroutine's own iteration: its parameter bound to %s, or ^%s)", gi, got, own, own))
}
