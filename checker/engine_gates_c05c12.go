package main

import (
	"fmt"
	"go/token"
	"go/types"
	"sort"
	"strconv"
	"strings"

	"golang.org/x/tools/go/ssa"
)

// Local PSR extensions used by the C05 / C12 rules (kept out of the shared files):
//
//   * atom binding restricted to the blocks of a walk ("the gate exists inside this switch case"),
//   * valuations composed of several rule atoms (AtomSet) on top of a base valuation,
//   * the valuation induced by "scrutinee == x" for an arbitrary integer x (so that a
//     decision over an 8/16-bit code can be enumerated for every code, not only for the
//     constants that are compared),
//   * gates: "with the atom bad, no accepting return may execute",
//   * verdict shapes: a verifier-shaped function returns nil only where allowed,
//   * RspError shapes.

// AtomSet fixes one rule atom to one domain value (ord values are relative to OrdA/OrdB).
type AtomSet struct {
	Atom RuleAtom
	Val  string
}

func (a AtomSet) String() string {
	if a.Atom.OrdA != "" {
		return a.Atom.OrdA + " " + a.Val + " " + a.Atom.OrdB
	}
	return a.Atom.Pat + "=" + a.Val
}

// atomsWithin lists the atoms of the branch conditions of the blocks selected by
// within (nil = all blocks of fn), including conditions merged through φ.
func (d *Describer) atomsWithin(fn *ssa.Function, within *Reach) map[string]*CondInfo {
	out := map[string]*CondInfo{}
	var visit func(v ssa.Value, depth int)
	visit = func(v ssa.Value, depth int) {
		if depth > 6 {
			return
		}
		if _, ok := isBoolConst(v); ok {
			return
		}
		switch x := v.(type) {
		case *ssa.Phi:
			for _, e := range x.Edges {
				visit(e, depth+1)
			}
			return
		case *ssa.UnOp:
			if x.Op == token.NOT {
				visit(x.X, depth+1)
				return
			}
		}
		ci := d.Classify(v)
		out[ci.Key] = ci
	}
	for _, b := range fn.Blocks {
		if within != nil && !within.Blocks[b] {
			continue
		}
		if len(b.Instrs) == 0 {
			continue
		}
		if ifi, ok := b.Instrs[len(b.Instrs)-1].(*ssa.If); ok {
			visit(ifi.Cond, 0)
		}
	}
	return out
}

func flipRel(v string) string {
	switch v {
	case "<":
		return ">"
	case ">":
		return "<"
	}
	return v
}

// bindSets resolves rule atoms against the atoms found (optionally only inside a
// walk) and returns base extended by them.  An atom that binds nothing is an error.
func (r *Run) bindSets(fn *ssa.Function, base Sigma, within *Reach, sets ...AtomSet) (Sigma, []string, error) {
	found := r.D.atomsWithin(fn, within)
	keys := keysOf(found)
	s := Sigma{}
	for k, v := range base {
		s[k] = v
	}
	var bound []string
	for _, as := range sets {
		n := 0
		for _, k := range keys {
			ci := found[k]
			if as.Atom.OrdA != "" {
				if ci.Kind != "ord" {
					continue
				}
				if glob(as.Atom.OrdA, ci.A) && glob(as.Atom.OrdB, ci.B) {
					s[k] = as.Val
				} else if glob(as.Atom.OrdA, ci.B) && glob(as.Atom.OrdB, ci.A) {
					s[k] = flipRel(as.Val)
				} else {
					continue
				}
			} else if glob(as.Atom.Pat, k) {
				s[k] = as.Val
			} else {
				continue
			}
			n++
			bound = append(bound, k)
		}
		if n == 0 {
			return s, bound, fmt.Errorf("no branch condition of %s tests %s%s~%s", FuncName(fn), as.Atom.Pat, as.Atom.OrdA, as.Atom.OrdB)
		}
	}
	return s, bound, nil
}

// constSigma is the valuation of all comparisons "X op const" of fn (X selected by
// xGlob) that a run with X == x produces.  n is the number of comparisons bound.
func (d *Describer) constSigma(fn *ssa.Function, xGlob string, x int64) (Sigma, int) {
	s := Sigma{}
	n := 0
	rel := func(a, b int64) string {
		switch {
		case a < b:
			return "<"
		case a == b:
			return "="
		}
		return ">"
	}
	for k, ci := range d.AtomsOf(fn) {
		if ci.Kind != "ord" {
			continue
		}
		if glob(xGlob, ci.A) {
			if c, err := strconv.ParseInt(ci.B, 10, 64); err == nil {
				s[k] = rel(x, c)
				n++
			}
		} else if glob(xGlob, ci.B) {
			if c, err := strconv.ParseInt(ci.A, 10, 64); err == nil {
				s[k] = rel(c, x)
				n++
			}
		}
	}
	return s, n
}

// nilErrReturns: the returns whose last result is the nil error constant — the returns
// through which a caller is told "fine".
func nilErrReturns(fn *ssa.Function) []*ssa.Return {
	var out []*ssa.Return
	for _, ret := range Returns(fn) {
		if n := len(ret.Results); n > 0 && errKind(ret.Results[n-1]) == "nil" {
			out = append(out, ret)
		}
	}
	return out
}

func anyReach(reach *Reach, rets []*ssa.Return) *ssa.Return {
	for _, ret := range rets {
		if reach.Has(ret) {
			return ret
		}
	}
	return nil
}

// Gate: inside the walk `within` (nil = whole function) the atom must exist, and with
// the atom at a bad value (on top of base) none of the accepting returns may execute;
// noExec instructions (e.g. the cryptographic verifier) must not execute either.
func (r *Run) Gate(fn *ssa.Function, key string, base Sigma, within *Reach, atom RuleAtom, bad string, accept []*ssa.Return, noExec []ssa.Instruction, what string) bool {
	ok := true
	detail := ""
	var boundAll []string
	for _, b := range strings.Split(bad, ",") {
		s, bound, err := r.bindSets(fn, base, within, AtomSet{atom, b})
		if err != nil {
			// the value is not tested by a branch condition of its own: it may be merged with the
			// errors of the neighbouring steps and tested once ("convert, verify, one error exit")
			if s2, bound2 := r.bindMerged(fn, base, within, atom, b); len(bound2) > 0 {
				s, bound, err = s2, bound2, nil
			}
		}
		if err != nil {
			return r.Check(key, false, r.FnPos(fn), "undecided: "+err.Error()+" on this path (the check for '"+what+"' is missing)")
		}
		boundAll = bound
		reach := r.walkR(fn, s, nil, -1)
		r.Valuations++
		if ret := anyReach(reach, accept); ret != nil {
			ok = false
			detail = fmt.Sprintf("%s: the accepting return at %s may execute under %s", what, r.Where(ret), s)
		}
		for _, m := range noExec {
			if reach.Has(m) {
				ok = false
				detail = fmt.Sprintf("%s: %s at %s may still execute under %s", what, instrName(m), r.Where(m), s)
			}
		}
	}
	if ok {
		detail = fmt.Sprintf("%s ⇒ no accepting return (atom %v ∈ {%s})", what, boundAll, bad)
	}
	return r.Check(key, ok, r.FnPos(fn), detail)
}

func instrName(in ssa.Instruction) string {
	if ci, ok := in.(ssa.CallInstruction); ok {
		return "call " + CalleeOf(ci)
	}
	return in.String()
}

// VerdictShape: every return of a function whose last result is the verdict (error)
// is one of
//   - the result of a call matching one of verdictGlobs (the delegated verdict),
//   - an error that is non-nil by construction,
//   - a dynamic error value that is provably non-nil at that return,
//   - the nil constant, only if allowNil accepts that return.
//
// Returns the delegated-verdict calls found.
func (r *Run) VerdictShape(fn *ssa.Function, key string, verdictGlobs string, allowNil func(ret *ssa.Return) (bool, string)) []ssa.CallInstruction {
	var delegated []ssa.CallInstruction
	for _, ret := range Returns(fn) {
		n := len(ret.Results)
		if n == 0 {
			r.Fail(key, r.Where(ret), "return without results")
			continue
		}
		ev := ret.Results[n-1]
		desc := r.D.D(ev)
		k := key + "#ret[" + shortErr(desc) + "]"
		if c := callOfValue(ev); c != nil {
			k = key + "#ret[" + CalleeOf(c) + "]"
		}
		if c := callOfValue(ev); c != nil && anyGlob(verdictGlobs, CalleeOf(c)) {
			delegated = append(delegated, c)
			r.Pass(k, r.Where(ret), "returns the verdict of "+CalleeOf(c))
			continue
		}
		switch errKind(ev) {
		case "non":
			r.Pass(k, r.Where(ret), "returns a constructed (non-nil) error")
		case "nil":
			if allowNil != nil {
				if ok, why := allowNil(ret); ok {
					r.Pass(k, r.Where(ret), "returns nil: "+why)
					continue
				} else if why != "" {
					r.Fail(k, r.Where(ret), "returns nil without a verdict: "+why)
					continue
				}
			}
			r.Fail(k, r.Where(ret), "returns nil (success) without the verdict of "+verdictGlobs)
		default:
			r.MustGuard(fn, k, "nil?"+desc, "nil", []ssa.Instruction{ret}, "return of "+shortErr(desc))
		}
	}
	return delegated
}

// callOfValue: the call a value is a (single or extracted) result of, through interface boxing.
func callOfValue(v ssa.Value) ssa.CallInstruction {
	for i := 0; i < 4; i++ {
		switch x := v.(type) {
		case *ssa.Call:
			return x
		case *ssa.Extract:
			v = x.Tuple
		case *ssa.MakeInterface:
			v = x.X
		case *ssa.ChangeInterface:
			v = x.X
		default:
			return nil
		}
	}
	return nil
}

// sameResult: both values are result i of the same call (a leading dereference is ignored).
func sameResult(a, b ssa.Value) bool {
	strip := func(v ssa.Value) ssa.Value {
		if u, ok := v.(*ssa.UnOp); ok && u.Op == token.MUL {
			return u.X
		}
		return v
	}
	a, b = strip(a), strip(b)
	if a == b {
		return true
	}
	ea, ok1 := a.(*ssa.Extract)
	eb, ok2 := b.(*ssa.Extract)
	return ok1 && ok2 && ea.Tuple == eb.Tuple && ea.Index == eb.Index
}

// ---- RspError shapes ---------------------------------------------------------

func isRspErrorType(t types.Type) bool {
	n, ok := types.Unalias(t).(*types.Named)
	return ok && n.Obj().Name() == "RspError" && n.Obj().Pkg() != nil && strings.HasSuffix(n.Obj().Pkg().Path(), "/jsonclient")
}

// rspErrorAlloc: the local RspError literal boxed into the returned error, if any.
func rspErrorAlloc(ev ssa.Value) *ssa.Alloc {
	mi, ok := ev.(*ssa.MakeInterface)
	if !ok || !isRspErrorType(mi.X.Type()) {
		return nil
	}
	return baseAlloc(mi.X)
}

// wantRspError: the error is an RspError literal whose StatusCode / Body come from the
// received response (globs over origin terms), whose Err is not the nil constant, and
// all other results are nil.
func wantRspError(fn *ssa.Function, statusGlob, bodyGlob string) func(r *Run, ret *ssa.Return) (bool, string) {
	return func(r *Run, ret *ssa.Return) (bool, string) {
		n := len(ret.Results)
		for i := 0; i < n-1; i++ {
			if d := r.D.D(ret.Results[i]); d != "nil" {
				return false, fmt.Sprintf("result %d is %s on an error return (partially filled result)", i, d)
			}
		}
		a := rspErrorAlloc(ret.Results[n-1])
		if a == nil {
			return false, "error " + shortErr(r.D.D(ret.Results[n-1])) + " is not a jsonclient.RspError literal (HTTP status and body are lost)"
		}
		name := r.D.allocName(a)
		for f, g := range map[string]string{"StatusCode": statusGlob, "Body": bodyGlob} {
			sts := r.StoresTo(fn, "&("+name+"."+f+")")
			if len(sts) == 0 {
				return false, "RspError." + f + " is not set"
			}
			for _, st := range sts {
				if got := r.D.D(st.Val); !anyGlob(g, got) {
					return false, fmt.Sprintf("RspError.%s ← %s, expected %s", f, got, g)
				}
			}
		}
		sts := r.StoresTo(fn, "&("+name+".Err)")
		if len(sts) == 0 {
			return false, "RspError.Err is not set"
		}
		for _, st := range sts {
			if errKind(st.Val) == "nil" {
				return false, "RspError.Err is nil"
			}
		}
		return true, ""
	}
}

// EdgeAll: like FailEdge but for a conjunction of atoms; the walk starts at the
// block(s) testing the first atom.
func (r *Run) EdgeAll(fn *ssa.Function, key string, sets []AtomSet, want func(r *Run, ret *ssa.Return) (bool, string), unreach []ssa.Instruction) {
	s, bound, err := r.bindSets(fn, nil, nil, sets...)
	if err != nil {
		r.Fail(key, r.FnPos(fn), "undecided: "+err.Error())
		return
	}
	first, _, _ := r.bindSets(fn, nil, nil, sets[0])
	blocks := r.blocksTesting(fn, func(ci *CondInfo) bool { _, ok := first[ci.Key]; return ok })
	if len(blocks) == 0 {
		r.Fail(key, r.FnPos(fn), "undecided: atom bound but no block tests it directly")
		return
	}
	ok, detail, nret := true, "", 0
	for _, b := range blocks {
		reach := r.D.Walk(fn, s, b, nil)
		r.Valuations++
		for _, ret := range reachableReturns(fn, reach) {
			nret++
			if good, why := want(r, ret); !good {
				ok = false
				detail = fmt.Sprintf("under %s the return at %s is reachable: %s", s, r.Where(ret), why)
			}
		}
		for _, m := range unreach {
			if m.Block() != b && reach.Has(m) {
				ok = false
				detail = fmt.Sprintf("under %s %s at %s may still execute", s, instrName(m), r.Where(m))
			}
		}
	}
	if ok && nret == 0 {
		ok, detail = false, "no return reachable after the failure (undecided)"
	}
	if ok {
		sort.Strings(bound)
		detail = fmt.Sprintf("all %d reachable returns conform; atoms %v", nret, bound)
	}
	r.Check(key, ok, r.Where(blocks[0].Instrs[len(blocks[0].Instrs)-1]), detail)
}

// storesInto lists the stores of fn whose address lies inside the allocation a.
func storesInto(fn *ssa.Function, a *ssa.Alloc) []*ssa.Store {
	var out []*ssa.Store
	eachInstr(fn, func(in ssa.Instruction) {
		if st, ok := in.(*ssa.Store); ok && addrBase(st.Addr) == a {
			out = append(out, st)
		}
	})
	return out
}

func addrBase(v ssa.Value) *ssa.Alloc {
	for i := 0; i < 8 && v != nil; i++ {
		switch x := v.(type) {
		case *ssa.Alloc:
			return x
		case *ssa.FieldAddr:
			v = x.X
		case *ssa.IndexAddr:
			v = x.X
		default:
			return nil
		}
	}
	return nil
}

// executesBefore: instruction a always executes before b when b executes (same block
// and earlier, or a's block strictly dominates b's block).
func executesBefore(a, b ssa.Instruction) bool {
	if a.Block() == b.Block() {
		for _, in := range a.Block().Instrs {
			if in == a {
				return true
			}
			if in == b {
				return false
			}
		}
	}
	return a.Block().Dominates(b.Block())
}

// mayExecuteAfter: instruction a can execute after b has executed (a follows b in b's
// block, or a's block is CFG-reachable from a successor of b's block).
func mayExecuteAfter(a, b ssa.Instruction) bool {
	if a.Block() == b.Block() {
		seenB := false
		for _, in := range a.Block().Instrs {
			if in == b {
				seenB = true
			} else if in == a && seenB {
				return true
			}
		}
	}
	seen := map[*ssa.BasicBlock]bool{}
	work := append([]*ssa.BasicBlock(nil), b.Block().Succs...)
	for len(work) > 0 {
		x := work[len(work)-1]
		work = work[:len(work)-1]
		if seen[x] {
			continue
		}
		seen[x] = true
		if x == a.Block() {
			return true
		}
		work = append(work, x.Succs...)
	}
	return false
}

// ---- values held in a local copy / decoded in place -----------------------------------

// localCopySource: when the allocation a is a plain local copy at instruction `use` — the only
// store into a (or any part of it) is one whole-value store in use's block before use, and between
// that store and use no call receives an address inside a — it returns the value copied. This is
// the `x := xs[i]` of a range loop (or any temporary): at `use`, *a is that value of the same
// iteration. nil when that cannot be established.
func localCopySource(fn *ssa.Function, a *ssa.Alloc, use ssa.Instruction) ssa.Value {
	if a == nil || use == nil {
		return nil
	}
	sts := storesInto(fn, a)
	if len(sts) != 1 || sts[0].Addr != ssa.Value(a) || sts[0].Block() != use.Block() {
		return nil
	}
	seen := false
	for _, in := range use.Block().Instrs {
		if in == ssa.Instruction(sts[0]) {
			seen = true
			continue
		}
		if in == use {
			if !seen {
				return nil
			}
			return sts[0].Val
		}
		if !seen {
			continue
		}
		if c, ok := in.(ssa.CallInstruction); ok {
			for _, arg := range c.Common().Args {
				if addrBase(arg) == a {
					return nil
				}
			}
		}
	}
	return nil
}

// pointeeTerm renders the value a pointer argument of the call `at` points to: the source of a
// local copy (`x := xs[i]; f(&x)` → xs[i]) or the addressed element itself (`f(&xs[i])` → xs[i]).
func (r *Run) pointeeTerm(fn *ssa.Function, ptr ssa.Value, at ssa.Instruction) (string, bool) {
	if a, ok := ptr.(*ssa.Alloc); ok {
		if w := localCopySource(fn, a, at); w != nil {
			return r.D.D(w), true
		}
		return r.D.D(ptr), false
	}
	if in, ok := stripAddr(r.D.D(ptr)); ok {
		return in, true
	}
	return r.D.D(ptr), false
}

// loadTerm renders a loaded value with a field read of a local copy resolved to the field of the
// value copied: `x := xs[i]; … x.f …` renders as xs[i].f, like the direct read xs[i].f does.
func (r *Run) loadTerm(fn *ssa.Function, v ssa.Value) string {
	u, ok := v.(*ssa.UnOp)
	if !ok || u.Op != token.MUL {
		return r.D.D(v)
	}
	var path []string
	x := u.X
	for {
		fa, ok := x.(*ssa.FieldAddr)
		if !ok {
			break
		}
		f := fieldOf(fa)
		if f == nil {
			return r.D.D(v)
		}
		path = append([]string{f.Name()}, path...)
		x = fa.X
	}
	a, ok := x.(*ssa.Alloc)
	if !ok {
		return r.D.D(v)
	}
	w := localCopySource(fn, a, u)
	if w == nil {
		return r.D.D(v)
	}
	s := r.D.D(w)
	for _, p := range path {
		s += "." + p
	}
	return s
}

// writesIntoField lists the stores of fn whose address is field `field` of the allocation s or lies
// inside that field.
func writesIntoField(fn *ssa.Function, s *ssa.Alloc, field string) []*ssa.Store {
	var out []*ssa.Store
	eachInstr(fn, func(in ssa.Instruction) {
		st, ok := in.(*ssa.Store)
		if !ok {
			return
		}
		v := st.Addr
		for i := 0; i < 8 && v != nil; i++ {
			switch x := v.(type) {
			case *ssa.FieldAddr:
				if f := fieldOf(x); x.X == ssa.Value(s) && f != nil && f.Name() == field {
					out = append(out, st)
					return
				}
				v = x.X
			case *ssa.IndexAddr:
				v = x.X
			default:
				return
			}
		}
	})
	return out
}

// ExpectDecodedField decides "field `field` of the struct built in the local allocation behind base
// holds what the decoder call um decoded into its argument argi (a value of type typ)". Two forms
// establish it: the target is a separate local of type typ and every store to the field (at least
// one) stores that local's value; or the target is the address of the field itself (decoded in
// place), the field has type typ, nothing else in fn writes the field or a part of it, and the
// struct is not overwritten as a whole once the decoder has run.
func (r *Run) ExpectDecodedField(fn *ssa.Function, keyInto, keyField string, base ssa.Value, field string, um ssa.CallInstruction, argi int, typ string) {
	s := baseAlloc(base)
	args := CallArgs(um)
	if s == nil || argi >= len(args) {
		r.Fail(keyField, r.Where(um), "undecided: value "+r.D.D(base)+" is not built in a local allocation")
		return
	}
	t := args[argi]
	if mi, ok := t.(*ssa.MakeInterface); ok {
		t = mi.X
	}
	got := r.D.D(t)
	switch x := t.(type) {
	case *ssa.Alloc:
		ok := x != s && TypeName(x.Type().(*types.Pointer).Elem()) == typ
		r.Check(keyInto, ok, r.Where(um), fmt.Sprintf("arg %d of %s = %s (expected a local %s, or the %s field of the result)", argi, CalleeOf(um), got, typ, field))
		r.ExpectStores(fn, keyField, "&("+r.D.allocName(s)+"."+field+")", "*"+r.D.allocName(x), 1)
		for _, fs := range r.StoresTo(fn, "&("+r.D.allocName(s)+"."+field+")") {
			for _, st := range storesInto(fn, s) {
				if st.Addr == ssa.Value(s) && mayExecuteAfter(st, fs) {
					r.Fail(keyField, r.Where(st), fmt.Sprintf("the whole struct is overwritten after its %s field was set from what %s decoded", field, CalleeOf(um)))
				}
			}
		}
		return
	case *ssa.FieldAddr:
		f := fieldOf(x)
		if x.X == ssa.Value(s) && f != nil && f.Name() == field && TypeName(f.Type()) == typ {
			r.Pass(keyInto, r.Where(um), fmt.Sprintf("arg %d of %s = %s: decodes in place into the %s field of the result", argi, CalleeOf(um), got, field))
			bad := ""
			for _, st := range writesIntoField(fn, s, field) {
				bad = fmt.Sprintf("%s <- %s at %s overwrites what %s decoded", r.D.D(st.Addr), r.D.D(st.Val), r.Where(st), CalleeOf(um))
			}
			for _, st := range storesInto(fn, s) {
				if st.Addr == ssa.Value(s) && mayExecuteAfter(st, um) {
					bad = fmt.Sprintf("the whole struct is overwritten at %s after %s decoded into it", r.Where(st), CalleeOf(um))
				}
			}
			if bad != "" {
				bad = ", but " + bad
			}
			r.Check(keyField, bad == "", r.Where(um), fmt.Sprintf("%s holds what %s decoded in place%s", r.D.D(t), CalleeOf(um), bad))
			return
		}
	}
	r.Fail(keyInto, r.Where(um), fmt.Sprintf("arg %d of %s = %s (expected a local %s, or the %s field of the result)", argi, CalleeOf(um), got, typ, field))
}

// nonNilAt: the error-typed value v is non-nil whenever block `at` executes — it is non-nil by
// construction (errKind "non"), or `at` is dominated by the edge of a branch that tested this very
// SSA value against nil and found it non-nil (`if v != nil {…at…}` / `if v == nil {…} else {…at…}`).
// This is what a helper that returns a value together with an error leaves behind when inlined:
// `return nil, φ(e|nil)` inside `if φ != nil`.
func nonNilAt(v ssa.Value, at *ssa.BasicBlock) bool {
	if errKind(v) == "non" {
		return true
	}
	if at == nil {
		return false
	}
	fn := at.Parent()
	for _, b := range fn.Blocks {
		if len(b.Instrs) == 0 || len(b.Succs) != 2 {
			continue
		}
		ifi, ok := b.Instrs[len(b.Instrs)-1].(*ssa.If)
		if !ok {
			continue
		}
		cond, neg := ifi.Cond, false
		for {
			u, ok := cond.(*ssa.UnOp)
			if !ok || u.Op != token.NOT {
				break
			}
			cond, neg = u.X, !neg
		}
		bo, ok := cond.(*ssa.BinOp)
		if !ok || (bo.Op != token.NEQ && bo.Op != token.EQL) {
			continue
		}
		if !((bo.X == v && isNilConst(bo.Y)) || (bo.Y == v && isNilConst(bo.X))) {
			continue
		}
		k := 0 // successor taken when v is non-nil
		if (bo.Op == token.EQL) != neg {
			k = 1
		}
		if edgeDominates(b, k, at) {
			return true
		}
	}
	return false
}

// ---- nil status of a value on the edge it travels over ------------------------------------

// nilCmpOf: the branch condition c is `v == nil` / `v != nil` (under any number of negations) for
// some v; eq tells whether the condition is true exactly when v is nil.
func nilCmpOf(c ssa.Value) (v ssa.Value, eq bool, ok bool) {
	neg := false
	for {
		u, isNot := c.(*ssa.UnOp)
		if !isNot || u.Op != token.NOT {
			break
		}
		c, neg = u.X, !neg
	}
	bo, isBin := c.(*ssa.BinOp)
	if !isBin || (bo.Op != token.EQL && bo.Op != token.NEQ) {
		return nil, false, false
	}
	switch {
	case isNilConst(bo.Y) && !isNilConst(bo.X):
		v = bo.X
	case isNilConst(bo.X) && !isNilConst(bo.Y):
		v = bo.Y
	default:
		return nil, false, false
	}
	return v, (bo.Op == token.EQL) != neg, true
}

// nilFactAt: what a dominating test of this very SSA value says about it whenever block `at`
// executes — "nil", "non" or "" (nothing known). `at` is dominated by one outcome edge of a branch on
// `v == nil` / `v != nil`; the test block dominates `at` and is dominated by v's definition, so the
// instance of v tested last is the one `at` sees.
func nilFactAt(v ssa.Value, at *ssa.BasicBlock) string {
	if at == nil {
		return ""
	}
	for _, b := range at.Parent().Blocks {
		if len(b.Instrs) == 0 || len(b.Succs) != 2 || b.Succs[0] == b.Succs[1] {
			continue
		}
		ifi, ok := b.Instrs[len(b.Instrs)-1].(*ssa.If)
		if !ok {
			continue
		}
		x, eq, ok := nilCmpOf(ifi.Cond)
		if !ok || x != v {
			continue
		}
		for k := 0; k < 2; k++ {
			if edgeDominates(b, k, at) {
				if (k == 0) == eq {
					return "nil"
				}
				return "non"
			}
		}
	}
	return ""
}

// nilOnEdge decides whether the value e is nil when control passes over the CFG edge P→B (e is what
// a φ of B receives over that edge): "nil", "non" or "" (unknown). Sources of knowledge, each valid
// for every dynamic instance of the edge: e is the nil constant / non-nil by construction; the
// valuation fixes nil?e; P ends in a nil test of e and B is one of its outcomes; a nil test of e
// dominates P; e is itself a φ and every value it can receive has the same known status on its edge.
func (r *Run) nilOnEdge(e ssa.Value, P, B *ssa.BasicBlock, s Sigma, depth int) string {
	if depth > 6 {
		return ""
	}
	if isNilConst(e) {
		return "nil"
	}
	if val, ok := s["nil?"+r.D.D(e)]; ok && (val == "nil" || val == "non") {
		return val
	}
	if _, isPhi := e.(*ssa.Phi); !isPhi && neverNil(e) {
		return "non"
	}
	if P != nil && B != nil && len(P.Instrs) > 0 && len(P.Succs) == 2 && P.Succs[0] != P.Succs[1] {
		if ifi, ok := P.Instrs[len(P.Instrs)-1].(*ssa.If); ok {
			if x, eq, ok := nilCmpOf(ifi.Cond); ok && x == e {
				if (P.Succs[0] == B) == eq {
					return "nil"
				}
				return "non"
			}
		}
	}
	if f := nilFactAt(e, P); f != "" {
		return f
	}
	if ph, ok := e.(*ssa.Phi); ok && len(ph.Edges) > 0 {
		res := ""
		for i, x := range ph.Edges {
			n := r.nilOnEdge(x, ph.Block().Preds[i], ph.Block(), s, depth+1)
			if n == "" || (i > 0 && n != res) {
				return ""
			}
			res = n
		}
		return res
	}
	return ""
}

// evalR evaluates a branch condition like Describer.Eval, but decides a nil test of a merged value
// by the status of the value that arrives over the edge taken (nilOnEdge: through nested φ-nodes and
// through tests that dominate the edge), and a repeated nil test by the outcome of the first one.
func (r *Run) evalR(cond ssa.Value, s Sigma, blk *ssa.BasicBlock, pred int) Tri {
	if x, eq, ok := nilCmpOf(cond); ok {
		if _, fixed := s["nil?"+r.D.D(x)]; !fixed {
			n := ""
			if ph, isPhi := x.(*ssa.Phi); isPhi && ph.Block() == blk {
				if pred >= 0 && pred < len(ph.Edges) {
					n = r.nilOnEdge(ph.Edges[pred], blk.Preds[pred], blk, s, 0)
				}
			} else {
				n = nilFactAt(x, blk)
				if _, isPhi := x.(*ssa.Phi); n == "" && isPhi {
					n = r.nilOnEdge(x, nil, nil, s, 0)
				}
			}
			if n != "" {
				if (n == "nil") == eq {
					return T
				}
				return F
			}
		}
	}
	return r.D.Eval(cond, s, blk, pred)
}

// walkR is Describer.Walk with evalR deciding the branch conditions: the blocks and edges that may
// execute under σ from block `from` (nil = entry), entered over its predecessor edge fromPred (-1 =
// unknown).
func (r *Run) walkR(fn *ssa.Function, s Sigma, from *ssa.BasicBlock, fromPred int) *Reach {
	type st struct {
		b    *ssa.BasicBlock
		pred int
	}
	if from == nil {
		from = fn.Blocks[0]
	}
	seen := map[st]bool{}
	out := &Reach{Blocks: map[*ssa.BasicBlock]bool{}, Edges: map[[2]int]bool{}}
	work := []st{{from, fromPred}}
	for len(work) > 0 {
		c := work[len(work)-1]
		work = work[:len(work)-1]
		if seen[c] {
			continue
		}
		seen[c] = true
		out.Blocks[c.b] = true
		succs := c.b.Succs
		if len(c.b.Instrs) > 0 {
			if ifi, ok := c.b.Instrs[len(c.b.Instrs)-1].(*ssa.If); ok && len(c.b.Succs) == 2 {
				switch r.evalR(ifi.Cond, s, c.b, c.pred) {
				case T:
					succs = c.b.Succs[:1]
				case F:
					succs = c.b.Succs[1:2]
				}
			}
		}
		for _, sb := range succs {
			pi := -1
			for i, p := range sb.Preds {
				if p == c.b {
					pi = i
					break
				}
			}
			out.Edges[[2]int{c.b.Index, sb.Index}] = true
			work = append(work, st{sb, pi})
		}
	}
	return out
}

// bindMerged resolves a nil atom that no branch condition tests on its own: the values matching it
// that are merged (φ) into a value some branch condition of fn (inside `within`) compares with nil.
// The valuation returned fixes the nil status of those values; evalR then decides the merged test on
// the edges over which they arrive.
func (r *Run) bindMerged(fn *ssa.Function, base Sigma, within *Reach, atom RuleAtom, val string) (Sigma, []string) {
	if !strings.HasPrefix(atom.Pat, "nil?") || (val != "nil" && val != "non") {
		return nil, nil
	}
	s := Sigma{}
	for k, v := range base {
		s[k] = v
	}
	var bound []string
	for _, b := range fn.Blocks {
		if (within != nil && !within.Blocks[b]) || len(b.Instrs) == 0 {
			continue
		}
		ifi, ok := b.Instrs[len(b.Instrs)-1].(*ssa.If)
		if !ok {
			continue
		}
		// the condition itself may be a φ of comparisons (short-circuit forms)
		for _, c := range phiLeaves(ifi.Cond) {
			x, _, ok := nilCmpOf(c)
			if !ok {
				continue
			}
			if _, isPhi := x.(*ssa.Phi); !isPhi {
				continue
			}
			for _, leaf := range phiLeaves(x) {
				k := "nil?" + r.D.D(leaf)
				if isNilConst(leaf) || !glob(atom.Pat, k) {
					continue
				}
				if _, dup := s[k]; !dup {
					bound = append(bound, k)
				}
				s[k] = val
			}
		}
	}
	sort.Strings(bound)
	return s, bound
}
