package main

import (
	"fmt"
	"go/token"
	"go/types"
	"strings"

	"golang.org/x/tools/go/ssa"
)

func init() {
	register("C14", "Decides structural necessary conditions of 'storing issuance chains outside the backend is invisible to readers': "+
		"(R1) every function of the front end that issues the backend's GetLeavesByRange / GetEntryAndProof (the rpc* wrapper, or the handler itself) is a declared function with one call site and is bound by R2; each handler reaches its RPC exactly once, itself or through the one function it calls that issues it; "+
		"(R2) a function that issues the RPC returns success only if FixLogLeaf returned nil for every leaf of the reply (the loop that fixes the leaves covers Leaves[0..len) and stands between the reply and every success return; a single leaf is skipped only when absent), its failure is a 500; "+
		"(R3) FixLogLeaf: every error of the chain lookup, of its ASN.1 decoding (incl. trailing bytes) and of re-encoding is returned; leaf.ExtraData is stored only on all-success paths with the re-encoded full structure; a hash-form layout with a non-empty hash always goes through the lookup (the lookup is skipped only for an empty hash); full-chain layouts return nil without touching the leaf; no layout matched ⇒ error; each of the four layouts is taken only on an exact match (extra data that fails to decode as it, or decodes with bytes left over, reaches the next probe without any lookup, decoding, re-encoding, store through the leaf or success) every layout is probed before any verdict when the others do not match, and a rewrite is final (no layout is probed on the re-inflated bytes, nil is returned); extra data that is exactly a hash layout is never answered with success as it is (from the match no return that may yield nil is reached before leaf.ExtraData was replaced); read per hypothetical length of the embedded hash, an empty hash needs no lookup and a non-empty hash of any length reaches the rewrite only through the lookup, and — when the writer embeds the empty hash for a path without issuers — an empty hash is expanded to the entry with an empty chain (with the re-encoding succeeding every return yields nil and the leaf is rewritten) — all of these decided on the value each return yields on the path that leads to it, whatever expression or local carries the verdict; "+
		"(R4) writer and reader use the identical Go types: every leaf the writer builds — at however many places — embeds (raw[0], h) with h the hash add() returned for asn1.Marshal(raw[1:]) of []ct.ASN1Cert, or a hash of length 0 only for a path without issuers (decided per path length the function's length tests can tell apart, on the value the hash argument has on the paths that length allows), what it returns is a leaf so built, and every error on the way is its verdict; the reader decodes into []ct.ASN1Cert and re-inflates PrecertChainEntry{PreCertificate ← stored, CertificateChain ← chain} / CertificateChain{Entries ← chain} — the types the in-backend mode writes; "+
		"(R5) add: key = SHA-256(chain), a storage error is returned, the cache is filled only after the storage write succeeded, a cache hit short-cuts only when err == nil and the entry is non-nil; getByHash: cache error or hit is returned as is, storage error is returned, the cache is filled only after a successful storage read — a local that function literals only read (the chain variable captured by the detached fill, assigned by the cache read and again by the storage read) is read where it stands: as the one assignment that reaches that read on every path, for a literal the one that reaches its making and is followed by none; "+
		"(R6) a chain read from storage is compared with its key (SHA-256) before either use: before it is served and before it is handed to the cache (cache hits are served unchecked); (R7) the four extra-data layouts have the prefix widths and byte bounds FixLogLeaf's discrimination assumes (the tags compared as the codec parses them: order and spelling of the six documented clauses do not matter, a clause with another key counts as absent only if C09.R3 decides that it is an allocation hint); "+
		"(R9) the cache only ever receives rows of the storage (what lets add skip the storage write on a cache hit): every call of the cache's Set anywhere in the module, followed through goroutines, helpers and wrappers to where its (key, chain) are produced, passes the chain read from storage under that key (and only once its SHA-256 has been compared with that key) or the pair just written to storage, only after that storage call succeeded; Set is never taken as a function value; the LRU behind the cache is inserted into only by Set with Set's own pair. "+
		"NOT covered: that a hash of length 0 cannot also be the SHA-256 of a stored chain is taken from SHA-256's output size, not decided; path lengths are told apart only by comparisons of len(raw) / len(raw[1:]) / len(chain) with constants (any other test leaves the writer's fact undecided = failed); mutual unambiguity of the four layouts for all byte strings, cache expiry/eviction timing, SQL storage behaviour, the detached cache.Set goroutine's schedule.",
		runC14)
}

func runC14(r *Run) {
	r.Assume("IssuanceChainStorage.FindByKey returns an error for unknown keys (sql.ErrNoRows in both SQL backends)")
	r.Rule("C14.R1")
	issuers := c14Who(r)

	// R2 is stated on whichever function of the front end issues the RPC (the rpc* wrapper, or the
	// handler itself when it makes the call where the wrapper used to be called): between the reply
	// and any success return of that function every leaf of the reply has passed FixLogLeaf.
	r.Rule("C14.R2")
	for _, rpc := range []string{"GetLeavesByRange", "GetEntryAndProof"} {
		reply := "iface(trillian.TrillianLogClient)." + rpc + "(*)#0"
		for _, fn := range c14SortedFuncs(issuers[rpc]) {
			w := short(FuncName(fn))
			li := c14LogInfoParam(fn)
			if li == "" {
				r.Fail(w+":fix.service", r.FnPos(fn), "undecided: "+FuncName(fn)+" issues "+rpc+" but has no single *logInfo parameter whose issuance chain service could be asked")
				continue
			}
			r.ErrorsGate(fn, w+":fix-gates-success", "iface(trillian/ctfe.leafChainBuilder).FixLogLeaf", 1)
			r.FailEdge(fn, w, EdgeSpec{Name: "fix-failed", Atom: nilAtom("iface(trillian/ctfe.leafChainBuilder).FixLogLeaf(*)"), Bad: "non", Want: wantStatus("500")})
			fix := CallsTo(fn, "iface(trillian/ctfe.leafChainBuilder).FixLogLeaf")
			for _, c := range fix {
				r.ExpectArg(c, w+":fix.service", 0, li+".issuanceChainService")
				r.ExpectArg(c, w+":fix.leaf", 2, reply+".Leaf || "+reply+".Leaves[it@*]")
			}
			if len(fix) != 1 {
				r.Fail(w+":fix-call", r.FnPos(fn), fmt.Sprintf("undecided: %s issues %s and contains %d FixLogLeaf calls (expected the one that every leaf of the reply passes)", FuncName(fn), rpc, len(fix)))
				continue
			}
			switch rpc {
			case "GetEntryAndProof":
				// must-pass-through: a leaf that is present is never served without having passed
				// FixLogLeaf — the only condition under which the call may be skipped is "no leaf"
				s := Sigma{}
				for k := range r.D.AtomsOf(fn) {
					if glob("nil?"+reply+".Leaf", k) {
						s[k] = "non"
					}
					if glob("nil?iface(trillian.TrillianLogClient).GetEntryAndProof(*)#1", k) {
						s[k] = "nil"
					}
				}
				reach := r.D.Walk(fn, s, nil, map[*ssa.BasicBlock]bool{fix[0].Block(): true})
				r.Valuations++
				ok := len(s) >= 1
				for _, ret := range successReturns(fn) {
					if reach.Has(ret) {
						ok = false
					}
				}
				r.Check(w+":present-leaf-always-fixed", ok, r.Where(fix[0]), "with a leaf present, the success return cannot be reached around FixLogLeaf (the call may be skipped only when the reply has no leaf)")
			case "GetLeavesByRange":
				// the call sits in a loop (whatever its syntactic form: range, index loop, …); once an iteration
				// has been entered (the header's edge into the loop was taken), every path to the next
				// iteration (back to the header) or to a return passes the call
				fb := fix[0].Block()
				h := loopHeaderOf(fb)
				ok := h != nil
				if ok && h != fb {
					loop := loopBlocksOf(h)
					stop := map[*ssa.BasicBlock]bool{fb: true}
					entered := 0
					for _, s := range h.Succs {
						if !loop[s] || s == h {
							continue
						}
						entered++
						if s == fb {
							continue
						}
						reach := r.D.Walk(fn, Sigma{}, s, stop)
						r.Valuations++
						for b := range reach.Blocks {
							if b == h || len(b.Succs) == 0 {
								ok = false
							}
						}
					}
					if entered == 0 {
						ok = false
					}
				}
				r.Check(w+":every-leaf-fixed", ok, r.Where(fix[0]), "inside the loop over the reply's leaves no path reaches the next leaf or a return around FixLogLeaf")
				// the loop covers every leaf of the reply: the leaf handed to FixLogLeaf is Leaves[i] for a
				// counter i that starts at 0, advances by 1 and enters the loop exactly while i < len(Leaves)
				// (the shape a range loop has by construction and an index loop must have explicitly)
				okAll, why := c14CoversAll(r, fix[0], reply+".Leaves")
				r.Check(w+":all-leaves", okAll, r.Where(fix[0]), "FixLogLeaf is applied to Leaves[i] in a loop over i = 0, 1, … bounded by len(rsp.Leaves)"+why)
				// and no success return is reachable from the reply without the loop having been entered or
				// found empty: the loop header stands between the reply and every success return
				if h != nil {
					reach := r.D.Walk(fn, Sigma{}, issuers[rpc][fn][0].Block(), map[*ssa.BasicBlock]bool{h: true})
					r.Valuations++
					okL := true
					for _, ret := range successReturns(fn) {
						if reach.Has(ret) && ret.Block() != h {
							okL = false
						}
					}
					r.Check(w+":loop-before-success", okL, r.Where(fix[0]), "after the reply no success return is reachable around the loop that fixes the leaves")
				}
			}
		}
	}

	// the writer first: whether it embeds the empty hash decides what the reader owes (rules_t8c14.go)
	emptyWritten := true
	r.Rule("C14.R4")
	if fn := r.Fn("(*trillian/ctfe.indirectIssuanceChainService).BuildLogLeaf"); fn != nil {
		emptyWritten = c14Writer(r, fn)
	}

	fix := r.Fn("(*trillian/ctfe.indirectIssuanceChainService).FixLogLeaf")
	if fix != nil {
		r.Rule("C14.R3")
		// an error of the lookup, of the chain's decoding and of the re-encoding is FixLogLeaf's verdict and
		// leaves the leaf as it was — decided on the value each return yields on the path that leads to it,
		// whatever expression carries the verdict (rules_t6c14.go)
		var leafWrites []ssa.Instruction
		for _, st := range r.StoresTo(fix, "&(p2.ExtraData)") {
			leafWrites = append(leafWrites, st)
		}
		c14ErrGate(r, fix, "FixLogLeaf:errors", "(*trillian/ctfe.indirectIssuanceChainService).getByHash", 2, leafWrites)
		c14ErrGate(r, fix, "FixLogLeaf:errors", "asn1.Unmarshal", 2, leafWrites)
		c14ErrGate(r, fix, "FixLogLeaf:errors", "tls.Marshal", 2, leafWrites)
		stores := r.StoresTo(fix, "&(p2.ExtraData)")
		r.Check("FixLogLeaf:extra-data-stores", len(stores) == 2, r.FnPos(fix), fmt.Sprintf("%d stores to leaf.ExtraData (one per hash layout)", len(stores)))
		for _, st := range stores {
			r.Check("FixLogLeaf:extra-data-value", glob("tls.Marshal(*new:ct.PrecertChainEntry#*)#0", r.D.D(st.Val)) || glob("tls.Marshal(*new:ct.CertificateChain#*)#0", r.D.D(st.Val)), r.Where(st), "leaf.ExtraData ← "+r.D.D(st.Val))
		}
		// stores only on all-success paths: unreachable when any contributing call failed
		sts := make([]ssa.Instruction, 0)
		for _, st := range stores {
			sts = append(sts, st)
		}
		hashProbes := c14Probes(r, fix, "FixLogLeaf")
		for _, hashType := range []string{"PrecertChainEntryHash", "CertificateChainHash"} {
			var st ssa.Instruction
			for _, s := range stores {
				if (hashType == "PrecertChainEntryHash") == glob("*PrecertChainEntry*", r.D.D(s.Val)) {
					st = s
				}
			}
			if st == nil {
				continue
			}
			h := "new:ct." + hashType + "#0.IssuanceChainHash"
			m := []ssa.Instruction{st}
			r.MustGuardAfter(fix, "FixLogLeaf:"+hashType+":lookup-error-no-store", "nil?(*trillian/ctfe.indirectIssuanceChainService).getByHash(p0, p1, "+h+")#1", "non", m, "store to leaf.ExtraData")
			r.MustGuardAfter(fix, "FixLogLeaf:"+hashType+":decode-error-no-store", "nil?asn1.Unmarshal((*trillian/ctfe.indirectIssuanceChainService).getByHash(p0, p1, "+h+")#0, *)#1", "non", m, "store to leaf.ExtraData")
			// the lookup is skipped only for an empty hash
			look := asInstrs(CallsTo(fix, "(*trillian/ctfe.indirectIssuanceChainService).getByHash"))
			var mine []ssa.Instruction
			for _, c := range look {
				if glob("*"+h, r.D.D(CallArgs(c.(ssa.CallInstruction))[2])) {
					mine = append(mine, c)
				}
			}
			var probe *c14Probe
			for i := range hashProbes {
				if hashProbes[i].typ == "ct."+hashType {
					probe = &hashProbes[i]
				}
			}
			if other := c14OtherLengthTest(r, fix, h); other != "" {
				// the skip is decided by a comparison of the hash's length with something else than 0:
				// read what the function does per hypothetical length of the hash (rules_t8c14.go)
				c14HashLengths(r, fix, hashType, h, probe, st.(*ssa.Store), mine, hashProbes, emptyWritten, true)
				continue
			}
			c14HashLengths(r, fix, hashType, h, probe, st.(*ssa.Store), mine, hashProbes, emptyWritten, false)
			r.MustGuardAfter(fix, "FixLogLeaf:"+hashType+":lookup-unless-empty", "ord(0, len("+h+"))", "=,>", mine, "chain lookup")
			// and with a non-empty hash the store is unreachable without the lookup: from the length test the store is reached only through the lookup block
			if len(mine) == 1 {
				blocks := r.blocksTesting(fix, func(ci *CondInfo) bool { return ci.Key == "ord(0, len("+h+"))" })
				for _, b := range blocks {
					reach := r.D.Walk(fix, Sigma{"ord(0, len(" + h + "))": "<"}, b, map[*ssa.BasicBlock]bool{mine[0].Block(): true})
					r.Valuations++
					r.Check("FixLogLeaf:"+hashType+":non-empty-hash-needs-lookup", !reach.Has(st), r.Where(st), "with a non-empty hash the leaf cannot be rewritten without passing the chain lookup")
				}
			}
		}
		// full-chain layouts: return nil, no store.  A probe is the question "is the extra data exactly the
		// TLS encoding of a T" — tls.Unmarshal in place, or a predicate helper verified to answer exactly
		// that (c14Probes); the layout is named by the type decoded into, not by the local that receives it
		probes := hashProbes
		// a layout is taken only on an exact match, and every layout gets its turn (rules_t6c14.go)
		c14LayoutExact(r, fix, probes, stores)
		c14LayoutTurn(r, fix, probes)
		c14RewriteFinal(r, fix, probes, stores)
		c14HashLayoutRewritten(r, fix, probes, stores)
		for _, full := range []string{"ct.PrecertChainEntry", "ct.CertificateChain"} {
			for _, p := range probes {
				if p.typ != full {
					continue
				}
				k := "FixLogLeaf:full-layout-unchanged:" + p.dst
				if p.via != "" {
					k = "FixLogLeaf:full-layout-unchanged:" + full
				}
				if p.match == nil {
					r.Fail("FixLogLeaf:full-layout:"+p.dst, r.Where(p.call), "result ignored")
					continue
				}
				reach := r.D.Walk(fix, p.match, p.call.Block(), nil)
				r.Valuations++
				rets := reachableReturns(fix, reach)
				ok := len(rets) == 1 && errKind(rets[0].Results[0]) == "nil"
				for _, st := range stores {
					if reach.Has(st) {
						ok = false
					}
				}
				r.Check(k, ok, r.Where(p.call), "an entry stored with its full chain is served unchanged (return nil, no store)")
			}
		}
		// bytes after the stored chain ⇒ error, and the leaf is not rewritten: decided on the value each
		// return yields on the path that leads to it (rules_t6c14.go)
		nTrail := c14StoredChainTrailing(r, fix, stores)
		r.Floor("FixLogLeaf asn1.Unmarshal of stored chains", nTrail, 2)
		// under all four decodes failing, only the error return is reachable
		s := Sigma{}
		probed := map[string]int{}
		for _, p := range probes {
			for k, v := range p.failed {
				s[k] = v
			}
			if p.failed != nil {
				probed[p.typ]++
			}
		}
		reach := r.D.Walk(fix, s, nil, nil)
		r.Valuations++
		okU := true
		for _, ret := range reachableReturns(fix, reach) {
			if errKind(ret.Results[0]) == "nil" {
				okU = false
			}
		}
		r.Check("FixLogLeaf:no-layout-matches", okU && len(probed) == 4 && len(s) == len(probes), r.FnPos(fix), "when no layout decodes, FixLogLeaf returns an error")

		r.Rule("C14.R4")
		// reader types
		want := map[string]string{"ct.PrecertChainEntryHash": "", "ct.CertificateChainHash": "", "ct.PrecertChainEntry": "", "ct.CertificateChain": ""}
		for _, p := range probes {
			k := "FixLogLeaf:decode.src:" + p.dst
			if p.via != "" {
				k = "FixLogLeaf:decode.src:" + p.typ
			}
			r.Check(k, p.src == "p2.ExtraData", r.Where(p.call), fmt.Sprintf("the bytes probed as %s = %s (expected p2.ExtraData)", p.typ, p.src))
			delete(want, p.typ)
		}
		r.Check("FixLogLeaf:four-layouts", len(want) == 0, r.FnPos(fix), fmt.Sprintf("layouts not probed: %v", keysOf(want)))
		for _, c := range CallsTo(fix, "asn1.Unmarshal") {
			a := baseAlloc(CallArgs(c)[1])
			r.Check("FixLogLeaf:chain-type", a != nil && TypeName(a.Type().(*types.Pointer).Elem()) == "[]ct.ASN1Cert", r.Where(c), "stored chain decoded into []ct.ASN1Cert")
		}
		r.ExpectStores(fix, "FixLogLeaf:precert.cert", "&(new:ct.PrecertChainEntry#0.PreCertificate)", "new:ct.PrecertChainEntryHash#0.PreCertificate", 1)
		// the chain field is the chain decoded from the bytes looked up under the layout's own hash (nil only for an empty hash)
		c14ChainField(r, fix, "FixLogLeaf:precert.chain", "&(new:ct.PrecertChainEntry#0.CertificateChain)", "PrecertChainEntryHash")
		c14ChainField(r, fix, "FixLogLeaf:x509.chain", "&(new:ct.CertificateChain#0.Entries)", "CertificateChainHash")
	}
	if fn := r.Fn("trillian/util.ExtraDataForChainHash"); fn != nil {
		r.ExpectStores(fn, "ExtraDataForChainHash:precert.cert", "&(new:ct.PrecertChainEntryHash#0.PreCertificate)", "p0", 1)
		r.ExpectStores(fn, "ExtraDataForChainHash:precert.hash", "&(new:ct.PrecertChainEntryHash#0.IssuanceChainHash)", "p1", 1)
		r.ExpectStores(fn, "ExtraDataForChainHash:x509.hash", "&(new:ct.CertificateChainHash#0.IssuanceChainHash)", "p1", 1)
		if c := r.OneCall(fn, "ExtraDataForChainHash:marshal", "tls.Marshal"); c != nil {
			pre := r.ArgUnder(fn, c, 0, Sigma{"p2": "T"})
			x := r.ArgUnder(fn, c, 0, Sigma{"p2": "F"})
			r.Check("ExtraDataForChainHash[precert]", glob("*new:ct.PrecertChainEntryHash#0", pre), r.Where(c), "isPrecert ⇒ "+pre)
			r.Check("ExtraDataForChainHash[x509]", glob("*new:ct.CertificateChainHash#0", x), r.Where(c), "!isPrecert ⇒ "+x)
		}
	}

	r.Rule("C14.R5")
	c14ChainStore(r)
	if fn := r.Fn("(*trillian/ctfe.indirectIssuanceChainService).getByHash"); fn != nil {
		find := r.OneCall(fn, "getByHash:find", "iface(trillian/ctfe/storage.IssuanceChainStorage).FindByKey")
		if find != nil {
			r.ExpectArg(find, "getByHash:find.key", 2, "p2")
		}
		r.FailEdge(fn, "getByHash", EdgeSpec{Name: "storage-error", Atom: nilAtom("iface(trillian/ctfe/storage.IssuanceChainStorage).FindByKey(*)#1"), Bad: "non", Want: wantErr(true)})
		r.FailEdge(fn, "getByHash", EdgeSpec{Name: "cache-error", Atom: nilAtom("iface(trillian/ctfe/cache.IssuanceChainCache).Get(*)#1"), Bad: "non",
			Want: func(r *Run, ret *ssa.Return) (bool, string) {
				d := r.D.D(ret.Results[1])
				return glob("iface(trillian/ctfe/cache.IssuanceChainCache).Get(*)#1", d), "returns " + d
			}})
		var gos []ssa.Instruction
		eachInstr(fn, func(in ssa.Instruction) {
			if g, ok := in.(*ssa.Go); ok {
				gos = append(gos, g)
			}
		})
		if len(gos) == 1 {
			r.MustGuard(fn, "getByHash:cache-filled-only-after-read", "nil?iface(trillian/ctfe/storage.IssuanceChainStorage).FindByKey(*)#1", "non", gos, "cache fill")
			g := gos[0].(*ssa.Go)
			k, v, why := c14CacheFill(r, g)
			if k != nil && v != nil {
				why = "— it is filled with (" + clipStr(c14D(r, fn, k), 110) + ", " + clipStr(c14D(r, fn, v), 110) + ")"
			}
			r.Check("getByHash:cache-fill.args", k != nil && c14D(r, fn, k) == "p2" && glob("iface(trillian/ctfe/storage.IssuanceChainStorage).FindByKey(*)#0", c14D(r, fn, v)), r.Where(g), "cache filled with (the hash asked for, the chain read from storage under it) "+why)
		} else {
			r.Fail("getByHash:cache-fill", r.FnPos(fn), fmt.Sprintf("%d detached cache fills", len(gos)))
		}
		for _, ret := range Returns(fn) {
			if errKind(ret.Results[1]) == "nil" {
				// a success result is the chain read from storage — or the cache's entry, where the return can
				// only execute on a hit (entry non-nil) that the cache reported without error
				got := c14D(r, fn, ret.Results[0])
				ok := glob("iface(trillian/ctfe/storage.IssuanceChainStorage).FindByKey(*)#0", got)
				if !ok && glob("iface(trillian/ctfe/cache.IssuanceChainCache).Get(*)#0", got) {
					get := got[:len(got)-2]
					ok = c14OnlyUnder(r, fn, ret, "nil?"+got, "non") && c14OnlyUnder(r, fn, ret, "nil?"+get+"#1", "nil")
				}
				r.Check("getByHash:result", ok, r.Where(ret), "returns the chain read from storage (or the cache's entry on an error-free hit): "+got)
			}
		}

		r.Rule("C14.R6")
		// integrity: after a storage read, success is unreachable unless hash(chain) == key
		found := ""
		if find != nil {
			if res := CallResult(find, 0); res != nil {
				found = c14ContentCheck(r, fn, "p2", c14D(r, fn, res))
			}
		}
		if found == "" {
			r.Fail("getByHash:integrity", r.FnPos(fn), "a chain read from storage is used without comparing its SHA-256 with the key it was stored under: a corrupted stored chain that still parses is served as altered chain data")
		} else if find != nil {
			var succ []ssa.Instruction
			for _, ret := range Returns(fn) {
				if errKind(ret.Results[1]) == "nil" && glob("*FindByKey(*)#0", c14D(r, fn, ret.Results[0])) {
					succ = append(succ, ret)
				}
			}
			// the comparison stands between the storage read and BOTH uses of the chain read: serving it
			// to the caller, and handing it to the cache (a cache hit is served without any check, so a
			// row cached before the comparison is served on every later read of that hash)
			r.MustGuardFrom(fn, find.Block(), "getByHash:integrity", found, "F", succ, "serving the chain read from storage")
			r.MustGuardFrom(fn, find.Block(), "getByHash:integrity:cache-fill", found, "F", gos, "handing the chain read from storage to the cache (cache hits are served unchecked) before its SHA-256 was compared with its key:")
		}
	}

	r.Rule("C14.R8")
	c14Storage(r)

	r.Rule("C14.R9")
	c14CacheWriters(r)

	r.Rule("C14.R7")
	// prefix widths of the four layouts (what FixLogLeaf's probing order assumes)
	for _, w := range []struct{ typ, field, tag string }{
		{"ct.PrecertChainEntryHash", "IssuanceChainHash", `tls:"minlen:0,maxlen:256"`},
		{"ct.CertificateChainHash", "IssuanceChainHash", `tls:"minlen:0,maxlen:256"`},
		{"ct.PrecertChainEntry", "CertificateChain", `tls:"minlen:0,maxlen:16777215"`},
		{"ct.CertificateChain", "Entries", `tls:"minlen:0,maxlen:16777215"`},
		{"ct.ASN1Cert", "Data", `tls:"minlen:1,maxlen:16777215"`},
	} {
		nt := r.P.LookupType(w.typ)
		ok, got, note := false, "?", ""
		if nt != nil {
			if st, isS := nt.Underlying().(*types.Struct); isS {
				for i := 0; i < st.NumFields(); i++ {
					if st.Field(i).Name() == w.field {
						got = st.Tag(i)
						ok, note = c14SameWireTag(r, got, w.tag)
					}
				}
			}
		}
		r.Check("layout:"+w.typ+"."+w.field, ok, "-", fmt.Sprintf("tag %q (expected %q)%s", got, w.tag, note))
	}
	c14Debug(r)
}

// c14Who (C14.R1): who talks to the backend for entries.  Facts decided, per entry-serving RPC:
//   - some function of the front end issues it (positive control), each issuer exactly once — those
//     functions are returned, and C14.R2 binds every one of them, whatever it is called;
//   - a function literal does not issue it (R2 could not speak about its returns);
//   - the handler of the entry point reaches the RPC exactly once: it issues it itself, or it calls
//     exactly one function that does — and it makes no other entry-serving backend call.
func c14Who(r *Run) map[string]map[*ssa.Function][]ssa.CallInstruction {
	handlers := map[string]string{"GetLeavesByRange": "trillian/ctfe.getEntries", "GetEntryAndProof": "trillian/ctfe.getEntryAndProof"}
	issuers := map[string]map[*ssa.Function][]ssa.CallInstruction{}
	for _, rpc := range []string{"GetEntryAndProof", "GetLeavesByRange"} {
		issuers[rpc] = c14Issuers(r, rpc)
	}
	for _, rpc := range []string{"GetEntryAndProof", "GetLeavesByRange"} {
		h := handlers[rpc]
		fn := r.Fn(h)
		if fn == nil {
			continue
		}
		// direct entry-serving calls of the handler, and calls of functions that issue this RPC
		direct, other, via := 0, 0, 0
		for q, m := range issuers {
			for f, cs := range m {
				if f == fn {
					if q == rpc {
						direct += len(cs)
					} else {
						other += len(cs)
					}
				}
			}
		}
		eachInstr(fn, func(in ssa.Instruction) {
			if ci, ok := in.(ssa.CallInstruction); ok {
				if callee := ci.Common().StaticCallee(); callee != nil && callee != fn {
					for q, m := range issuers {
						if _, isIssuer := m[callee]; isIssuer {
							if q == rpc {
								via++
							} else {
								other++
							}
						}
					}
				}
			}
		})
		r.Check("who:"+short(h)+":no-direct-rpc", other == 0 && (direct == 0 || via == 0), r.FnPos(fn), fmt.Sprintf("the handler reaches the backend's entries only by %s, and only one way: %d own calls, %d calls of functions that issue it, %d other entry-serving calls", rpc, direct, via, other))
		r.Check("who:"+short(h)+":wrapper", direct+via == 1, r.FnPos(fn), fmt.Sprintf("the handler reaches %s exactly once — itself or through the one function it calls that issues the RPC (%d own calls, %d through callees)", rpc, direct, via))
	}
	for _, rpc := range []string{"GetEntryAndProof", "GetLeavesByRange"} {
		n := 0
		var names []string
		for _, f := range c14SortedFuncs(issuers[rpc]) {
			k := FuncName(f)
			names = append(names, k)
			cs := issuers[rpc][f]
			n += len(cs)
			r.Check("who:"+rpc+"@"+k, f.Parent() == nil && len(cs) == 1, r.Where(cs[0]), fmt.Sprintf("%s calls %s (%d sites): a declared function with one call site, bound by C14.R2", k, rpc, len(cs)))
		}
		r.Check("who:"+rpc, n >= 1, "-", fmt.Sprintf("%v issues the RPC (positive control)", names))
	}
	return issuers
}

// c14Storage: a storage write failure is reported.  The SQL back ends return the
// driver's error; the only error an Add may swallow is "this key already exists"
// (MySQL 1062), because then the chain is stored.
func c14Storage(r *Run) {
	for _, q := range []string{"(*trillian/ctfe/storage/mysql.IssuanceChainStorage).Add", "(*trillian/ctfe/storage/postgresql.IssuanceChainStorage).Add"} {
		fn := r.Fn(q)
		if fn == nil {
			continue
		}
		k := "storage.Add:" + strings.Split(q, ".")[0][len("(*trillian/ctfe/storage/"):]
		ex := CallsTo(fn, "(*sql.DB).ExecContext")
		if len(ex) != 1 {
			r.Fail(k, r.FnPos(fn), "undecided: expected one ExecContext")
			continue
		}
		// variadic (key, chain) in that order
		okArgs := false
		if sl, isSl := CallArgs(ex[0])[3].(*ssa.Slice); isSl {
			if arr, isA := sl.X.(*ssa.Alloc); isA {
				a0, a1 := r.StoresTo(fn, "&("+r.D.allocName(arr)+"[0])"), r.StoresTo(fn, "&("+r.D.allocName(arr)+"[1])")
				okArgs = len(a0) == 1 && len(a1) == 1 && r.D.D(a0[0].Val) == "p2" && r.D.D(a1[0].Val) == "p3"
			}
		}
		r.Check(k+":key-then-chain", okArgs, r.Where(ex[0]), "the INSERT binds (key, chain) in that order")
		errv := CallResult(ex[0], 1)
		if errv == nil {
			r.Fail(k+":error-used", r.Where(ex[0]), "the error of the INSERT is discarded")
			continue
		}
		// which error numbers are swallowed?
		cases, err := r.D.ConstTable(fn, "*.Number", nil)
		if err != nil {
			// no error-number test at all: every return after a failed Exec must carry the error
			bad := false
			reach := r.D.Walk(fn, Sigma{"nil?" + r.D.D(errv): "non"}, ex[0].Block(), nil)
			r.Valuations++
			for _, ret := range reachableReturns(fn, reach) {
				if errKind(ret.Results[0]) == "nil" {
					bad = true
				}
			}
			r.Check(k+":failure-reported", !bad, r.Where(ex[0]), "a failed INSERT is reported to the caller")
			continue
		}
		for _, c := range cases {
			r.Valuations++
			s := Sigma{"nil?" + r.D.D(errv): "non"}
			for kk, vv := range c.Sigma {
				s[kk] = vv
			}
			for kk := range r.D.AtomsOf(fn) {
				if glob("errors.As(*)", kk) {
					s[kk] = "T"
				}
			}
			reach := r.D.Walk(fn, s, ex[0].Block(), nil)
			swallowed := false
			for _, ret := range reachableReturns(fn, reach) {
				if errKind(ret.Results[0]) == "nil" {
					swallowed = true
				}
			}
			label := fmt.Sprint(c.Value)
			if c.Default {
				label = "other"
			}
			want := !c.Default && c.Value == 1062
			r.Check(k+":error["+label+"]", swallowed == want, r.Where(ex[0]), fmt.Sprintf("driver error %s swallowed=%v (only 1062 'duplicate entry' means the chain is stored)", label, swallowed))
		}
	}
}

// c14ChainStore: add() — key, storage write, cache fill only after a successful write,
// cache short-cut only on a real hit (C14.R5; shared with C06).
func c14ChainStore(r *Run) {
	if fn := r.Fn("(*trillian/ctfe.indirectIssuanceChainService).add"); fn != nil {
		if c := r.OneCall(fn, "add:hash", "trillian/ctfe.issuanceChainHash"); c != nil {
			r.ExpectArg(c, "add:hash.of", 0, "p2")
		}
		if c := r.OneCall(fn, "add:storage", "iface(trillian/ctfe/storage.IssuanceChainStorage).Add"); c != nil {
			got := c14D(r, fn, CallArgs(c)[2])
			r.Check("add:storage.key", got == "trillian/ctfe.issuanceChainHash(p2)", r.Where(c), fmt.Sprintf("arg 2 of %s = %s (expected trillian/ctfe.issuanceChainHash(p2))", CalleeOf(c), got))
			r.ExpectArg(c, "add:storage.chain", 3, "p2")
		}
		r.ErrorsGate(fn, "add:errors", "iface(trillian/ctfe/storage.IssuanceChainStorage).Add", 1)
		var gos []ssa.Instruction
		eachInstr(fn, func(in ssa.Instruction) {
			if g, ok := in.(*ssa.Go); ok {
				gos = append(gos, g)
			}
		})
		r.Check("add:cache-fill", len(gos) == 1, r.FnPos(fn), fmt.Sprintf("%d detached cache fills", len(gos)))
		if len(gos) == 1 {
			r.MustGuard(fn, "add:cache-filled-only-after-store", "nil?iface(trillian/ctfe/storage.IssuanceChainStorage).Add(*)", "non", gos, "cache fill")
			// the cache fill must come after the storage write on every path
			add := CallsTo(fn, "iface(trillian/ctfe/storage.IssuanceChainStorage).Add")
			if len(add) == 1 {
				r.Check("add:store-dominates-cache-fill", add[0].Block().Dominates(gos[0].Block()) && add[0].Block() != gos[0].Block(), r.Where(gos[0]), "the storage write dominates the cache fill")
			}
			g := gos[0].(*ssa.Go)
			k, v, why := c14CacheFill(r, g)
			if k != nil && v != nil {
				why = "— it is filled with (" + clipStr(c14D(r, fn, k), 110) + ", " + clipStr(c14D(r, fn, v), 110) + ")"
			}
			r.Check("add:cache-fill.args", k != nil && c14D(r, fn, k) == "trillian/ctfe.issuanceChainHash(p2)" && c14D(r, fn, v) == "p2", r.Where(g), "cache filled with (hash(chain), chain) "+why)
		}
		// cache short-cut only when err == nil && entry != nil
		get := "iface(trillian/ctfe/cache.IssuanceChainCache).Get(*)"
		_, err := r.D.Table(fn, nil, nil, []RuleAtom{{Name: "err", Pat: "nil?" + get + "#1"}, {Name: "hit", Pat: "nil?" + get + "#0"}}, func(val map[string]string, reach *Reach, s Sigma) {
			r.Valuations++
			stored := false
			for _, c := range CallsTo(fn, "iface(trillian/ctfe/storage.IssuanceChainStorage).Add") {
				if reach.Has(c) {
					stored = true
				}
			}
			want := !(val["err"] == "nil" && val["hit"] == "non")
			r.Check("add:shortcut[err="+val["err"]+",entry="+val["hit"]+"]", stored == want, r.FnPos(fn), fmt.Sprintf("storage write reached=%v, property wants %v", stored, want))
		})
		if err != nil {
			r.Fail("add:shortcut", r.FnPos(fn), "undecided: "+err.Error())
		}
		for _, ret := range Returns(fn) {
			if errKind(ret.Results[1]) == "nil" {
				r.Check("add:returns-hash", c14D(r, fn, ret.Results[0]) == "trillian/ctfe.issuanceChainHash(p2)", r.Where(ret), "returns hash(chain)")
			}
		}
	}
	if fn := r.Fn("trillian/ctfe.issuanceChainHash"); fn != nil {
		for _, ret := range Returns(fn) {
			r.Check("issuanceChainHash", r.D.D(ret.Results[0]) == "sha256.Sum256(p0)[:]", r.Where(ret), "hash = "+r.D.D(ret.Results[0]))
		}
	}
}

// loopBlocksOf returns the blocks of the natural loop(s) with header h: h and every
// block that reaches a back edge p→h (h dominates p) without passing through h.
func loopBlocksOf(h *ssa.BasicBlock) map[*ssa.BasicBlock]bool {
	seen := map[*ssa.BasicBlock]bool{h: true}
	var work []*ssa.BasicBlock
	for _, p := range h.Preds {
		if h.Dominates(p) {
			work = append(work, p)
		}
	}
	for len(work) > 0 {
		c := work[len(work)-1]
		work = work[:len(work)-1]
		if seen[c] {
			continue
		}
		seen[c] = true
		work = append(work, c.Preds...)
	}
	return seen
}

// c14CoversAll decides that the call's leaf argument is xs[i] (xs matching sliceGlob) inside a loop whose
// counter i runs 0, 1, 2, … and whose header enters the loop exactly when i < len(xs).
func c14CoversAll(r *Run, call ssa.CallInstruction, sliceGlob string) (bool, string) {
	args := CallArgs(call)
	ld, isLoad := args[len(args)-1].(*ssa.UnOp)
	if !isLoad {
		return false, ": the leaf is not an element of the reply's slice"
	}
	ia, isIdx := ld.X.(*ssa.IndexAddr)
	if !isIdx || !glob(sliceGlob, r.D.D(ia.X)) {
		return false, ": the leaf is not an element of the reply's slice"
	}
	h := loopHeaderOf(call.Block())
	if h == nil {
		return false, ": the call is not in a loop"
	}
	// the counter: an induction φ of the header, entered with 0 and advanced by 1 — or, for the lowering
	// of a range loop, the pre-index φ (−1, +1) incremented before use
	var ph *ssa.Phi
	switch x := ia.Index.(type) {
	case *ssa.Phi:
		ph = x
		if ph.Block() != h {
			return false, ": the index is not the counter of the loop around the call"
		}
		for i, e := range ph.Edges {
			if h.Dominates(h.Preds[i]) { // back edge
				b, ok := e.(*ssa.BinOp)
				if !ok || b.Op != token.ADD || b.X != ssa.Value(ph) || !isConstInt(b.Y, 1) {
					return false, ": the counter does not advance by 1"
				}
			} else if !isConstInt(e, 0) {
				return false, ": the counter does not start at 0"
			}
		}
	case *ssa.BinOp:
		pre, ok := x.X.(*ssa.Phi)
		if !ok || x.Op != token.ADD || !isConstInt(x.Y, 1) || !isRangePre(pre) || pre.Block() != h {
			return false, ": the index is not the counter of the loop around the call"
		}
	default:
		return false, ": the index is not a loop counter"
	}
	ifi, ok := h.Instrs[len(h.Instrs)-1].(*ssa.If)
	if !ok {
		return false, ": the loop header has no test"
	}
	ci := r.D.Classify(ifi.Cond)
	idx, ln := r.D.D(ia.Index), "len("+r.D.D(ia.X)+")"
	tr := ci.True
	switch {
	case ci.Kind == "ord" && ci.A == idx && ci.B == ln:
	case ci.Kind == "ord" && ci.A == ln && ci.B == idx:
		tr = flipOrd(tr)
	default:
		return false, ": the loop header does not compare the counter with len of the slice (" + ci.Key + ")"
	}
	loop := loopBlocksOf(h)
	in0, in1 := loop[h.Succs[0]], loop[h.Succs[1]]
	switch {
	case tr["<"] && !tr["="] && in0 && !in1:
	case !tr["<"] && tr["="] && in1 && !in0:
	default:
		return false, ": the loop is not entered exactly while counter < len"
	}
	return true, ""
}
