package main

import (
	"fmt"
	"go/token"
	"go/types"
	"os"
	"sort"
	"strings"

	"golang.org/x/tools/go/ssa"
)

// Round 7, C12.R11 — "over-long responses produce errors": A JSON DECODE OF RESPONSE BYTES IS A PARSE OF
// THE WHOLE INPUT.
//
// The property: a 200 body that is one well-formed JSON value followed by more bytes
// (`{…valid get-sth answer…} trailing garbage {{{`, or a second object) is a malformed / over-long
// response and must come back as an error, never as a result built from the prefix.  encoding/json
// offers two ways to decode, and only one of them is a parse of the whole input by itself:
//
//   json.Unmarshal(data, v)        validates ALL of data first; any non-white-space byte behind the
//                                  value is a *json.SyntaxError.  White space behind it is accepted.
//   (*json.Decoder).Decode(v)      reads the NEXT value of a stream and stops there; what follows is
//                                  left in the decoder.  Whether anything follows is only known
//                                  after the decoder was asked again: a further Decode / Token of the
//                                  SAME decoder that answers io.EOF (white space is skipped).
//                                  dec.More() does not answer the question: it is false in front of
//                                  a stray ']' or '}', so `{…}]` would pass.
//
// The fact decided, for every function of the client packages (client, jsonclient, loglist3) and
// every call c of (*json.Decoder).Decode in it:
//
//   once c has succeeded, NO RETURN THAT CAN TELL THE CALLER "FINE" EXECUTES UNLESS A LATER
//   Decode/Token OF THE SAME DECODER HAS ANSWERED io.EOF
//
// decided by a walk, not by the position of statements: with "c's error is nil" and every
// comparison of such an answer with io.EOF (==, !=, errors.Is; under any negation, in any order of
// operands) fixed at "not io.EOF", no return whose error result can be nil is reachable from c; with
// those comparisons at "io.EOF" one is (positive control).  A return "can be nil" unless every value
// that arrives at it under the walk is an error made on the spot (errors.New, fmt.Errorf, a boxed
// struct such as RspError) or was tested non-nil on the way — so `if _, err := dec.Token(); err !=
// io.EOF { return nil, nil, err }` is rightly refused: behind `{…}{` Token answers (Delim, nil).
//
// json.Unmarshal sites are recorded as complete by contract (assumption recorded).  Shapes the walk
// cannot read — the answer to "is it io.EOF" travelling as a bool through a helper's result, the
// decoder handed to another function, dec.Buffered()/InputOffset() arithmetic — come out as
// violations (undecided = fail closed).  WHICH bytes are decoded (the body that is handed back) is
// the decode.source obligation of R4; that trailing data yields RspError{status, body} is R4's
// trailing-data.error-shape.

const (
	c12DecDecode = "(*json.Decoder).Decode"
	c12DecToken  = "(*json.Decoder).Token"
)

var c12ParsePkgs = map[string]bool{"client": true, "jsonclient": true, "loglist3": true}

// c12JSONDecodes: the calls of fn that decode JSON into a target (argument 1).
func c12JSONDecodes(fn *ssa.Function) []ssa.CallInstruction {
	var out []ssa.CallInstruction
	eachInstr(fn, func(in ssa.Instruction) {
		if c, ok := in.(ssa.CallInstruction); ok {
			if n := CalleeOf(c); (n == c12DecDecode || n == "json.Unmarshal") && len(CallArgs(c)) == 2 {
				out = append(out, c)
			}
		}
	})
	return out
}

// c12JSONCalls: every call of fn into encoding/json that reads input (json.NewDecoder reads nothing).
func c12JSONCalls(fn *ssa.Function) []ssa.CallInstruction {
	var out []ssa.CallInstruction
	eachInstr(fn, func(in ssa.Instruction) {
		if c, ok := in.(ssa.CallInstruction); ok {
			switch CalleeOf(c) {
			case c12DecDecode, c12DecToken, "json.Unmarshal", "(*json.Decoder).More", "json.Valid":
				out = append(out, c)
			}
		}
	})
	return out
}

// c12EOFTest is one comparison of a decoder's answer with io.EOF, as the walk sees it.
type c12EOFTest struct {
	Key    string // atom key of the comparison
	NotEOF string // the atom's value when the answer is not io.EOF ("T" for !=, "F" for == / errors.Is)
	Where  string
}

func isIOEOF(v ssa.Value) bool {
	u, ok := v.(*ssa.UnOp)
	if !ok || u.Op != token.MUL {
		return false
	}
	g, ok := u.X.(*ssa.Global)
	return ok && g.Pkg != nil && g.Pkg.Pkg.Path() == "io" && g.Name() == "EOF"
}

// c12SameDecoder: both calls have the same *json.Decoder as receiver — the same SSA value, or (the
// decoder lives in a variable whose address is taken) the same resolved origin term.
func c12SameDecoder(r *Run, a, b ssa.CallInstruction) bool {
	x, y := CallArgs(a), CallArgs(b)
	if len(x) == 0 || len(y) == 0 {
		return false
	}
	if x[0] == y[0] {
		return true
	}
	dx := r.D.D(x[0])
	return dx == r.D.D(y[0]) && strings.HasPrefix(dx, "json.NewDecoder(")
}

// c12EOFTests lists the comparisons with io.EOF of what a Decode/Token of c's decoder answered,
// where that call is c itself (a loop that decodes until io.EOF) or may execute after c.
func c12EOFTests(r *Run, fn *ssa.Function, c ssa.CallInstruction) []c12EOFTest {
	isAnswer := func(v ssa.Value) bool {
		// every value merged here is the error of a later Decode/Token of the same decoder
		leaves := phiLeaves(v)
		for _, l := range leaves {
			p := callOfValue(l)
			if p == nil {
				return false
			}
			n := CalleeOf(p)
			if (n != c12DecDecode && n != c12DecToken) || !c12SameDecoder(r, p, c) {
				return false
			}
			if !types.Identical(l.Type(), types.Universe.Lookup("error").Type()) {
				return false
			}
			if p != c && !mayExecuteAfter(p, c) {
				return false
			}
		}
		return len(leaves) > 0
	}
	var out []c12EOFTest
	seen := map[string]bool{}
	eachInstr(fn, func(in ssa.Instruction) {
		v, ok := in.(ssa.Value)
		if !ok {
			return
		}
		notEOF := ""
		switch x := v.(type) {
		case *ssa.BinOp:
			if x.Op != token.EQL && x.Op != token.NEQ {
				return
			}
			if !(isIOEOF(x.Y) && isAnswer(x.X) || isIOEOF(x.X) && isAnswer(x.Y)) {
				return
			}
			notEOF = map[token.Token]string{token.EQL: "F", token.NEQ: "T"}[x.Op]
		case *ssa.Call:
			if CalleeOf(x) != "errors.Is" || len(x.Call.Args) != 2 || !isIOEOF(x.Call.Args[1]) || !isAnswer(x.Call.Args[0]) {
				return
			}
			notEOF = "F"
		default:
			return
		}
		ci := r.D.Classify(v)
		if ci.Kind != "bool" || seen[ci.Key] {
			return
		}
		seen[ci.Key] = true
		out = append(out, c12EOFTest{Key: ci.Key, NotEOF: notEOF, Where: r.Where(in)})
	})
	sort.Slice(out, func(i, j int) bool { return out[i].Key < out[j].Key })
	return out
}

// c12NonNilUnder: the error value v is non-nil whenever it arrives at block `at` under the walk —
// made on the spot, tested non-nil on the way, fixed non-nil by the valuation; a merged value: every
// value that arrives over an edge the walk takes.
func c12NonNilUnder(r *Run, v ssa.Value, at *ssa.BasicBlock, reach *Reach, s Sigma, depth int) bool {
	if depth > 6 {
		return false
	}
	if ph, ok := v.(*ssa.Phi); ok {
		any := false
		for i, e := range ph.Edges {
			p := ph.Block().Preds[i]
			if reach != nil && !reach.Edges[[2]int{p.Index, ph.Block().Index}] {
				continue
			}
			any = true
			if r.nilOnEdge(e, p, ph.Block(), s, 0) == "non" {
				continue
			}
			if !c12NonNilUnder(r, e, p, reach, s, depth+1) {
				return false
			}
		}
		return any
	}
	if errKind(v) == "non" || nonNilAt(v, at) || nilFactAt(v, at) == "non" {
		return true
	}
	return s["nil?"+r.D.D(v)] == "non"
}

// c12MaySucceed: the return can tell the caller "fine" under the walk: it has no error result, or
// its error result can be nil.
func c12MaySucceed(r *Run, ret *ssa.Return, reach *Reach, s Sigma) bool {
	n := len(ret.Results)
	if n == 0 || !types.Identical(ret.Results[n-1].Type(), types.Universe.Lookup("error").Type()) {
		return true
	}
	return !c12NonNilUnder(r, ret.Results[n-1], ret.Block(), reach, s, 0)
}

// c12CompleteParse is C12.R11.
func c12CompleteParse(r *Run) {
	r.Rule("C12.R11")
	r.Assume("json.Unmarshal fails on any non-white-space byte behind the first JSON value of its input; (*json.Decoder).Decode consumes one value and leaves the rest; a further Decode/Token of that decoder returns io.EOF exactly when only white space is left")
	sites := 0
	for _, fn := range r.P.ModFuncs {
		pk := fnPkg(fn)
		if pk == nil || !c12ParsePkgs[ShortPkg(pk.Path())] || len(fn.Blocks) == 0 {
			continue
		}
		for _, c := range c12JSONDecodes(fn) {
			sites++
			r.Funcs[FuncName(fn)] = true
			key := short(FuncName(fn)) + ":trailing-data"
			if CalleeOf(c) == "json.Unmarshal" {
				r.Pass(key, r.Where(c), "json.Unmarshal("+r.D.D(CallArgs(c)[0])+", …) parses its whole input: bytes behind the JSON value are a syntax error")
				continue
			}
			c12DecoderConsumed(r, fn, c, key)
		}
	}
	r.Floor("JSON decodes of response / log-list bytes in client, jsonclient, loglist3", sites, 3)
	if os.Getenv("CTVERIF_C12_DEBUG") != "" { // dev aid: the obligations about the JSON decodes
		for _, o := range r.Obls {
			if o.Rule == "C12.R11" || strings.Contains(o.Key, "AndParse:decode") || strings.Contains(o.Key, "AndParse:json-error") || strings.Contains(o.Key, "trailing-data") {
				fmt.Fprintf(os.Stderr, "%v %s @%s: %s\n", o.OK, o.Key, o.Where, o.Detail)
			}
		}
	}
}

func c12DecoderConsumed(r *Run, fn *ssa.Function, c ssa.CallInstruction, key string) {
	src := r.D.D(CallArgs(c)[0])
	ev := CallResult(c, 0)
	if _, isCall := c.(*ssa.Call); !isCall || ev == nil {
		r.Fail(key, r.Where(c), "undecided: "+c12DecDecode+" is deferred / started as a goroutine; whether its input was consumed cannot be decided")
		return
	}
	tests := c12EOFTests(r, fn, c)
	s := Sigma{"nil?" + r.D.D(ev): "nil"}
	good := Sigma{"nil?" + r.D.D(ev): "nil"}
	var names []string
	for _, t := range tests {
		s[t.Key] = t.NotEOF
		good[t.Key] = map[string]string{"T": "F", "F": "T"}[t.NotEOF]
		names = append(names, t.Key)
	}
	reach := r.walkR(fn, s, c.Block(), -1)
	r.Valuations++
	var leak *ssa.Return
	for _, ret := range reachableReturns(fn, reach) {
		if c12MaySucceed(r, ret, reach, s) {
			leak = ret
			break
		}
	}
	input := "a 200 body that is one well-formed JSON value followed by more bytes — `{…valid answer…} trailing garbage {{{`, or a second object —"
	if leak != nil {
		why := "no later Decode/Token of the same decoder is compared with io.EOF"
		if len(tests) > 0 {
			why = fmt.Sprintf("the return stays reachable when %v say 'not io.EOF'", names)
			if n := len(leak.Results); n > 0 && errKind(leak.Results[n-1]) != "nil" {
				why += " and its error " + shortErr(r.D.D(leak.Results[n-1])) + " can be nil there (Token answers (Delim, nil) in front of a further '{' or '[')"
			}
		}
		if more := CallsTo(fn, "(*json.Decoder).More"); len(more) > 0 {
			why += "; dec.More() does not decide it (false in front of a stray ']' or '}', so `{…}]` passes)"
		}
		r.Fail(key, r.Where(c), fmt.Sprintf("%s is accepted by %s: %s(%s, …) reads only the FIRST value and the return at %s can report success with the rest of the input never looked at (%s). Expected an error, as json.Unmarshal gives for the same bytes; white space behind the value stays acceptable",
			input, FuncName(fn), c12DecDecode, src, r.Where(leak), why))
		return
	}
	// positive control: with the answers at io.EOF a success return is reachable
	reach2 := r.walkR(fn, good, c.Block(), -1)
	r.Valuations++
	okExit := false
	for _, ret := range reachableReturns(fn, reach2) {
		if c12MaySucceed(r, ret, reach2, good) {
			okExit = true
		}
	}
	r.Check(key, okExit, r.Where(c), fmt.Sprintf("after %s(%s, …) succeeded every return that can report success needs the decoder's next answer to be io.EOF (%v); with it one is reachable (positive control: %v)", c12DecDecode, src, names, okExit))
}
