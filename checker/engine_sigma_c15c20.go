package main

import (
	"fmt"
	"go/types"
	"sort"
	"strconv"
	"strings"

	"golang.org/x/tools/go/ssa"
)

// Generic machinery added for C15 / C20 (used only through the PSR engine):
//
//   * Cause / SgRejects: a cause of rejection is a conjunction of atom values
//     (written from the property text).  Walking from the function entry under
//     that valuation no success return may execute; moving the last (decisive)
//     atom of the conjunction to a good value must make a success return
//     reachable again (control: the rejection is not broader than the cause).
//   * sgRetVals: results of a return, resolved through the result allocs that
//     go/ssa introduces for functions with defer + recover.
//   * SgModel: valuation of all ord atoms of a function from a sample point
//     (term glob -> integer), exact for predicates that touch their operands
//     only through comparisons.
//   * SgDupSet: "seen"-map discipline of a duplicate check.
//   * sgFmtInjective: is a Sprintf format an injective encoding of its operands.

// SgAtom is one atom of a cause: a glob over atom keys ("a || b" alternatives) or,
// for order atoms, globs over the two operands; Val is the domain value (or a
// comma list of values) that belongs to the cause.
type SgAtom struct {
	Pat        string
	OrdA, OrdB string
	Val        string
}

func sgNil(pat, val string) SgAtom  { return SgAtom{Pat: "nil?" + pat, Val: val} }
func sgBool(pat, val string) SgAtom { return SgAtom{Pat: pat, Val: val} }
func sgOrd(a, b, val string) SgAtom { return SgAtom{OrdA: a, OrdB: b, Val: val} }

func (c SgAtom) String() string {
	if c.OrdA != "" {
		return "ord(" + c.OrdA + " ? " + c.OrdB + ")∈{" + c.Val + "}"
	}
	return c.Pat + "∈{" + c.Val + "}"
}

type sgBound struct {
	keys    []string
	flipped map[string]bool
	kind    string
}

func sgFlipRel(v string) string {
	switch v {
	case "<":
		return ">"
	case ">":
		return "<"
	}
	return v
}

// sgBind binds one cause atom to the atom keys of fn.
func (r *Run) sgBind(fn *ssa.Function, c SgAtom) (*sgBound, error) {
	found := r.D.AtomsOf(fn)
	b := &sgBound{flipped: map[string]bool{}}
	for _, k := range keysOf(found) {
		ci := found[k]
		m := false
		if c.OrdA != "" {
			if ci.Kind == "ord" {
				if anyGlob(c.OrdA, ci.A) && anyGlob(c.OrdB, ci.B) {
					m = true
				} else if anyGlob(c.OrdA, ci.B) && anyGlob(c.OrdB, ci.A) {
					m = true
					b.flipped[k] = true
				}
			}
		} else {
			m = anyGlob(c.Pat, k)
		}
		if !m {
			continue
		}
		if b.kind != "" && b.kind != ci.Kind {
			return nil, fmt.Errorf("%s binds atoms of different kinds in %s", c, FuncName(fn))
		}
		b.kind = ci.Kind
		b.keys = append(b.keys, k)
	}
	if len(b.keys) == 0 {
		return nil, fmt.Errorf("no branch condition of %s tests %s (the check for this cause is missing)", FuncName(fn), c)
	}
	return b, nil
}

func (b *sgBound) set(s Sigma, val string) {
	for _, k := range b.keys {
		if b.flipped[k] {
			s[k] = sgFlipRel(val)
		} else {
			s[k] = val
		}
	}
}

// sgRetVals resolves the results of a return: a result loaded from a result
// alloc (functions with defer/recover) is replaced by the value last stored
// into that alloc in the same block.
func sgRetVals(ret *ssa.Return) []ssa.Value {
	out := make([]ssa.Value, len(ret.Results))
	for i, v := range ret.Results {
		out[i] = v
		u, ok := v.(*ssa.UnOp)
		if !ok {
			continue
		}
		a, ok := u.X.(*ssa.Alloc)
		if !ok {
			continue
		}
		for _, in := range ret.Block().Instrs {
			if st, ok := in.(*ssa.Store); ok && st.Addr == ssa.Value(a) {
				out[i] = st.Val
			}
		}
	}
	return out
}

// sgOkReturns: the returns of fn whose (resolved) last result is the nil constant.
func sgOkReturns(fn *ssa.Function) []*ssa.Return {
	var out []*ssa.Return
	for _, ret := range Returns(fn) {
		vs := sgRetVals(ret)
		if n := len(vs); n > 0 && errKind(vs[n-1]) == "nil" {
			out = append(out, ret)
		}
	}
	return out
}

func sgAnyReach(reach *Reach, rets []*ssa.Return) *ssa.Return {
	for _, ret := range rets {
		if reach.Has(ret) {
			return ret
		}
	}
	return nil
}

// SgRejects: under the conjunction `cause` (walk from the entry) no success
// return of fn may execute; with the last (decisive) atom of the cause moved to
// a value outside the cause a success return is reachable.
func (r *Run) SgRejects(fn *ssa.Function, key string, cause ...SgAtom) bool {
	var succ []ssa.Instruction
	for _, ret := range sgOkReturns(fn) {
		succ = append(succ, ret)
	}
	if len(succ) == 0 {
		return r.Check(key, false, r.FnPos(fn), "undecided: "+FuncName(fn)+" has no success return")
	}
	return r.SgBlocked(fn, key, "the success return", succ, cause...)
}

// SgBlocked: under the conjunction `cause` (walk from the entry) none of the
// marker instructions may execute; with the last (decisive) atom of the cause
// moved to a value outside the cause a marker is reachable (control).
func (r *Run) SgBlocked(fn *ssa.Function, key, what string, markers []ssa.Instruction, cause ...SgAtom) bool {
	if len(markers) == 0 {
		return r.Check(key, false, r.FnPos(fn), "undecided: no marker instruction for "+what)
	}
	hit := func(reach *Reach) ssa.Instruction {
		for _, m := range markers {
			if reach.Has(m) {
				return m
			}
		}
		return nil
	}
	var bs []*sgBound
	for _, c := range cause {
		b, err := r.sgBind(fn, c)
		if err != nil {
			return r.Check(key, false, r.FnPos(fn), "undecided: "+err.Error())
		}
		bs = append(bs, b)
	}
	ok, detail := true, ""
	// every combination of the listed bad values blocks the markers
	idx := make([]int, len(cause))
	lists := make([][]string, len(cause))
	for i, c := range cause {
		lists[i] = strings.Split(c.Val, ",")
	}
	for {
		s := Sigma{}
		for i, b := range bs {
			b.set(s, lists[i][idx[i]])
		}
		r.Valuations++
		if m := hit(r.D.Walk(fn, s, nil, nil)); m != nil {
			ok = false
			detail = fmt.Sprintf("%s at %s is reachable under %s", what, r.Where(m), s)
		}
		i := 0
		for ; i < len(idx); i++ {
			idx[i]++
			if idx[i] < len(lists[i]) {
				break
			}
			idx[i] = 0
		}
		if i == len(idx) {
			break
		}
	}
	// control on the decisive (last) atom of the cause; the atoms before it are
	// preconditions that select the case
	last := len(bs) - 1
	for _, good := range domains[bs[last].kind] {
		if isBad(cause[last].Val, good) {
			continue
		}
		s := Sigma{}
		for j, bj := range bs {
			if j == last {
				bj.set(s, good)
			} else {
				bj.set(s, lists[j][0])
			}
		}
		r.Valuations++
		if hit(r.D.Walk(fn, s, nil, nil)) == nil {
			ok = false
			detail = fmt.Sprintf("%s is unreachable even under %s: blocked more broadly than by the cause (control)", what, s)
		}
	}
	if ok {
		var ks []string
		for _, b := range bs {
			ks = append(ks, b.keys...)
		}
		detail = fmt.Sprintf("%s unreachable under the cause, reachable when its decisive atom is good; atoms %v", what, ks)
	}
	return r.Check(key, ok, r.Where(markers[0]), detail)
}

// SgRejectsInLoop is the loop-body form: once the atom came out bad (walk from
// the block testing it) every return that may execute carries a non-nil error.
func (r *Run) SgRejectsInLoop(fn *ssa.Function, key string, c SgAtom) bool {
	b, err := r.sgBind(fn, c)
	if err != nil {
		return r.Check(key, false, r.FnPos(fn), "undecided: "+err.Error())
	}
	isBound := map[string]bool{}
	for _, k := range b.keys {
		isBound[k] = true
	}
	blocks := r.blocksTesting(fn, func(ci *CondInfo) bool { return isBound[ci.Key] })
	if len(blocks) == 0 {
		return r.Check(key, false, r.FnPos(fn), "undecided: atom bound but no block tests it directly")
	}
	ok, detail, nret := true, "", 0
	for _, bad := range strings.Split(c.Val, ",") {
		s := Sigma{}
		b.set(s, bad)
		for _, blk := range blocks {
			r.Valuations++
			for _, ret := range reachableReturns(fn, r.D.Walk(fn, s, blk, nil)) {
				nret++
				vs := sgRetVals(ret)
				if n := len(vs); n == 0 || errKind(vs[n-1]) == "nil" {
					ok = false
					detail = fmt.Sprintf("once %s the return at %s (nil error) is still reachable", s, r.Where(ret))
				}
			}
		}
	}
	if ok && nret == 0 {
		ok, detail = false, "no return reachable after the failure (undecided)"
	}
	if ok {
		detail = fmt.Sprintf("once the test came out bad all %d reachable returns carry an error; atoms %v", nret, b.keys)
	}
	return r.Check(key, ok, r.Where(blocks[0].Instrs[len(blocks[0].Instrs)-1]), detail)
}

// SgModel valuates every ord atom of fn whose two operands are integer
// constants or match a term of the model.
func (r *Run) SgModel(fn *ssa.Function, model map[string]int64) (Sigma, []string) {
	val := func(term string) (int64, bool) {
		if c, err := strconv.ParseInt(term, 10, 64); err == nil {
			return c, true
		}
		for _, g := range keysOf(model) {
			if anyGlob(g, term) {
				return model[g], true
			}
		}
		return 0, false
	}
	s := Sigma{}
	var bound []string
	found := r.D.AtomsOf(fn)
	for _, k := range keysOf(found) {
		ci := found[k]
		if ci.Kind != "ord" {
			continue
		}
		a, okA := val(ci.A)
		b, okB := val(ci.B)
		if !okA || !okB {
			continue
		}
		if _, errA := strconv.ParseInt(ci.A, 10, 64); errA == nil {
			if _, errB := strconv.ParseInt(ci.B, 10, 64); errB == nil {
				continue // constant against constant
			}
		}
		switch {
		case a < b:
			s[k] = "<"
		case a == b:
			s[k] = "="
		default:
			s[k] = ">"
		}
		bound = append(bound, k)
	}
	return s, bound
}

// SgDupSet checks the "seen" discipline of a duplicate test: the branch
// condition matching lookupGlob is a lookup m[k]; on the not-seen edge a map
// update m[k] = … on the same map value with the same key term must execute
// on the way back to the loop head, and that update is unreachable once the
// lookup said "seen".  Returns the key value.
func (r *Run) SgDupSet(fn *ssa.Function, key, lookupGlob string, seenWhen string) ssa.Value {
	var lk *ssa.Lookup
	var blk *ssa.BasicBlock
	var atomKey string
	for _, b := range fn.Blocks {
		if len(b.Instrs) == 0 {
			continue
		}
		ifi, ok := b.Instrs[len(b.Instrs)-1].(*ssa.If)
		if !ok {
			continue
		}
		ci := r.D.Classify(ifi.Cond)
		if !anyGlob(lookupGlob, ci.Key) {
			continue
		}
		v := ifi.Cond
		if u, ok := v.(*ssa.UnOp); ok {
			v = u.X
		}
		if e, ok := v.(*ssa.Extract); ok {
			v = e.Tuple
		}
		if l, ok := v.(*ssa.Lookup); ok {
			lk, blk, atomKey = l, b, ci.Key
		}
	}
	if lk == nil {
		r.Fail(key, r.FnPos(fn), "undecided: no duplicate test matching "+lookupGlob+" in "+FuncName(fn))
		return nil
	}
	want := r.D.D(lk.Index)
	var upd *ssa.MapUpdate
	eachInstr(fn, func(in ssa.Instruction) {
		if mu, ok := in.(*ssa.MapUpdate); ok && mu.Map == lk.X && r.D.D(mu.Key) == want {
			upd = mu
		}
	})
	if upd == nil {
		r.Fail(key, r.Where(lk), fmt.Sprintf("the tested key %s is never recorded in the map it is looked up in (duplicates go unnoticed)", want))
		return lk.Index
	}
	notSeen := "F"
	if seenWhen == "F" {
		notSeen = "T"
	}
	r.Valuations += 2
	okFresh := r.D.Walk(fn, Sigma{atomKey: notSeen}, blk, nil).Has(upd)
	okSeen := !r.D.Walk(fn, Sigma{atomKey: seenWhen}, blk, map[*ssa.BasicBlock]bool{blk: true}).Has(upd)
	r.Check(key, okFresh && okSeen, r.Where(upd), fmt.Sprintf("key %s: recorded on the not-seen edge=%v, not recorded on the seen edge=%v", want, okFresh, okSeen))
	return lk.Index
}

// sgFmtInjective decides whether a Printf format is an injective encoding of its
// operands given their kinds ('s' unbounded string, 'd' signed integer).
// Sound and deliberately simple: an unbounded %s operand is only delimited
// when it is the last verb; %d is self-delimiting when followed by a literal
// that does not start with a digit.
func sgFmtInjective(format string, kinds []byte) (bool, string) {
	type piece struct {
		verb byte // 0 = literal
		lit  string
	}
	var ps []piece
	for i := 0; i < len(format); i++ {
		if format[i] == '%' && i+1 < len(format) {
			if format[i+1] == '%' {
				ps = append(ps, piece{lit: "%"})
			} else {
				ps = append(ps, piece{verb: format[i+1]})
			}
			i++
			continue
		}
		if n := len(ps); n > 0 && ps[n-1].verb == 0 {
			ps[n-1].lit += string(format[i])
		} else {
			ps = append(ps, piece{lit: string(format[i])})
		}
	}
	arg := 0
	for i, p := range ps {
		if p.verb == 0 {
			continue
		}
		if arg >= len(kinds) {
			return false, "more verbs than operands"
		}
		k := kinds[arg]
		arg++
		last := true
		for _, q := range ps[i+1:] {
			if q.verb != 0 {
				last = false
			}
		}
		switch {
		case k == 's' && !last:
			return false, fmt.Sprintf("string operand %d is followed by further operands and can contain the separator and anything they print (e.g. (\"a-\", 5) and (\"a\", -5) both give \"a--5\" under \"%%s-%%d\")", arg-1)
		case k == 'd' && i+1 < len(ps) && ps[i+1].verb != 0:
			return false, fmt.Sprintf("integer operand %d is directly followed by another verb", arg-1)
		case k == 'd' && i+1 < len(ps) && ps[i+1].lit[0] >= '0' && ps[i+1].lit[0] <= '9':
			return false, fmt.Sprintf("integer operand %d is followed by a digit literal", arg-1)
		}
	}
	if arg != len(kinds) {
		return false, "operands without verbs"
	}
	return true, ""
}

// sgSprintfParts returns the constant format and the operand values of a
// fmt.Sprintf call whose variadic slice is built locally.
func sgSprintfParts(r *Run, v ssa.Value) (string, []ssa.Value, bool) {
	call, ok := v.(*ssa.Call)
	if !ok || CalleeOf(call) != "fmt.Sprintf" || len(call.Call.Args) != 2 {
		return "", nil, false
	}
	fc, ok := call.Call.Args[0].(*ssa.Const)
	if !ok || fc.Value == nil {
		return "", nil, false
	}
	format, err := strconv.Unquote(fc.Value.ExactString())
	if err != nil {
		return "", nil, false
	}
	sl, ok := call.Call.Args[1].(*ssa.Slice)
	if !ok {
		return "", nil, false
	}
	arr, ok := sl.X.(*ssa.Alloc)
	if !ok {
		return "", nil, false
	}
	ops := map[int64]ssa.Value{}
	for _, ref := range *arr.Referrers() {
		ia, ok := ref.(*ssa.IndexAddr)
		if !ok {
			continue
		}
		ic, ok := ia.Index.(*ssa.Const)
		if !ok {
			return "", nil, false
		}
		for _, ref2 := range *ia.Referrers() {
			if st, ok := ref2.(*ssa.Store); ok {
				val := st.Val
				if mi, ok := val.(*ssa.MakeInterface); ok {
					val = mi.X
				}
				ops[ic.Int64()] = val
			}
		}
	}
	var idx []int64
	for i := range ops {
		idx = append(idx, i)
	}
	sort.Slice(idx, func(i, j int) bool { return idx[i] < idx[j] })
	var out []ssa.Value
	for _, i := range idx {
		out = append(out, ops[i])
	}
	return format, out, true
}

func sgKindOf(t types.Type) byte {
	if b, ok := t.Underlying().(*types.Basic); ok {
		switch {
		case b.Info()&types.IsString != 0:
			return 's'
		case b.Info()&types.IsInteger != 0:
			return 'd'
		}
	}
	return '?'
}

// sgExtFunc finds a function of the whole program (dependencies included) by name.
func (r *Run) sgExtFunc(name string) *ssa.Function {
	var hit *ssa.Function
	for fn := range r.P.AllFuncs {
		if fn.Parent() == nil && len(fn.Blocks) > 0 && fn.Name() == name[strings.LastIndex(name, ".")+1:] && FuncName(fn) == name {
			if hit == nil || fn.Pos() < hit.Pos() {
				hit = fn
			}
		}
	}
	return hit
}

// sgAddOperands splits a rendered sum "(a + b)" at its top-level " + ".
func sgAddOperands(term string) (string, string, bool) {
	if !strings.HasPrefix(term, "(") || !strings.HasSuffix(term, ")") {
		return "", "", false
	}
	in := term[1 : len(term)-1]
	depth := 0
	for i := 0; i+3 <= len(in); i++ {
		switch in[i] {
		case '(', '[':
			depth++
		case ')', ']':
			depth--
		}
		if depth == 0 && in[i:i+3] == " + " {
			return in[:i], in[i+3:], true
		}
	}
	return "", "", false
}
