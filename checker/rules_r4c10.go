package main

import (
	"fmt"
	"go/ast"
	"go/token"
	"go/types"
	"sort"
	"strings"
)

// C10.R3, round 4 — what lies OUTSIDE the decoder, and package-level state.
//
// "Strict ≡ encoding/asn1, lax only adds acceptances" is decided per function: the
// strict residual of every same-named function is compared with upstream's (R3), the
// lax tables compare the returns of the deciders under both values of the flag (R2).
// Both read a function as a map from its arguments to its results.  That reading is
// the whole truth only if the package has no state that one call can leave behind for
// the next: a write to a package-level variable inside a branch that R3 drops (lax
// only) or that carries no rejection / return site would change what LATER calls do,
// in strict mode too, without any compared item changing.  Established here:
//
//	(state)   every package-level variable of the fork is written by its declaration
//	          only (no function assigns it, increments it, takes its address or calls a
//	          pointer-receiver method on it), or it is a SINK;
//	(sink)    a sink is a variable that upstream does not have, of a flat type (numbers,
//	          booleans, strings, sync/atomic integers, structs / arrays of those — nothing
//	          through which other storage is reachable), declared without an initialiser
//	          or with a constant one, and every reference to it outside the OUTSIDE
//	          functions below stands in a sink statement: `V.f.Add(e)` / `V.f.Store(e)` of
//	          a sync/atomic type or atomic.AddT(&V.f, e) / atomic.StoreT(&V.f, e) as a
//	          statement (result discarded), `V.f++`, `V.f op= e`, `V.f = e`, with e free of
//	          calls, indexing, dereferences, division and shifts (nothing that can have an
//	          effect or panic), or an `if` with such a condition whose branches consist of
//	          sink statements.  No decoder code reads a sink, so what is stored there
//	          cannot reach a branch condition, a returned value or an error: a sink
//	          statement is not part of the strict residual (the walker passes over it);
//	(outside) a function that only the fork has is outside the decoder — and then no
//	          drift — when nothing but outside code refers to it (no compared function, no
//	          other fork-only function that is not itself outside, no variable
//	          initialiser, no type declaration: it is reachable from nothing compared),
//	          its receiver, if any, is a fork-only type that again nothing but outside
//	          code refers to (so no value of it exists in decoder code and none of its
//	          methods can be called there dynamically), and its body refers to no
//	          package-level function, method or variable of the fork except outside ones,
//	          sinks and variables of a flat type that no function writes (types and
//	          constants are free): it cannot call into the decoder
//	          (a new entry point is reported), cannot write what the decoder reads and
//	          reads nothing but sinks.
//
// The three notions depend on each other (a sink may be read by outside functions
// only; an outside function may touch sinks only): the largest consistent assignment
// is computed by removing candidates until nothing changes.
//
// NOT covered: mutation of what a package-level pointer / slice / map refers to through
// a call that receives it (`x.Add(x, bigOne)`), writes by other packages to exported
// variables.

type fdVarVerdict struct {
	Name   string
	OK     bool
	Sink   bool
	Pos    token.Pos
	Detail string
}

type fdOutsideInfo struct {
	island    map[types.Object]bool // outside functions / methods and outside types
	sinks     map[types.Object]bool
	sinkStmts map[ast.Stmt]bool
	whyNot    map[types.Object]string // candidate -> why it is not outside
	vars      []fdVarVerdict
}

type fdRef struct {
	obj   types.Object
	id    *ast.Ident
	owner types.Object // function / type whose declaration contains the reference (nil: variable or constant declaration)
}

var fdAtomicFlat = map[string]bool{"Int32": true, "Int64": true, "Uint32": true, "Uint64": true, "Uintptr": true, "Bool": true}

// fdFlatType: no value of the type gives access to other storage.
func fdFlatType(t types.Type, depth int) bool {
	if depth > 8 {
		return false
	}
	t = types.Unalias(t)
	if n, ok := t.(*types.Named); ok {
		if o := n.Obj(); o.Pkg() != nil && o.Pkg().Path() == "sync/atomic" {
			return fdAtomicFlat[o.Name()]
		}
	}
	switch u := t.Underlying().(type) {
	case *types.Basic:
		return u.Info()&(types.IsNumeric|types.IsBoolean|types.IsString) != 0
	case *types.Struct:
		for i := 0; i < u.NumFields(); i++ {
			if !fdFlatType(u.Field(i).Type(), depth+1) {
				return false
			}
		}
		return true
	case *types.Array:
		return fdFlatType(u.Elem(), depth+1)
	}
	return false
}

// fdSinkPure: evaluating e has no effect, cannot panic and calls nothing.
func fdSinkPure(e ast.Expr, info *types.Info, depth int) bool {
	if depth > 12 {
		return false
	}
	if tv, ok := info.Types[e]; ok && tv.Value != nil {
		return true
	}
	switch e := e.(type) {
	case *ast.BasicLit:
		return true
	case *ast.ParenExpr:
		return fdSinkPure(e.X, info, depth+1)
	case *ast.Ident:
		switch o := info.Uses[e].(type) {
		case *types.Var, *types.Const, *types.Nil:
			return true
		case *types.Builtin:
			return false
		default:
			_ = o
		}
		return false
	case *ast.UnaryExpr:
		switch e.Op {
		case token.ADD, token.SUB, token.XOR, token.NOT:
			return fdSinkPure(e.X, info, depth+1)
		}
		return false
	case *ast.BinaryExpr:
		switch e.Op {
		case token.QUO, token.REM, token.SHL, token.SHR:
			return false
		}
		// comparing interface values may panic (uncomparable dynamic types)
		if e.Op == token.EQL || e.Op == token.NEQ {
			for _, x := range []ast.Expr{e.X, e.Y} {
				if tv, ok := info.Types[x]; ok && tv.Type != nil {
					if _, isI := tv.Type.Underlying().(*types.Interface); isI {
						return false
					}
				}
			}
		}
		return fdSinkPure(e.X, info, depth+1) && fdSinkPure(e.Y, info, depth+1)
	case *ast.SelectorExpr:
		if sl := info.Selections[e]; sl != nil {
			return sl.Kind() == types.FieldVal && !sl.Indirect() && fdSinkPure(e.X, info, depth+1)
		}
		// qualified identifier
		switch info.Uses[e.Sel].(type) {
		case *types.Var, *types.Const:
			return true
		}
		return false
	case *ast.CallExpr:
		if len(e.Args) != 1 || e.Ellipsis.IsValid() {
			return false
		}
		if tv, ok := info.Types[e.Fun]; ok && tv.IsType() {
			if _, basic := tv.Type.Underlying().(*types.Basic); basic {
				if at, ok := info.Types[e.Args[0]]; ok && at.Type != nil {
					if _, ab := at.Type.Underlying().(*types.Basic); ab {
						return fdSinkPure(e.Args[0], info, depth+1)
					}
				}
			}
			return false
		}
		if id, ok := fdUnparen(e.Fun).(*ast.Ident); ok {
			if b, ok := info.Uses[id].(*types.Builtin); ok && (b.Name() == "len" || b.Name() == "cap") {
				if at, ok := info.Types[e.Args[0]]; ok && at.Type != nil {
					switch at.Type.Underlying().(type) {
					case *types.Slice, *types.Basic, *types.Map, *types.Array:
						return fdSinkPure(e.Args[0], info, depth+1)
					}
				}
			}
		}
	}
	return false
}

// fdSinkPath: e is V, V.f.g… or V.a[const] for a variable V of the set (no
// dereference, no computed index: the storage named is part of V itself).
func fdSinkPath(e ast.Expr, info *types.Info, sinks map[types.Object]bool) bool {
	for {
		switch x := e.(type) {
		case *ast.ParenExpr:
			e = x.X
		case *ast.Ident:
			o := info.Uses[x]
			return o != nil && sinks[o]
		case *ast.SelectorExpr:
			sl := info.Selections[x]
			if sl == nil || sl.Kind() != types.FieldVal || sl.Indirect() {
				return false
			}
			e = x.X
		case *ast.IndexExpr:
			tv, ok := info.Types[x.X]
			if !ok || tv.Type == nil {
				return false
			}
			if _, isArr := tv.Type.Underlying().(*types.Array); !isArr {
				return false
			}
			if iv, ok := info.Types[x.Index]; !ok || iv.Value == nil {
				return false
			}
			e = x.X
		default:
			return false
		}
	}
}

// fdSinkStmt: the only effect of st is on variables of the set (see (sink) above).
func fdSinkStmt(st ast.Stmt, info *types.Info, sinks map[types.Object]bool) bool {
	if len(sinks) == 0 {
		return false
	}
	switch s := st.(type) {
	case *ast.ExprStmt:
		call, ok := fdUnparen(s.X).(*ast.CallExpr)
		if !ok || call.Ellipsis.IsValid() {
			return false
		}
		sel, ok := fdUnparen(call.Fun).(*ast.SelectorExpr)
		if !ok {
			return false
		}
		fn, _ := info.Uses[sel.Sel].(*types.Func)
		if fn == nil || fn.Pkg() == nil || fn.Pkg().Path() != "sync/atomic" {
			return false
		}
		args := call.Args
		if sl := info.Selections[sel]; sl != nil {
			// V.f.Add(e) / V.f.Store(e) of a sync/atomic integer or boolean
			if sl.Kind() != types.MethodVal || (fn.Name() != "Add" && fn.Name() != "Store") || !fdSinkPath(sel.X, info, sinks) {
				return false
			}
			if tv, ok := info.Types[sel.X]; !ok || tv.Type == nil || !fdFlatType(tv.Type, 0) {
				return false
			}
		} else {
			// atomic.AddT(&V.f, e) / atomic.StoreT(&V.f, e)
			n := fn.Name()
			if !(strings.HasPrefix(n, "Add") || strings.HasPrefix(n, "Store")) || n == "StorePointer" || len(args) != 2 {
				return false
			}
			u, ok := fdUnparen(args[0]).(*ast.UnaryExpr)
			if !ok || u.Op != token.AND || !fdSinkPath(u.X, info, sinks) {
				return false
			}
			args = args[1:]
		}
		for _, a := range args {
			if !fdSinkPure(a, info, 0) {
				return false
			}
		}
		return true
	case *ast.IncDecStmt:
		return fdSinkPath(s.X, info, sinks)
	case *ast.AssignStmt:
		switch s.Tok {
		case token.DEFINE, token.QUO_ASSIGN, token.REM_ASSIGN, token.SHL_ASSIGN, token.SHR_ASSIGN:
			return false
		}
		if len(s.Lhs) != len(s.Rhs) {
			return false
		}
		for _, l := range s.Lhs {
			if !fdSinkPath(l, info, sinks) {
				return false
			}
		}
		for _, x := range s.Rhs {
			if !fdSinkPure(x, info, 0) {
				return false
			}
		}
		return true
	case *ast.BlockStmt:
		for _, x := range s.List {
			if !fdSinkStmt(x, info, sinks) {
				return false
			}
		}
		return true
	case *ast.IfStmt:
		if s.Init != nil || !fdSinkPure(s.Cond, info, 0) || len(s.Body.List) == 0 || !fdSinkStmt(s.Body, info, sinks) {
			return false
		}
		return s.Else == nil || fdSinkStmt(s.Else, info, sinks)
	}
	return false
}

func fdConstInit(e ast.Expr, info *types.Info, depth int) bool {
	if depth > 6 {
		return false
	}
	if tv, ok := info.Types[e]; ok && tv.Value != nil {
		return true
	}
	if cl, ok := fdUnparen(e).(*ast.CompositeLit); ok {
		for _, el := range cl.Elts {
			if kv, ok := el.(*ast.KeyValueExpr); ok {
				el = kv.Value
			}
			if !fdConstInit(el, info, depth+1) {
				return false
			}
		}
		return true
	}
	return false
}

// fdOutside computes the outside functions / types, the sinks and the verdicts on
// the package-level variables of the fork.  cands: the functions only the fork has
// (the referenced ones; dead code and transparent functions are dealt with before).
func fdOutside(fs, us *fdSide, cands map[string]*ast.FuncDecl) *fdOutsideInfo {
	pk := fs.pkg
	info := pk.TypesInfo
	scope, upScope := pk.Types.Scope(), us.pkg.Types.Scope()
	out := &fdOutsideInfo{island: map[types.Object]bool{}, sinks: map[types.Object]bool{}, sinkStmts: map[ast.Stmt]bool{}, whyNot: map[types.Object]string{}}
	pkgLevel := func(o types.Object) bool {
		if o == nil || o.Pkg() != pk.Types {
			return false
		}
		if f, ok := o.(*types.Func); ok {
			if sig, ok := f.Type().(*types.Signature); ok && sig.Recv() != nil {
				return true // a method of a type of the package
			}
		}
		if v, ok := o.(*types.Var); ok && v.IsField() {
			return false
		}
		return o.Parent() == scope
	}
	// ---- candidates
	for _, fd := range cands {
		if o := info.Defs[fd.Name]; o != nil {
			out.island[o] = true
		}
	}
	for _, name := range scope.Names() {
		if tn, ok := scope.Lookup(name).(*types.TypeName); ok && !tn.IsAlias() && upScope.Lookup(name) == nil {
			out.island[tn] = true
		}
	}
	var bodies []*ast.FuncDecl
	var refs []fdRef
	varSpec := map[types.Object]*ast.ValueSpec{}
	collect := func(n ast.Node, owner types.Object) {
		ast.Inspect(n, func(x ast.Node) bool {
			if id, ok := x.(*ast.Ident); ok {
				if o := info.Uses[id]; pkgLevel(o) {
					refs = append(refs, fdRef{o, id, owner})
				}
			}
			return true
		})
	}
	for _, f := range pk.Syntax {
		for _, d := range f.Decls {
			switch d := d.(type) {
			case *ast.FuncDecl:
				collect(d, info.Defs[d.Name])
				if d.Body != nil {
					bodies = append(bodies, d)
				}
			case *ast.GenDecl:
				for _, sp := range d.Specs {
					switch sp := sp.(type) {
					case *ast.TypeSpec:
						collect(sp, info.Defs[sp.Name])
					case *ast.ValueSpec:
						collect(sp, nil)
						if d.Tok == token.VAR {
							for _, id := range sp.Names {
								if o := info.Defs[id]; o != nil && id.Name != "_" {
									varSpec[o] = sp
								}
							}
						}
					}
				}
			}
		}
	}
	for o, sp := range varSpec {
		if upScope.Lookup(o.Name()) != nil || o.Parent() != scope || !fdFlatType(o.Type(), 0) {
			continue
		}
		ok := true
		for _, v := range sp.Values {
			ok = ok && fdConstInit(v, info, 0)
		}
		if ok {
			out.sinks[o] = true
		}
	}
	describe := func(o types.Object) string {
		if o == nil {
			return "a variable or constant declaration"
		}
		if f, ok := o.(*types.Func); ok {
			if sig, ok := f.Type().(*types.Signature); ok && sig.Recv() != nil {
				t := sig.Recv().Type()
				if p, ok := t.(*types.Pointer); ok {
					t = p.Elem()
				}
				return "(" + types.TypeString(t, func(*types.Package) string { return "" }) + ")." + f.Name()
			}
		}
		return o.Name()
	}
	drop := func(o types.Object, why string) {
		if out.island[o] {
			delete(out.island, o)
			if _, dup := out.whyNot[o]; !dup {
				out.whyNot[o] = why
			}
		}
	}
	// ---- who writes which package-level variable (deterministic: by position)
	type wr struct {
		fd   *ast.FuncDecl
		kind string
	}
	sort.SliceStable(bodies, func(i, j int) bool {
		pi, pj := pk.Fset.Position(bodies[i].Pos()), pk.Fset.Position(bodies[j].Pos())
		if pi.Filename != pj.Filename {
			return pi.Filename < pj.Filename
		}
		return pi.Offset < pj.Offset
	})
	writesAll := map[types.Object][]wr{}
	for _, fd := range bodies {
		w := fdWrittenIn(fd.Body, info)
		for _, m := range []struct {
			set  map[types.Object]bool
			kind string
		}{{w.asg, "assigned"}, {w.addr, "address-taken (explicitly, by slicing, or by a pointer-receiver method call)"}} {
			for o := range m.set {
				if o != nil && o.Parent() == scope {
					if l := writesAll[o]; len(l) == 0 || l[len(l)-1].fd != fd {
						writesAll[o] = append(writesAll[o], wr{fd, m.kind})
					}
				}
			}
		}
	}
	// ---- largest consistent assignment
	for changed := true; changed; {
		changed = false
		nI, nS := len(out.island), len(out.sinks)
		// the identifiers that stand in sink statements (relative to the current sinks)
		inSink := map[*ast.Ident]bool{}
		out.sinkStmts = map[ast.Stmt]bool{}
		for _, fd := range bodies {
			ast.Inspect(fd.Body, func(x ast.Node) bool {
				st, ok := x.(ast.Stmt)
				if !ok || !fdSinkStmt(st, info, out.sinks) {
					return true
				}
				if b, isBlock := st.(*ast.BlockStmt); isBlock && len(b.List) == 0 {
					return true
				}
				out.sinkStmts[st] = true
				ast.Inspect(st, func(y ast.Node) bool {
					if id, ok := y.(*ast.Ident); ok {
						inSink[id] = true
					}
					return true
				})
				return false
			})
		}
		for _, rf := range refs {
			inIsland := rf.owner != nil && out.island[rf.owner]
			switch {
			case out.sinks[rf.obj]:
				if !inIsland && !inSink[rf.id] {
					delete(out.sinks, rf.obj)
				}
			case out.island[rf.obj]:
				if !inIsland {
					drop(rf.obj, "is referred to by "+describe(rf.owner)+" ("+fdShortPos(pk.Fset.Position(rf.id.Pos()))+"), which belongs to the decoder")
				}
			}
		}
		// the receiver of an outside method is an outside type
		for o := range out.island {
			f, ok := o.(*types.Func)
			if !ok {
				continue
			}
			sig, _ := f.Type().(*types.Signature)
			if sig == nil || sig.Recv() == nil {
				continue
			}
			t := types.Unalias(sig.Recv().Type())
			if p, ok := t.(*types.Pointer); ok {
				t = types.Unalias(p.Elem())
			}
			n, _ := t.(*types.Named)
			if n == nil || !out.island[n.Obj()] {
				drop(o, "is a method of a type that does not lie outside the decoder (upstream has it, or decoder code refers to it): values of the type exist in decoder code, the method may be called there, also dynamically through an interface")
			}
		}
		// what outside code refers to
		for _, rf := range refs {
			if rf.owner == nil || !out.island[rf.owner] || rf.obj == rf.owner {
				continue
			}
			switch rf.obj.(type) {
			case *types.TypeName, *types.Const:
				continue
			}
			if out.island[rf.obj] || out.sinks[rf.obj] {
				continue
			}
			if v, isVar := rf.obj.(*types.Var); isVar && len(writesAll[v]) == 0 && fdFlatType(v.Type(), 0) {
				continue // written by its declaration only and gives access to no other storage: reading it is free
			}
			what := "the package-level variable " + rf.obj.Name() + ", which the decoder reads or which is not write-only"
			if _, isF := rf.obj.(*types.Func); isF {
				what = describe(rf.obj) + ", which belongs to the decoder (a new way into or around the decoder)"
			}
			drop(rf.owner, "refers to "+what+" ("+fdShortPos(pk.Fset.Position(rf.id.Pos()))+")")
		}
		changed = len(out.island) != nI || len(out.sinks) != nS
	}
	// ---- verdicts on the package-level variables
	writes := map[types.Object]wr{}
	for o, l := range writesAll {
		writes[o] = l[0]
		for _, w := range l {
			if !out.island[info.Defs[w.fd.Name]] {
				writes[o] = w // (a function of the decoder first)
				break
			}
		}
	}
	var names []string
	byName := map[string]types.Object{}
	for o := range varSpec {
		if o.Parent() == scope {
			names = append(names, o.Name())
			byName[o.Name()] = o
		}
	}
	sort.Strings(names)
	for _, n := range names {
		o := byName[n]
		switch w, written := writes[o]; {
		case out.sinks[o]:
			out.vars = append(out.vars, fdVarVerdict{n, true, true, o.Pos(), n + " is write-only for the decoder: upstream has no such variable, its type gives access to no other storage, and every reference outside the fork-only functions that lie outside the decoder stands in a statement whose only effect is to store into it (atomic Add / Store, ++, op=, = of an expression without calls, indexing or division); nothing the decoder computes can depend on it"})
		case fs.memo[o]:
			out.vars = append(out.vars, fdVarVerdict{n, true, false, o.Pos(), n + " is a table that remembers what a pure function of its key computed: every entry is a function of its key alone and nothing is written through what the table holds (memo:" + n + "), so a lookup yields what computing afresh yields and no call can tell which calls came before"})
		case written:
			out.vars = append(out.vars, fdVarVerdict{n, false, false, w.fd.Pos(), fmt.Sprintf("the package-level variable %s is %s in %s and is not write-only (the decoder can read it, or the write is not a plain store of a side-effect-free expression): one call can change what later calls do — in strict mode too —, which neither the comparison with encoding/asn1 nor the lax tables see", n, w.kind, fdFuncKey(w.fd))})
		default:
			out.vars = append(out.vars, fdVarVerdict{n, true, false, o.Pos(), n + " is written by its declaration only"})
		}
	}
	return out
}

// fdShortPos renders a position with the last two path elements only (reports must
// not depend on where the analysed tree lies).
func fdShortPos(p token.Position) string {
	f := p.Filename
	if i := strings.LastIndex(f, "/"); i >= 0 {
		if j := strings.LastIndex(f[:i], "/"); j >= 0 {
			f = f[j+1:]
		}
	}
	return fmt.Sprintf("%s:%d", f, p.Line)
}

// ---- formatting an integer, appending to a strings.Builder: one form ------------------------
//
// By the documentation (and the source) of strconv and strings:
//   strconv.Itoa(i)                          is strconv.FormatInt(int64(i), 10)
//   string(strconv.AppendInt(b, i, base))    is strconv.FormatInt(i, base) when b is empty: an
//                                            empty or nil slice literal, make([]byte, 0[, n]),
//                                            x[:0], or a local defined once as one of these
//                                            (AppendInt returns the extended slice, the local
//                                            keeps length 0)
//   (*strings.Builder).Write(p)              is WriteString(string(p)): both append the bytes
//                                            and return (their number, nil)
// so `sb.Write(strconv.AppendInt(buf, int64(v), 10))` and `sb.WriteString(strconv.Itoa(v))`
// read alike.

func (c *fdCtx) stdCallee(call *ast.CallExpr, pkg, name string) bool {
	fn, ok := c.calleeObj(call).(*types.Func)
	if !ok || fn.Pkg() == nil || fn.Pkg().Path() != pkg || fn.Name() != name {
		return false
	}
	sig, _ := fn.Type().(*types.Signature)
	return sig != nil && sig.Recv() == nil
}

// defOf: the expression itself, or the defining expression of a once-defined local.
func (c *fdCtx) defOf(e ast.Expr) ast.Expr {
	for i := 0; i < 4; i++ {
		e = fdUnparen(e)
		id, ok := e.(*ast.Ident)
		if !ok {
			return e
		}
		d, ok := c.inline[c.obj(id)]
		if !ok || d == nil {
			return e
		}
		e = d
	}
	return e
}

// emptyBytes: the expression is a byte slice of length 0.
func (c *fdCtx) emptyBytes(e ast.Expr) bool {
	info := c.s.pkg.TypesInfo
	e = c.defOf(e)
	if tv, ok := info.Types[e]; ok && tv.IsNil() {
		return true
	}
	switch x := e.(type) {
	case *ast.CompositeLit:
		return len(x.Elts) == 0
	case *ast.SliceExpr:
		return x.Low == nil && x.High != nil && !x.Slice3 && c.isZeroConst(x.High)
	case *ast.CallExpr:
		if id, ok := fdUnparen(x.Fun).(*ast.Ident); ok && len(x.Args) >= 2 {
			if b, ok := info.Uses[id].(*types.Builtin); ok && b.Name() == "make" {
				return c.isZeroConst(x.Args[1])
			}
		}
	}
	return false
}

// asText: the normal form of string(p) for a byte slice p.
func (c *fdCtx) asText(p ast.Expr) string {
	if call, ok := fdUnparen(p).(*ast.CallExpr); ok && len(call.Args) == 3 && !call.Ellipsis.IsValid() &&
		c.stdCallee(call, "strconv", "AppendInt") && c.emptyBytes(call.Args[0]) {
		return "strconv.FormatInt(" + c.expr(call.Args[1]) + ", " + c.expr(call.Args[2]) + ")"
	}
	return "string(" + c.expr(p) + ")"
}

func (c *fdCtx) textForm(call *ast.CallExpr) (string, bool) {
	info := c.s.pkg.TypesInfo
	if call.Ellipsis.IsValid() || len(call.Args) != 1 {
		return "", false
	}
	if c.stdCallee(call, "strconv", "Itoa") {
		return "strconv.FormatInt(int64(" + c.expr(call.Args[0]) + "), 10)", true
	}
	// string(p) of a byte slice
	if tv, ok := info.Types[call.Fun]; ok && tv.IsType() {
		if b, ok := tv.Type.Underlying().(*types.Basic); ok && b.Kind() == types.String {
			if at, ok := info.Types[call.Args[0]]; ok && at.Type != nil {
				if sl, ok := at.Type.Underlying().(*types.Slice); ok {
					if eb, ok := sl.Elem().Underlying().(*types.Basic); ok && eb.Kind() == types.Uint8 && tv.Type == types.Typ[types.String] {
						if s := c.asText(call.Args[0]); !strings.HasPrefix(s, "string(") {
							return s, true
						}
					}
				}
			}
		}
		return "", false
	}
	// sb.Write(p) of a strings.Builder
	if sel, ok := fdUnparen(call.Fun).(*ast.SelectorExpr); ok && sel.Sel.Name == "Write" {
		if sl := info.Selections[sel]; sl != nil && sl.Kind() == types.MethodVal {
			if fn, ok := sl.Obj().(*types.Func); ok && fn.Pkg() != nil && fn.Pkg().Path() == "strings" {
				t := sl.Recv()
				if p, ok := t.(*types.Pointer); ok {
					t = p.Elem()
				}
				if n, ok := types.Unalias(t).(*types.Named); ok && n.Obj().Name() == "Builder" {
					return c.expr(sel.X) + ".WriteString(" + c.asText(call.Args[0]) + ")", true
				}
			}
		}
	}
	return "", false
}
