package main

import (
	"fmt"
	"math/big"
	"strings"

	"golang.org/x/tools/go/ssa"
)

func init() {
	register("C07", "Decides structural necessary conditions of 'get-entries serves the stored bytes for exactly the range it claims': "+
		"(R1) parseGetEntriesRange rejects unparsable, negative and inverted ranges and a rejected range can reach no backend call (status 400); "+
		"(R2) linear identities of the range arithmetic on every branch combination: untruncated ⇒ end unchanged; truncated ⇒ end = start + max − 1 (so end − start + 1 = max); alignment applied only under (align ∧ count ≥ max) and then end' = end − ((end + 1) mod max); the returned start is the parsed start; the backend is asked for StartIndex = start, Count = end + 1 − start on this log; "+
		"(R4) tree-too-small ⇒ 400, surplus leaves ⇒ 500, any leaf whose index ≠ start + i ⇒ 500, garbled root ⇒ 500 before the success return; "+
		"(R5) entry i of the response is {leaf_input ← leaves[i].LeafValue, extra_data ← leaves[i].ExtraData} of the same leaf, appended in slice order from the backend's reply; get-entry-and-proof relays the same two fields; both facts are decided on whichever function issues the RPC / builds the entries (the handler or the one function it calls for it), and the leaves relayed went through FixLogLeaf there, completely and before their extra data is read, its failure blocking success; "+
		"(R6) the entry decoder reads leaf_input as MerkleTreeLeaf and extra_data as the chain structure the writer used for that entry type, and clients index entries start + i and send start/end under their RFC names. "+
		"(R2 also) every observed value of the range arithmetic stays within int64 for all start / end / maxima ≥ 1 (Fourier–Motzkin entailment per path) and the request Count is in [1, max]. "+
		"NOT covered: that the backend returns what was stored, JSON/base64 fidelity (stdlib), maxima < 1.",
		runC07)
}

func runC07(r *Run) {
	r.Assume("linear facts are read off comparisons whose operands are themselves shown to be in range (induction along the path)")
	const S = "strconv.ParseInt((*http.Request).FormValue(p0, \"start\"), 10, 64)#0"
	const E = "strconv.ParseInt((*http.Request).FormValue(p0, \"end\"), 10, 64)#0"

	if fn := r.Fn("trillian/ctfe.parseGetEntriesRange"); fn != nil {
		r.Rule("C07.R1")
		// the two parameters are read under their RFC names
		starts := CallsTo(fn, "strconv.ParseInt")
		r.Check("parse:two-params", len(starts) == 2, r.FnPos(fn), fmt.Sprintf("%d ParseInt calls", len(starts)))
		cStart := r.P.LookupConst("trillian/ctfe.getEntriesParamStart")
		cEnd := r.P.LookupConst("trillian/ctfe.getEntriesParamEnd")
		r.Check("parse:param-names", cStart != nil && cEnd != nil && cStart.Val().ExactString() == `"start"` && cEnd.Val().ExactString() == `"end"`, "-", "form keys start / end")
		r.FailEdge(fn, "parse", EdgeSpec{Name: "start-unparsable", Atom: nilAtom("strconv.ParseInt(*\"start\"*)#1"), Bad: "non", Want: wantErr(true)})
		r.FailEdge(fn, "parse", EdgeSpec{Name: "end-unparsable", Atom: nilAtom("strconv.ParseInt(*\"end\"*)#1"), Bad: "non", Want: wantErr(true)})
		r.FailEdge(fn, "parse", EdgeSpec{Name: "start-negative", Atom: ordAtomR(S, "0"), Bad: "<", Want: wantErr(true)})
		r.FailEdge(fn, "parse", EdgeSpec{Name: "end-negative", Atom: ordAtomR(E, "0"), Bad: "<", Want: wantErr(true)})
		r.FailEdge(fn, "parse", EdgeSpec{Name: "start-after-end", Atom: ordAtomR(S, E), Bad: ">", Want: wantErr(true)})

	}

	if fn := r.Fn("trillian/ctfe.parseGetEntriesRange"); fn != nil {
		// R3 (bounded range analysis): no observed value of the range arithmetic leaves
		// int64 for any start / end / maximum, and the returned range satisfies the
		// statement: start ≤ end_out ≤ end_in and 1 ≤ end_out − start + 1 ≤ max.
		r.Rule("C07.R2")
		r.Assume("the configured maximum (MaxGetEntriesAllowed) is at least 1")
		alignKey := ""
		for k := range r.D.AtomsOf(fn) {
			if glob("*g:trillian/ctfe.alignGetEntries", k) {
				alignKey = k
			}
		}
		r.Check("parseGetEntriesRange:alignment-flag", alignKey != "", r.FnPos(fn), "alignment is conditional on the align_getentries flag")
		sIn, eIn, mx := linLeaf(S), linLeaf(E), linLeaf("p1")
		one := LinForm{Coef: map[string]int64{}, Const: 1}
		n := eIn.add(sIn, -1).add(one, 1) // ideal size of the requested range
		seenCase := map[string]bool{}
		post := map[string]bool{}
		r.RangeCheck(fn, "parseGetEntriesRange", RangeSpec{
			Assume: []string{"p1>=1"},
			Post: func(r *Run, key string, ret *ssa.Return, facts []ineq, lin func(ssa.Value) LinForm) {
				if len(ret.Results) != 3 || errKind(ret.Results[2]) != "nil" {
					return
				}
				so, eo := lin(ret.Results[0]), lin(ret.Results[1])
				// which case of the statement does this path fall in?
				le := entailsLE(facts, n.add(mx, -1), nil, 1)           // n ≤ max
				lt := entailsLE(facts, n.add(mx, -1), big.NewInt(1), 1) // n < max
				gt := entailsLE(facts, mx.add(n, -1), big.NewInt(1), 1) // n > max
				align := false
				for _, q := range facts {
					_ = q
				}
				// the alignment flag is a boolean atom of σ: recover it from reachability of the % operation
				eachInstr(fn, func(in ssa.Instruction) {
					if b, ok := in.(*ssa.BinOp); ok && b.Op.String() == "%" {
						if strings.Contains(eo.String(), "rem(") || strings.Contains(lin(b).String(), "rem(") && strings.Contains(eo.String(), "rem(") {
							align = true
						}
					}
				})
				base := eIn
				cname := "untruncated"
				if gt {
					base = sIn.add(mx, 1).add(one, -1)
					cname = "truncated"
				} else if !le {
					post["undecided: a feasible path does not determine n ? max"] = false
					return
				}
				want := base
				if align {
					if lt {
						post["alignment applied to a range smaller than the maximum"] = false
						return
					}
					d := linLeaf("rem(" + base.add(one, 1).String() + ", " + mx.String() + ")")
					want = base.add(d, -1)
					cname += ",aligned"
				}
				seenCase[cname] = true
				eq := func(a, b LinForm) bool { return a.String() == b.String() }
				set := func(name string, ok bool) {
					if old, seen := post[name]; !seen || (old && !ok) {
						post[name] = ok
					}
				}
				set("start_out = start", eq(so, sIn))
				set("end_out["+cname+"] = "+want.String(), eq(eo, want))
				set("start ≤ end_out", entailsLE(facts, so.add(eo, -1), nil, 1))
				set("end_out ≤ end_in (coercion only shortens)", entailsLE(facts, eo.add(eIn, -1), nil, 1))
				set("end_out − start + 1 ≤ max", entailsLE(facts, eo.add(so, -1).add(mx, -1), big.NewInt(1), 1))
				if !eq(eo, want) {
					post["end_out["+cname+"] = "+want.String()] = false
					post["  got "+eo.String()] = false
				}
			},
		})
		for _, k := range keysOf(post) {
			r.Check("parseGetEntriesRange:post:"+k, post[k], r.FnPos(fn), "holds on every feasible path: "+k)
		}
		for _, c := range []string{"untruncated", "truncated", "untruncated,aligned", "truncated,aligned"} {
			r.Check("parseGetEntriesRange:case:"+c, seenCase[c], r.FnPos(fn), "the case '"+c+"' of the statement is realised by some feasible path")
		}
		// alignment happens only with the flag on: with the flag off no remainder is taken
		if alignKey != "" {
			var rems []ssa.Instruction
			eachInstr(fn, func(in ssa.Instruction) {
				if b, ok := in.(*ssa.BinOp); ok && b.Op.String() == "%" {
					rems = append(rems, in)
				}
			})
			r.MustGuard(fn, "parseGetEntriesRange:no-alignment-when-off", alignKey, "F", rems, "alignment arithmetic")
		}
	}

	if fn := r.Fn("trillian/ctfe.getEntries"); fn != nil {
		r.Rule("C07.R1")
		// backend calls: the RPCs the handler issues itself and its calls of functions of the package that issue one
		rpc := asInstrs(c08BackendCalls(fn))
		r.FailEdge(fn, "getEntries", EdgeSpec{Name: "bad-range", Atom: nilAtom("trillian/ctfe.parseGetEntriesRange(*)#2"), Bad: "non", Want: wantStatus("400"), Unreach: rpc})
		r.MustGuard(fn, "getEntries:range-checked-before-backend", "nil?trillian/ctfe.parseGetEntriesRange(*)#2", "non", rpc, "backend call")
		if c := r.OneCall(fn, "getEntries:parse", "trillian/ctfe.parseGetEntriesRange"); c != nil {
			r.ExpectArg(c, "getEntries:parse.req", 0, "p3")
			r.ExpectArg(c, "getEntries:parse.max", 1, "g:trillian/ctfe.MaxGetEntriesAllowed")
		}
		r.Rule("C07.R2")
		fetch := c06BackendFetch(r, fn, "getEntries:rpc", "GetLeavesByRange")
		var req ssa.Value
		if fetch != nil {
			req = fetch.request(r, "getEntries:req")
		}
		if req != nil {
			r.ExpectFields(fn, "getEntries:req", req, map[string]string{
				"LogId":      "p1.logID",
				"StartIndex": "trillian/ctfe.parseGetEntriesRange(*)#0",
			})
			if a := baseAlloc(req); a != nil {
				for _, st := range r.StoresTo(fn, "&("+r.D.allocName(a)+".Count)") {
					got := r.D.Lin(st.Val, nil).String()
					want := lin2("+trillian/ctfe.parseGetEntriesRange(p3, g:trillian/ctfe.MaxGetEntriesAllowed, p1.logID)#1", "-trillian/ctfe.parseGetEntriesRange(p3, g:trillian/ctfe.MaxGetEntriesAllowed, p1.logID)#0", "+1")
					r.Check("getEntries:req.Count", got == want, r.Where(st), "Count = "+got+" (end + 1 − start)")
					// … and it is a positive int64 no larger than the maximum, given the parser's
					// postconditions (verified above for parseGetEntriesRange with maxRange = MaxGetEntriesAllowed)
					ps := "trillian/ctfe.parseGetEntriesRange(p3, g:trillian/ctfe.MaxGetEntriesAllowed, p1.logID)"
					s0, e0, g := linLeaf(ps+"#0"), linLeaf(ps+"#1"), linLeaf("g:trillian/ctfe.MaxGetEntriesAllowed")
					one := big.NewInt(1)
					facts := []ineq{
						ineqFromLin(s0, nil, -1),                       // 0 ≤ start
						ineqFromLin(s0.add(e0, -1), nil, 1),            // start ≤ end
						ineqFromLin(e0.add(s0, -1).add(g, -1), one, 1), // end − start + 1 ≤ max
						ineqFromLin(g, new(big.Int).Neg(maxInt64), 1),  // max ≤ MaxInt64
						ineqFromLin(e0, new(big.Int).Neg(maxInt64), 1), // end ≤ MaxInt64
					}
					okR, why := inInt64(facts, r.D.Lin(st.Val, nil))
					pos := entailsLE(facts, r.D.Lin(st.Val, nil), one, -1) // 1 ≤ count
					r.Check("getEntries:req.Count-in-range", okR && pos, r.Where(st), "1 ≤ Count ≤ max ≤ MaxInt64 follows from the parser's postconditions "+why)
				}
			}
		}
		r.Rule("C07.R4")
		st := "trillian/ctfe.parseGetEntriesRange(*)#0"
		r.FailEdge(fn, "getEntries", EdgeSpec{Name: "root-garbled", Atom: nilAtom("(*types.LogRootV1).UnmarshalBinary(*)"), Bad: "non", Want: wantStatus("500")})
		r.FailEdge(fn, "getEntries", EdgeSpec{Name: "tree-too-small", Atom: ordAtomR(decodedRoot(r, fn)+".TreeSize", st), Bad: "<,=", Want: wantStatus("400")})
		r.FailEdge(fn, "getEntries", EdgeSpec{Name: "surplus-leaves", Atom: ordAtomR("len(*.Leaves)", "((1 + trillian/ctfe.parseGetEntriesRange(*)#1) - trillian/ctfe.parseGetEntriesRange(*)#0)"), Bad: ">", Want: wantStatus("500")})
		r.FailEdge(fn, "getEntries", EdgeSpec{Name: "leaf-misindexed", Atom: ordAtomR("*.Leaves[*].LeafIndex", "(* + trillian/ctfe.parseGetEntriesRange(*)#0)"), Bad: "<,>", Want: wantStatus("500")})
		// the index compared is start + i for the very element inspected
		for _, b := range r.blocksTesting(fn, func(ci *CondInfo) bool {
			return ci.Kind == "ord" && (glob("*.Leaves[*].LeafIndex", ci.A) || glob("*.Leaves[*].LeafIndex", ci.B))
		}) {
			ifi := b.Instrs[len(b.Instrs)-1].(*ssa.If)
			if bo, ok := ifi.Cond.(*ssa.BinOp); ok {
				idxSide, leafSide := bo.Y, bo.X
				if glob("*.LeafIndex", r.D.D(bo.Y)) {
					idxSide, leafSide = bo.X, bo.Y
				}
				// element index used to load the leaf
				elem := ""
				var walk func(v ssa.Value, d int)
				walk = func(v ssa.Value, d int) {
					if d > 6 {
						return
					}
					switch x := v.(type) {
					case *ssa.UnOp:
						walk(x.X, d+1)
					case *ssa.FieldAddr:
						walk(x.X, d+1)
					case *ssa.IndexAddr:
						elem = r.D.Lin(x.Index, nil).String()
					}
				}
				walk(leafSide, 0)
				got := r.D.Lin(idxSide, nil).String()
				want := lin2(elem, "+trillian/ctfe.parseGetEntriesRange(p3, g:trillian/ctfe.MaxGetEntriesAllowed, p1.logID)#0")
				r.Check("getEntries:leaf-index-identity", elem != "" && got == want, r.Where(ifi), fmt.Sprintf("leaf i is compared with %s; expected start + i = %s", got, want))
			}
		}
		r.Rule("C07.R5")
		if fetch != nil {
			// the reply the entries are built from is the backend's reply to this request on this log's client
			fetch.relays(r, short(FuncName(fetch.h)), "p1")
			// entry i = {LeafValue, ExtraData} of leaf i of that reply, appended in order, served complete —
			// wherever the loop lives (a function the handler hands the leaves to, or the handler itself)
			c07Entries(r, fn, fetch)
			// an entry whose chain could not be restored is never served
			fetch.chainRestored(r, short(FuncName(fetch.h))+":chain-restored")
		}
	}
	r.Rule("C07.R5")
	if fn := r.Fn("trillian/ctfe.getEntryAndProof"); fn != nil {
		if f := c06BackendFetch(r, fn, "getEntryAndProof:rpc", "GetEntryAndProof"); f != nil {
			if j := r.OneCall(fn, "getEntryAndProof:json", "json.Marshal"); j != nil {
				r.ExpectFields(fn, "getEntryAndProof:rsp", c06Built(CallArgs(j)[0], j), map[string]string{
					"LeafInput": f.reply() + ".Leaf.LeafValue",
					"ExtraData": f.reply() + ".Leaf.ExtraData",
					"AuditPath": f.reply() + ".Proof.Hashes",
				})
			}
			f.relays(r, short(FuncName(f.h)), "p1")
			// an entry whose chain could not be restored is never served
			f.chainRestored(r, short(FuncName(f.h))+":chain-restored")
		}
	}

	r.Rule("C07.R6")
	if fn := r.Fn("ct.RawLogEntryFromLeaf"); fn != nil {
		var leafDec, x509Dec, preDec ssa.CallInstruction
		for _, c := range CallsTo(fn, "tls.Unmarshal") {
			src, dst := r.D.D(CallArgs(c)[0]), r.D.D(CallArgs(c)[1])
			switch {
			case src == "p1.LeafInput":
				leafDec = c
				r.Check("decode:leaf_input", glob("&(new:ct.RawLogEntry#0.Leaf)", dst), r.Where(c), "leaf_input decoded into "+dst)
			case src == "p1.ExtraData" && glob("new:ct.CertificateChain#*", dst):
				x509Dec = c
			case src == "p1.ExtraData" && glob("new:ct.PrecertChainEntry#*", dst):
				preDec = c
			}
		}
		r.Check("decode:three-decoders", leafDec != nil && x509Dec != nil && preDec != nil, r.FnPos(fn), "leaf_input → MerkleTreeLeaf; extra_data → CertificateChain | PrecertChainEntry")
		if x509Dec != nil && preDec != nil {
			et := "new:ct.RawLogEntry#0.Leaf.TimestampedEntry.EntryType"
			cases, err := r.D.ConstTable(fn, et, nil)
			if err != nil {
				r.Fail("decode:type-switch", r.FnPos(fn), "undecided: "+err.Error())
			}
			for _, c := range cases {
				r.Valuations++
				x, p := c.Reach.Has(x509Dec), c.Reach.Has(preDec)
				nOK := 0
				for _, ret := range reachableReturns(fn, c.Reach) {
					if errKind(ret.Results[1]) == "nil" {
						nOK++
					}
				}
				switch {
				case c.Default:
					r.Check("decode:type=unknown", !x && !p && nOK == 0, r.FnPos(fn), fmt.Sprintf("unknown entry type: x509 decoder=%v precert decoder=%v success returns=%d", x, p, nOK))
				case c.Value == 0:
					r.Check("decode:type=x509", x && !p, r.FnPos(fn), "X509 entry ⇒ extra_data is a CertificateChain")
				case c.Value == 1:
					r.Check("decode:type=precert", p && !x, r.FnPos(fn), "precert entry ⇒ extra_data is a PrecertChainEntry")
				}
			}
			r.ExpectStores(fn, "decode:x509.cert", "&(new:ct.RawLogEntry#0.Cert)", "*new:ct.RawLogEntry#0.Leaf.TimestampedEntry.X509Entry || new:ct.PrecertChainEntry#0.PreCertificate", 2)
			r.ExpectStores(fn, "decode:chain", "&(new:ct.RawLogEntry#0.Chain)", "new:ct.CertificateChain#0.Entries || new:ct.PrecertChainEntry#0.CertificateChain", 2)
			r.ExpectStores(fn, "decode:index", "&(new:ct.RawLogEntry#0.Index)", "p0", 1)
		}
		r.ErrorsGate(fn, "decode:errors", "tls.Unmarshal", 3)
		for _, c := range CallsTo(fn, "tls.Unmarshal") {
			rest := CallResult(c, 0)
			if rest == nil {
				r.Fail("decode:rest-checked", r.Where(c), "the unconsumed remainder of tls.Unmarshal is discarded")
				continue
			}
			r.FailEdge(fn, "decode:trailing:"+shortErr(r.D.D(CallArgs(c)[1])), EdgeSpec{Name: "trailing-bytes", Atom: ordAtomR("len("+r.D.D(rest)+")", "0"), Bad: ">", Want: wantErr(true)})
		}
	}
	// The function that issues the get-entries request (found by the path it
	// fetches, wherever a refactor puts it) names the parameters start / end.
	var fetcher *ssa.Function
	var fetch ssa.CallInstruction
	for _, fn := range r.P.ModFuncs {
		if fnPkg(fn) == nil || ShortPkg(fnPkg(fn).Path()) != "client" {
			continue
		}
		for _, c := range CallsTo(fn, "(*jsonclient.JSONClient).GetAndParse") {
			if r.D.D(CallArgs(c)[2]) == `"/ct/v1/get-entries"` {
				if fetcher != nil {
					r.Fail("client.get-entries:one-fetcher", r.Where(c), "more than one function fetches /ct/v1/get-entries")
				}
				fetcher, fetch = fn, c
			}
		}
	}
	if fetcher == nil {
		r.Fail("client.get-entries:fetcher", "-", "undecided: no function of package client fetches /ct/v1/get-entries")
		return
	}
	r.Funcs[FuncName(fetcher)] = true
	pStart, pEnd := -1, -1
	eachInstr(fetcher, func(in ssa.Instruction) {
		mu, ok := in.(*ssa.MapUpdate)
		if !ok || r.D.D(mu.Map) != r.D.D(CallArgs(fetch)[3]) {
			return
		}
		var idx int
		if n, _ := fmt.Sscanf(r.D.D(mu.Value), "strconv.FormatInt(p%d, 10)", &idx); n != 1 {
			r.Fail("client.get-entries:param-value", r.Where(mu), "parameter "+r.D.D(mu.Key)+" ← "+r.D.D(mu.Value)+" (not a decimal rendering of an argument)")
			return
		}
		switch r.D.D(mu.Key) {
		case `"start"`:
			pStart = idx
		case `"end"`:
			pEnd = idx
		default:
			r.Fail("client.get-entries:param-name", r.Where(mu), "unexpected get-entries parameter "+r.D.D(mu.Key))
		}
	})
	r.Check("client.get-entries:params", pStart >= 0 && pEnd >= 0 && pStart != pEnd, r.Where(fetch), fmt.Sprintf("start ← argument %d, end ← argument %d of %s", pStart, pEnd, FuncName(fetcher)))
	r.ErrorsGate(fetcher, "client.get-entries:errors", "(*jsonclient.JSONClient).GetAndParse", 1)
	// exported entry points hand their start / end to those arguments
	for _, name := range []string{"(*client.LogClient).GetRawEntries", "(*client.LogClient).GetEntries"} {
		fn := r.Fn(name)
		if fn == nil {
			continue
		}
		if fn == fetcher {
			r.Check(short(name)+":forwards", pStart == 2 && pEnd == 3, r.FnPos(fn), "its own (start, end) arguments are the ones sent")
			continue
		}
		cs := CallsTo(fn, FuncName(fetcher))
		if len(cs) == 0 { // through GetRawEntries
			cs = CallsTo(fn, "(*client.LogClient).GetRawEntries")
		}
		if len(cs) != 1 {
			r.Fail(short(name)+":forwards", r.FnPos(fn), "undecided: does not reach the get-entries fetcher by one call")
			continue
		}
		a := CallArgs(cs[0])
		if cs[0].Common().StaticCallee() == fetcher {
			r.Check(short(name)+":forwards", r.D.D(a[pStart]) == "p2" && r.D.D(a[pEnd]) == "p3", r.Where(cs[0]), fmt.Sprintf("passes (start=%s, end=%s)", r.D.D(a[pStart]), r.D.D(a[pEnd])))
		} else {
			r.Check(short(name)+":forwards", r.D.D(a[2]) == "p2" && r.D.D(a[3]) == "p3", r.Where(cs[0]), "passes (start, end) on")
		}
	}
	if fn := r.Fn("(*client.LogClient).GetEntries"); fn != nil {
		if c := r.OneCall(fn, "client.GetEntries:decode", "ct.LogEntryFromLeaf"); c != nil {
			idx := r.D.Lin(CallArgs(c)[0], nil).String()
			r.Check("client.GetEntries:index", linNoConst(idx) && (glob("+it@* +p2", idx) || glob("+p2 +φ*", idx) || glob("+φ* +p2", idx)), r.Where(c), "entry i is decoded with index "+idx+" (start + i)")
			// what is decoded is Entries[i] of the reply for the same i — handed over as the address of
			// the range copy or of the element itself
			elem, resolved := r.pointeeTerm(fn, CallArgs(c)[1], c)
			it := ""
			for _, t := range splitTerms(idx) {
				if strings.HasPrefix(t, "+it@") {
					it = t[1:]
				}
			}
			ok := resolved && glob("(*client.LogClient).*etRawEntries(*)#0.Entries[it@*]", elem) && strings.Count(elem, "it@") == 1 &&
				(it == "" || strings.HasSuffix(elem, ".Entries["+it+"]"))
			r.Check("client.GetEntries:element", ok, r.Where(c), "the decoded entry is Entries[i] of the reply, i being the counter the index is computed from: "+elem)
		}
	}

	// extra_data is rebuilt from the external chain store when that is configured: the bytes served
	// are the stored bytes only if that indirection is exact — rule sets of C14
	r.Shared("C07.R7", func() { runC14(r) })
	// "every served entry decodes": the leaf / extra-data decoders and their fatal/non-fatal split — rule set C12.R5
	r.Shared("C07.R8", func() { c12Decoder(r) })
}

// lin2 joins normal-form terms in canonical (textual) order; the constant goes last.
func lin2(terms ...string) string {
	l := LinForm{Coef: map[string]int64{}}
	for _, t := range terms {
		if t == "" {
			continue
		}
		for _, part := range splitTerms(t) {
			sign := int64(1)
			if part[0] == '-' {
				sign = -1
			}
			body := part[1:]
			if n, err := parseInt(body); err == nil {
				l.Const += sign * n
			} else {
				l.Coef[body] += sign
			}
		}
	}
	return l.String()
}
