package main

import (
	"fmt"
	"go/types"
	"strings"

	"golang.org/x/tools/go/ssa"
)

func init() {
	register("C08", "Decides structural necessary conditions of 'backend faults and bad requests never surface as success': "+
		"(R1) the gRPC-code→HTTP-status decision table of toHTTPStatus equals the table in the property for every code, non-status errors give 500, the ErrorMapper is consulted first; "+
		"(R2) every return of every (status, error) function of the front end (handlers and the functions that fetch a backend reply for them) is (200, nil) or (non-200, non-nil error) on all paths, and ServeHTTP rejects wrong methods / unparsable forms before calling the handler and converts (non-200, nil) into 500; "+
		"(R3) for each endpoint and each cause named in the property (backend error, garbled root, tree too small, surplus or mis-indexed leaves, absent parts, bad proof hashes, undecodable leaf, parse failures) the control-flow edge taken on that cause can only reach returns of the prescribed status class with a non-nil error, and parse failures cannot reach a backend call; "+
		"(R4) optional parts of backend replies are nil-guarded before every use that needs them present, whether the part is read by loading the field or through its nil-safe accessor (an accessor is recognised by what its body does, not by its name), and the absence of a part named in R3 is a cause of its own: when the part is read but no branch tests it for absence, the success return is reachable without it; (R5) no SCT is recorded on any fault edge of add-chain; (R6) SendHTTPError withholds the error text exactly when masking is on and the status is 500; checkAuditPath rejects wrong-sized hashes; (R7) a function without a status result that obtains an error from a backend RPC, or from a function on the way to one, hands on that very error value on every return that may execute once it is non-nil (results read through the result variables of a function with a deferred call, and through a cell of its own object the error was parked in), so the gRPC status reaches toHTTPStatus; an error such a function keeps in a cell for other callers to return is the backend's error unchanged; and the error of a context (ctx.Err(), context.Cause) is handed on by such a function — or given to toHTTPStatus — only as that context's gRPC status error (status.FromContextError(..).Err(), or status.Error with code Canceled / DeadlineExceeded), never bare or formatted into a new error: a caller whose own deadline passes while it waits is answered 504, not 500. "+
		"NOT covered: panics from causes other than absent optional message parts, behaviour of net/http and gRPC, the dynamic values of statuses produced by an injected ErrorMapper.",
		runC08)
}

// handler-shaped functions of package ctfe: results end in (int, error)
func statusErrFuncs(r *Run) []*ssa.Function {
	var out []*ssa.Function
	for _, fn := range r.P.ModFuncs {
		if fn.Parent() != nil || fnPkg(fn) == nil || ShortPkg(fnPkg(fn).Path()) != "trillian/ctfe" || len(fn.Blocks) == 0 {
			continue
		}
		res := fn.Signature.Results()
		n := res.Len()
		if n < 2 {
			continue
		}
		if b, ok := res.At(n - 2).Type().Underlying().(*types.Basic); !ok || b.Kind() != types.Int {
			continue
		}
		if !types.Identical(res.At(n-1).Type(), types.Universe.Lookup("error").Type()) {
			continue
		}
		out = append(out, fn)
	}
	return out
}

func isStatusErrFunc(r *Run, f *ssa.Function) bool {
	for _, g := range statusErrFuncs(r) {
		if g == f {
			return true
		}
	}
	return false
}

// returnShapes checks C08.R2 on one function.
func returnShapes(r *Run, fn *ssa.Function) {
	name := FuncName(fn)
	r.Funcs[name] = true
	for i, ret := range Returns(fn) {
		n := len(ret.Results)
		sv, ev := ret.Results[n-2], ret.Results[n-1]
		sd := r.D.D(sv)
		ek := errKind(ev)
		key := fmt.Sprintf("%s#ret[%s,%s]", name, sd, shortErr(r.D.D(ev)))
		_ = i
		// pass-through of another status-error function's (status, error) pair
		if se, ok := sv.(*ssa.Extract); ok {
			if ee, ok := ev.(*ssa.Extract); ok && se.Tuple == ee.Tuple && ee.Index == se.Index+1 {
				if call, ok := se.Tuple.(*ssa.Call); ok {
					if cal := call.Call.StaticCallee(); cal != nil && isStatusErrFunc(r, cal) && len(Returns(fn)) == 1 {
						r.Pass(key, r.Where(ret), "passes through the (status, error) pair of "+FuncName(cal))
						continue
					}
				}
			}
		}
		switch {
		case sd == "200" && ek == "nil":
			r.Pass(key, r.Where(ret), "(200, nil)")
		case sd == "200" && ek == "non":
			r.Fail(key, r.Where(ret), "returns status 200 together with a non-nil error")
		case sd == "200": // dynamic error with 200: must be provably nil here
			r.MustGuard(fn, key, "nil?"+r.D.D(ev), "non", []ssa.Instruction{ret}, "return (200, err)")
		case ek == "nil":
			r.Fail(key, r.Where(ret), fmt.Sprintf("returns status %s with a nil error", sd))
		case ek == "non":
			if _, isConst := sv.(*ssa.Const); isConst {
				r.Pass(key, r.Where(ret), "(const non-200, non-nil error)")
			} else {
				// dynamic status with constructed error: must come from toHTTPStatus or a wrapper
				r.Check(key, glob("(*trillian/ctfe.logInfo).toHTTPStatus(*)", sd) || c08RelayedStatus(r, sv), r.Where(ret), "dynamic status "+sd+" with non-nil error")
			}
		default: // dynamic error: the return must be unreachable when it is nil
			if !glob("(*trillian/ctfe.logInfo).toHTTPStatus(*)", sd) && !c08RelayedStatus(r, sv) {
				if _, isConst := sv.(*ssa.Const); !isConst {
					r.Fail(key, r.Where(ret), "dynamic status "+sd+" is neither toHTTPStatus(err) nor a wrapper's status")
					continue
				}
			}
			r.MustGuardNot(fn, key, "nil?"+r.D.D(ev), "nil", ret, "return ("+sd+", err)")
		}
	}
}

func shortErr(s string) string {
	if i := strings.Index(s, "("); i > 0 {
		return s[:i]
	}
	return s
}

// MustGuardNot: ret must be unreachable under atom=badVal and reachable otherwise.
func (r *Run) MustGuardNot(fn *ssa.Function, key, atomGlob, badVal string, ret ssa.Instruction, what string) {
	r.MustGuard(fn, key, atomGlob, badVal, []ssa.Instruction{ret}, what)
}

var grpcToHTTP = map[int64]string{
	0: "200", 1: "504", 4: "504", 3: "400", 11: "400", 6: "400", 5: "404", 7: "403", 8: "429",
	16: "401", 9: "412", 10: "409", 12: "501", 14: "503",
	// remaining codes fall to the default: Unknown(2), Internal(13), DataLoss(15) ⇒ 500
	2: "500", 13: "500", 15: "500",
}

func runC08(r *Run) {
	r.Assume("gRPC stubs never return (nil reply, nil error); elements of repeated protobuf fields are non-nil")
	r.Assume("status.FromError returns ok=false exactly for errors that do not carry a gRPC status")
	r.Assume("an ErrorMapper supplied in InstanceOptions returns sensible statuses (its result is passed through unmodified)")

	// ---- R1: toHTTPStatus table
	r.Rule("C08.R1")
	if fn := r.Fn("(*trillian/ctfe.logInfo).toHTTPStatus"); fn != nil {
		codeCalls := CallsTo(fn, "(*status.Status).Code")
		if len(codeCalls) != 1 {
			r.Fail("toHTTPStatus:scrutinee", r.FnPos(fn), "expected one call to (*status.Status).Code")
		} else {
			cases, err := r.D.ConstTable(fn, "(*status.Status).Code(*)", codeCalls[0].Block())
			if err != nil {
				r.Fail("toHTTPStatus:table", r.FnPos(fn), "undecided: "+err.Error())
			}
			seen := map[int64]bool{}
			check := func(code int64, c ConstCase, label string) {
				rets := reachableReturns(fn, c.Reach)
				want := grpcToHTTP[code]
				if label == "default" {
					want = "500"
				}
				if len(rets) != 1 {
					r.Fail("toHTTPStatus:code="+label, r.FnPos(fn), fmt.Sprintf("%d returns reachable for code %s", len(rets), label))
					return
				}
				got := r.D.D(rets[0].Results[0])
				r.Check("toHTTPStatus:code="+label, got == want, r.Where(rets[0]), fmt.Sprintf("gRPC code %s ↦ HTTP %s (property: %s)", label, got, want))
			}
			for _, c := range cases {
				r.Valuations++
				if c.Default {
					check(-1, c, "default")
					continue
				}
				seen[c.Value] = true
				if _, ok := grpcToHTTP[c.Value]; !ok {
					r.Fail(fmt.Sprintf("toHTTPStatus:code=%d", c.Value), r.FnPos(fn), "code compared but not in the property's table")
					continue
				}
				check(c.Value, c, fmt.Sprint(c.Value))
			}
			// codes not compared explicitly take the default: they must be 500 in the property table
			for code, want := range grpcToHTTP {
				if !seen[code] {
					r.Check(fmt.Sprintf("toHTTPStatus:code=%d", code), want == "500", r.FnPos(fn), fmt.Sprintf("gRPC code %d has no case and takes the default (500); property wants %s", code, want))
				}
			}
			// the gRPC code constants themselves
			for name, v := range map[string]int64{"OK": 0, "Canceled": 1, "Unknown": 2, "InvalidArgument": 3, "DeadlineExceeded": 4, "NotFound": 5, "AlreadyExists": 6, "PermissionDenied": 7, "ResourceExhausted": 8, "FailedPrecondition": 9, "Aborted": 10, "OutOfRange": 11, "Unimplemented": 12, "Internal": 13, "Unavailable": 14, "DataLoss": 15, "Unauthenticated": 16} {
				c := r.P.LookupConst("google.golang.org/grpc/codes." + name)
				r.Check("codes."+name, c != nil && c.Val().ExactString() == fmt.Sprint(v), "-", fmt.Sprintf("codes.%s = %d", name, v))
			}
		}
		// non-status error ⇒ 500
		r.FailEdge(fn, "toHTTPStatus", EdgeSpec{Name: "not-a-status-error", Atom: boolAtom("status.FromError(p1)#1"), Bad: "F",
			Want: func(r *Run, ret *ssa.Return) (bool, string) {
				d := r.D.D(ret.Results[0])
				return d == "500", "returns " + d
			}})
		// ErrorMapper first: FromError unreachable when mapper says ok
		r.FailEdge(fn, "toHTTPStatus", EdgeSpec{Name: "mapper-first", Atom: boolAtom("dyn(p0.instanceOpts.ErrorMapper)(p1)#1"), Bad: "T",
			Want: func(r *Run, ret *ssa.Return) (bool, string) {
				d := r.D.D(ret.Results[0])
				return d == "dyn(p0.instanceOpts.ErrorMapper)(p1)#0", "returns " + d
			}, Unreach: asInstrs(CallsTo(fn, "status.FromError"))})
	}

	// ---- R2: return shapes
	r.Rule("C08.R2")
	fns := statusErrFuncs(r)
	for _, fn := range fns {
		returnShapes(r, fn)
	}
	// eight endpoint handlers and addChainInternal; functions that only fetch a backend reply for one handler (and
	// return its status) are checked like the others when they exist, but whether such a helper exists or its body
	// sits in the handler is not a fact about behaviour — the floor counts what does not depend on it
	r.Floor("status-error functions", len(fns), 9)
	r.Floor("status-error functions installed as endpoint handlers", c08EntryHandlers(r, fns), 8)
	if fn := r.Fn("(trillian/ctfe.AppHandler).ServeHTTP"); fn != nil {
		handlerCalls := asInstrs(CallsTo(fn, "dyn(p0.Handler)"))
		r.Check("ServeHTTP:handler-call", len(handlerCalls) == 1, r.FnPos(fn), fmt.Sprintf("%d calls of a.Handler", len(handlerCalls)))
		if len(handlerCalls) == 1 {
			r.MustGuard(fn, "ServeHTTP:method-mismatch", "ord(p0.Method, p2.Method)", "<,>", handlerCalls, "handler call")
			r.MustGuardAfter(fn, "ServeHTTP:parseform-error", "nil?(*http.Request).ParseForm(p2)", "non", handlerCalls, "handler call")
			// on mismatch: SendHTTPError with 405
			for _, bad := range []string{"<", ">"} {
				s := Sigma{"ord(p0.Method, p2.Method)": bad}
				reach := r.D.Walk(fn, s, nil, nil)
				r.Valuations++
				ok := false
				for _, c := range CallsTo(fn, "(*trillian/ctfe.logInfo).SendHTTPError") {
					if reach.Has(c) && r.D.D(CallArgs(c)[2]) == "405" {
						ok = true
					}
				}
				r.Check("ServeHTTP:405"+bad, ok, r.FnPos(fn), "wrong method ⇒ SendHTTPError(405)")
			}
			// ParseForm error ⇒ 400
			{
				s := Sigma{"nil?(*http.Request).ParseForm(p2)": "non"}
				for _, b := range r.blocksTesting(fn, func(ci *CondInfo) bool { return ci.Key == "nil?(*http.Request).ParseForm(p2)" }) {
					reach := r.D.Walk(fn, s, b, nil)
					ok := false
					for _, c := range CallsTo(fn, "(*trillian/ctfe.logInfo).SendHTTPError") {
						if reach.Has(c) {
							ok = r.D.D(CallArgs(c)[2]) == "400"
						}
					}
					r.Check("ServeHTTP:400-parseform", ok, r.FnPos(fn), "ParseForm error ⇒ SendHTTPError(400)")
				}
			}
			// handler returned err: SendHTTPError(statusCode, err); no err and status != 200 ⇒ 500
			herr := "nil?dyn(p0.Handler)(*)#1"
			_, err := r.D.Table(fn, handlerCalls[0].Block(), nil, []RuleAtom{{Name: "err", Pat: herr}, {Name: "st", OrdA: "*new:int#*", OrdB: "200"}},
				func(val map[string]string, reach *Reach, s Sigma) {
					r.Valuations++
					var sent []string
					for _, c := range CallsTo(fn, "(*trillian/ctfe.logInfo).SendHTTPError") {
						if reach.Has(c) {
							sent = append(sent, r.D.D(CallArgs(c)[2]))
						}
					}
					k := "ServeHTTP:post[err=" + val["err"] + ",st" + val["st"] + "200]"
					switch {
					case val["err"] == "non":
						r.Check(k, len(sent) == 1 && strings.HasPrefix(sent[0], "*new:int"), r.FnPos(fn), fmt.Sprintf("handler error ⇒ SendHTTPError(statusCode, err); sent=%v", sent))
					case val["st"] != "=":
						r.Check(k, len(sent) == 1 && sent[0] == "500", r.FnPos(fn), fmt.Sprintf("non-200 without error ⇒ SendHTTPError(500); sent=%v", sent))
					default:
						r.Check(k, len(sent) == 0, r.FnPos(fn), fmt.Sprintf("(200, nil) ⇒ no error page; sent=%v", sent))
					}
				})
			if err != nil {
				r.Fail("ServeHTTP:post", r.FnPos(fn), "undecided: "+err.Error())
			}
		}
	}

	// ---- R3: cause → class, per endpoint
	r.Rule("C08.R3")
	c08Edges(r)

	// ---- R4: optional parts of backend replies
	r.Rule("C08.R4")
	r.Assume("library callees outside the module (proto.Marshal, prototext.Format, fmt) accept nil messages")
	nOpt := r.NilOptional(func(fn *ssa.Function) bool {
		pk := fnPkg(fn)
		return pk != nil && ShortPkg(pk.Path()) == "trillian/ctfe"
	}, "github.com/google/trillian*")
	// each (function, optional part) use is checked above; the floor counts the distinct parts of backend messages
	// used (QueueLeafResponse.QueuedLeaf, QueuedLogLeaf.Leaf, GetEntryAndProofResponse.Leaf / .Proof,
	// GetConsistencyProofResponse.Proof), which does not change when a use moves between a helper and its caller
	nParts := c08DistinctOptionalParts(r, func(fn *ssa.Function) bool { return inCtfePkg(fn) }, "github.com/google/trillian*")
	r.Check("floor:optional backend-reply parts checked", nOpt >= nParts, "-", fmt.Sprintf("%d (function, part) uses checked for %d distinct parts used in a way that needs them present", nOpt, nParts))
	// what the floor protects is that the rule sees the optional parts of backend messages the front end reads; a part
	// is read by loading the field or through its nil-safe accessor (rsp.Proof / rsp.GetProof()), and reading it in
	// the other form does not change what is read: the five parts above and the SignedLogRoot of the five replies
	// that carry one
	nRead := c08OptionalPartsRead(r, func(fn *ssa.Function) bool { return inCtfePkg(fn) })
	r.Pass("optional backend-reply parts read in ctfe", "-", strings.Join(nRead, ", "))
	r.Floor("optional backend-reply parts read in ctfe", len(nRead), c08PartsReadFloor)

	// ---- R7: backend errors reach toHTTPStatus with their gRPC status intact
	r.Rule("C08.R7")
	c08StatusCarried(r)

	// ---- R6
	r.Rule("C08.R6")
	if fn := r.Fn("(*trillian/ctfe.logInfo).SendHTTPError"); fn != nil {
		sp := asInstrs(CallsTo(fn, "fmt.Sprintf"))
		_, err := r.D.Table(fn, nil, nil, []RuleAtom{{Name: "mask", Pat: "p0.instanceOpts.MaskInternalErrors"}, {Name: "st", OrdA: "p2", OrdB: "500"}},
			func(val map[string]string, reach *Reach, s Sigma) {
				r.Valuations++
				appended := len(sp) > 0 && reach.Has(sp[0])
				want := !(val["mask"] == "T" && val["st"] == "=")
				r.Check("SendHTTPError[mask="+val["mask"]+",status"+val["st"]+"500]", appended == want, r.FnPos(fn), fmt.Sprintf("error text appended=%v, property wants %v", appended, want))
			})
		if err != nil {
			r.Fail("SendHTTPError", r.FnPos(fn), "undecided: "+err.Error())
		}
		// the body passed to http.Error is the masked/unmasked text and the status is the parameter
		if c := r.OneCall(fn, "SendHTTPError:http.Error", "http.Error"); c != nil {
			r.ExpectArg(c, "SendHTTPError:status-arg", 2, "p2")
		}
	}
	if fn := r.Fn("trillian/ctfe.checkAuditPath"); fn != nil {
		r.FailEdge(fn, "checkAuditPath", EdgeSpec{Name: "wrong-size", Atom: ordAtomR("len(*)", "32"), Bad: "<,>",
			Want: func(r *Run, ret *ssa.Return) (bool, string) {
				d := r.D.D(ret.Results[0])
				return d == "false", "returns " + d
			}})
		// and true is only returned when no element failed: the "true" return exists
		okTrue := false
		for _, ret := range Returns(fn) {
			if r.D.D(ret.Results[0]) == "true" {
				okTrue = true
			}
		}
		r.Check("checkAuditPath:accepts", okTrue, r.FnPos(fn), "returns true after the loop")
	}

	r.NilArgsRule("C08.R8", "trillian/ctfe", "trillian/util")
	c06DumpObls(r)
}

// c08PartsReadFloor: distinct optional parts of backend replies read in package ctfe (confirmed by reading:
// QueueLeafResponse.QueuedLeaf, QueuedLogLeaf.Leaf, GetEntryAndProofResponse.Leaf / .Proof,
// GetConsistencyProofResponse.Proof, and the SignedLogRoot of the replies to GetLatestSignedLogRoot,
// GetConsistencyProof, GetInclusionProofByHash, GetLeavesByRange and GetEntryAndProof).
const c08PartsReadFloor = 10

type edgeRow struct {
	fn     string
	name   string
	atom   RuleAtom
	bad    string
	status string
}

func c08Edges(r *Run) {
	rpcIface := "iface(trillian.TrillianLogClient).*"
	root := "(*types.LogRootV1).UnmarshalBinary(*)"
	rows := []edgeRow{
		// add-chain / add-pre-chain
		{"trillian/ctfe.addChainInternal", "body-unparsable", nilAtom("trillian/ctfe.ParseBodyAsJSONChain(p3)#1"), "non", "400"},
		{"trillian/ctfe.addChainInternal", "chain-rejected", nilAtom("trillian/ctfe.verifyAddChain(*)#1"), "non", "400"},
		{"trillian/ctfe.addChainInternal", "leaf-build-failed", nilAtom("ct.MerkleTreeLeafFromChain(*)#1"), "non", "400"},
		{"trillian/ctfe.addChainInternal", "logleaf-build-failed", nilAtom("(*trillian/ctfe.logInfo).buildLeaf(*)#1"), "non", "500"},
		{"trillian/ctfe.addChainInternal", "backend-error", nilAtom("iface(trillian.TrillianLogClient).QueueLeaf(*)#1"), "non", "(*trillian/ctfe.logInfo).toHTTPStatus(p1, iface(trillian.TrillianLogClient).QueueLeaf(*)#1)"},
		{"trillian/ctfe.addChainInternal", "reply-absent", nilAtom("iface(trillian.TrillianLogClient).QueueLeaf(*)#0"), "nil", "500"},
		{"trillian/ctfe.addChainInternal", "queued-leaf-absent", nilAtom("iface(trillian.TrillianLogClient).QueueLeaf(*)#0.QueuedLeaf"), "nil", "500"},
		{"trillian/ctfe.addChainInternal", "echoed-leaf-undecodable", nilAtom("tls.Unmarshal(*QueuedLeaf*)#1"), "non", "500"},
		{"trillian/ctfe.addChainInternal", "echoed-leaf-trailing-bytes", ordAtomR("len(tls.Unmarshal(*)#0)", "0"), ">", "500"},
		{"trillian/ctfe.addChainInternal", "sct-build-failed", nilAtom("trillian/ctfe.buildV1SCT(*)#1"), "non", "500"},
		{"trillian/ctfe.addChainInternal", "sct-marshal-failed", nilAtom("tls.Marshal(*buildV1SCT*)#1"), "non", "500"},
		{"trillian/ctfe.addChainInternal", "response-write-failed", nilAtom("trillian/ctfe.marshalAndWriteAddChainResponse(*)"), "non", "500"},
		// get-sth
		{"trillian/ctfe.getSTH", "sth-getter-error", nilAtom("(*trillian/ctfe.logInfo).getSTH(*)#1"), "non", "(*trillian/ctfe.logInfo).toHTTPStatus(p1, (*trillian/ctfe.logInfo).getSTH(*)#1)"},
		{"trillian/ctfe.getSTH", "write-failed", nilAtom("trillian/ctfe.writeSTH(*)"), "non", "500"},
		// get-sth-consistency
		{"trillian/ctfe.getSTHConsistency", "params-bad", nilAtom("trillian/ctfe.parseGetSTHConsistencyRange(p3)#2"), "non", "400"},
		{"trillian/ctfe.getSTHConsistency", "backend-error", nilAtom("iface(trillian.TrillianLogClient).GetConsistencyProof(*)#1"), "non", "(*trillian/ctfe.logInfo).toHTTPStatus(p1, iface(trillian.TrillianLogClient).GetConsistencyProof(*)#1)"},
		{"trillian/ctfe.getSTHConsistency", "root-garbled", nilAtom(root), "non", "500"},
		{"trillian/ctfe.getSTHConsistency", "tree-too-small", ordAtomR("ROOT.TreeSize", "trillian/ctfe.parseGetSTHConsistencyRange(p3)#1"), "<", "400"},
		{"trillian/ctfe.getSTHConsistency", "proof-absent", nilAtom("iface(trillian.TrillianLogClient).GetConsistencyProof(*)#0.Proof"), "nil", "500"},
		{"trillian/ctfe.getSTHConsistency", "proof-hash-size", boolAtom("trillian/ctfe.checkAuditPath(*)"), "F", "500"},
		// get-proof-by-hash
		{"trillian/ctfe.getProofByHash", "hash-missing", ordAtomR("(*http.Request).FormValue(*)", `""`), "=", "400"},
		{"trillian/ctfe.getProofByHash", "hash-not-base64", nilAtom("(*base64.Encoding).DecodeString(*)#1"), "non", "400"},
		{"trillian/ctfe.getProofByHash", "tree-size-unparsable", nilAtom("strconv.ParseInt(*)#1"), "non", "400"},
		{"trillian/ctfe.getProofByHash", "tree-size-below-1", ordAtomR("strconv.ParseInt(*)#0", "1"), "<", "400"},
		{"trillian/ctfe.getProofByHash", "backend-error", nilAtom("iface(trillian.TrillianLogClient).GetInclusionProofByHash(*)#1"), "non", "(*trillian/ctfe.logInfo).toHTTPStatus(p1, iface(trillian.TrillianLogClient).GetInclusionProofByHash(*)#1)"},
		{"trillian/ctfe.getProofByHash", "root-garbled", nilAtom(root), "non", "500"},
		{"trillian/ctfe.getProofByHash", "tree-too-small", ordAtomR("ROOT.TreeSize", "strconv.ParseInt(*)#0"), "<", "404"},
		{"trillian/ctfe.getProofByHash", "no-proof", ordAtomR("len(*.Proof)", "0"), "=", "404"},
		{"trillian/ctfe.getProofByHash", "proof-hash-size", boolAtom("trillian/ctfe.checkAuditPath(*)"), "F", "500"},
		// get-entries
		{"trillian/ctfe.getEntries", "params-bad", nilAtom("trillian/ctfe.parseGetEntriesRange(*)#2"), "non", "400"},
		{"trillian/ctfe.getEntries", "root-garbled", nilAtom(root), "non", "500"},
		{"trillian/ctfe.getEntries", "tree-too-small", ordAtomR("ROOT.TreeSize", "trillian/ctfe.parseGetEntriesRange(*)#0"), "<,=", "400"},
		{"trillian/ctfe.getEntries", "surplus-leaves", ordAtomR("len(*.Leaves)", "((1 + trillian/ctfe.parseGetEntriesRange(*)#1) - trillian/ctfe.parseGetEntriesRange(*)#0)"), ">", "500"},
		{"trillian/ctfe.getEntries", "leaf-misindexed", ordAtomR("*.Leaves[*].LeafIndex", "(* + trillian/ctfe.parseGetEntriesRange(*)#0)"), "<,>", "500"},
		// get-entry-and-proof
		{"trillian/ctfe.getEntryAndProof", "params-bad", nilAtom("trillian/ctfe.parseGetEntryAndProofParams(p3)#2"), "non", "400"},
		{"trillian/ctfe.getEntryAndProof", "root-garbled", nilAtom(root), "non", "500"},
		{"trillian/ctfe.getEntryAndProof", "tree-too-small", ordAtomR("ROOT.TreeSize", "trillian/ctfe.parseGetEntryAndProofParams(p3)#1"), "<", "400"},
		{"trillian/ctfe.getEntryAndProof", "leaf-empty", ordAtomR("len(*.Leaf.LeafValue)", "0"), "=", "500"},
		// get-roots
		{"trillian/ctfe.getRoots", "encode-failed", nilAtom("(*json.Encoder).Encode(*)"), "non", "500"},
	}
	// the two entry-reading endpoints: the causes that arise where the backend's reply is fetched are stated on the
	// function that issues the RPC — the handler itself or the one function it calls for it
	rows = append(rows, c08FetchRows(r, "trillian/ctfe.getEntries", "GetLeavesByRange")...)
	rows = append(rows, c08FetchRows(r, "trillian/ctfe.getEntryAndProof", "GetEntryAndProof")...)
	rpcCount := 0
	type prepared struct {
		row  edgeRow
		fn   *ssa.Function
		sp   EdgeSpec
		ev   *c08EdgeResult
		part string   // the cause is the absence of this value (origin term, glob)
		keys []string // … and these are the atoms of fn that test it for absence
	}
	var todo []*prepared
	for _, row := range rows {
		fn := r.Fn(row.fn)
		if fn == nil {
			continue
		}
		if strings.HasPrefix(row.atom.OrdA, "ROOT.") {
			row.atom.OrdA = decodedRoot(r, fn) + strings.TrimPrefix(row.atom.OrdA, "ROOT")
		}
		if neverFails(r, row.atom.Pat, fn) {
			// the cause is the error of a module function all of whose returns hand back the constant nil
			// there (the confirmed marshalGetEntriesResponse is one): it cannot arise, nothing to demand
			r.Pass(short(row.fn)+":"+row.name+":cannot-arise", r.FnPos(fn), "the callee returns a nil error on every path")
			continue
		}
		sp := EdgeSpec{Name: row.name, Atom: row.atom, Bad: row.bad, Want: wantStatus(row.status)}
		// a failed request never records an SCT and parse failures never reach the backend
		sp.Unreach = asInstrs(CallsTo(fn, "iface(trillian/ctfe.RequestLog).IssueSCT"))
		if row.status == "400" && (strings.Contains(row.name, "params") || strings.Contains(row.name, "hash-") || strings.Contains(row.name, "tree-size-") || row.name == "body-unparsable" || row.name == "chain-rejected" || row.name == "leaf-build-failed") {
			sp.Unreach = append(sp.Unreach, asInstrs(c08BackendCalls(fn))...)
		}
		p := &prepared{row: row, fn: fn, sp: sp}
		if term, ok := strings.CutPrefix(row.atom.Pat, "nil?"); ok && row.bad == "nil" {
			// the cause is the absence of a value (the reply, an optional part of it): the tests of this cause are
			// the nil tests of that value however it is read — by loading the field or through a nil-safe accessor
			p.part = term
			p.keys = c08NilTests(r, fn, term)
		}
		if len(p.keys) > 0 {
			p.ev = c08EdgeEvalBound(r, fn, sp, p.keys, nil)
		} else {
			p.ev = c08EdgeEval(r, fn, sp)
		}
		todo = append(todo, p)
	}
	for i, p := range todo {
		// the causes of the same function, this one at index me
		var same []*c08EdgeResult
		me := -1
		for k, q := range todo {
			if q.fn == p.fn {
				if k == i {
					me = len(same)
				}
				same = append(same, q.ev)
			}
		}
		// FailEdge decides (and reports); only a cause that is tested where later causes can still intervene
		// is decided among the causes of its function
		if !c08EdgeAmongCauses(r, p.fn, short(p.row.fn), p.sp, me, same) {
			switch {
			case len(p.keys) > 0:
				c08ReportEdge(r, p.fn, short(p.row.fn), p.sp, p.ev, p.keys)
			case p.part != "" && c08PartUntested(r, p.fn, short(p.row.fn), p.sp, p.part, p.row.status):
				// the part is read but never tested for absence: decided (and reported) there
			default:
				r.FailEdge(p.fn, short(p.row.fn), p.sp)
			}
		}
	}
	// floor: the backend RPCs issued by the front end
	for _, fn := range r.P.ModFuncs {
		if fnPkg(fn) != nil && ShortPkg(fnPkg(fn).Path()) == "trillian/ctfe" {
			rpcCount += len(CallsTo(fn, rpcIface))
		}
	}
	r.Floor("backend RPC call sites in ctfe", rpcCount, 6)
	// every backend RPC's error is gated in its function (generic, also for RPCs added later)
	for _, fn := range r.P.ModFuncs {
		if fnPkg(fn) == nil || ShortPkg(fnPkg(fn).Path()) != "trillian/ctfe" {
			continue
		}
		if len(CallsTo(fn, rpcIface)) > 0 {
			r.Funcs[FuncName(fn)] = true
			r.ErrorsGate(fn, "rpc-error-gated:"+short(FuncName(fn)), rpcIface, 1)
		}
	}
}

func short(fn string) string {
	if i := strings.LastIndex(fn, "."); i >= 0 {
		return fn[i+1:]
	}
	return fn
}

// c08StatusCarried: between a backend RPC and the handler's toHTTPStatus(err)
// the error must travel unchanged.  A function of package ctfe that returns a
// backend error (directly, through a callee that does, or through any module
// implementation of an interface method that does) and has no status result
// of its own must return that very value — formatting it into a new error
// (fmt.Errorf with %v/%s, errors.New) discards the gRPC status and turns
// 429/503/504/4xx into 500.
func c08StatusCarried(r *Run) {
	inCtfe := func(fn *ssa.Function) bool {
		pk := fnPkg(fn)
		return pk != nil && ShortPkg(pk.Path()) == "trillian/ctfe" && len(fn.Blocks) > 0
	}
	errT := types.Universe.Lookup("error").Type()
	carriers := map[*ssa.Function]bool{}
	e := newNilEngine(r)
	// isBackendErr: v is (a merge of) the error result of an RPC or of a carrier
	var isBackendErr func(v ssa.Value, depth int) bool
	isBackendErr = func(v ssa.Value, depth int) bool {
		if depth > 4 {
			return false
		}
		switch x := v.(type) {
		case *ssa.Phi:
			for _, ed := range x.Edges {
				if isBackendErr(ed, depth+1) {
					return true
				}
			}
		case *ssa.Extract:
			call, ok := x.Tuple.(*ssa.Call)
			if !ok || !types.Identical(x.Type(), errT) {
				return false
			}
			if glob("iface(trillian.TrillianLogClient).*", CalleeOf(call)) {
				return true
			}
			if f := call.Call.StaticCallee(); f != nil && carriers[f] {
				return true
			}
			if call.Call.IsInvoke() {
				for _, f := range e.impls(&call.Call) {
					if carriers[f] {
						return true
					}
				}
			}
		}
		return false
	}
	for changed := true; changed; {
		changed = false
		for _, fn := range r.P.ModFuncs {
			if !inCtfe(fn) || carriers[fn] {
				continue
			}
			for _, ret := range Returns(fn) {
				vs := RetVals(ret) // read through the result variables of a function with a deferred call
				n := len(vs)
				if n > 0 && types.Identical(vs[n-1].Type(), errT) && isBackendErr(vs[n-1], 0) {
					carriers[fn] = true
					changed = true
				}
			}
		}
	}
	// wrapped: a constructed error whose format arguments include a backend error
	wraps := func(v ssa.Value) (bool, ssa.Instruction) {
		call, ok := v.(*ssa.Call)
		if !ok {
			return false, nil
		}
		f := call.Call.StaticCallee()
		if f == nil || !nonNilMakers[FuncName(f)] {
			return false, nil
		}
		for _, a := range call.Call.Args {
			sl, ok := a.(*ssa.Slice)
			if !ok {
				continue
			}
			al, ok := sl.X.(*ssa.Alloc)
			if !ok {
				continue
			}
			for _, ref := range *al.Referrers() {
				ia, ok := ref.(*ssa.IndexAddr)
				if !ok {
					continue
				}
				for _, r2 := range *ia.Referrers() {
					if st, ok := r2.(*ssa.Store); ok {
						val := st.Val
						if mi, ok := val.(*ssa.MakeInterface); ok {
							val = mi.X
						}
						if ci, ok := val.(*ssa.ChangeInterface); ok {
							val = ci.X
						}
						if isBackendErr(val, 0) {
							return true, call
						}
					}
				}
			}
		}
		return false, nil
	}
	n := 0
	for _, fn := range r.P.ModFuncs {
		if !inCtfe(fn) {
			continue
		}
		res := fn.Signature.Results()
		hasStatus := false
		for i := 0; i < res.Len(); i++ {
			if b, ok := res.At(i).Type().Underlying().(*types.Basic); ok && b.Kind() == types.Int {
				hasStatus = true
			}
		}
		if hasStatus {
			continue // computes the status itself, next to the (possibly wrapped) error
		}
		for _, ret := range Returns(fn) {
			vs := RetVals(ret)
			k := len(vs)
			if k == 0 || !types.Identical(vs[k-1].Type(), errT) {
				continue
			}
			ev := vs[k-1]
			if isBackendErr(ev, 0) {
				n++
				r.Funcs[FuncName(fn)] = true
				r.Pass("status-carried:"+FuncName(fn), r.Where(ret), "returns the backend error unchanged: "+r.D.D(ev))
				continue
			}
			if w, at := wraps(ev); w {
				n++
				r.Fail("status-carried:"+FuncName(fn), r.Where(at), "a backend error is formatted into a new error before toHTTPStatus sees it: its gRPC status (429/503/504/4xx) is lost and the request is answered 500")
			}
		}
	}
	// The same statement as a must-property, independent of how the relaying code is cut into functions: a
	// function without a status result that obtains an error from a backend RPC or from a function on the way to
	// one (directly or through a module implementation of an interface method) hands on that very error value on
	// every return that may execute once the error is non-nil.  (An error rebuilt from the text of the backend's
	// error is caught here even when its construction is not recognised as wrapping above.)
	hasStatus := func(fn *ssa.Function) bool {
		res := fn.Signature.Results()
		for i := 0; i < res.Len(); i++ {
			if b, ok := res.At(i).Type().Underlying().(*types.Basic); ok && b.Kind() == types.Int {
				return true
			}
		}
		return false
	}
	lastIsErr := func(t types.Type) bool {
		if tup, ok := t.(*types.Tuple); ok {
			return tup.Len() > 0 && types.Identical(tup.At(tup.Len()-1).Type(), errT)
		}
		return types.Identical(t, errT)
	}
	onWay := map[*ssa.Function]bool{} // functions without status result whose error may stem from a backend RPC
	sources := func(fn *ssa.Function) []*ssa.Call {
		var out []*ssa.Call
		eachInstr(fn, func(in ssa.Instruction) {
			call, ok := in.(*ssa.Call)
			if !ok || !lastIsErr(call.Type()) {
				return
			}
			switch {
			case glob("iface(trillian.TrillianLogClient).*", CalleeOf(call)):
				out = append(out, call)
			case call.Call.StaticCallee() != nil && onWay[call.Call.StaticCallee()]:
				out = append(out, call)
			case call.Call.IsInvoke():
				for _, f := range e.impls(&call.Call) {
					if onWay[f] {
						out = append(out, call)
						break
					}
				}
			}
		})
		return out
	}
	for changed := true; changed; {
		changed = false
		for _, fn := range r.P.ModFuncs {
			if !inCtfe(fn) || onWay[fn] || hasStatus(fn) || !lastIsErr(fn.Signature.Results()) {
				continue
			}
			if len(sources(fn)) > 0 {
				onWay[fn] = true
				changed = true
			}
		}
	}
	var carriesVal func(v, ev ssa.Value, depth int) bool
	carriesVal = func(v, ev ssa.Value, depth int) bool {
		if v == ev {
			return true
		}
		if ph, ok := v.(*ssa.Phi); ok && depth < 3 {
			for _, ed := range ph.Edges {
				if carriesVal(ed, ev, depth+1) {
					return true
				}
			}
		}
		return false
	}
	nMust, nExported := 0, 0
	for _, fn := range r.P.ModFuncs {
		if !onWay[fn] {
			continue
		}
		r.Funcs[FuncName(fn)] = true
		if fn.Object() != nil && fn.Object().Exported() {
			nExported++
		}
		for _, call := range sources(fn) {
			nMust++
			key := "status-carried:" + FuncName(fn) + "@" + CalleeOf(call)
			var ev ssa.Value = call
			if tup, ok := call.Type().(*types.Tuple); ok {
				ev = CallResult(call, tup.Len()-1)
			}
			if ev == nil {
				r.Fail(key, r.Where(call), "the error of "+CalleeOf(call)+" is discarded")
				continue
			}
			tested := ev
			if !hasNilTest(ev) {
				for _, ref := range *ev.Referrers() {
					if ph, ok := ref.(*ssa.Phi); ok && hasNilTest(ph) {
						tested = ph
					}
				}
			}
			// the error may be parked in a cell of an object this function created and be tested / returned from
			// there: a load of that cell is the same value (c08ParkedLoads)
			parked := c08ParkedLoads(r, fn, ev)
			sigma := Sigma{"nil?" + r.D.D(tested): "non"}
			for ld := range parked {
				sigma["nil?"+r.D.D(ld)] = "non"
			}
			reach := r.D.Walk(fn, sigma, call.Block(), nil)
			r.Valuations++
			ok, detail, nret := true, "", 0
			for _, ret := range reachableReturns(fn, reach) {
				if ret.Block().Comment == "recover" {
					continue
				}
				nret++
				vs := RetVals(ret)
				if k := len(vs); k == 0 || !carriesVal(vs[k-1], ev, 0) && !parked[vs[k-1]] {
					ok = false
					detail = fmt.Sprintf("once %s failed, the return at %s hands on %s instead of that error: its gRPC status (429/503/504/4xx) is lost and the request is answered 500", CalleeOf(call), r.Where(ret), r.D.D(vs[len(vs)-1]))
				}
			}
			if ok && nret == 0 {
				ok, detail = false, "undecided: no return reachable after the call"
			}
			if ok {
				detail = fmt.Sprintf("once %s failed, all %d returns that may execute hand on its error unchanged", CalleeOf(call), nret)
			}
			r.Check(key, ok, r.Where(call), detail)
		}
	}
	// an error kept for other callers is the backend's error unchanged; a context's error is handed on only as the
	// gRPC status error of that context (rules_t8c06.go)
	c08RelayCells(r, onWay, func(v ssa.Value) bool { return isBackendErr(v, 0) }, wraps)
	c08ContextErrors(r, onWay)
	// instance floors that do not depend on where helper boundaries lie: the exported getters on the way from the
	// latest-root RPC to the get-sth handler, and (end to end) a handler that maps a relayed error, i.e. the error
	// result of a relaying function rather than of an RPC it issues itself
	r.Floor("exported functions relaying backend errors", nExported, 2)
	nEnd := 0
	for _, fn := range r.P.ModFuncs {
		if !inCtfe(fn) {
			continue
		}
		for _, c := range CallsTo(fn, "(*trillian/ctfe.logInfo).toHTTPStatus") {
			args := CallArgs(c)
			ex, ok := args[len(args)-1].(*ssa.Extract)
			if !ok {
				continue
			}
			call, ok := ex.Tuple.(*ssa.Call)
			if ok && !glob("iface(trillian.TrillianLogClient).*", CalleeOf(call)) && isBackendErr(ex, 0) {
				nEnd++
			}
		}
	}
	r.Floor("handlers mapping a relayed backend error with toHTTPStatus", nEnd, 1)
	r.Check("floor:relaying sites", n >= 1 && nMust >= 1, "-", fmt.Sprintf("%d returns relay a backend error, %d calls hand one on", n, nMust))
}

// decodedRoot is the origin term of the log root the function decoded: the
// receiver of its one (*types.LogRootV1).UnmarshalBinary call (the variable the
// handlers compare tree sizes with, however it is copied around afterwards).
func decodedRoot(r *Run, fn *ssa.Function) string {
	cs := CallsTo(fn, "(*types.LogRootV1).UnmarshalBinary")
	if len(cs) == 1 {
		return selBase(r.D.D(CallArgs(cs[0])[0]))
	}
	return "new:types.LogRootV1#0"
}

// neverFails: pat is "nil?<callee>(*)#k" (or without #k) naming a module function called by fn whose k-th
// result is the constant nil at every return.
func neverFails(r *Run, pat string, fn *ssa.Function) bool {
	pat, ok := strings.CutPrefix(pat, "nil?")
	if !ok {
		return false
	}
	i := strings.LastIndex(pat, "(*)")
	if i < 0 {
		return false
	}
	name, rest := pat[:i], pat[i+3:]
	k := 0
	if rest != "" {
		if len(rest) != 2 || rest[0] != '#' || rest[1] < '0' || rest[1] > '9' {
			return false
		}
		k = int(rest[1] - '0')
	}
	calls := CallsTo(fn, name)
	if len(calls) == 0 {
		return false
	}
	for _, c := range calls {
		callee := c.Common().StaticCallee()
		if callee == nil || len(callee.Blocks) == 0 || !r.P.AllFuncs[callee] || fnPkg(callee) == nil || !strings.HasPrefix(fnPkg(callee).Path(), ModPath) {
			return false
		}
		rets := Returns(callee)
		if len(rets) == 0 {
			return false
		}
		for _, ret := range rets {
			if k >= len(ret.Results) {
				return false
			}
			cst, isConst := ret.Results[k].(*ssa.Const)
			if !isConst || !cst.IsNil() {
				return false
			}
		}
	}
	return true
}
