package main

import (
	"encoding/json"
	"fmt"
	"os"
	"path/filepath"
	"runtime/debug"
	"sort"
	"strconv"
	"strings"
	"time"

	"golang.org/x/tools/go/ssa"
)

// Obl is one obligation: a rule applied to one construct.
type Obl struct {
	Key    string `json:"key"`    // rule + construct, never a line number
	Rule   string `json:"rule"`   // e.g. C08.R2
	Where  string `json:"where"`  // file:line of the construct on this tree
	Detail string `json:"detail"` // what was established / what is wrong
	OK     bool   `json:"ok"`
}

// Run carries the state of one property check.
type Run struct {
	Prop        string
	Tier        string
	P           *Prog
	D           *Describer
	Obls        []Obl
	Assumptions []string
	Funcs       map[string]bool // functions analysed
	Valuations  int
	Floors      map[string][2]int // rule -> {found, floor}
	Explanation string
	curRule     string
	seen        map[string]bool
	Alias       string   // see Rule
	cfg         string   // build configuration of the current pass ("" = default)
	Configs     []string // build configurations analysed
}

// Rule sets the rule id of the obligations that follow.  While Alias is set
// (a rule set shared from another property) the id reads "<alias>←<id>".
func (r *Run) Rule(id string) {
	if r.Alias != "" {
		r.curRule = r.Alias + "←" + id
		return
	}
	r.curRule = id
}

// Shared runs rules written for another property under an alias rule id.
func (r *Run) Shared(alias string, f func()) {
	old, oldRule := r.Alias, r.curRule
	r.Alias = alias
	r.curRule = alias
	f()
	r.Alias, r.curRule = old, oldRule
}

func (r *Run) add(key string, ok bool, where, detail string) {
	full := r.curRule + ":" + key
	if r.cfg != "" {
		full += " [" + r.cfg + "]"
	}
	if r.seen == nil {
		r.seen = map[string]bool{}
	}
	// keys must be unique; disambiguate repeated constructs deterministically
	base := full
	for n := 2; r.seen[full]; n++ {
		full = base + "~" + strconv.Itoa(n)
	}
	r.seen[full] = true
	r.Obls = append(r.Obls, Obl{Key: full, Rule: r.curRule, Where: where, Detail: detail, OK: ok})
}

// Check records an obligation.
func (r *Run) Check(key string, ok bool, where, detail string) bool {
	r.add(key, ok, where, detail)
	return ok
}

func (r *Run) Pass(key, where, detail string) { r.add(key, true, where, detail) }
func (r *Run) Fail(key, where, detail string) { r.add(key, false, where, detail) }

// Fn resolves an anchor function; an unresolved anchor is a failed obligation.
func (r *Run) Fn(name string) *ssa.Function {
	fn := r.P.Func(name)
	if fn == nil || len(fn.Blocks) == 0 {
		if r.cfg != "" && r.Funcs[name] {
			// resolved under the default configuration: the defining file is excluded by
			// build constraints here, so there is nothing to decide in this configuration
			r.Pass("anchor:"+name, "-", "not built under "+r.cfg+" (build constraints); decided under the default configuration")
			return nil
		}
		r.Fail("anchor:"+name, "-", "undecided: anchor function "+name+" not found in the program")
		return nil
	}
	r.Funcs[name] = true
	return fn
}

// Floor asserts that a rule matched at least floor instances.
func (r *Run) Floor(what string, found, floor int) {
	r.Floors[r.curRule+":"+what] = [2]int{found, floor}
	r.Check("floor:"+what, found >= floor, "-", fmt.Sprintf("%d instances found, floor %d (confirmed by reading)", found, floor))
}

func (r *Run) Assume(s string) {
	for _, a := range r.Assumptions {
		if a == s {
			return
		}
	}
	r.Assumptions = append(r.Assumptions, s)
}

func (r *Run) Where(in ssa.Instruction) string { return r.P.InstrPos(in) }
func (r *Run) FnPos(fn *ssa.Function) string   { return r.P.Pos(fn.Pos()) }

// Finding is an entry of known_findings.json.
type Finding struct {
	Property string `json:"property"`
	Key      string `json:"key"`
	Status   string `json:"status"` // known | fixed
	Commit   string `json:"commit,omitempty"`
	What     string `json:"what"`
}

func verifDir() string {
	if d := os.Getenv("CTVERIF_HOME"); d != "" {
		return d
	}
	return "/verif"
}

func loadFindings() ([]Finding, error) {
	b, err := os.ReadFile(filepath.Join(verifDir(), "known_findings.json"))
	if err != nil {
		if os.IsNotExist(err) {
			return nil, nil
		}
		return nil, err
	}
	var f struct {
		Findings []Finding `json:"findings"`
	}
	if err := json.Unmarshal(b, &f); err != nil {
		return nil, err
	}
	return f.Findings, nil
}

type propDef struct {
	ID          string
	Explanation string
	Run         func(r *Run)
}

var props = map[string]*propDef{}

func register(id, explanation string, f func(r *Run)) {
	props[id] = &propDef{ID: id, Explanation: explanation, Run: f}
}

// loadCached loads the tree once per (root, configuration) within a process;
// only the dev command "checkall" runs more than one property per process.
var progCache = map[string]*Prog{}

func loadCached(root, cfg string) (*Prog, error) {
	k := root + "|" + cfg
	if p := progCache[k]; p != nil {
		return p, nil
	}
	p, err := Load(root)
	if err == nil {
		progCache[k] = p
	}
	return p, err
}

// runCheck executes one property check and returns the process exit code.
func runCheck(id, tier string) int {
	start := time.Now()
	pd := props[id]
	if pd == nil {
		fmt.Fprintf(os.Stderr, "unknown property %s\n", id)
		return 2
	}
	seed := 0
	if s := os.Getenv("VERIF_SEED"); s != "" {
		seed, _ = strconv.Atoi(s)
	}
	evDir := filepath.Join(verifDir(), "evidence")
	os.MkdirAll(filepath.Join(evDir, "reports"), 0o755)
	// stale reports of this property are removed on every run
	if old, _ := filepath.Glob(filepath.Join(evDir, "reports", id+"-*.json")); len(old) > 0 {
		for _, f := range old {
			os.Remove(f)
		}
	}
	r := &Run{Prop: id, Tier: tier, Funcs: map[string]bool{}, Floors: map[string][2]int{}, Explanation: pd.Explanation}
	// quick: the default build configuration.  thorough: additionally the other
	// configurations the repository is built for (32-bit ints, other GOOS
	// file sets); every rule must hold under each of them.
	configs := []string{""}
	if tier == "thorough" {
		configs = append(configs, "GOARCH=386 CGO_ENABLED=0", "GOOS=darwin GOARCH=arm64 CGO_ENABLED=0", "GOOS=windows GOARCH=amd64 CGO_ENABLED=0")
	}
	var p *Prog
	for _, cfg := range configs {
		if cfg == "" {
			os.Unsetenv("CTVERIF_LOADENV")
			r.Configs = append(r.Configs, "default (host GOOS/GOARCH)")
		} else {
			os.Setenv("CTVERIF_LOADENV", cfg)
			r.Configs = append(r.Configs, cfg)
		}
		r.cfg = cfg
		var err error
		p, err = loadCached(repoRoot(), cfg)
		if err != nil {
			// a tree that does not load is reported as a violation of the check's
			// precondition: nothing can be decided.
			r.curRule = id + ".LOAD"
			r.Fail("load", "-", "undecided: "+err.Error())
			continue
		}
		r.P = p
		r.D = NewDescriber(p)
		gD = r.D
		func() {
			defer func() {
				if e := recover(); e != nil {
					r.curRule = id + ".ENGINE"
					r.Fail("panic", "-", fmt.Sprintf("undecided: engine panic: %v\n%s", e, firstLines(string(debug.Stack()), 14)))
				}
			}()
			pd.Run(r)
		}()
	}
	os.Unsetenv("CTVERIF_LOADENV")
	findings, ferr := loadFindings()
	if ferr != nil {
		r.curRule = id + ".FINDINGS"
		r.Fail("known_findings.json", "-", "cannot read known findings: "+ferr.Error())
	}
	known := map[string]Finding{}
	for _, f := range findings {
		if f.Property == id && f.Status == "known" {
			known[f.Key] = f
		}
	}
	sort.SliceStable(r.Obls, func(i, j int) bool { return r.Obls[i].Key < r.Obls[j].Key })
	discharged, violations, knownHits := 0, 0, 0
	var lines []string
	n := 0
	for _, o := range r.Obls {
		if o.OK {
			discharged++
			continue
		}
		baseKey := o.Key
		if i := strings.Index(baseKey, " ["); i > 0 && strings.HasSuffix(baseKey, "]") {
			baseKey = baseKey[:i]
		}
		if f, ok := known[baseKey]; ok {
			knownHits++
			lines = append(lines, fmt.Sprintf("KNOWN-FINDING: property=%s %s [%s @ %s]", id, f.What, o.Key, o.Where))
			continue
		}
		violations++
		n++
		rep := filepath.Join(evDir, "reports", fmt.Sprintf("%s-%d.json", id, n))
		b, _ := json.MarshalIndent(map[string]any{"property": id, "rule": o.Rule, "key": o.Key, "where": o.Where, "detail": o.Detail, "tier": tier}, "", " ")
		os.WriteFile(rep, b, 0o644)
		lines = append(lines, fmt.Sprintf("VIOLATION property=%s replay=%s", id, rep))
		lines = append(lines, fmt.Sprintf("  rule=%s key=%s at %s: %s", o.Rule, o.Key, o.Where, o.Detail))
	}
	// evidence
	var samples []any
	step := 1
	if len(r.Obls) > 16 {
		step = len(r.Obls) / 16
	}
	for i := 0; i < len(r.Obls) && len(samples) < 16; i += step {
		samples = append(samples, r.Obls[i])
	}
	var fns []string
	for f := range r.Funcs {
		fns = append(fns, f)
	}
	sort.Strings(fns)
	rules := map[string]int{}
	for _, o := range r.Obls {
		rules[o.Rule]++
	}
	npk := 0
	if p != nil {
		npk = len(p.Pkgs)
	}
	distinct := map[string]bool{}
	for _, o := range r.Obls {
		distinct[o.Key] = true
	}
	ev := map[string]any{
		"property_id": id,
		"tier":        tier,
		"seed":        seed,
		"level":       "other",
		"coverage": map[string]any{
			"explanation":          r.Explanation,
			"obligations":          len(r.Obls),
			"discharged":           discharged,
			"known_findings_hit":   knownHits,
			"evaluations":          len(r.Obls) + r.Valuations,
			"distinct_nontrivial":  len(distinct),
			"rule":                 "one obligation per (rule, construct) pair found in /repo's current source; distinct by key; every obligation inspects resolved SSA/AST/type information (non-trivial by construction: anchors that do not resolve and rules below their instance floor fail instead of passing)",
			"valuations":           r.Valuations,
			"packages_loaded":      npk,
			"build_configurations": r.Configs,
			"functions_analysed":   fns,
			"obligations_by_rule":  rules,
			"instance_floors":      r.Floors,
			"samples":              samples,
			"source_normaliser":    normaliserNote(p),
			"checker_cmd":          "bin/ctverif check " + id + " --tier " + tier,
			"exhaustive":           false,
		},
		"assumptions": r.Assumptions,
		"wall_s":      time.Since(start).Seconds(),
		"violations":  violations,
	}
	b, _ := json.MarshalIndent(ev, "", " ")
	if err := os.WriteFile(filepath.Join(evDir, id+".json"), b, 0o644); err != nil {
		fmt.Fprintln(os.Stderr, "cannot write evidence:", err)
		return 2
	}
	fmt.Printf("%s %s: %d obligations, %d discharged, %d known findings, %d violations, %d functions, %d valuations, %.1fs\n",
		id, tier, len(r.Obls), discharged, knownHits, violations, len(fns), r.Valuations, time.Since(start).Seconds())
	for _, l := range lines {
		fmt.Println(l)
	}
	if violations > 0 {
		return 1
	}
	return 0
}

// normaliserNote reports what the source normaliser (inline.go) did on this tree.
func normaliserNote(p *Prog) any {
	if p == nil || p.Inline == nil {
		return "no function outside the confirmed baseline list: the tree was analysed as it is"
	}
	return map[string]any{
		"unknown_helpers": p.Inline.Helpers,
		"expanded":        p.Inline.Inlined,
		"left_alone":      p.Inline.Skipped,
		"dropped":         p.Inline.Removed,
		"renames_undone":  p.Inline.Renamed,
		"library_models":  p.Inline.Modelled,
		"signatures_back": p.Inline.Reshaped,
	}
}

func firstLines(s string, n int) string {
	ls := strings.Split(s, "\n")
	if len(ls) > n {
		ls = ls[:n]
	}
	return strings.Join(ls, "\n")
}
