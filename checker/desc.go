package main

import (
	"fmt"
	"go/ast"
	"go/constant"
	"go/token"
	"go/types"
	"sort"
	"strings"

	"golang.org/x/tools/go/ssa"
)

// Origin terms: a canonical, text-independent rendering of where an SSA value
// comes from.  Locals, temporaries and statement order do not appear in it;
// program entities (parameters by index, fields, callees, constants) do.
//
//   p1                      parameter 1 (receiver is p0 for methods)
//   X.f                     field f of X (pointer-ness elided)
//   X[i]  X[lo:hi]          element / sub-slice
//   f(a, b)#1               second result of a call to f
//   iface(T).M(recv, a)     interface method call
//   new:T#0                 address-taken local / heap allocation number 0 of type T
//   phi(a|b)                merge
//   it#0                    loop induction variable
//
// Everything that cannot be resolved renders as opaque#n.

type Describer struct {
	p         *Prog
	memo      map[memoKey]string
	inCall    int                // nesting depth inside call arguments
	full      bool               // render nested calls in full (used to fingerprint elided calls)
	remInner  map[string]LinForm // Lin: dividend of each rem(…) leaf (for folding nested remainders)
	PhiByName bool               // Lin: name loop-carried φ-nodes by SSA register (identity within one function)
	under     *Reach             // when set, φ-nodes only merge the edges that are reachable in this walk
	busy      map[ssa.Value]bool
	allocIdx  map[*ssa.Alloc]int
	maxDepth  int
}

type memoKey struct {
	v    ssa.Value
	mode int
}

func (d *Describer) mode() int {
	if d.full {
		return 3
	}
	if d.inCall > 2 {
		return 2
	}
	return d.inCall
}

func NewDescriber(p *Prog) *Describer {
	return &Describer{p: p, memo: map[memoKey]string{}, busy: map[ssa.Value]bool{}, allocIdx: map[*ssa.Alloc]int{}, maxDepth: 64}
}

func (d *Describer) D(v ssa.Value) string { return d.desc(v, 0) }

// DUnder renders the origin of v restricted to a walk: φ-nodes merge only the
// incoming edges that the walk may take ("the value of v when σ holds").
func (d *Describer) DUnder(v ssa.Value, reach *Reach) string {
	sub := &Describer{p: d.p, memo: map[memoKey]string{}, busy: map[ssa.Value]bool{}, allocIdx: d.allocIdx, maxDepth: d.maxDepth, under: reach}
	return sub.desc(v, 0)
}

func constString(c *ssa.Const) string {
	if c.Value == nil {
		if b, ok := c.Type().Underlying().(*types.Basic); ok && b.Kind() != types.UntypedNil {
			// zero value of a basic type
			switch {
			case b.Info()&types.IsString != 0:
				return `""`
			case b.Info()&types.IsBoolean != 0:
				return "false"
			case b.Info()&types.IsNumeric != 0:
				return "0"
			}
		}
		switch c.Type().Underlying().(type) {
		case *types.Struct, *types.Array:
			return "zero:" + TypeName(c.Type())
		}
		return "nil"
	}
	switch c.Value.Kind() {
	case constant.String:
		return fmt.Sprintf("%q", constant.StringVal(c.Value))
	case constant.Bool:
		if constant.BoolVal(c.Value) {
			return "true"
		}
		return "false"
	}
	return c.Value.ExactString()
}

func paramIndex(p *ssa.Parameter) int {
	for i, q := range p.Parent().Params {
		if q == p {
			return i
		}
	}
	return -1
}

func stripAddr(s string) (string, bool) {
	if strings.HasPrefix(s, "&(") && strings.HasSuffix(s, ")") {
		// make sure the parens match as one group
		depth := 0
		for i := 1; i < len(s); i++ {
			switch s[i] {
			case '(':
				depth++
			case ')':
				depth--
				if depth == 0 && i != len(s)-1 {
					return s, false
				}
			}
		}
		return s[2 : len(s)-1], true
	}
	return s, false
}

func deref(s string) string {
	if in, ok := stripAddr(s); ok {
		return in
	}
	return "*" + s
}

// base of a field/index selection: "&(E)" selects on E, anything else on itself
// (pointer-ness elided).
func selBase(s string) string {
	if in, ok := stripAddr(s); ok {
		return in
	}
	return s
}

func (d *Describer) allocName(a *ssa.Alloc) string {
	fn := a.Parent()
	if _, ok := d.allocIdx[a]; !ok {
		// number allocations of the same type in block/instruction order
		counts := map[string]int{}
		for _, b := range fn.Blocks {
			for _, in := range b.Instrs {
				if al, ok := in.(*ssa.Alloc); ok {
					t := TypeName(al.Type().(*types.Pointer).Elem())
					d.allocIdx[al] = counts[t]
					counts[t]++
				}
			}
		}
		for _, al := range fn.Locals {
			if _, ok := d.allocIdx[al]; !ok {
				t := TypeName(al.Type().(*types.Pointer).Elem())
				d.allocIdx[al] = counts[t]
				counts[t]++
			}
		}
	}
	return fmt.Sprintf("new:%s#%d", TypeName(a.Type().(*types.Pointer).Elem()), d.allocIdx[a])
}

// uniqueStore returns the single whole-value store into an alloc, when the
// alloc is only ever loaded from and stored to (never escapes).
func uniqueStore(a *ssa.Alloc) ssa.Value {
	var st *ssa.Store
	for _, r := range *a.Referrers() {
		switch r := r.(type) {
		case *ssa.Store:
			if r.Addr != a {
				return nil // alloc stored somewhere: escapes
			}
			if st != nil {
				return nil
			}
			st = r
		case *ssa.UnOp:
			if r.Op != token.MUL {
				return nil
			}
		case *ssa.DebugRef:
		default:
			return nil
		}
	}
	if st == nil {
		return nil
	}
	return st.Val
}

// closureOnlyLoads: every free variable of the closure bound to a is only loaded inside it.
func closureOnlyLoads(mc *ssa.MakeClosure, a *ssa.Alloc) bool {
	cf, ok := mc.Fn.(*ssa.Function)
	if !ok {
		return false
	}
	for i, bnd := range mc.Bindings {
		if bnd != ssa.Value(a) || i >= len(cf.FreeVars) {
			continue
		}
		refs := cf.FreeVars[i].Referrers()
		if refs == nil {
			continue
		}
		for _, r2 := range *refs {
			switch y := r2.(type) {
			case *ssa.UnOp:
				if y.Op != token.MUL {
					return false
				}
			case *ssa.DebugRef:
			default:
				return false
			}
		}
	}
	return true
}

// paramSpill recognises the alloc into which go/ssa spills a parameter whose
// address is taken (value receivers, captured parameters): the only whole
// store into it is the parameter itself, in the entry block.
func paramSpill(a *ssa.Alloc) *ssa.Parameter {
	var p *ssa.Parameter
	for _, r := range *a.Referrers() {
		if st, ok := r.(*ssa.Store); ok && st.Addr == a {
			q, ok := st.Val.(*ssa.Parameter)
			if !ok || p != nil || st.Block().Index != 0 {
				return nil
			}
			p = q
		}
	}
	return p
}

// structSpill recognises a struct-typed local that only holds a value computed
// elsewhere ("sf := t.Field(i); use(sf.Name, sf.Tag)", or a struct result copied
// into a variable): exactly one whole-value store, which dominates every read;
// otherwise only loads of the whole value or of (nested) fields; no field is
// written separately and the address does not escape.  go/ssa keeps such a
// local in memory (it is not lifted to a register because fields are selected
// by address); for provenance it reads as the stored value itself.
func structSpill(a *ssa.Alloc) ssa.Value {
	if st := structSpillStore(a); st != nil {
		return st.Val
	}
	return nil
}

func structSpillStore(a *ssa.Alloc) *ssa.Store {
	if _, ok := a.Type().(*types.Pointer).Elem().Underlying().(*types.Struct); !ok {
		return nil
	}
	var st *ssa.Store
	var loads []ssa.Instruction
	ok := true
	var readOnly func(addr ssa.Value)
	readOnly = func(addr ssa.Value) {
		refs := addr.Referrers()
		if refs == nil {
			ok = false
			return
		}
		for _, ref := range *refs {
			switch x := ref.(type) {
			case *ssa.DebugRef:
			case *ssa.UnOp:
				if x.Op != token.MUL {
					ok = false
				}
				loads = append(loads, x)
			case *ssa.FieldAddr:
				readOnly(x)
			case *ssa.Store:
				if addr != ssa.Value(a) || x.Addr != addr || x.Val == addr || st != nil {
					ok = false
				}
				st = x
			default:
				ok = false
			}
		}
	}
	readOnly(a)
	if !ok || st == nil {
		return nil
	}
	// the held value must not itself be a read of memory that may change afterwards
	// (a copy of another variable is a snapshot, not an alias)
	if u, isLoad := st.Val.(*ssa.UnOp); isLoad && u.Op == token.MUL {
		if src, isAlloc := u.X.(*ssa.Alloc); !isAlloc || !writtenOnlyBefore(src, st) {
			return nil
		}
	}
	for _, ld := range loads {
		if ld.Block() == st.Block() {
			if instrIdx(st) > instrIdx(ld) {
				return nil
			}
		} else if !st.Block().Dominates(ld.Block()) {
			return nil
		}
	}
	return st
}

// fieldChain peels FieldAddr selections down to a local: (alloc, ".f.g").
func fieldChain(addr ssa.Value) (*ssa.Alloc, string) {
	path := ""
	for i := 0; i < 6; i++ {
		switch x := addr.(type) {
		case *ssa.Alloc:
			if _, ok := x.Type().(*types.Pointer).Elem().Underlying().(*types.Struct); ok {
				return x, path
			}
			return nil, ""
		case *ssa.FieldAddr:
			st := x.X.Type().Underlying().(*types.Pointer).Elem().Underlying().(*types.Struct)
			path = "." + st.Field(x.Field).Name() + path
			addr = x.X
		default:
			return nil, ""
		}
	}
	return nil, ""
}

// reachingCopy: for a struct local that is only assigned as a whole (several
// times) and otherwise only read, the one assignment whose value a given read
// sees: it dominates the read, and every other assignment either is overwritten
// by it (dominates it) or cannot reach the read without passing through it.
func reachingCopy(a *ssa.Alloc, read ssa.Instruction) *ssa.Store {
	var stores []*ssa.Store
	ok := true
	var visit func(addr ssa.Value)
	visit = func(addr ssa.Value) {
		refs := addr.Referrers()
		if refs == nil {
			ok = false
			return
		}
		for _, ref := range *refs {
			switch x := ref.(type) {
			case *ssa.DebugRef:
			case *ssa.UnOp:
				if x.Op != token.MUL {
					ok = false
				}
			case *ssa.FieldAddr:
				visit(x)
			case *ssa.Store:
				if addr != ssa.Value(a) || x.Addr != addr || x.Val == addr {
					ok = false
				}
				stores = append(stores, x)
			default:
				ok = false
			}
		}
	}
	visit(a)
	if !ok || len(stores) < 2 {
		return nil
	}
	before := func(s ssa.Instruction, t ssa.Instruction) bool { // s executes before t on every path to t
		if s.Block() == t.Block() {
			return instrIdx(s) < instrIdx(t)
		}
		return s.Block().Dominates(t.Block())
	}
	var best *ssa.Store
	for _, s := range stores {
		if before(s, read) && (best == nil || before(best, s)) {
			best = s
		}
	}
	if best == nil {
		return nil
	}
	for _, s := range stores {
		if s == best || before(s, best) {
			continue
		}
		// s is not overwritten by best on every path: it must not reach the read
		if s.Block() == best.Block() || s.Block() == read.Block() {
			return nil
		}
		seen := map[*ssa.BasicBlock]bool{best.Block(): true}
		work := append([]*ssa.BasicBlock{}, s.Block().Succs...)
		for len(work) > 0 {
			b := work[len(work)-1]
			work = work[:len(work)-1]
			if seen[b] {
				continue
			}
			seen[b] = true
			if b == read.Block() {
				return nil
			}
			work = append(work, b.Succs...)
		}
	}
	return best
}

// chaseCopies follows a struct local back through whole-value copies to the
// local (or the non-memory value) whose contents a read sees.
func chaseCopies(a *ssa.Alloc, read ssa.Instruction) (*ssa.Alloc, ssa.Value) {
	for i := 0; i < 4; i++ {
		st := structSpillStore(a)
		if st == nil {
			st = reachingCopy(a, read)
		}
		if st == nil {
			return a, nil
		}
		u, isLoad := st.Val.(*ssa.UnOp)
		if !isLoad || u.Op != token.MUL {
			return nil, st.Val
		}
		src, ok := u.X.(*ssa.Alloc)
		if !ok || !writtenOnlyBefore(src, st) {
			return a, nil
		}
		a, read = src, st
	}
	return a, nil
}

func instrIdx(in ssa.Instruction) int {
	for i, x := range in.Block().Instrs {
		if x == in {
			return i
		}
	}
	return -1
}

// writtenOnlyBefore: no write into src (whole or field stores, calls that
// receive its address) can execute after the copy — after the copy the source
// is only read, so the copy is an exact snapshot of what the reads of src see.
// (Calls are assumed not to retain the address beyond their return.)
func writtenOnlyBefore(src *ssa.Alloc, cp *ssa.Store) bool {
	okAll := true
	// blocks that can execute after the copy's block
	after := map[*ssa.BasicBlock]bool{}
	work := append([]*ssa.BasicBlock{}, cp.Block().Succs...)
	for len(work) > 0 {
		b := work[len(work)-1]
		work = work[:len(work)-1]
		if after[b] {
			continue
		}
		after[b] = true
		work = append(work, b.Succs...)
	}
	var visit func(addr ssa.Value)
	visit = func(addr ssa.Value) {
		refs := addr.Referrers()
		if refs == nil {
			okAll = false
			return
		}
		for _, ref := range *refs {
			switch x := ref.(type) {
			case *ssa.DebugRef:
			case *ssa.UnOp:
				if x.Op != token.MUL {
					okAll = false
				}
			case *ssa.FieldAddr:
				visit(x)
			case *ssa.IndexAddr:
				visit(x)
			default:
				in, isIn := ref.(ssa.Instruction)
				if !isIn {
					okAll = false
					continue
				}
				// a store into it, or its address handed to a call / stored away
				if after[in.Block()] || (in.Block() == cp.Block() && instrIdx(in) > instrIdx(cp)) {
					okAll = false
				}
				if s, isStore := in.(*ssa.Store); isStore && s.Val == addr {
					okAll = false // the address itself escapes into memory
				}
			}
		}
	}
	visit(src)
	return okAll
}

// arraySpill recognises "h := f(); use(h[:])": an array-typed local that is
// stored once as a whole and otherwise only sliced or loaded.
func arraySpill(a *ssa.Alloc) ssa.Value {
	if _, ok := a.Type().(*types.Pointer).Elem().Underlying().(*types.Array); !ok {
		return nil
	}
	var sv ssa.Value
	for _, r := range *a.Referrers() {
		switch r := r.(type) {
		case *ssa.Store:
			if r.Addr != a || sv != nil {
				return nil
			}
			sv = r.Val
		case *ssa.Slice, *ssa.DebugRef:
		case *ssa.UnOp:
			if r.Op != token.MUL {
				return nil
			}
		default:
			return nil
		}
	}
	return sv
}

func calleeName(c *ssa.CallCommon) string {
	if c.IsInvoke() {
		return "iface(" + TypeName(c.Value.Type()) + ")." + c.Method.Name()
	}
	switch f := c.Value.(type) {
	case *ssa.Function:
		return FuncName(f)
	case *ssa.Builtin:
		return f.Name()
	case *ssa.MakeClosure:
		if fn, ok := f.Fn.(*ssa.Function); ok {
			return FuncName(fn)
		}
	}
	return ""
}

func isNumeric(t types.Type) bool {
	b, ok := t.Underlying().(*types.Basic)
	return ok && b.Info()&types.IsNumeric != 0
}

func (d *Describer) desc(v ssa.Value, depth int) string {
	if v == nil {
		return "<nil>"
	}
	mk := memoKey{v, d.mode()}
	if s, ok := d.memo[mk]; ok {
		return s
	}
	if depth > d.maxDepth {
		return "…"
	}
	if d.busy[v] {
		return "φ"
	}
	d.busy[v] = true
	s := d.desc1(v, depth)
	delete(d.busy, v)
	if !strings.Contains(s, "…") && !strings.Contains(s, "φ") {
		d.memo[mk] = s
	}
	return s
}

func (d *Describer) desc1(v ssa.Value, depth int) string {
	r := func(x ssa.Value) string { return d.desc(x, depth+1) }
	switch v := v.(type) {
	case *ssa.Parameter:
		if a := onTheSpotArg(v); a != nil {
			return "^" + r(a) // a literal called where it is written: the parameter is the argument, like a capture
		}
		return fmt.Sprintf("p%d", paramIndex(v))
	case *ssa.FreeVar:
		fn := v.Parent()
		idx := -1
		for i, fv := range fn.FreeVars {
			if fv == v {
				idx = i
			}
		}
		if par := fn.Parent(); par != nil && idx >= 0 {
			for _, b := range par.Blocks {
				for _, in := range b.Instrs {
					if mc, ok := in.(*ssa.MakeClosure); ok && mc.Fn == fn && idx < len(mc.Bindings) {
						return "^" + r(mc.Bindings[idx])
					}
				}
			}
		}
		return "fv:" + v.Name()
	case *ssa.Const:
		return constString(v)
	case *ssa.Global:
		pk := ""
		if v.Pkg != nil {
			pk = ShortPkg(v.Pkg.Pkg.Path()) + "."
		}
		return "&(g:" + pk + v.Name() + ")"
	case *ssa.Function:
		return "fn:" + FuncName(v)
	case *ssa.Builtin:
		return v.Name()
	case *ssa.Alloc:
		if p := paramSpill(v); p != nil {
			return "&(" + r(p) + ")"
		}
		if sv := arraySpill(v); sv != nil {
			return "&(" + r(sv) + ")"
		}
		if st := structSpillStore(v); st != nil {
			if u, ok := st.Val.(*ssa.UnOp); ok && u.Op == token.MUL {
				if src, ok := u.X.(*ssa.Alloc); ok && writtenOnlyBefore(src, st) {
					return r(src) // a copy of another local reads as that local
				}
			}
			return "&(" + r(st.Val) + ")"
		}
		return d.allocName(v)
	case *ssa.FieldAddr:
		st := v.X.Type().Underlying().(*types.Pointer).Elem().Underlying().(*types.Struct)
		return "&(" + selBase(r(v.X)) + "." + st.Field(v.Field).Name() + ")"
	case *ssa.Field:
		if iv := d.roGlobalLoadedField(v); iv != nil {
			return r(iv)
		}
		st := v.X.Type().Underlying().(*types.Struct)
		base := selBase(r(v.X))
		if strings.HasPrefix(base, "*new:") && !strings.ContainsAny(base[1:], "*&( ") {
			base = base[1:] // (*local).f is local.f
		}
		return base + "." + st.Field(v.Field).Name()
	case *ssa.IndexAddr:
		return "&(" + selBase(r(v.X)) + "[" + r(v.Index) + "])"
	case *ssa.Index:
		return selBase(r(v.X)) + "[" + r(v.Index) + "]"
	case *ssa.Lookup:
		return selBase(r(v.X)) + "[" + r(v.Index) + "]"
	case *ssa.Slice:
		lo, hi, mx := "", "", ""
		if v.Low != nil {
			lo = r(v.Low)
		}
		if v.High != nil {
			hi = r(v.High)
		}
		if v.Max != nil {
			mx = ":" + r(v.Max)
		}
		return selBase(r(v.X)) + "[" + lo + ":" + hi + mx + "]"
	case *ssa.UnOp:
		switch v.Op {
		case token.MUL:
			if a, ok := v.X.(*ssa.Alloc); ok {
				if sv := uniqueStore(a); sv != nil {
					return r(sv)
				}
			}
			// a variable captured by this function literal that is written exactly once, before the literal
			// is made, and that no closure writes: the value stored (a per-iteration loop variable handed
			// to a goroutine by capture instead of as an argument)
			if fv, ok := v.X.(*ssa.FreeVar); ok {
				if sv := capturedOnce(fv); sv != nil {
					return "^" + r(sv)
				}
			}
			// a field of an unexported package-level struct variable that is only ever initialised
			// (never stored to, never address-taken outside its initialiser) reads as its initial value
			if iv := d.roGlobalField(v.X); iv != nil {
				return r(iv)
			}
			// a read of a struct local that only holds copies: the value (or the other
			// local) whose copy reaches this read (flow-sensitive; see chaseCopies)
			if root, fields := fieldChain(v.X); root != nil {
				if fa, fv := chaseCopies(root, v); fa != root || fv != nil {
					switch {
					case fa != nil && fields == "":
						return "*" + d.allocName(fa)
					case fa != nil:
						return d.allocName(fa) + fields
					case fields == "":
						return r(fv)
					default:
						base := selBase(r(fv))
						if strings.HasPrefix(base, "*new:") && !strings.ContainsAny(base[1:], "*&( ") {
							base = base[1:] // (*local).f is local.f
						}
						return base + fields
					}
				}
			}
			return deref(r(v.X))
		case token.NOT:
			return "!" + r(v.X)
		case token.SUB:
			return "-" + r(v.X)
		case token.ARROW:
			return "<-" + r(v.X)
		case token.XOR:
			return "^" + r(v.X)
		}
		return v.Op.String() + r(v.X)
	case *ssa.BinOp:
		// the element index of a range loop (pre-index φ starting at −1, plus 1)
		// reads like the counter of an index loop: it@N
		if v.Op == token.ADD {
			if ph, ok := v.X.(*ssa.Phi); ok && isRangePre(ph) && isConstInt(v.Y, 1) {
				return fmt.Sprintf("it@%d", ph.Block().Index)
			}
			if ph, ok := v.Y.(*ssa.Phi); ok && isRangePre(ph) && isConstInt(v.X, 1) {
				return fmt.Sprintf("it@%d", ph.Block().Index)
			}
		}
		a, b := r(v.X), r(v.Y)
		switch v.Op {
		case token.ADD, token.MUL, token.EQL, token.NEQ, token.AND, token.OR, token.XOR:
			if !isStringType(v.X.Type()) || v.Op != token.ADD {
				if b < a {
					a, b = b, a
				}
			}
		case token.GTR:
			return "(" + b + " < " + a + ")"
		case token.GEQ:
			return "(" + b + " <= " + a + ")"
		}
		return "(" + a + " " + v.Op.String() + " " + b + ")"
	case *ssa.Convert:
		if isNumeric(v.Type()) && isNumeric(v.X.Type()) {
			return r(v.X)
		}
		return "conv:" + TypeName(v.Type()) + "(" + r(v.X) + ")"
	case *ssa.ChangeType:
		return r(v.X)
	case *ssa.ChangeInterface:
		return r(v.X)
	case *ssa.MakeInterface:
		return r(v.X)
	case *ssa.SliceToArrayPointer:
		return r(v.X)
	case *ssa.MultiConvert:
		return r(v.X)
	case *ssa.TypeAssert:
		return r(v.X) + ".(" + TypeName(v.AssertedType) + ")"
	case *ssa.Extract:
		if n, ok := v.Tuple.(*ssa.Next); ok {
			rg := "?"
			if rr, ok := n.Iter.(*ssa.Range); ok {
				rg = r(rr.X)
			}
			switch v.Index {
			case 0:
				return "rangeok(" + rg + ")"
			case 1:
				return "rangekey(" + rg + ")"
			default:
				return "rangeval(" + rg + ")"
			}
		}
		return r(v.Tuple) + fmt.Sprintf("#%d", v.Index)
	case *ssa.Call:
		return d.callDesc(&v.Call, depth)
	case *ssa.Phi:
		if isRangePre(v) {
			return fmt.Sprintf("(-1 + it@%d)", v.Block().Index)
		}
		if isInduction(v) {
			return fmt.Sprintf("it@%d", v.Block().Index)
		}
		set := map[string]bool{}
		for i, e := range v.Edges {
			if d.under != nil && !d.under.Edges[[2]int{v.Block().Preds[i].Index, v.Block().Index}] {
				continue
			}
			set[r(e)] = true
		}
		if len(set) == 0 {
			return "⊥"
		}
		var parts []string
		for s := range set {
			parts = append(parts, s)
		}
		sort.Strings(parts)
		if len(parts) == 1 {
			return parts[0]
		}
		return "phi(" + strings.Join(parts, "|") + ")"
	case *ssa.MakeSlice:
		return "make:" + TypeName(v.Type()) + "(" + r(v.Len) + ")"
	case *ssa.MakeMap:
		return "make:" + TypeName(v.Type())
	case *ssa.MakeChan:
		return "make:" + TypeName(v.Type())
	case *ssa.MakeClosure:
		if fn, ok := v.Fn.(*ssa.Function); ok {
			return "closure:" + FuncName(fn)
		}
	case *ssa.Range:
		return "range(" + r(v.X) + ")"
	case *ssa.Next:
		return "next(" + r(v.Iter) + ")"
	case *ssa.Select:
		return fmt.Sprintf("select@%d", v.Block().Index)
	}
	return fmt.Sprintf("opaque:%T", v)
}

func isStringType(t types.Type) bool {
	b, ok := t.Underlying().(*types.Basic)
	return ok && b.Info()&types.IsString != 0
}

// isInduction recognises a loop counter: a phi one of whose edges is (phi + const).
func isInduction(p *ssa.Phi) bool {
	if !isNumeric(p.Type()) {
		return false
	}
	for _, e := range p.Edges {
		if b, ok := e.(*ssa.BinOp); ok && (b.Op == token.ADD || b.Op == token.SUB) {
			if b.X == ssa.Value(p) {
				if _, ok := b.Y.(*ssa.Const); ok {
					return true
				}
			}
		}
	}
	return false
}

// isRangePre: the pre-index of a range loop — an induction φ entered with −1
// and advanced by +1 before each iteration (go/ssa's lowering of `for i := range`).
func isRangePre(p *ssa.Phi) bool {
	if !isInduction(p) {
		return false
	}
	entries := 0
	for _, e := range p.Edges {
		if b, ok := e.(*ssa.BinOp); ok && b.X == ssa.Value(p) {
			if b.Op != token.ADD || !isConstInt(b.Y, 1) {
				return false
			}
			continue
		}
		if !isConstInt(e, -1) {
			return false
		}
		entries++
	}
	return entries > 0
}

func isConstInt(v ssa.Value, want int64) bool {
	c, ok := v.(*ssa.Const)
	if !ok || c.Value == nil || c.Value.Kind() != constant.Int {
		return false
	}
	i, exact := constant.Int64Val(c.Value)
	return exact && i == want
}

func fp4(s string) string {
	var h uint32 = 2166136261
	for i := 0; i < len(s); i++ {
		h ^= uint32(s[i])
		h *= 16777619
	}
	const hex = "0123456789abcdef"
	return string([]byte{hex[(h>>12)&15], hex[(h>>8)&15], hex[(h>>4)&15], hex[h&15]})
}

func (d *Describer) callDescFull(c *ssa.CallCommon, depth int) string {
	name := calleeName(c)
	var args []string
	if c.IsInvoke() {
		args = append(args, d.desc(c.Value, depth+1))
	} else if name == "" {
		name = "dyn(" + d.desc(c.Value, depth+1) + ")"
	}
	for _, a := range c.Args {
		args = append(args, d.desc(a, depth+1))
	}
	return name + "(" + strings.Join(args, ", ") + ")"
}

func (d *Describer) callDesc(c *ssa.CallCommon, depth int) string {
	name := calleeName(c)
	if d.inCall >= 2 && !d.full && name != "" && name != "len" && name != "append" && name != "cap" {
		// elide the arguments of deeply nested calls, but keep distinct calls
		// distinct: the elision carries a fingerprint of the full rendering
		d.full = true
		saveBusy := d.busy
		d.busy = map[ssa.Value]bool{}
		fullText := d.callDescFull(c, depth)
		d.busy = saveBusy
		d.full = false
		return name + "(~" + fp4(fullText) + ")"
	}
	if name != "len" && name != "cap" { // len(X) renders X exactly as D(X) does
		d.inCall++
		defer func() { d.inCall-- }()
	}
	var args []string
	if c.IsInvoke() {
		args = append(args, d.desc(c.Value, depth+1))
	} else if name == "" {
		name = "dyn(" + d.desc(c.Value, depth+1) + ")"
	}
	for _, a := range c.Args {
		args = append(args, d.desc(a, depth+1))
	}
	return name + "(" + strings.Join(args, ", ") + ")"
}

// ---- read-only package-level struct variables ------------------------------------------------

type roGlobal struct {
	ok     bool
	stores map[string]ssa.Value // field path ("0.2") → the one value stored by the initialiser
}

var roGlobals = map[*ssa.Global]*roGlobal{}

func globalFieldPath(addr ssa.Value) (*ssa.Global, string) {
	path := ""
	for {
		switch a := addr.(type) {
		case *ssa.FieldAddr:
			path = fmt.Sprintf(".%d", a.Field) + path
			addr = a.X
			continue
		case *ssa.Global:
			return a, path
		}
		return nil, ""
	}
}

// roGlobalField: addr is &g.f… of an unexported global that the module only initialises; the value its
// initialiser stores there (nil when unknown).
func (d *Describer) roGlobalField(addr ssa.Value) ssa.Value {
	g, path := globalFieldPath(addr)
	if g == nil || path == "" || g.Pkg == nil || ast.IsExported(g.Name()) || d.p == nil {
		return nil
	}
	rg, seen := roGlobals[g]
	if !seen {
		rg = &roGlobal{ok: true, stores: map[string]ssa.Value{}}
		roGlobals[g] = rg
		initFn := g.Pkg.Func("init")
		// every use of g anywhere in its package: field addresses that are only loaded from, or whole loads
		var okAddr func(v ssa.Value, inInit bool) bool
		okAddr = func(v ssa.Value, inInit bool) bool {
			refs := v.Referrers()
			if refs == nil {
				return true
			}
			for _, in := range *refs {
				switch x := in.(type) {
				case *ssa.FieldAddr:
					if !okAddr(x, inInit) {
						return false
					}
				case *ssa.UnOp:
					if x.Op != token.MUL {
						return false
					}
				case *ssa.DebugRef:
				case *ssa.Store:
					if x.Addr != v || !inInit {
						return false
					}
					if _, p := globalFieldPath(x.Addr); p != "" {
						if _, dup := rg.stores[p]; dup {
							return false
						}
						rg.stores[p] = x.Val
					} else {
						return false // a whole-value store: not field by field
					}
				default:
					return false
				}
			}
			return true
		}
		fns := append([]*ssa.Function{}, d.p.ModFuncs...)
		if initFn != nil {
			fns = append(fns, initFn)
		} else {
			rg.ok = false
		}
		for _, fn := range fns {
			if fn.Pkg != g.Pkg || !rg.ok {
				continue
			}
			eachInstr(fn, func(in ssa.Instruction) {
				for _, op := range in.Operands(nil) {
					if *op != ssa.Value(g) {
						continue
					}
					switch x := in.(type) {
					case *ssa.FieldAddr:
						if !okAddr(x, fn == initFn) {
							rg.ok = false
						}
					case *ssa.UnOp:
						if x.Op != token.MUL {
							rg.ok = false
						}
					case *ssa.DebugRef:
					case *ssa.Store:
						// the initialiser stores a composite literal built in a local, field by field
						ld, isLoad := x.Val.(*ssa.UnOp)
						if fn != initFn || x.Addr != ssa.Value(g) || !isLoad || ld.Op != token.MUL || len(rg.stores) > 0 {
							rg.ok = false
							break
						}
						lit, isAlloc := ld.X.(*ssa.Alloc)
						if !isAlloc || lit.Comment != "complit" {
							rg.ok = false
							break
						}
						var walk func(v ssa.Value, path string) bool
						walk = func(v ssa.Value, path string) bool {
							for _, in := range *v.Referrers() {
								switch y := in.(type) {
								case *ssa.FieldAddr:
									if !walk(y, path+fmt.Sprintf(".%d", y.Field)) {
										return false
									}
								case *ssa.Store:
									if y.Addr != v || path == "" {
										return false
									}
									if _, dup := rg.stores[path]; dup {
										return false
									}
									rg.stores[path] = y.Val
								case *ssa.UnOp:
									if y != ld {
										return false
									}
								case *ssa.DebugRef:
								default:
									return false
								}
							}
							return true
						}
						if !walk(lit, "") {
							rg.ok = false
						}
					default:
						rg.ok = false
					}
				}
			})
		}
	}
	if !rg.ok {
		return nil
	}
	return rg.stores[path]
}

// roGlobalLoadedField: (*g).f… — a field of the loaded value of such a variable.
func (d *Describer) roGlobalLoadedField(f *ssa.Field) ssa.Value {
	path := ""
	var v ssa.Value = f
	for {
		if x, ok := v.(*ssa.Field); ok {
			path = fmt.Sprintf(".%d", x.Field) + path
			v = x.X
			continue
		}
		break
	}
	ld, ok := v.(*ssa.UnOp)
	if !ok || ld.Op != token.MUL {
		return nil
	}
	g, ok := ld.X.(*ssa.Global)
	if !ok {
		return nil
	}
	// reuse the address form: build the answer from the cache
	if d.roGlobalField(&ssa.FieldAddr{X: g}) == nil {
		// (the call above only fills the cache; a synthetic address has no path entry)
	}
	if rg := roGlobals[g]; rg != nil && rg.ok {
		return rg.stores[path]
	}
	return nil
}

// onTheSpotArg: v is a parameter of a function literal whose only use is to be called, by a plain call, in the
// function that contains it; the argument bound to v (nil otherwise).
func onTheSpotArg(v *ssa.Parameter) ssa.Value {
	fn := v.Parent()
	par := fn.Parent()
	if par == nil {
		return nil
	}
	idx := -1
	for i, p := range fn.Params {
		if p == v {
			idx = i
		}
	}
	if idx < 0 {
		return nil
	}
	var call *ssa.Call
	uses := 0
	for _, b := range par.Blocks {
		for _, in := range b.Instrs {
			for _, op := range in.Operands(nil) {
				if *op == nil {
					continue
				}
				isFn := *op == ssa.Value(fn)
				if mc, ok := (*op).(*ssa.MakeClosure); ok && mc.Fn == ssa.Value(fn) {
					if _, self := in.(*ssa.MakeClosure); !self {
						isFn = true
					}
				}
				if !isFn {
					continue
				}
				if _, isMC := in.(*ssa.MakeClosure); isMC {
					continue // the closure creation itself
				}
				uses++
				if c, ok := in.(*ssa.Call); ok && (c.Call.Value == *op) {
					call = c
				}
			}
		}
	}
	if uses != 1 || call == nil || idx >= len(call.Call.Args) {
		return nil
	}
	// the literal must not be referenced from sibling closures either
	for _, af := range par.AnonFuncs {
		if af == fn {
			continue
		}
		for _, b := range af.Blocks {
			for _, in := range b.Instrs {
				for _, op := range in.Operands(nil) {
					if *op != nil && *op == ssa.Value(fn) {
						return nil
					}
				}
			}
		}
	}
	return call.Call.Args[idx]
}

// capturedOnce: fv is bound to a local of the enclosing function that is stored exactly once there — in a block
// that dominates the closure's creation — and otherwise only loaded or captured by closures that only load it.
func capturedOnce(fv *ssa.FreeVar) ssa.Value {
	fn := fv.Parent()
	par := fn.Parent()
	if par == nil {
		return nil
	}
	idx := -1
	for i, x := range fn.FreeVars {
		if x == fv {
			idx = i
		}
	}
	if idx < 0 {
		return nil
	}
	var mk *ssa.MakeClosure
	for _, b := range par.Blocks {
		for _, in := range b.Instrs {
			if mc, ok := in.(*ssa.MakeClosure); ok && mc.Fn == ssa.Value(fn) {
				if mk != nil {
					return nil
				}
				mk = mc
			}
		}
	}
	if mk == nil || idx >= len(mk.Bindings) {
		return nil
	}
	a, ok := mk.Bindings[idx].(*ssa.Alloc)
	if !ok || a.Parent() != par {
		return nil
	}
	// only a variable that is created anew in every iteration of a loop (the per-iteration loop variable,
	// or a copy made in the body): a variable of the function's own frame keeps its cell rendering
	if !cycleBlocks(par)[a.Block()] {
		return nil
	}
	var st *ssa.Store
	for _, ref := range *a.Referrers() {
		switch x := ref.(type) {
		case *ssa.Store:
			if x.Addr != ssa.Value(a) || st != nil {
				return nil
			}
			st = x
		case *ssa.UnOp:
			if x.Op != token.MUL {
				return nil
			}
		case *ssa.DebugRef:
		case *ssa.MakeClosure:
			// every closure that captures it may only load it
			cf, ok := x.Fn.(*ssa.Function)
			if !ok {
				return nil
			}
			for i, bnd := range x.Bindings {
				if bnd != ssa.Value(a) || i >= len(cf.FreeVars) {
					continue
				}
				refs := cf.FreeVars[i].Referrers()
				if refs == nil {
					continue
				}
				for _, r2 := range *refs {
					switch y := r2.(type) {
					case *ssa.UnOp:
						if y.Op != token.MUL {
							return nil
						}
					case *ssa.DebugRef:
					default:
						return nil
					}
				}
			}
		default:
			return nil
		}
	}
	if st == nil {
		return nil
	}
	// the store comes before the closure is made
	if st.Block() == mk.Block() {
		for _, in := range st.Block().Instrs {
			if in == ssa.Instruction(st) {
				break
			}
			if in == ssa.Instruction(mk) {
				return nil
			}
		}
	} else if !st.Block().Dominates(mk.Block()) {
		return nil
	}
	return st.Val
}
