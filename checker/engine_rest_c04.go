package main

import (
	"fmt"

	"golang.org/x/tools/go/ssa"
)

// E1 (rest-checked) — trailing bytes after a tls.Unmarshal are an error.
//
// For one call site, three walks start at the call's block:
//   ok     error nil, len(rest) = 0
//   err    error non-nil
//   trail  error nil, len(rest) > 0
// "Accept-only" blocks are those the ok walk reaches and the err walk does not
// (minus the blocks that merely evaluate the length test).  The trailing-bytes
// outcome must reach none of them, and every return that only the trail walk
// (not the err walk) reaches must carry a non-nil error.  When accepting and
// failing run the same code (lenient parsers that collect errors), the trail
// edge of the length test must lead straight into the named collector call.
// restMarkers maps such functions to the collector's callee glob.

func c04RestSite(r *Run, fn *ssa.Function, c ssa.CallInstruction, key, fname string, restMarkers map[string]string) {
	rest, errv := CallResult(c, 0), CallResult(c, 1)
	if rest == nil || errv == nil {
		r.Fail(key, r.Where(c), "the remaining bytes (or the error) of tls.Unmarshal are discarded: trailing data cannot be refused")
		return
	}
	// the comparison len(rest) ~ 0
	lenKey, trail := "", ""
	for _, ref := range *rest.Referrers() {
		lc, ok := ref.(*ssa.Call)
		if !ok || CalleeOf(lc) != "len" {
			continue
		}
		for _, ref2 := range *lc.Referrers() {
			if b, ok := ref2.(*ssa.BinOp); ok {
				ci := r.D.Classify(b)
				if ci.Kind != "ord" {
					continue
				}
				switch {
				case ci.A == "0":
					lenKey, trail = ci.Key, "<"
				case ci.B == "0":
					lenKey, trail = ci.Key, ">"
				}
			}
		}
	}
	if lenKey == "" {
		r.Fail(key, r.Where(c), "len(rest) of this tls.Unmarshal is never compared with 0: trailing bytes are accepted")
		return
	}
	tested := errv
	if !hasNilTest(errv) {
		tested = nil
		for _, ref := range *errv.Referrers() {
			if ph, ok := ref.(*ssa.Phi); ok && hasNilTest(ph) {
				tested = ph
			}
		}
	}
	if tested == nil {
		r.Fail(key, r.Where(c), "undecided: the error of tls.Unmarshal is never tested against nil")
		return
	}
	errKey := "nil?" + r.D.D(tested)
	from := c.Block()
	bOK := r.D.Walk(fn, Sigma{errKey: "nil", lenKey: "="}, from, nil)
	bErr := r.D.Walk(fn, Sigma{errKey: "non"}, from, nil)
	bTrail := r.D.Walk(fn, Sigma{errKey: "nil", lenKey: trail}, from, nil)
	r.Valuations += 3
	// returns that only the trailing-bytes outcome reaches must be errors
	for _, ret := range reachableReturns(fn, bTrail) {
		if bErr.Has(ret) || len(ret.Results) == 0 {
			continue
		}
		if errKind(ret.Results[len(ret.Results)-1]) == "nil" {
			r.Fail(key, r.Where(ret), "with trailing bytes after the decoded value this return hands back a nil error"+fmt.Sprintf(" [σ: %s=nil, %s=%s]", errKey, lenKey, trail))
			return
		}
	}
	accept := 0
	lenTests := map[*ssa.BasicBlock]bool{}
	for _, b := range r.blocksTesting(fn, func(ci *CondInfo) bool { return ci.Key == lenKey }) {
		lenTests[b] = true
	}
	for b := range bOK.Blocks {
		if bErr.Blocks[b] || lenTests[b] {
			continue // runs on the failure path too, or merely evaluates the length test
		}
		accept++
		if bTrail.Blocks[b] {
			r.Fail(key, r.P.InstrPos(b.Instrs[0]), fmt.Sprintf("block %d runs only when the decode succeeded, yet it is reachable with trailing bytes (%s=%s)", b.Index, lenKey, trail))
			return
		}
	}
	if accept > 0 {
		r.Pass(key, r.Where(c), fmt.Sprintf("trailing bytes (%s=%s) reach none of the %d accept-only blocks and no success return", lenKey, trail, accept))
		return
	}
	// no accept-only code (collector style): the trailing edge must lead straight into the collector call
	mg, ok := restMarkers[fname]
	if !ok {
		r.Fail(key, r.Where(c), "undecided: accepting and failing decode run the same code and no error collector is known for "+fname)
		return
	}
	s := Sigma{errKey: "nil", lenKey: trail}
	hit := false
	for _, b := range r.blocksTesting(fn, func(ci *CondInfo) bool { return ci.Key == lenKey }) {
		if !bTrail.Blocks[b] {
			continue
		}
		ifi := b.Instrs[len(b.Instrs)-1].(*ssa.If)
		var succ *ssa.BasicBlock
		switch r.D.Eval(ifi.Cond, s, b, -1) {
		case T:
			succ = b.Succs[0]
		case F:
			succ = b.Succs[1]
		}
		if succ == nil || len(succ.Preds) != 1 || bOK.Blocks[succ] {
			continue
		}
		for _, in := range succ.Instrs {
			if ci, ok := in.(ssa.CallInstruction); ok && glob(mg, CalleeOf(ci)) {
				hit = true
			}
		}
	}
	r.Check(key, hit, r.Where(c), fmt.Sprintf("trailing bytes (%s=%s) lead straight into a call of %s that the accepting outcome never reaches", lenKey, trail, mg))
}
