package main

import (
	"fmt"
	"go/token"
	"go/types"
	"strings"

	"golang.org/x/tools/go/ssa"
)

func init() {
	register("C18", "Decides structural necessary conditions of 'every component draws temporal shard boundaries at the same instants': "+
		"(R1) ctfe.ValidateChain, (R2) client.TemporalLogClient.IndexByDate and (R3) loglist3.LogList.TemporallyCompatible are each compared, for every feasible combination of bound presence and of the order of t against start and limit (t<, t=, t>), with the one predicate of the property, inside ⇔ (no start ∨ t ≥ start) ∧ (no limit ∨ t < limit); since all three are compared with the same table they agree pairwise on every instant including the exact boundary values; "+
		"(R2, round 8) in IndexByDate EVERY group of tests that compares the instant with the bounds of one interval intervals[x] — the scan, and a shard remembered from an earlier lookup that is looked at first — obeys that table (hit ⇒ a return of x; miss ⇒ another interval is looked at next, no accepting return before), every accepting return lies behind the tests of the interval whose index it returns, one group is a scan over every element of the list (each turn tests its element, 'no log found' only once the scan has run out), and an index that is not the scan's counter is read from an atomic cell of the client whose stored values are positions of the (never resized) list and whose guards keep the never-written value and negative positions away: so the shard chosen does not depend on earlier lookups; "+
		"(R4) the compared operands are the whole time.Time instants (leaf NotAfter of chain[0] / of the parsed first chain entry / of the certificate; the configured bounds) with no truncation or unit conversion in between, the bounds reach the comparison unswapped from the configuration (NotAfterStart→start/lower, NotAfterLimit→limit/upper), and the shard chosen / log kept is the one whose interval was tested; (round 8) for the log server this is decided on every value the start / limit field of the CertValidationOpts built by setUpLogInfo / NewCertValidationOpts can hold, followed through field stores, whole-struct copies, constructors and helper results: the configured pointer itself, or — absent ⇔ absent, decided on a nil test of that pointer — a private time.Time whose only content is the configured instant taken over by steps that keep it (value copy, UTC / Local / In, Round / Truncate(≤0)); Truncate, Round, Unix round trips and unknown calls are reported; "+
		"(R5) construction: shardInterval refuses invalid timestamps and ¬(lower < upper); NewTemporalLogClient refuses an empty list, a shard after an interval without upper bound, a later shard without lower bound and lower ≠ previous upper, and extends the overall span by the new upper bound — or, where the previous shard's interval is read back from the list of intervals (inside the conversion loop or in a pair loop of its own), compares shard i with shard i−1 for every i from 1 to the last shard; ValidateLogConfig refuses limit < start and invalid timestamps. "+
		"(R6) the bounds are configuration, not a frozen clock: no store anywhere in the module writes a sample of a clock (time.Now / Since / Until / timers, through any helper, parameter or clock interface) that outlives the call that took it into a long-lived cell read by the comparisons of ValidateChain, IndexByDate or TemporallyCompatible (validation options, validated configuration, shard intervals, log-list intervals and whatever feeds them) — rule C02.R10 applied to the three filters. "+
		"NOT covered: that a remembered shard's hit equals the scan's first match is derived from contiguity (R5) plus the table, not checked on overlapping lists; remembered state in any other form than an index in a sync/atomic cell of the client read through Load (plain or lock-protected fields, remembered bounds) is reported as undecided; the guards on the remembered cell are valuated for sample values (0, −1 and the two values just below the first valid one); a struct whose address is handed to a function that writes its fields is not followed; that the X.509 parser yields the right NotAfter; the behaviour of time.Time.Before/After/Equal and timestamppb.AsTime themselves; that IndexByDate's first-match order coincides with 'exactly one shard' is derived from contiguity (R5) plus the table (R2), not checked on concrete shard lists; log lists whose intervals overlap. "+
		"Also not covered: that the X.509 parser yields the right NotAfter; the behaviour of time.Time.Before/After/Equal and timestamppb.AsTime themselves; that IndexByDate's first-match order coincides with 'exactly one shard' is derived from contiguity (R5) plus the table (R2), not checked on concrete shard lists; log lists whose intervals overlap.",
		runC18)
}

// loopOutcome classifies a loop body region: inside = a marker block is reachable before
// the loop continues; outside = the loop header is reachable without passing a marker.
func loopOutcome(markers func() []ssa.Instruction) func(map[string]string, *Reach, *ssa.BasicBlock) (bool, bool, string) {
	return func(_ map[string]string, reach *Reach, entry *ssa.BasicBlock) (bool, bool, string) {
		h := loopHeaderOf(entry)
		if h == nil {
			return false, false, "(undecided: the window tests are not inside a loop)"
		}
		mb := wBlockSet(markers())
		in := wAnyIn(pathReach(reach, entry, map[*ssa.BasicBlock]bool{h: true}), mb)
		stop := map[*ssa.BasicBlock]bool{h: true}
		for b := range mb {
			stop[b] = true
		}
		return in, pathReach(reach, entry, stop)[h], ""
	}
}

// boundOperands returns, for the ord atoms of fn comparing tGlob with bGlob, the bound-side operands.
func (r *Run) boundOperands(fn *ssa.Function, tGlob, bGlob string) []string {
	var out []string
	atoms := r.D.AtomsOf(fn)
	for _, k := range r.bindAtom(fn, RuleAtom{OrdA: tGlob, OrdB: bGlob}) {
		if ci := atoms[k]; glob(bGlob, ci.B) && glob(tGlob, ci.A) {
			out = append(out, ci.B)
		} else {
			out = append(out, ci.A)
		}
	}
	return out
}

func runC18(r *Run) {
	r.Assume("time.Time.Before/After/Equal compare instants exactly (monotonic readings aside) and timestamppb.Timestamp.AsTime is exact to the nanosecond")
	r.Assume("window bounds satisfy start <= limit (enforced by ValidateLogConfig / shardInterval, R5); valuations contradicting it are not enumerated")

	// ---- R1: the log server's admission window
	r.Rule("C18.R1")
	if fn := r.Fn("trillian/ctfe.ValidateChain"); fn != nil {
		c18ValidateChainWindow(r, fn, "ValidateChain")
	}

	// ---- R2: the temporal-shard client's shard choice
	r.Rule("C18.R2")
	if fn := r.Fn("(*client.TemporalLogClient).IndexByDate"); fn != nil {
		// one window table per interval looked at (the scan, a remembered shard …), the index returned is that of
		// the interval tested, the scan runs over the whole list, remembered indices are positions of the list
		c18IndexByDate(r, fn) // rules_t8c18.go
		r.Rule("C18.R4")
	}
	if fn := r.Fn("(*client.TemporalLogClient).addChain"); fn != nil {
		if c := r.OneCall(fn, "tlc.addChain:IndexByDate", "(*client.TemporalLogClient).IndexByDate"); c != nil {
			r.ExpectArg(c, "tlc.addChain:instant", 1, "x509.ParseCertificate(p4[0].Data)#0.NotAfter")
			r.FailEdge(fn, "tlc.addChain", EdgeSpec{Name: "no-shard", Atom: nilAtom("(*client.TemporalLogClient).IndexByDate(*)#1"), Bad: "non", Want: wantErr(true),
				Unreach: asInstrs(CallsTo(fn, "(*client.LogClient).addChainWithRetry"))})
		}
		if c := r.OneCall(fn, "tlc.addChain:submit", "(*client.LogClient).addChainWithRetry"); c != nil {
			r.ExpectArg(c, "tlc.addChain:shard-client", 0, "p0.Clients[(*client.TemporalLogClient).IndexByDate(*)#0]")
		}
	}

	// ---- R3: the log-list compatibility filter
	r.Rule("C18.R3")
	c18TemporallyCompatible(r)
	r.Rule("C18.R3")
	if fn := r.Fn("(*loglist3.LogList).Compatible"); fn != nil {
		if c := r.OneCall(fn, "Compatible:temporal-filter", "(*loglist3.LogList).TemporallyCompatible"); c != nil {
			r.ExpectArg(c, "Compatible:temporal-filter.list", 0, "p0")
			r.ExpectArg(c, "Compatible:temporal-filter.cert", 1, "p1")
			act := r.allocOf(fn, "(*loglist3.LogList).TemporallyCompatible(p0, p1)")
			for _, ret := range Returns(fn) {
				got := r.D.D(ret.Results[0])
				r.Check("Compatible:result-is-filtered", act != "" && (got == "*"+act || got == "(*loglist3.LogList).RootCompatible("+act+", p2, p3)"), r.Where(ret), "returns "+clipStr(got, 120)+" where "+act+" holds the temporally compatible logs")
			}
		}
	}

	// ---- R4: the bounds reach the comparisons unswapped and unconverted
	r.Rule("C18.R4")
	asTime := "(*timestamppb.Timestamp).AsTime(p0.%s)"
	fStart, fLimit := c18WindowFields(r) // the start / limit fields of CertValidationOpts (by name, else by their role in ValidateChain)
	if fn := r.Fn("client.shardInterval"); fn != nil {
		src := c18ShardBounds(r, fn)
		for _, p := range [][2]string{{"lower", "NotAfterStart"}, {"upper", "NotAfterLimit"}} {
			sts := r.StoresTo(fn, "&(new:client.interval#*."+p[0]+")")
			r.Check("shardInterval:"+p[0]+"-set", len(sts) == 1, r.FnPos(fn), fmt.Sprintf("%d stores to interval.%s", len(sts), p[0]))
			r.ExpectPointee(fn, "shardInterval:"+p[0]+"←"+p[1], "new:client.interval#*."+p[0], "(*timestamppb.Timestamp).AsTime("+src[p[1]]+")", 1)
		}
	}
	if fn := r.Fn("trillian/ctfe.ValidateLogConfig"); fn != nil {
		for _, f := range []string{"NotAfterStart", "NotAfterLimit"} {
			r.ExpectPointee(fn, "ValidateLogConfig:"+f, "new:trillian/ctfe.ValidatedLogConfig#*."+f, fmt.Sprintf(asTime, f), 1)
		}
	}
	// every value the start / limit field of the options can hold is the configured pointer itself or — absent ⇔
	// absent — a private copy of the instant it points to, taken over by steps that keep the instant; the options
	// are followed through whole-struct copies and constructors (rules_t8c18.go)
	const optsT = "trillian/ctfe.CertValidationOpts"
	if fn := r.Fn("trillian/ctfe.setUpLogInfo"); fn != nil {
		c18ExpectBoundIn(r, fn, "setUpLogInfo:notAfterStart", optsT, fStart, "p1.Validated.NotAfterStart")
		c18ExpectBoundIn(r, fn, "setUpLogInfo:notAfterLimit", optsT, fLimit, "p1.Validated.NotAfterLimit")
	}
	if fn := r.Fn("trillian/ctfe.NewCertValidationOpts"); fn != nil {
		c18ExpectBoundIn(r, fn, "NewCertValidationOpts:notAfterStart", optsT, fStart, "p4")
		c18ExpectBoundIn(r, fn, "NewCertValidationOpts:notAfterLimit", optsT, fLimit, "p5")
	}
	if fn := r.Fn("trillian/integration.NotAfterForLog"); fn != nil {
		c18NotAfterForLog(r, fn)
	}

	// ---- R5: construction
	r.Rule("C18.R5")
	if fn := r.Fn("client.shardInterval"); fn != nil {
		r.ErrorsGate(fn, "shardInterval:invalid-timestamp", "(*timestamppb.Timestamp).CheckValid", 2)
		r.CheckCases(fn, "shardInterval:inverted", CaseTable{
			Atoms: []RuleAtom{{Name: "pl", Pat: "nil?new:client.interval#*.lower"}, {Name: "pu", Pat: "nil?new:client.interval#*.upper"}, {Name: "o", OrdA: "*.lower", OrdB: "*.upper"}},
			Class: func(v map[string]string) string {
				if v["pl"] == "non" && v["pu"] == "non" && v["o"] != "<" {
					return "both bounds, ¬(lower<upper)"
				}
				return "ok"
			},
			Want: map[string]func(*Run, *ssa.Return) (bool, string){"both bounds, ¬(lower<upper)": wantErr(false), "ok": retIs(0, "", "nil")},
		})
	}
	if fn := r.Fn("client.NewTemporalLogClient"); fn != nil {
		c18NewTemporalLogClient(r, fn)
	}
	if fn := r.Fn("trillian/ctfe.ValidateLogConfig"); fn != nil {
		// the instants compared are those the validated configuration carries (the pointee of its field, or of a
		// pointer that is stored into the field once validation is over)
		inst := func(f string) string {
			alts := []string{"*new:trillian/ctfe.ValidatedLogConfig#*." + f}
			for _, st := range r.StoresTo(fn, "&(new:trillian/ctfe.ValidatedLogConfig#*."+f+")") {
				if t := "*" + r.D.D(st.Val); !isNilConst(st.Val) && !strings.Contains(t, " || ") {
					alts = append(alts, t)
				}
			}
			return strings.Join(alts, " || ")
		}
		r.FailEdgeWalk(fn, "ValidateLogConfig", EdgeSpec{Name: "limit<start", Atom: ordAtomR(inst("NotAfterLimit"), inst("NotAfterStart")), Bad: "<", Want: wantErr(true)},
			func(s Sigma, from *ssa.BasicBlock) *Reach { return r.D.Walk(fn, s, from, nil) })
		r.ErrorsGate(fn, "ValidateLogConfig:invalid-timestamp", "(*timestamppb.Timestamp).CheckValid", 2)
	}

	// ---- R6: no clock sample is stored into the long-lived bounds these filters compare with (rules_t7c02clock.go)
	r.Rule("C18.R6")
	noStaleClock(r, []clkFilter{{"trillian/ctfe.ValidateChain", 3}, {"(*client.TemporalLogClient).IndexByDate", 2}, {"(*loglist3.LogList).TemporallyCompatible", 2}})
}

func wSliceBase(v ssa.Value) ssa.Value {
	if s, ok := v.(*ssa.Slice); ok {
		return s.X
	}
	return v
}

// c18ValidateChainWindow decides the NotAfter window of ValidateChain (used by C18.R1 and C02.R1).
func c18ValidateChainWindow(r *Run, fn *ssa.Function, name string) {
	fS, fL := c18WindowFields(r)
	if fS != "notAfterStart" || fL != "notAfterLimit" {
		r.Pass(name+":window-bounds-by-role", r.FnPos(fn), "CertValidationOpts has no fields notAfterStart / notAfterLimit; its *time.Time fields are taken in the roles ValidateChain gives them: start = p1."+fS+", limit = p1."+fL)
	}
	c18WindowTable(r, fn, name, fS, fL)
}

// c18WindowFields names the two optional bounds of the admission window in CertValidationOpts: the fields
// notAfterStart / notAfterLimit, or — when the struct has no fields of these names — its two *time.Time
// fields in the roles that ValidateChain gives them: the start is the field under which the window table of
// the property holds as the lower bound (t < start rejects), the limit the other one. Every rule that follows
// a bound from the configuration to the comparison (C18.R4, C15.R5) uses the field that plays that role.
var c18FieldsMemo = map[*Prog][2]string{}

func c18WindowFields(r *Run) (start, limit string) {
	if m, ok := c18FieldsMemo[r.P]; ok {
		return m[0], m[1]
	}
	start, limit = "notAfterStart", "notAfterLimit"
	defer func() { c18FieldsMemo[r.P] = [2]string{start, limit} }()
	const opts = "trillian/ctfe.CertValidationOpts"
	if r.P.LookupField(opts+"."+start) != nil && r.P.LookupField(opts+"."+limit) != nil {
		return
	}
	var cand []string
	if n := r.P.LookupType(opts); n != nil {
		if st, ok := n.Underlying().(*types.Struct); ok {
			for i := 0; i < st.NumFields(); i++ {
				if TypeName(st.Field(i).Type()) == "*time.Time" {
					cand = append(cand, st.Field(i).Name())
				}
			}
		}
	}
	fn := r.P.Func("trillian/ctfe.ValidateChain")
	if len(cand) != 2 || fn == nil || len(fn.Blocks) == 0 {
		return
	}
	start, limit = cand[0], cand[1]
	for _, try := range [][2]string{{cand[0], cand[1]}, {cand[1], cand[0]}} {
		if r.Trial(func() { c18WindowTable(r, fn, "ValidateChain", try[0], try[1]) }) {
			start, limit = try[0], try[1]
			break
		}
	}
	return
}

func c18WindowTable(r *Run, fn *ssa.Function, name, fS, fL string) {
	verify := r.OneCall(fn, name+":Verify", "(*x509.Certificate).Verify")
	if verify == nil {
		return
	}
	pS, pL := "nil?p1."+fS, "nil?p1."+fL
	var base map[*ssa.Return]bool
	rejects := map[*ssa.Return]bool{}
	stop := map[*ssa.BasicBlock]bool{verify.Block(): true}
	retsOf := func(reach *Reach, entry *ssa.BasicBlock) map[*ssa.Return]bool {
		out := map[*ssa.Return]bool{}
		blocks := pathReach(reach, entry, stop)
		for _, ret := range Returns(fn) {
			if blocks[ret.Block()] && ret.Block() != verify.Block() {
				out[ret] = true
			}
		}
		return out
	}
	r.CheckWindow(Window{Name: name, Fn: fn, T: "*[0].NotAfter", S: "*p1." + fS, L: "*p1." + fL, PresS: pS, PresL: pL,
		Outcome: func(val map[string]string, reach *Reach, entry *ssa.BasicBlock) (bool, bool, string) {
			if base == nil { // the returns that may execute when no window is configured
				s := Sigma{}
				for _, k := range append(r.bindAtom(fn, RuleAtom{Pat: pS}), r.bindAtom(fn, RuleAtom{Pat: pL})...) {
					s[k] = "nil"
				}
				base = retsOf(r.D.Walk(fn, s, entry, nil), entry)
				r.Valuations++
			}
			out := false
			for ret := range retsOf(reach, entry) {
				if !base[ret] {
					out = true
					rejects[ret] = true
				}
			}
			return reach.Has(verify), out, "(inside = chain verification reachable; outside = a return that does not exist without a window is reachable)"
		}})
	for ret := range rejects {
		ok, why := wantErr(true)(r, ret)
		r.Check(name+":window-reject-is-error", ok, r.Where(ret), "a NotAfter outside the window ends in (nil, error) "+why)
	}
	r.Check(name+":window-rejects", len(rejects) >= 1, r.FnPos(fn), fmt.Sprintf("%d rejecting returns belong to the window", len(rejects)))
	// the instant compared is the NotAfter of the submitted leaf: element 0 of the parsed chain
	if ce := r.OneCall(fn, name+":chainsEquivalent", "trillian/ctfe.chainsEquivalent"); ce != nil {
		chain := r.D.D(CallArgs(ce)[0])
		for _, b := range []string{"*p1." + fS, "*p1." + fL} {
			atoms := r.D.AtomsOf(fn)
			for _, k := range r.bindAtom(fn, RuleAtom{OrdA: "*[0].NotAfter", OrdB: b}) {
				t := atoms[k].A
				if glob(b, t) {
					t = atoms[k].B
				}
				r.Check(name+":window-instant=leaf.NotAfter", t == chain+"[0].NotAfter", r.FnPos(fn), "compares "+clipStr(t, 160)+" (element 0 of the parsed chain)")
			}
		}
	}
}

// c18ShardBounds tells how shardInterval receives the two timestamps of a shard, as callee-side terms:
// as fields of its shard parameter (p0.NotAfterStart, p0.NotAfterLimit) or, when it takes two timestamp
// parameters instead, as these parameters — then every caller must pass the NotAfterStart and the
// NotAfterLimit of one and the same shard in these positions (recorded as an obligation).
func c18ShardBounds(r *Run, fn *ssa.Function) map[string]string {
	out := map[string]string{"NotAfterStart": "p0.NotAfterStart", "NotAfterLimit": "p0.NotAfterLimit"}
	var ts []int
	for i, p := range fn.Params {
		if strings.HasSuffix(TypeName(p.Type()), "timestamppb.Timestamp") {
			ts = append(ts, i)
		}
	}
	if len(ts) != 2 {
		return out
	}
	split := func(term string) (base, field string) {
		for _, f := range []string{"NotAfterStart", "NotAfterLimit"} {
			if strings.HasSuffix(term, "."+f) {
				return strings.TrimSuffix(term, "."+f), f
			}
			if g := "(*client/configpb.LogShardConfig).Get" + f + "("; strings.HasPrefix(term, g) && strings.HasSuffix(term, ")") {
				return term[len(g) : len(term)-1], f
			}
		}
		return term, ""
	}
	role := map[int]string{}
	ok, detail, n := true, "", 0
	callers := r.CallersOf("client.shardInterval")
	for _, g := range keysOf(callers) {
		for _, c := range callers[g] {
			n++
			bases := map[string]bool{}
			for _, i := range ts {
				base, f := split(r.D.D(CallArgs(c)[i]))
				if f == "" || role[i] != "" && role[i] != f {
					ok, detail = false, "argument "+r.D.D(CallArgs(c)[i])+" at "+r.Where(c)
				}
				role[i] = f
				bases[base] = true
			}
			if len(bases) != 1 {
				ok, detail = false, "the two timestamps passed at "+r.Where(c)+" belong to different shards"
			}
		}
	}
	ok = ok && n > 0 && role[ts[0]] != role[ts[1]]
	r.Check("shardInterval:callers-pass-one-shard's-bounds", ok, r.FnPos(fn), fmt.Sprintf("shardInterval takes the timestamps as parameters p%d, p%d; all %d callers pass NotAfterStart / NotAfterLimit of one shard in fixed positions %s", ts[0], ts[1], n, detail))
	if ok {
		for _, i := range ts {
			out[role[i]] = fmt.Sprintf("p%d", i)
		}
	}
	return out
}

func c18NewTemporalLogClient(r *Run, fn *ssa.Function) {
	key := "NewTemporalLogClient"
	// shardInterval(Shard[i]) — or, where it takes the two timestamps, shardInterval(Shard[i].NotAfterStart, Shard[i].NotAfterLimit):
	// that both stem from Shard[i] is the obligation shardInterval:callers-pass-one-shard's-bounds
	ovr := r.allocOf(fn, "client.shardInterval(p0.Shard[0]*)#0")
	cur := r.allocOf(fn, "client.shardInterval(p0.Shard[it@*]*)#0")
	if ovr == "" && cur != "" && c18FoldedShardLoop(r, fn, key) {
		return
	}
	// the previous shard's interval read back from the list of intervals under construction (rules_t6c1518.go)
	if ovr == "" && c18NeighbourPairs(r, fn, key) {
		return
	}
	if !r.Check(key+":overall/next", ovr != "" && cur != "" && ovr != cur, r.FnPos(fn), "overall span starts as shardInterval(Shard[0]) in "+ovr+"; each later shard is shardInterval(Shard[i]) in "+cur) {
		return
	}
	r.ErrorsGate(fn, key+":invalid-shard", "client.shardInterval", 2)
	r.FailEdge(fn, key, EdgeSpec{Name: "empty-config", Atom: ordAtomR("0", "len((*client/configpb.TemporalLogConfig).GetShard(*))"), Bad: "=", Want: wantErr(true)})
	var ext []ssa.Instruction // the append of a later shard and the extension of the overall span
	for _, st := range r.StoresTo(fn, "&("+ovr+".upper)") {
		r.Check(key+":span-extended-by-new-upper", r.D.D(st.Val) == cur+".upper", r.Where(st), "overall.upper ← "+r.D.D(st.Val))
		ext = append(ext, st)
	}
	r.Check(key+":span-extended", len(ext) == 1, r.FnPos(fn), fmt.Sprintf("%d stores to overall.upper", len(ext)))
	// the index of the later shard
	shardIdx := ""
	for _, c := range CallsTo(fn, "client.shardInterval") {
		if i := indexOfElem(CallArgs(c)[0]); i != nil && glob("it@*", r.D.D(i)) {
			shardIdx = r.D.D(i)
		}
	}
	// the result: intervals = [overall as it was for shard 0, then every later shard's interval], Clients = [client of shard i],
	// built by appends in this order or by index assignment at the shard's index into slices of len(Shard)
	succ := successReturns(fn)
	isVal := func(v ssa.Value, alloc string) bool { d := r.D.D(v); return d == alloc || d == "*"+alloc }
	shardLen := func(makes []*ssa.MakeSlice) bool {
		return len(makes) == 1 && anyGlob("len(p0.Shard) || len((*client/configpb.TemporalLogConfig).GetShard(p0))", r.D.D(makes[0].Len))
	}
	for _, ret := range succ {
		a := baseAlloc(ret.(*ssa.Return).Results[0])
		if a == nil {
			r.Fail(key+":result", r.Where(ret), "undecided: the result is not built in a local allocation")
			continue
		}
		for _, st := range r.storesAt(fn, "&("+r.D.allocName(a)+".intervals)") {
			fills, makes, built := sliceFills(st.Val)
			nFirst, nLater := 0, 0
			good := built
			for _, f := range fills {
				switch {
				case isVal(f.Elem, ovr) && loopHeaderOf(f.In.Block()) == nil:
					nFirst++
					good = good && (f.Index == nil || r.D.D(f.Index) == "0" && shardLen(makes))
				case isVal(f.Elem, cur) && len(ext) > 0 && f.In.Block() == ext[0].Block():
					nLater++
					ext = append(ext, f.In)
					good = good && (f.Index == nil || r.D.D(f.Index) == shardIdx && shardLen(makes))
				default:
					good = false
				}
			}
			r.Check(key+":result.intervals", good && nFirst == 1 && nLater == 1, r.Where(st), fmt.Sprintf("intervals ← %s: %d fills (first shard's interval before the loop: %d, later shard's interval where the span is extended: %d)", clipStr(r.D.D(st.Val), 80), len(fills), nFirst, nLater))
		}
		for _, st := range r.storesAt(fn, "&("+r.D.allocName(a)+".Clients)") {
			fills, makes, built := sliceFills(st.Val)
			good := built && len(fills) == 1
			for _, f := range fills {
				el := r.D.D(f.Elem)
				good = good && glob("client.New(p0.Shard[it@*].Uri, *)#0", el)
				if f.Index != nil {
					good = good && glob("client.New(p0.Shard["+r.D.D(f.Index)+"].Uri, *)#0", el) && shardLen(makes)
				}
			}
			r.Check(key+":result.Clients", good, r.Where(st), fmt.Sprintf("Clients ← %s: %d fills with the client of shard i (at position i)", clipStr(r.D.D(st.Val), 80), len(fills)))
		}
		for _, f := range []string{"intervals", "Clients"} {
			if len(r.storesAt(fn, "&("+r.D.allocName(a)+"."+f+")")) == 0 {
				r.Fail(key+":result."+f, r.Where(ret), "the result's "+f+" are never set")
			}
		}
	}
	for _, e := range []EdgeSpec{
		{Name: "extends-unbounded", Atom: nilAtom(ovr + ".upper"), Bad: "nil"},
		{Name: "no-lower-bound", Atom: nilAtom(cur + ".lower"), Bad: "nil"},
		{Name: "not-contiguous", Atom: ordAtomR("*"+cur+".lower", "*"+ovr+".upper"), Bad: "<,>"},
	} {
		e.Want, e.Unreach = wantErr(true), append(append([]ssa.Instruction{}, ext...), succ...)
		r.FailEdge(fn, key, e)
	}
	// contiguous shards are accepted: the extension is reachable when lower = previous upper
	r.GuardAtom(fn, nil, key+":contiguous-accepted", ordAtomR("*"+cur+".lower", "*"+ovr+".upper"), "<,>", ext, "extension of the span / append of the shard")
	// exactness of the contiguity test
	for _, v := range r.atomSites(fn, wKeySet(r.bindAtom(fn, ordAtomR("*"+cur+".lower", "*"+ovr+".upper")))) {
		c, ok := v.(*ssa.Call)
		r.Check(key+":contiguity-compares-instants", ok && c.Call.StaticCallee() != nil && FuncName(c.Call.StaticCallee()) == "(time.Time).Equal", r.FnPos(fn), "contiguity test is "+r.D.D(v))
	}
	// interval i and client i both stem from shard i: the loop over later shards starts at 1
	for _, c := range CallsTo(fn, "client.shardInterval") {
		if ph, ok := indexOfElem(CallArgs(c)[0]).(*ssa.Phi); ok && isInduction(ph) {
			good := false
			for _, e := range ph.Edges {
				if k, ok := e.(*ssa.Const); ok && constString(k) == "1" {
					good = true
				}
			}
			r.Check(key+":later-shards-from-1", good, r.Where(c), "the loop over later shards starts at index 1")
		}
	}
	for _, c := range CallsTo(fn, "client.New") {
		r.ExpectArg(c, key+":client-of-shard", 0, "p0.Shard[*it@*].Uri")
	}
}

func c18NotAfterForLog(r *Run, fn *ssa.Function) {
	// test-support helper of the integration suite: the NotAfter it picks lies in [start, limit)
	n := 0
	for _, ret := range Returns(fn) {
		if errKind(ret.Results[1]) != "nil" {
			continue
		}
		c, ok := ret.Results[0].(*ssa.Call)
		if !ok || c.Call.StaticCallee() == nil || FuncName(c.Call.StaticCallee()) != "(time.Time).Add" {
			r.Fail("NotAfterForLog:shape", r.Where(ret), "result is not base.Add(delta): "+r.D.D(ret.Results[0]))
			continue
		}
		n++
		base, delta := r.D.D(c.Call.Args[0]), r.D.D(c.Call.Args[1])
		if q, isQ := c.Call.Args[1].(*ssa.BinOp); isQ && q.Op == token.QUO && r.D.D(q.Y) == "2" {
			if sub, isC := q.X.(*ssa.Call); isC && sub.Call.StaticCallee() != nil && FuncName(sub.Call.StaticCallee()) == "(time.Time).Sub" {
				delta = "(" + r.D.D(sub.Call.Args[0]) + " − " + r.D.D(sub.Call.Args[1]) + ")/2"
			}
		}
		ok = false
		switch base {
		case "time.Now()":
			ok = delta == "86400000000000"
		case "(*timestamppb.Timestamp).AsTime(p0.NotAfterStart)":
			ok = delta == "86400000000000" || delta == "((*timestamppb.Timestamp).AsTime(p0.NotAfterLimit) − (*timestamppb.Timestamp).AsTime(p0.NotAfterStart))/2"
		case "(*timestamppb.Timestamp).AsTime(p0.NotAfterLimit)":
			ok = delta == "-3600000000000"
		}
		r.Check("NotAfterForLog:"+base, ok, r.Where(ret), "picks "+base+" + "+delta+" (start + d ≥ start, limit − d < limit, start + (limit−start)/2)")
	}
	r.Floor("NotAfterForLog:cases", n, 4)
}

// c18TemporallyCompatible: the log-list filter's window table (C18.R3) and the
// identity of the kept log (C18.R4); shared with C17.R4 (who is contacted).
func c18TemporallyCompatible(r *Run) {
	if fn := r.Fn("(*loglist3.LogList).TemporallyCompatible"); fn != nil {
		keep := func() []ssa.Instruction { return asInstrs(CallsTo(fn, "append")) }
		logAppends := func() []ssa.Instruction {
			var out []ssa.Instruction
			for _, c := range keep() {
				if glob("*.Logs", r.D.D(CallArgs(c.(ssa.CallInstruction))[0])) {
					out = append(out, c)
				}
			}
			return out
		}
		ti := "p0.Operators[*].Logs[*].TemporalInterval"
		entry := r.CheckWindow(Window{Name: "TemporallyCompatible", Fn: fn, T: "p1.NotAfter", S: ti + ".StartInclusive", L: ti + ".EndExclusive",
			PresS: "nil?" + ti, PresL: "nil?" + ti, Outcome: loopOutcome(logAppends)})
		// (one site suffices against a vacuous table: the valuations above demand a keep site both for a log without
		// interval and for an instant inside the interval, whether these share one statement or not)
		r.Floor("TemporallyCompatible:keep-sites", len(logAppends()), 1)
		r.Rule("C18.R4")
		if entry != nil {
			// the log kept is the log whose interval was tested
			for _, c := range logAppends() {
				el := ""
				if a := baseAlloc(wSliceBase(CallArgs(c.(ssa.CallInstruction))[1])); a != nil {
					for _, st := range r.storesAt(fn, "&("+r.D.allocName(a)+"[0])") {
						el = r.D.D(st.Val)
					}
				}
				ok := glob("p0.Operators[*].Logs[*]", el)
				for _, f := range []string{"StartInclusive", "EndExclusive"} {
					for _, op := range r.boundOperands(fn, "p1.NotAfter", ti+"."+f) {
						ok = ok && op == el+".TemporalInterval."+f
					}
				}
				r.Check("TemporallyCompatible:keeps-tested-log", ok, r.Where(c), "appends "+el+", whose TemporalInterval bounds are the ones compared")
			}
		}
	}
}
