package main

import (
	"encoding/json"
	"fmt"
	"os"
	"sort"
)

func usage() {
	fmt.Fprintln(os.Stderr, "usage: ctverif check <Cxx> [--tier quick|thorough] | dump <func>... | funcs <substr> | explain <report.json>")
	os.Exit(2)
}

func main() {
	if len(os.Args) < 2 {
		usage()
	}
	switch os.Args[1] {
	case "check":
		if len(os.Args) < 3 {
			usage()
		}
		tier := "quick"
		for i, a := range os.Args {
			if a == "--tier" && i+1 < len(os.Args) {
				tier = os.Args[i+1]
			}
		}
		if t := os.Getenv("VERIF_TIER"); t == "quick" || t == "thorough" {
			if tier == "" {
				tier = t
			}
		}
		os.Exit(runCheck(os.Args[2], tier))
	case "checkall":
		// dev: every registered Cxx property against one load of the tree
		tier := "quick"
		for i, a := range os.Args {
			if a == "--tier" && i+1 < len(os.Args) {
				tier = os.Args[i+1]
			}
		}
		var ids []string
		for id := range props {
			if len(id) == 3 && id[0] == 'C' {
				ids = append(ids, id)
			}
		}
		sort.Strings(ids)
		rc := 0
		for _, id := range ids {
			if c := runCheck(id, tier); c > rc {
				rc = c
			}
		}
		os.Exit(rc)
	case "baseline":
		// dev: regenerate the list of functions the rule tables were confirmed against
		os.WriteFile("baseline_funcs.txt", []byte(writeBaseline(repoRoot())), 0o644)
		os.WriteFile("baseline_decls.txt", []byte(writeBaselineDecls(repoRoot())), 0o644)
		os.WriteFile("baseline_files.txt", []byte(writeBaselineFiles(repoRoot())), 0o644)
	case "inline":
		// dev: print the normalised form of the files the inliner rewrites
		env := append(os.Environ(), "GOFLAGS=-mod=mod", "GOPROXY=off", "GOSUMDB=off", "GOTOOLCHAIN=local", "GOWORK=off")
		ov, note := buildInlineOverlay(repoRoot(), env)
		if note != nil {
			fmt.Printf("helpers: %v\ninlined: %v\nskipped: %v\nremoved: %v\nrenamed: %v\nmodelled: %v\nreshaped: %v\n", note.Helpers, note.Inlined, note.Skipped, note.Removed, note.Renamed, note.Modelled, note.Reshaped)
		}
		for f, b := range ov {
			fmt.Printf("==== %s\n%s\n", f, b)
		}
	case "list":
		ids := []string{}
		for id := range props {
			ids = append(ids, id)
		}
		sort.Strings(ids)
		out := map[string]string{}
		for _, id := range ids {
			out[id] = props[id].Explanation
		}
		b, _ := json.MarshalIndent(out, "", " ")
		fmt.Println(string(b))
	case "dump":
		p, err := Load(repoRoot())
		if err != nil {
			fmt.Fprintln(os.Stderr, err)
			os.Exit(2)
		}
		for _, n := range os.Args[2:] {
			fn := p.Func(n)
			if fn == nil {
				fmt.Printf("no function %q\n", n)
				continue
			}
			Dump(p, fn)
		}
	case "funcs":
		p, err := Load(repoRoot())
		if err != nil {
			fmt.Fprintln(os.Stderr, err)
			os.Exit(2)
		}
		for _, fn := range p.ModFuncs {
			n := FuncName(fn)
			if len(os.Args) < 3 || contains(n, os.Args[2]) {
				fmt.Println(n, p.Pos(fn.Pos()))
			}
		}
	default:
		usage()
	}
}

func contains(s, sub string) bool {
	for i := 0; i+len(sub) <= len(s); i++ {
		if s[i:i+len(sub)] == sub {
			return true
		}
	}
	return false
}
