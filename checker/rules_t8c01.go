package main

import (
	"fmt"
	"go/constant"
	"go/token"
	"go/types"
	"sort"
	"strings"

	"golang.org/x/tools/go/ssa"
)

// Round 8, C01.R5 / C01.R6 restated on the facts they establish.
//
// C01.R5, form of the extra data.  buildLogLeaf receives a chain and a chain hash and hands back either the
// chain structure (ExtraDataForChain) or the hash structure (ExtraDataForChainHash).  What the property needs:
//
//	no chain hash            ⇒ the leaf carries the chain it was given — whether that chain is nil or not
//	                            (a certificate without issuers is the EMPTY chain, 0x000000, in either spelling;
//	                            the readers decode a CertificateChain / PrecertChainEntry there);
//	a chain hash, no chain   ⇒ the leaf refers to the chain by that hash;
//	both                     ⇒ either (the property does not say which wins).
//
// The rule decides this as a table over (chain nil?, hash nil?) — restricted to the combinations the callers
// of buildLogLeaf can produce (an input bound to the constant nil at every call of a constructor is nil; an
// input that receives a parameter of an exported constructor is free) — by walking buildLogLeaf with both
// atoms fixed, however the selection is spelled (one test, a disjunction, a switch, a length test).
//
// C01.R6, the whole validated path is handed on.  The chain service gives util.BuildLogLeaf
//
//	cert  = ct.ASN1Cert{Data: chain[0].Raw}
//	chain = a list L with len(L) = len(chain) − 1 and L[k] = ct.ASN1Cert{Data: chain[k+1].Raw} for every k
//
// decided on "list images": a value of a slice type is the IMAGE of a view base[off:] of a certificate list
// under an element form (written over ε = the source element, here {Data: ε.Raw}) when it has len(base) − off
// elements and element k is that form of base[off+k].  Images are recognised by what builds them —
//
//	make(len) + one indexed store per round of a counting loop,
//	append of exactly one element in every round of a counting loop to a list that starts empty,
//	a module function whose every return is an image of one of its parameters (summary, any depth),
//	s[c:] of an image (and images of views chain[c:] of the source)
//
// — with the arithmetic done on the loop's own counter (start value, what the head tests, which index is read
// and which is written, as affine forms), so that `for _, c := range chain[1:]`, `for i := 1; i < len(chain); i++`,
// a conversion of the whole chain resliced afterwards and a helper doing any of these are one and the same
// fact.  Undecided (fails): a round that can end without its element, an early exit from the loop, a list that
// does not start empty, a list handed to other code or stored to before it is used, an element built elsewhere.

// ---------------------------------------------------------------------------------------------------------
// C01.R5: form of the extra data
// ---------------------------------------------------------------------------------------------------------

// c01ExtraForm decides the table for one store of the ExtraData field of the leaf buildLogLeaf returns.
// chain / hash: the inputs of fn (as its own origin terms name them) that receive the chain and the chain hash.
func c01ExtraForm(r *Run, fn *ssa.Function, st *ssa.Store, chain, hash, forChain, forHash string) {
	type combo struct{ chain, hash string }
	producers := map[combo][]string{}
	callers := r.CallersOf(FuncName(fn))
	if len(callers) == 0 {
		r.Fail("buildLogLeaf:extra", r.FnPos(fn), "undecided: no caller of "+FuncName(fn)+" found")
		return
	}
	dom := func(term string) []string {
		if term == "nil" {
			return []string{"nil"}
		}
		return []string{"nil", "non"}
	}
	for _, g := range keysOf(callers) {
		for _, c := range callers[g] {
			b := r.bindCall(c)
			ct, okc := b.slots[chain]
			ht, okh := b.slots[hash]
			if b.err != "" || !okc || !okh {
				why := b.err
				if why == "" {
					why = fmt.Sprintf("the call does not bind %s / %s", chain, hash)
				}
				r.Fail("buildLogLeaf:extra@"+g, r.Where(c), "undecided: what "+g+" hands to "+FuncName(fn)+" cannot be told: "+why)
				return
			}
			for _, cv := range dom(ct) {
				for _, hv := range dom(ht) {
					k := combo{cv, hv}
					producers[k] = append(producers[k], g)
				}
			}
		}
	}
	name := func(k combo) string {
		s := "no-hash"
		if k.hash == "non" {
			s = "hash"
		}
		if k.chain == "non" {
			return s + ",chain"
		}
		return s + ",no-chain"
	}
	var ks []combo
	for k := range producers {
		ks = append(ks, k)
	}
	sort.Slice(ks, func(i, j int) bool { return name(ks[i]) < name(ks[j]) })
	atoms := r.D.AtomsOf(fn)
	withHash, without := 0, 0
	for _, k := range ks {
		s := Sigma{"nil?" + chain: k.chain, "nil?" + hash: k.hash}
		// a nil slice has no elements: a length test of a nil input is decided too
		for slot, v := range map[string]string{chain: k.chain, hash: k.hash} {
			if v != "nil" {
				continue
			}
			for key := range atoms {
				if key == "ord(0, len("+slot+"))" {
					s[key] = "="
				}
			}
		}
		got := r.ValueUnder(fn, st.Val, s)
		var ok bool
		var want string
		switch {
		case k.hash == "nil":
			without++
			ok, want = got == forChain, "the chain structure (for a nil chain: the empty chain), "+forChain
		case k.chain == "nil":
			withHash++
			ok, want = got == forHash, "the hash structure, "+forHash
		default:
			ok, want = got == forChain || got == forHash, "the chain structure or the hash structure"
		}
		r.Check("buildLogLeaf:extra["+name(k)+"]", ok, r.Where(st),
			fmt.Sprintf("chain %s, chainHash %s (as handed over by %s) ⇒ ExtraData ← %s; expected %s", nilWord(k.chain), nilWord(k.hash), strings.Join(c01Uniq(producers[k]), ", "), got, want))
	}
	r.Check("buildLogLeaf:extra:both-forms-needed", withHash > 0 && without > 0, r.Where(st),
		fmt.Sprintf("the callers of %s produce %d input combination(s) with a chain hash and %d without", FuncName(fn), withHash, without))
}

func nilWord(v string) string {
	if v == "nil" {
		return "== nil"
	}
	return "!= nil"
}

func c01Uniq(in []string) []string {
	seen := map[string]bool{}
	var out []string
	for _, s := range in {
		if !seen[s] {
			seen[s] = true
			out = append(out, s)
		}
	}
	sort.Strings(out)
	return out
}

// ---------------------------------------------------------------------------------------------------------
// C01.R6: list images
// ---------------------------------------------------------------------------------------------------------

// c01Img: the list has len(base) − off elements and element k is `form` of base[off+k].
type c01Img struct {
	base ssa.Value
	off  int64
	form string
}

type c01Lists struct {
	r     *Run
	sums  map[*ssa.Function]*c01Sum
	depth int
}

// c01Sum: every return of the function hands back, as result `res`, an image of its parameter `param`.
type c01Sum struct {
	param int
	off   int64
	form  string
	why   string // != "": not an image
	busy  bool
}

func newC01Lists(r *Run) *c01Lists { return &c01Lists{r: r, sums: map[*ssa.Function]*c01Sum{}} }

// affine: v = φ + c for an integer φ (nil: v = c).
func c01Affine(v ssa.Value) (*ssa.Phi, int64, bool) {
	for i := 0; i < 16; i++ {
		switch x := v.(type) {
		case *ssa.Const:
			if x.Value == nil {
				return nil, 0, isNumeric(x.Type())
			}
			if c, ok := c01ConstInt(x); ok {
				return nil, c, true
			}
			return nil, 0, false
		case *ssa.Phi:
			return x, 0, true
		case *ssa.Convert:
			if isNumeric(x.Type()) && isNumeric(x.X.Type()) {
				v = x.X
				continue
			}
			return nil, 0, false
		case *ssa.ChangeType:
			v = x.X
			continue
		case *ssa.BinOp:
			if x.Op != token.ADD && x.Op != token.SUB {
				return nil, 0, false
			}
			if c, ok := constIntV(x.Y); ok {
				p, d, ok2 := c01Affine(x.X)
				if !ok2 {
					return nil, 0, false
				}
				if x.Op == token.SUB {
					c = -c
				}
				return p, d + c, true
			}
			if c, ok := constIntV(x.X); ok && x.Op == token.ADD {
				p, d, ok2 := c01Affine(x.Y)
				if !ok2 {
					return nil, 0, false
				}
				return p, d + c, true
			}
			return nil, 0, false
		default:
			return nil, 0, false
		}
	}
	return nil, 0, false
}

func c01ConstInt(c *ssa.Const) (int64, bool) {
	if c.Value == nil || c.Value.Kind() != constant.Int {
		return 0, false
	}
	return constant.Int64Val(c.Value)
}

func constIntV(v ssa.Value) (int64, bool) {
	if c, ok := v.(*ssa.Const); ok {
		return c01ConstInt(c)
	}
	return 0, false
}

// c01LenOf: v = len(s) + c.
func c01LenOf(v ssa.Value) (ssa.Value, int64, bool) {
	switch x := v.(type) {
	case *ssa.Call:
		if b, ok := x.Call.Value.(*ssa.Builtin); ok && b.Name() == "len" && len(x.Call.Args) == 1 {
			return x.Call.Args[0], 0, true
		}
	case *ssa.Convert:
		if isNumeric(x.Type()) && isNumeric(x.X.Type()) {
			return c01LenOf(x.X)
		}
	case *ssa.BinOp:
		if x.Op == token.ADD || x.Op == token.SUB {
			if c, ok := constIntV(x.Y); ok {
				s, d, ok2 := c01LenOf(x.X)
				if x.Op == token.SUB {
					c = -c
				}
				return s, d + c, ok2
			}
			if c, ok := constIntV(x.X); ok && x.Op == token.ADD {
				s, d, ok2 := c01LenOf(x.Y)
				return s, d + c, ok2
			}
		}
	}
	return nil, 0, false
}

// c01View resolves views of a list: v = base[lo:].
func c01View(v ssa.Value) (ssa.Value, int64) {
	var lo int64
	for i := 0; i < 8; i++ {
		switch x := v.(type) {
		case *ssa.Slice:
			if x.Max != nil {
				return v, lo
			}
			if x.High != nil {
				if s, c, ok := c01LenOf(x.High); !ok || s != x.X || c != 0 {
					return v, lo
				}
			}
			var c int64
			if x.Low != nil {
				var ok bool
				if c, ok = constIntV(x.Low); !ok || c < 0 {
					return v, lo
				}
			}
			if _, isSlice := x.X.Type().Underlying().(*types.Slice); !isSlice {
				return v, lo
			}
			lo += c
			v = x.X
		case *ssa.ChangeType:
			v = x.X
		default:
			return v, lo
		}
	}
	return v, lo
}

// c01Loop: a counting loop.  In round n (n = 0, 1, …) the counter φ holds init + n; the head lets round n
// run while φ + test < len(bound) + extra; the head is the only way out.
type c01Loop struct {
	head  *ssa.BasicBlock
	in    map[*ssa.BasicBlock]bool
	ctr   *ssa.Phi
	init  int64
	test  int64
	bound ssa.Value
	extra int64
}

func c01LoopAt(H *ssa.BasicBlock) (*c01Loop, string) {
	l := &c01Loop{head: H, in: map[*ssa.BasicBlock]bool{H: true}}
	var work []*ssa.BasicBlock
	for _, p := range H.Preds {
		if H.Dominates(p) {
			work = append(work, p)
		}
	}
	if len(work) == 0 {
		return nil, "the list is not carried round a loop"
	}
	for len(work) > 0 {
		b := work[len(work)-1]
		work = work[:len(work)-1]
		if l.in[b] {
			continue
		}
		l.in[b] = true
		work = append(work, b.Preds...)
	}
	for b := range l.in {
		if b == H {
			continue
		}
		for _, s := range b.Succs {
			if !l.in[s] {
				return nil, "a round can leave the loop early"
			}
		}
		for _, in := range b.Instrs {
			switch in.(type) {
			case *ssa.Return, *ssa.Panic:
				return nil, "a round can leave the loop early"
			}
		}
		if len(b.Succs) == 0 {
			return nil, "a round can leave the loop early"
		}
	}
	ifi, ok := H.Instrs[len(H.Instrs)-1].(*ssa.If)
	if !ok || len(H.Succs) != 2 || !l.in[H.Succs[0]] || l.in[H.Succs[1]] {
		return nil, "the loop head does not decide between one more round and the end"
	}
	cmp, ok := ifi.Cond.(*ssa.BinOp)
	if !ok {
		return nil, "the loop is not bounded by a length"
	}
	x, y := cmp.X, cmp.Y
	switch cmp.Op {
	case token.LSS:
	case token.GTR:
		x, y = y, x
	default:
		return nil, "the loop is not bounded by a length"
	}
	p, d0, ok := c01Affine(x)
	if !ok || p == nil || p.Block() != H {
		return nil, "the loop does not count"
	}
	s, e, ok := c01LenOf(y)
	if !ok {
		return nil, "the loop is not bounded by a length"
	}
	l.ctr, l.test, l.bound, l.extra = p, d0, s, e
	haveInit := false
	for i, ed := range p.Edges {
		q, c, ok := c01Affine(ed)
		if l.in[H.Preds[i]] {
			if !ok || q != p || c != 1 {
				return nil, "the loop counter does not advance by one per round"
			}
			continue
		}
		if !ok || q != nil || (haveInit && c != l.init) {
			return nil, "the loop counter does not start at a constant"
		}
		l.init, haveInit = c, true
	}
	if !haveInit {
		return nil, "the loop counter does not start at a constant"
	}
	return l, ""
}

// c01Precedes: a executes before b in every execution that reaches b (same round, for instructions of a loop body).
func c01Precedes(a, b ssa.Instruction) bool {
	if a.Block() == b.Block() {
		return instrIdx(a) < instrIdx(b)
	}
	return a.Block().Dominates(b.Block())
}

// c01SrcPath: v is read out of one element of a list: v = X[i]<path>.
func c01SrcPath(v ssa.Value) (*ssa.IndexAddr, string, bool) {
	for i := 0; i < 4; i++ {
		switch x := v.(type) {
		case *ssa.ChangeType:
			v = x.X
			continue
		case *ssa.UnOp:
			if x.Op != token.MUL {
				return nil, "", false
			}
			return c01AddrPath(x.X, 0)
		}
		break
	}
	return nil, "", false
}

func c01AddrPath(a ssa.Value, depth int) (*ssa.IndexAddr, string, bool) {
	if depth > 6 {
		return nil, "", false
	}
	switch x := a.(type) {
	case *ssa.IndexAddr:
		if _, isSlice := x.X.Type().Underlying().(*types.Slice); !isSlice {
			return nil, "", false
		}
		return x, "", true
	case *ssa.FieldAddr:
		st, ok := x.X.Type().Underlying().(*types.Pointer).Elem().Underlying().(*types.Struct)
		if !ok {
			return nil, "", false
		}
		name := "." + st.Field(x.Field).Name()
		if ia, p, ok := c01AddrPath(x.X, depth+1); ok {
			return ia, p + name, true
		}
		if ld, ok := x.X.(*ssa.UnOp); ok && ld.Op == token.MUL {
			if ia, p, ok := c01AddrPath(ld.X, depth+1); ok {
				return ia, p + name, true
			}
		}
	}
	return nil, "", false
}

// c01ElemOf: the struct value v is a composite built field by field from one element of a list; the form is
// written over ε = that element ("{Data: ε.Raw}").  stores: the instructions that build it.
func c01ElemOf(v ssa.Value) (src *ssa.IndexAddr, form string, stores []ssa.Instruction, why string) {
	ld, ok := v.(*ssa.UnOp)
	if !ok || ld.Op != token.MUL {
		return nil, "", nil, "the element is not a value built on the spot"
	}
	E, ok := ld.X.(*ssa.Alloc)
	if !ok {
		return nil, "", nil, "the element is not a value built on the spot"
	}
	st, ok := E.Type().(*types.Pointer).Elem().Underlying().(*types.Struct)
	if !ok {
		return nil, "", nil, "the element is not a struct"
	}
	fields := map[int]string{}
	for _, ref := range *E.Referrers() {
		switch x := ref.(type) {
		case *ssa.DebugRef:
		case *ssa.UnOp:
			if x.Op != token.MUL {
				return nil, "", nil, "the element is used in an unexpected way"
			}
		case *ssa.FieldAddr:
			n := 0
			for _, r2 := range *x.Referrers() {
				switch y := r2.(type) {
				case *ssa.DebugRef:
				case *ssa.UnOp:
					if y.Op != token.MUL {
						return nil, "", nil, "a field of the element is used in an unexpected way"
					}
				case *ssa.Store:
					if y.Addr != ssa.Value(x) {
						return nil, "", nil, "the address of a field of the element is stored"
					}
					n++
					ia, path, ok := c01SrcPath(y.Val)
					if !ok {
						return nil, "", nil, "field " + st.Field(x.Field).Name() + " of the element is not read from an element of a list"
					}
					if src != nil && !(src.X == ia.X && sameIndex(src.Index, ia.Index)) {
						return nil, "", nil, "the fields of the element come from different source elements"
					}
					if src == nil {
						src = ia
					}
					if _, dup := fields[x.Field]; dup {
						return nil, "", nil, "field " + st.Field(x.Field).Name() + " of the element is written twice"
					}
					fields[x.Field] = "ε" + path
					stores = append(stores, y)
				default:
					return nil, "", nil, "a field of the element is used in an unexpected way"
				}
			}
			_ = n
		default:
			return nil, "", nil, "the element is used in an unexpected way"
		}
	}
	if src == nil {
		return nil, "", nil, "the element is not made from an element of a list"
	}
	var parts []string
	for i := 0; i < st.NumFields(); i++ {
		if t, ok := fields[i]; ok {
			parts = append(parts, st.Field(i).Name()+": "+t)
		}
	}
	return src, "{" + strings.Join(parts, ", ") + "}", stores, ""
}

func sameIndex(a, b ssa.Value) bool {
	if a == b {
		return true
	}
	p, c, ok := c01Affine(a)
	q, d, ok2 := c01Affine(b)
	return ok && ok2 && p == q && c == d
}

// readOnly: from its definition on, the list `root` (and every view of it) is only read — apart from the
// instructions in allowed (its fill, its consumers).  "" when so, else what happens to it.
func (a *c01Lists) readOnly(root ssa.Value, allowed map[ssa.Instruction]bool) string {
	seen := map[ssa.Value]bool{}
	var visit func(v ssa.Value) string
	visit = func(v ssa.Value) string {
		if seen[v] {
			return ""
		}
		seen[v] = true
		refs := v.Referrers()
		if refs == nil {
			return ""
		}
		for _, ref := range *refs {
			if allowed[ref] {
				continue
			}
			switch x := ref.(type) {
			case *ssa.DebugRef, *ssa.Return:
			case *ssa.IndexAddr:
				if x.X != v {
					break
				}
				for _, r2 := range *x.Referrers() {
					if allowed[r2] {
						continue
					}
					switch y := r2.(type) {
					case *ssa.DebugRef:
					case *ssa.UnOp:
						if y.Op != token.MUL {
							return "an element has its address used at " + a.r.Where(y)
						}
					case *ssa.FieldAddr:
						// reading a field of an element
						for _, r3 := range *y.Referrers() {
							if u, ok := r3.(*ssa.UnOp); ok && u.Op == token.MUL {
								continue
							}
							if _, ok := r3.(*ssa.DebugRef); ok {
								continue
							}
							return "a field of an element is written or handed on at " + a.r.Where(r3)
						}
					default:
						return "an element is written or handed on at " + a.r.Where(r2)
					}
				}
			case *ssa.Slice:
				if why := visit(x); why != "" {
					return why
				}
			case *ssa.ChangeType:
				if why := visit(x); why != "" {
					return why
				}
			case *ssa.Call:
				if b, ok := x.Call.Value.(*ssa.Builtin); ok && (b.Name() == "len" || b.Name() == "cap") {
					continue
				}
				return "the list is handed to " + CalleeOf(x) + " at " + a.r.Where(x)
			case *ssa.BinOp:
				if x.Op != token.EQL && x.Op != token.NEQ {
					return "the list is used at " + a.r.Where(x)
				}
			default:
				return "the list is used at " + a.r.Where(ref)
			}
		}
		return ""
	}
	return visit(root)
}

// imageOf: v, as the instruction `at` sees it, is a list image.  allowed: the consumers of the list.
func (a *c01Lists) imageOf(v ssa.Value, at ssa.Instruction, allowed map[ssa.Instruction]bool) (c01Img, string) {
	a.depth++
	defer func() { a.depth-- }()
	if a.depth > 12 {
		return c01Img{}, "undecided: the list is built too deep"
	}
	switch x := v.(type) {
	case *ssa.ChangeType:
		return a.imageOf(x.X, x, allowed)
	case *ssa.Slice:
		inner, lo := c01View(x)
		if inner == ssa.Value(x) {
			return c01Img{}, "the list is cut to " + a.r.D.D(x) + " (only a view s[c:] of a whole list is understood)"
		}
		// the innermost slice instruction is where the underlying list is read
		first := x
		for {
			nx, ok := first.X.(*ssa.Slice)
			if !ok || ssa.Value(nx) == inner {
				break
			}
			first = nx
		}
		img, why := a.imageOf(inner, first, allowed)
		if why != "" {
			return img, why
		}
		img.off += lo
		return img, ""
	case *ssa.Extract:
		if c, ok := x.Tuple.(*ssa.Call); ok {
			return a.viaCall(c, x.Index, x, allowed)
		}
	case *ssa.Call:
		return a.viaCall(x, 0, x, allowed)
	case *ssa.Phi:
		return a.appended(x, at, allowed)
	case *ssa.MakeSlice:
		return a.filled(x, at, allowed)
	case *ssa.Const:
		if x.IsNil() {
			return c01Img{}, "the list is nil"
		}
	}
	return c01Img{}, "undecided: cannot tell how " + a.r.D.D(v) + " is built"
}

// viaCall: the list is result `res` of a call of a module function that returns an image of one of its parameters.
func (a *c01Lists) viaCall(c *ssa.Call, res int, val ssa.Value, allowed map[ssa.Instruction]bool) (c01Img, string) {
	g := c.Call.StaticCallee()
	if g == nil || len(g.Blocks) == 0 || c.Call.IsInvoke() {
		return c01Img{}, "undecided: the list comes from " + CalleeOf(c) + ", whose body is not known"
	}
	s := a.summary(g, res)
	if s.why != "" {
		return c01Img{}, FuncName(g) + ": " + s.why
	}
	if s.param >= len(c.Call.Args) {
		return c01Img{}, "undecided: argument " + fmt.Sprint(s.param) + " of " + FuncName(g) + " not found"
	}
	if why := a.readOnly(val, allowed); why != "" {
		return c01Img{}, "what " + FuncName(g) + " returned is not handed on as it is: " + why
	}
	base, lo := c01View(c.Call.Args[s.param])
	return c01Img{base: base, off: lo + s.off, form: s.form}, ""
}

func (a *c01Lists) summary(g *ssa.Function, res int) *c01Sum {
	if s, ok := a.sums[g]; ok {
		if s.busy {
			return &c01Sum{why: "undecided: recursive"}
		}
		return s
	}
	s := &c01Sum{busy: true, param: -1}
	a.sums[g] = s
	rets := Returns(g)
	if len(rets) == 0 {
		s.why = "no return"
	}
	retSet := map[ssa.Instruction]bool{}
	for _, ret := range rets {
		retSet[ret] = true
	}
	for i, ret := range rets {
		if res >= len(ret.Results) {
			s.why = "undecided: result not found"
			break
		}
		img, why := a.imageOf(ret.Results[res], ret, retSet)
		if why != "" {
			s.why = why
			break
		}
		pi := -1
		for j, p := range g.Params {
			if ssa.Value(p) == img.base {
				pi = j
			}
		}
		if pi < 0 {
			s.why = "the list returned is made from " + a.r.D.D(img.base) + ", not from a parameter"
			break
		}
		if i > 0 && (pi != s.param || img.off != s.off || img.form != s.form) {
			s.why = "the returns hand back different lists"
			break
		}
		s.param, s.off, s.form = pi, img.off, img.form
	}
	s.busy = false
	return s
}

// elemAt resolves the element built in a round of loop l: which element of which base it is made from, as
// base[srcOff + n] in round n.
func (a *c01Lists) elemAt(l *c01Loop, val ssa.Value) (base ssa.Value, srcOff int64, form string, stores []ssa.Instruction, why string) {
	src, form, stores, why := c01ElemOf(val)
	if why != "" {
		return nil, 0, "", nil, why
	}
	p, d, ok := c01Affine(src.Index)
	if !ok || p != l.ctr {
		return nil, 0, "", nil, "the element is not read at the loop's counter (" + a.r.D.D(src.Index) + ")"
	}
	for _, st := range stores {
		if !l.in[st.Block()] {
			return nil, 0, "", nil, "the element is not built in the round that uses it"
		}
	}
	if !l.in[src.Block()] {
		return nil, 0, "", nil, "the element is not read in the round that uses it"
	}
	b, ulo := c01View(src.X)
	return b, ulo + l.init + d, form, stores, ""
}

// rounds: the loop runs len(base) − cut rounds.
func (a *c01Lists) rounds(l *c01Loop, base ssa.Value) (int64, string) {
	tb, tlo := c01View(l.bound)
	if tb != base {
		return 0, "the loop is bounded by the length of " + a.r.D.D(l.bound) + ", the elements are read from " + a.r.D.D(base)
	}
	// rounds n with init + n + test < len(base) − tlo + extra
	return tlo - l.extra + l.init + l.test, ""
}

// appended: φ at a loop head — a list that starts empty and receives exactly one element in every round.
func (a *c01Lists) appended(ph *ssa.Phi, at ssa.Instruction, allowed map[ssa.Instruction]bool) (c01Img, string) {
	l, why := c01LoopAt(ph.Block())
	if why != "" {
		return c01Img{}, why
	}
	if at != nil && l.in[at.Block()] {
		return c01Img{}, "the list is used before the loop that fills it has ended"
	}
	var app *ssa.Call
	for i, e := range ph.Edges {
		pred := ph.Block().Preds[i]
		if !l.in[pred] {
			switch x := e.(type) {
			case *ssa.Const:
				if !x.IsNil() {
					return c01Img{}, "the list does not start empty"
				}
			case *ssa.MakeSlice:
				if !isConstInt(x.Len, 0) {
					return c01Img{}, "the list does not start empty"
				}
				if why := a.readOnly(x, map[ssa.Instruction]bool{ph: true}); why != "" {
					return c01Img{}, "the list does not start empty: " + why
				}
			default:
				return c01Img{}, "the list does not start empty"
			}
			continue
		}
		c, ok := e.(*ssa.Call)
		if !ok {
			return c01Img{}, "a round can end without appending its element"
		}
		if b, isB := c.Call.Value.(*ssa.Builtin); !isB || b.Name() != "append" || len(c.Call.Args) != 2 {
			return c01Img{}, "a round does not append to the list"
		}
		if c.Call.Args[0] != ssa.Value(ph) {
			return c01Img{}, "a round does not append exactly one element to the list so far"
		}
		if app != nil && app != c {
			return c01Img{}, "two appends in one round"
		}
		app = c
		if !(c.Block() == pred || c.Block().Dominates(pred)) {
			return c01Img{}, "a round can end without appending its element"
		}
	}
	if app == nil {
		return c01Img{}, "no element is appended in the loop"
	}
	sl, ok := app.Call.Args[1].(*ssa.Slice)
	if !ok || sl.Low != nil || sl.High != nil {
		return c01Img{}, "more than one element may be appended in a round"
	}
	arr, ok := sl.X.(*ssa.Alloc)
	if !ok {
		return c01Img{}, "more than one element may be appended in a round"
	}
	if arrT, ok := arr.Type().(*types.Pointer).Elem().Underlying().(*types.Array); !ok || arrT.Len() != 1 {
		return c01Img{}, "not exactly one element is appended in a round"
	}
	var put *ssa.Store
	for _, ref := range *arr.Referrers() {
		switch x := ref.(type) {
		case *ssa.DebugRef:
		case *ssa.Slice:
			if x != sl {
				return c01Img{}, "the appended element is shared"
			}
		case *ssa.IndexAddr:
			for _, r2 := range *x.Referrers() {
				st, ok := r2.(*ssa.Store)
				if !ok || st.Addr != ssa.Value(x) || put != nil {
					return c01Img{}, "the appended element is written more than once"
				}
				put = st
			}
		default:
			return c01Img{}, "the appended element is used in an unexpected way"
		}
	}
	if put == nil || !c01Precedes(put, app) {
		return c01Img{}, "the appended element is not set before the append"
	}
	base, srcOff, form, stores, why := a.elemAt(l, put.Val)
	if why != "" {
		return c01Img{}, why
	}
	for _, st := range stores {
		if !c01Precedes(st, put) {
			return c01Img{}, "the appended element is not complete when it is appended"
		}
	}
	cut, why := a.rounds(l, base)
	if why != "" {
		return c01Img{}, why
	}
	// element n is base[srcOff + n]; there are len(base) − cut of them
	if cut != srcOff {
		return c01Img{}, fmt.Sprintf("the loop appends len(%s) − %d elements, starting with element %d: the list does not reach the end of %s", a.r.D.D(base), cut, srcOff, a.r.D.D(base))
	}
	// nothing else touches the list: the φ feeds the append and the uses after the loop, the append feeds the φ
	if why := a.readOnly(ph, union(allowed, map[ssa.Instruction]bool{app: true})); why != "" {
		return c01Img{}, why
	}
	for _, ref := range *app.Referrers() {
		if ref != ssa.Instruction(ph) {
			if _, dbg := ref.(*ssa.DebugRef); !dbg {
				return c01Img{}, "the list is used before the loop that fills it has ended"
			}
		}
	}
	return c01Img{base: base, off: srcOff, form: form}, ""
}

func union(a, b map[ssa.Instruction]bool) map[ssa.Instruction]bool {
	out := map[ssa.Instruction]bool{}
	for k := range a {
		out[k] = true
	}
	for k := range b {
		out[k] = true
	}
	return out
}

// filled: make(len) whose every element is stored once, by a counting loop.
func (a *c01Lists) filled(mk *ssa.MakeSlice, at ssa.Instruction, allowed map[ssa.Instruction]bool) (c01Img, string) {
	lenOf, le, ok := c01LenOf(mk.Len)
	if !ok {
		if isConstInt(mk.Len, 0) {
			return c01Img{}, "the list is empty"
		}
		return c01Img{}, "the list is not made with the length of a list (" + a.r.D.D(mk.Len) + ")"
	}
	var fill *ssa.Store
	var fillAt *ssa.IndexAddr
	for _, ref := range *mk.Referrers() {
		ia, ok := ref.(*ssa.IndexAddr)
		if !ok || ia.X != ssa.Value(mk) {
			continue
		}
		for _, r2 := range *ia.Referrers() {
			if st, ok := r2.(*ssa.Store); ok && st.Addr == ssa.Value(ia) {
				if fill != nil {
					return c01Img{}, "the list is stored to at more than one place"
				}
				fill, fillAt = st, ia
			}
		}
	}
	if fill == nil {
		return c01Img{}, "the elements of the list are never set"
	}
	p, dL, ok := c01Affine(fillAt.Index)
	if !ok || p == nil {
		return c01Img{}, "the list is not filled at a loop counter"
	}
	l, why := c01LoopAt(p.Block())
	if why != "" {
		return c01Img{}, why
	}
	if p != l.ctr {
		return c01Img{}, "the list is not filled at the loop's counter"
	}
	if at != nil && (l.in[at.Block()] || !l.head.Dominates(at.Block())) {
		return c01Img{}, "the list is used before the loop that fills it has ended"
	}
	if !l.in[fill.Block()] {
		return c01Img{}, "the list is not filled in the loop"
	}
	for i, pred := range l.head.Preds {
		_ = i
		if l.in[pred] && !(fill.Block() == pred || fill.Block().Dominates(pred)) {
			return c01Img{}, "a round can end without setting its element"
		}
	}
	base, srcOff, form, stores, why := a.elemAt(l, fill.Val)
	if why != "" {
		return c01Img{}, why
	}
	for _, st := range stores {
		if !c01Precedes(st, fill) {
			return c01Img{}, "the element is not complete when it is stored"
		}
	}
	cut, why := a.rounds(l, base)
	if why != "" {
		return c01Img{}, why
	}
	lb, llo := c01View(lenOf)
	if lb != base {
		return c01Img{}, "the list has the length of " + a.r.D.D(lenOf) + ", the elements are read from " + a.r.D.D(base)
	}
	// round n stores base[srcOff+n] at index init+dL+n; len(base) − cut rounds; the list has len(base) − llo + le places
	first := l.init + dL
	if first != 0 {
		return c01Img{}, fmt.Sprintf("the first round stores at index %d: element 0 is never set", first)
	}
	if cut != llo-le {
		return c01Img{}, fmt.Sprintf("the list has len(%s) − %d places, the loop sets len(%s) − %d of them", a.r.D.D(base), llo-le, a.r.D.D(base), cut)
	}
	if cut != srcOff {
		return c01Img{}, fmt.Sprintf("the list has len(%s) − %d elements, the first made from element %d: it does not reach the end of %s", a.r.D.D(base), cut, srcOff, a.r.D.D(base))
	}
	if why := a.readOnly(mk, union(allowed, map[ssa.Instruction]bool{fill: true})); why != "" {
		return c01Img{}, why
	}
	return c01Img{base: base, off: srcOff, form: form}, ""
}

// oneOf: the single value v is `form` of base[idx]: an element read from a list image, or built on the spot.
func (a *c01Lists) oneOf(v ssa.Value, at ssa.Instruction, allowed map[ssa.Instruction]bool) (base ssa.Value, idx int64, form, why string) {
	ld, ok := v.(*ssa.UnOp)
	if !ok || ld.Op != token.MUL {
		return nil, 0, "", "undecided: cannot tell how " + a.r.D.D(v) + " is built"
	}
	if ia, ok := ld.X.(*ssa.IndexAddr); ok {
		k, ok := constIntV(ia.Index)
		if !ok {
			return nil, 0, "", "undecided: element " + a.r.D.D(ia.Index) + " of a list"
		}
		img, why := a.imageOf(ia.X, ld, allowed)
		if why != "" {
			return nil, 0, "", why
		}
		return img.base, img.off + k, img.form, ""
	}
	src, form, stores, why := c01ElemOf(v)
	if why != "" {
		return nil, 0, "", why
	}
	k, ok := constIntV(src.Index)
	if !ok {
		return nil, 0, "", "undecided: made from element " + a.r.D.D(src.Index) + " of a list"
	}
	for _, st := range stores {
		if !c01Precedes(st, at) {
			return nil, 0, "", "the value is not complete when it is handed on"
		}
	}
	b, lo := c01View(src.X)
	return b, lo + k, form, ""
}

// c01WholePath: C01.R6 on the call by which a chain service hands the validated path to the leaf builder.
// certArg / chainArg: positions of the leaf certificate and of the issuers in that call.
func c01WholePath(r *Run, fn *ssa.Function, c ssa.CallInstruction, key string, certArg, chainArg int) {
	// the validated path: the one parameter that is a list of certificates
	var path *ssa.Parameter
	n := 0
	for _, p := range fn.Params {
		if TypeName(p.Type()) == "[]*x509.Certificate" {
			path = p
			n++
		}
	}
	if n != 1 {
		r.Fail(key+":path", r.FnPos(fn), fmt.Sprintf("undecided: %s has %d parameters that are a list of certificates", FuncName(fn), n))
		return
	}
	const want = "{Data: ε.Raw}"
	a := newC01Lists(r)
	allowed := map[ssa.Instruction]bool{c: true}
	args := CallArgs(c)
	base, idx, form, why := a.oneOf(args[certArg], c, allowed)
	switch {
	case why != "":
		r.Fail(key+":cert", r.Where(c), fmt.Sprintf("the certificate handed to %s is not decided to be ct.ASN1Cert{Data: chain[0].Raw}: %s", CalleeOf(c), why))
	default:
		ok := base == ssa.Value(path) && idx == 0 && form == want
		r.Check(key+":cert", ok, r.Where(c), fmt.Sprintf("the certificate handed to %s is %s of %s[%d] (expected %s of %s[0], the leaf of the validated path)",
			CalleeOf(c), strings.ReplaceAll(form, "ε", "c"), r.D.D(base), idx, strings.ReplaceAll(want, "ε", "c"), r.D.D(path)))
	}
	img, why := a.imageOf(args[chainArg], c, allowed)
	switch {
	case why != "":
		r.Fail(key+":chain", r.Where(c), fmt.Sprintf("the issuers handed to %s are not decided to be ct.ASN1Cert{Data: chain[k+1].Raw} for every k: %s", CalleeOf(c), why))
	default:
		ok := img.base == ssa.Value(path) && img.off == 1 && img.form == want
		r.Check(key+":chain", ok, r.Where(c), fmt.Sprintf("the issuers handed to %s are %s for every c of %s[%d:] (expected %s for every c of %s[1:]: the whole validated path, root included)",
			CalleeOf(c), strings.ReplaceAll(img.form, "ε", "c"), r.D.D(img.base), img.off, strings.ReplaceAll(want, "ε", "c"), r.D.D(path)))
	}
}

// c01ConvertsWhole: a helper that converts a whole list of certificates (extractRawCerts, relied on by the
// chain services of C01 and C14) returns {Data: c.Raw} for every c of its parameter.
func c01ConvertsWhole(r *Run, g *ssa.Function, key string) {
	a := newC01Lists(r)
	s := a.summary(g, 0)
	if s.why != "" {
		r.Fail(key, r.FnPos(g), FuncName(g)+" is not decided to return ct.ASN1Cert{Data: c.Raw} for every certificate c of its argument: "+s.why)
		return
	}
	r.Check(key, s.off == 0 && s.form == "{Data: ε.Raw}", r.FnPos(g), fmt.Sprintf("%s returns %s for every c of p%d[%d:] (expected {Data: c.Raw} for every c of the whole list)",
		FuncName(g), strings.ReplaceAll(s.form, "ε", "c"), s.param, s.off))
}
