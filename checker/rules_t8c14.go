package main

// Round 8 (honest twins of the i / j seeds) — C14 rules restated as facts.
//
// What the twins showed
//
//   twin-i  BuildLogLeaf builds the leaf at two places: a path without issuers is given an empty chain
//           hash (nothing is stored for it), every other path the hash returned by add.  "Exactly one
//           call of BuildLogLeafWithChainHash" froze a count of sites; the fact is about *every leaf
//           built*, and the seeds of that twin (reader returns early / rejects the empty hash) were
//           reported by that count and not by what they break in FixLogLeaf.
//   twin-j  the two detached cache fills became one helper `cacheAsync(ctx, hash, chain)` whose literal
//           captures its parameters; after normalisation getByHash's `chain` — assigned twice, by the
//           cache read and by the storage read — lives in a memory cell because the literal reads it.
//           "A captured local assigned exactly once" (round 5) could not say what the cell holds.
//
// Facts decided here, on every shape
//
//  1. c14ReachingStore / c14D — "what a local that function literals only READ holds at a given
//     instruction": the one assignment that reaches that instruction on every path (classic reaching
//     definition: walking back from the instruction every path meets that same store first).  For a
//     literal the instruction is where the literal is made, and no assignment may follow it (the
//     literal may run at any later time).  c14D renders a value with every such read replaced by the
//     value assigned; two reads of one variable inside one term that see different assignments leave
//     the term as it is (undecided for whoever needs it).
//  2. c14Writer (C14.R4) — every leaf the indirect service builds embeds (raw[0], h) where h is the
//     hash add() returned for asn1.Marshal(raw[1:]), or — only when raw[1:] is empty — a hash of
//     length 0.  Decided per hypothetical path length n = len(raw) (all n ≥ 1 that the length tests of
//     the function can tell apart), on the value the hash argument has on the paths n allows.
//  3. c14HashLayoutRewritten (C14.R3) — extra data that is exactly a hash layout is never answered
//     with success as it is: from the match, no return that may yield nil is reached before
//     leaf.ExtraData has been replaced.
//  4. c14HashLengths (C14.R3) — per hypothetical hash length: an empty hash needs no lookup; a
//     non-empty one of any length leads to the rewrite only through the lookup; and, when the writer
//     embeds the empty hash (fact 2), an empty hash is expanded to the entry with an empty chain —
//     with the re-encoding succeeding, every return that may execute yields nil and the leaf is
//     rewritten.

import (
	"fmt"
	"go/constant"
	"go/token"
	"go/types"
	"sort"
	"strconv"
	"strings"

	"golang.org/x/tools/go/ssa"
)

// ---- 1. locals that function literals only read ------------------------------------------------

// c14QuietStores: a is a local of its function that is kept in memory only because function literals
// read it — it is assigned whole values by its own function, loaded, and captured by literals that only
// load it; its address goes nowhere else.  Returns its assignments.
func c14QuietStores(a *ssa.Alloc) ([]*ssa.Store, bool) {
	refs := a.Referrers()
	if refs == nil || a.Parent() == nil {
		return nil, false
	}
	var out []*ssa.Store
	for _, ref := range *refs {
		switch x := ref.(type) {
		case *ssa.Store:
			if x.Addr != ssa.Value(a) || x.Val == ssa.Value(a) {
				return nil, false
			}
			out = append(out, x)
		case *ssa.UnOp:
			if x.Op != token.MUL {
				return nil, false
			}
		case *ssa.DebugRef:
		case *ssa.MakeClosure:
			if !closureOnlyLoads(x, a) {
				return nil, false
			}
		default:
			return nil, false
		}
	}
	return out, true
}

// c14ReachingStore: the assignment whose value the local a holds whenever `at` executes — walking back
// from `at`, every path meets that same store before any other and before the variable's creation or
// the function's entry; nil when there is no such single store.
func c14ReachingStore(a *ssa.Alloc, at ssa.Instruction) *ssa.Store {
	if _, ok := c14QuietStores(a); !ok || at == nil || at.Block() == nil || at.Parent() != a.Parent() {
		return nil
	}
	found := map[*ssa.Store]bool{}
	open := false
	seen := map[*ssa.BasicBlock]bool{}
	var scan func(b *ssa.BasicBlock, from int)
	scan = func(b *ssa.BasicBlock, from int) {
		for i := from - 1; i >= 0; i-- {
			switch x := b.Instrs[i].(type) {
			case *ssa.Store:
				if x.Addr == ssa.Value(a) {
					found[x] = true
					return
				}
			case *ssa.Alloc:
				if x == a {
					open = true
					return
				}
			}
		}
		if len(b.Preds) == 0 {
			open = true
			return
		}
		for _, p := range b.Preds {
			if !seen[p] {
				seen[p] = true
				scan(p, len(p.Instrs))
			}
		}
	}
	scan(at.Block(), instrIdx(at))
	if open || len(found) != 1 {
		return nil
	}
	for st := range found {
		return st
	}
	return nil
}

// c14StoreMayFollow: an assignment of a may execute after `at` while the variable is still the same
// one (a path that creates it anew ends the search).
func c14StoreMayFollow(a *ssa.Alloc, at ssa.Instruction) bool {
	seen := map[*ssa.BasicBlock]bool{}
	hit := false
	var scan func(b *ssa.BasicBlock, from int)
	scan = func(b *ssa.BasicBlock, from int) {
		for i := from; i < len(b.Instrs) && !hit; i++ {
			switch x := b.Instrs[i].(type) {
			case *ssa.Store:
				if x.Addr == ssa.Value(a) {
					hit = true
				}
			case *ssa.Alloc:
				if x == a {
					return
				}
			}
		}
		for _, s := range b.Succs {
			if !seen[s] && !hit {
				seen[s] = true
				scan(s, 0)
			}
		}
	}
	scan(at.Block(), instrIdx(at)+1)
	return hit
}

// c14CellAt: the value a function literal made (or called) at `at` reads from the captured local a,
// whenever it runs: the single assignment (c14CellValue), or the assignment that reaches `at` with none
// that may follow it.
func c14CellAt(a *ssa.Alloc, at ssa.Instruction) ssa.Value {
	if v := c14CellValue(a); v != nil {
		return v
	}
	st := c14ReachingStore(a, at)
	if st == nil || c14StoreMayFollow(a, at) {
		return nil
	}
	return st.Val
}

// c14LoadsIn: the reads of local variables inside the expression tree of v (what an origin term of v
// can mention), per variable; nil when the tree is too large to be sure to have seen them all.
func c14LoadsIn(v ssa.Value) map[*ssa.Alloc][]*ssa.UnOp {
	out := map[*ssa.Alloc][]*ssa.UnOp{}
	seen := map[ssa.Value]bool{}
	n := 0
	var walk func(v ssa.Value, d int)
	walk = func(v ssa.Value, d int) {
		if v == nil || seen[v] {
			return
		}
		n++
		if d > 40 || n > 600 {
			n = 1 << 20
			return
		}
		seen[v] = true
		if u, ok := v.(*ssa.UnOp); ok && u.Op == token.MUL {
			if a, ok := u.X.(*ssa.Alloc); ok {
				out[a] = append(out[a], u)
				if sv := uniqueStore(a); sv != nil {
					walk(sv, d+1)
				}
				return
			}
		}
		in, ok := v.(ssa.Instruction)
		if !ok {
			return
		}
		for _, op := range in.Operands(nil) {
			if *op != nil {
				walk(*op, d+1)
			}
		}
	}
	walk(v, 0)
	if n >= 1<<20 {
		return nil
	}
	return out
}

// c14SubstLoads restates the origin term t of v with the reads of quiet locals that v's expression
// contains replaced by the value assigned — when all reads of that variable inside v see the same
// assignment.
func c14SubstLoads(r *Run, v ssa.Value, t string, depth int) string {
	if depth > 3 || !strings.Contains(t, "*new:") {
		return t
	}
	loads := c14LoadsIn(v)
	var as []*ssa.Alloc
	for a := range loads {
		as = append(as, a)
	}
	sort.Slice(as, func(i, j int) bool { return r.D.allocName(as[i]) < r.D.allocName(as[j]) })
	for _, a := range as {
		name := "*" + r.D.allocName(a)
		if !strings.Contains(t, name) || paramSpill(a) != nil || c14CellValue(a) != nil {
			continue // not mentioned / a single value throughout: c14Norm's business
		}
		var st *ssa.Store
		for i, l := range loads[a] {
			s := c14ReachingStore(a, l)
			if s == nil || (i > 0 && s != st) {
				st = nil
				break
			}
			st = s
		}
		if st == nil {
			continue
		}
		t = c14ReplaceCell(t, name, c14SubstLoads(r, st.Val, r.D.D(st.Val), depth+1))
	}
	return t
}

// c14AtomsAt: the atoms of fn's branch conditions under their position-aware reading — for each atom
// key as PSR spells it (raw) the readings it has at the places it is tested, and back.
func c14AtomsAt(r *Run, fn *ssa.Function) (pos2raw, raw2pos map[string]map[string]bool) {
	pos2raw, raw2pos = map[string]map[string]bool{}, map[string]map[string]bool{}
	var visit func(v ssa.Value, depth int)
	visit = func(v ssa.Value, depth int) {
		if depth > 6 {
			return
		}
		if _, ok := isBoolConst(v); ok {
			return
		}
		switch x := v.(type) {
		case *ssa.Phi:
			for _, e := range x.Edges {
				visit(e, depth+1)
			}
			return
		case *ssa.UnOp:
			if x.Op == token.NOT {
				visit(x.X, depth+1)
				return
			}
		}
		raw := r.D.Classify(v).Key
		pos := c14Norm(r, fn, c14SubstLoads(r, v, raw, 0))
		if pos2raw[pos] == nil {
			pos2raw[pos] = map[string]bool{}
		}
		if raw2pos[raw] == nil {
			raw2pos[raw] = map[string]bool{}
		}
		pos2raw[pos][raw] = true
		raw2pos[raw][pos] = true
	}
	for _, b := range fn.Blocks {
		if len(b.Instrs) == 0 {
			continue
		}
		if ifi, ok := b.Instrs[len(b.Instrs)-1].(*ssa.If); ok {
			visit(ifi.Cond, 0)
		}
	}
	return pos2raw, raw2pos
}

// c14AtomFor: the key under which PSR knows the one atom of fn that reads `want` (a term as c14D
// renders it); "" when there is none, several, or when that key reads differently at another test.
func c14AtomFor(r *Run, fn *ssa.Function, want string) string {
	if _, ok := r.D.AtomsOf(fn)[want]; ok && !strings.Contains(want, "new:") {
		return want
	}
	pos2raw, raw2pos := c14AtomsAt(r, fn)
	if len(pos2raw[want]) != 1 {
		return ""
	}
	for raw := range pos2raw[want] {
		if len(raw2pos[raw]) == 1 {
			return raw
		}
	}
	return ""
}

// c14AtomUnambiguous: the atom key reads the same wherever fn tests it.
func c14AtomUnambiguous(r *Run, fn *ssa.Function, raw string) bool {
	if !strings.Contains(raw, "*new:") {
		return true
	}
	_, raw2pos := c14AtomsAt(r, fn)
	return len(raw2pos[raw]) == 1
}

// ---- hypothetical lengths ----------------------------------------------------------------------

// c14LenSigma: the valuation that "the length terms have the value n (+ their offset)" implies for the
// atoms of fn that compare such a term with an integer constant.
func c14LenSigma(r *Run, fn *ssa.Function, terms map[string]int, n int) Sigma {
	s := Sigma{}
	cmp := func(a, b int64) string {
		switch {
		case a < b:
			return "<"
		case a > b:
			return ">"
		}
		return "="
	}
	for k, ci := range r.D.AtomsOf(fn) {
		if ci.Kind != "ord" {
			continue
		}
		offA, isA := terms[ci.A]
		offB, isB := terms[ci.B]
		ca, errA := strconv.ParseInt(ci.A, 10, 64)
		cb, errB := strconv.ParseInt(ci.B, 10, 64)
		switch {
		case isA && errB == nil:
			s[k] = cmp(int64(n+offA), cb)
		case isB && errA == nil:
			s[k] = cmp(ca, int64(n+offB))
		case isA && isB:
			s[k] = cmp(int64(n+offA), int64(n+offB))
		}
	}
	return s
}

// c14LenCases: the lengths ≥ min that the constant comparisons of fn with the length terms can tell
// apart (each constant's neighbourhood), always including min, min+1 and min+2.
func c14LenCases(r *Run, fn *ssa.Function, terms map[string]int, min int) []int {
	set := map[int]bool{min: true, min + 1: true, min + 2: true}
	for _, ci := range r.D.AtomsOf(fn) {
		if ci.Kind != "ord" {
			continue
		}
		for _, side := range [][2]string{{ci.A, ci.B}, {ci.B, ci.A}} {
			off, isT := terms[side[0]]
			c, err := strconv.ParseInt(side[1], 10, 64)
			if !isT || err != nil || c > 1<<20 || c < -(1<<20) {
				continue
			}
			for d := -1; d <= 1; d++ {
				if n := int(c) - off + d; n >= min {
					set[n] = true
				}
			}
		}
	}
	var out []int
	for n := range set {
		out = append(out, n)
	}
	sort.Ints(out)
	return out
}

// c14ValuesUnder: the values v can have on the paths of the walk — a φ is any of the values that arrive
// over the edges the walk takes; nil when that cannot be followed to the end.
func c14ValuesUnder(v ssa.Value, reach *Reach, depth int) []ssa.Value {
	ph, ok := v.(*ssa.Phi)
	if !ok {
		return []ssa.Value{v}
	}
	if depth > 6 {
		return nil
	}
	var out []ssa.Value
	for i, e := range ph.Edges {
		if i >= len(ph.Block().Preds) || !reach.Edges[[2]int{ph.Block().Preds[i].Index, ph.Block().Index}] || e == ssa.Value(ph) {
			continue
		}
		xs := c14ValuesUnder(e, reach, depth+1)
		if xs == nil {
			return nil
		}
	next:
		for _, x := range xs {
			for _, o := range out {
				if o == x {
					continue next
				}
			}
			out = append(out, x)
		}
	}
	return out
}

// c14EmptyBytes: v is a byte slice of length 0 whatever happens — nil, []byte{}, make([]byte, 0),
// []byte("").
func c14EmptyBytes(v ssa.Value) bool {
	switch x := v.(type) {
	case *ssa.Const:
		_, isSlice := x.Type().Underlying().(*types.Slice)
		return isSlice && x.Value == nil
	case *ssa.Slice:
		if a, ok := x.X.(*ssa.Alloc); ok && x.Low == nil && x.High == nil {
			if arr, ok := a.Type().(*types.Pointer).Elem().Underlying().(*types.Array); ok {
				return arr.Len() == 0
			}
		}
		if x.High != nil && isConstInt(x.High, 0) {
			return true
		}
	case *ssa.MakeSlice:
		return isConstInt(x.Len, 0)
	case *ssa.Convert:
		if c, ok := x.X.(*ssa.Const); ok && c.Value != nil && c.Value.Kind() == constant.String {
			return constant.StringVal(c.Value) == ""
		}
	}
	return false
}

// ---- 2. the writer ------------------------------------------------------------------------------

const (
	c14RawTerm  = "trillian/ctfe.extractRawCerts(p2)"
	c14BuildFn  = "trillian/util.BuildLogLeafWithChainHash"
	c14AddFn    = "(*trillian/ctfe.indirectIssuanceChainService).add"
	c14Indirect = "(*trillian/ctfe.indirectIssuanceChainService)"
)

// c14RawLenTerms: the terms that measure the validated path in BuildLogLeaf, with their offset from
// n = len(raw): len(raw) itself, len(raw[1:]) = n − 1, and len(chain) = n when extractRawCerts is seen
// to return a slice made with the length of its argument.
func c14RawLenTerms(r *Run) map[string]int {
	terms := map[string]int{"len(" + c14RawTerm + ")": 0, "len(" + c14RawTerm + "[1:])": -1}
	if ex := r.P.Func("trillian/ctfe.extractRawCerts"); ex != nil && len(ex.Params) == 1 {
		same := len(Returns(ex)) > 0
		for _, ret := range Returns(ex) {
			ms, ok := ret.Results[0].(*ssa.MakeSlice)
			if !ok || r.D.D(ms.Len) != "len(p0)" {
				same = false
			}
		}
		if same {
			terms["len(p2)"] = 0
		}
	}
	return terms
}

// c14StoredHash: h is the hash add() returned for the DER encoding of raw[1:] — the key under which this
// call stored the issuance chain.
func c14StoredHash(r *Run, h ssa.Value) (bool, string) {
	ex, ok := h.(*ssa.Extract)
	if !ok || ex.Index != 0 {
		return false, r.D.D(h)
	}
	add, ok := ex.Tuple.(*ssa.Call)
	if !ok || CalleeOf(add) != c14AddFn {
		return false, r.D.D(h)
	}
	a := CallArgs(add)
	if len(a) != 3 || r.D.D(a[0]) != "p0" {
		return false, "add is not asked of this service: " + r.D.D(h)
	}
	mx, ok := a[2].(*ssa.Extract)
	if !ok || mx.Index != 0 {
		return false, "add(" + r.D.D(a[2]) + ")"
	}
	m, ok := mx.Tuple.(*ssa.Call)
	if !ok || CalleeOf(m) != "asn1.Marshal" || len(CallArgs(m)) < 1 {
		return false, "add(" + r.D.D(a[2]) + ")"
	}
	if got := r.D.D(CallArgs(m)[0]); got != c14RawTerm+"[1:]" {
		return false, "add(asn1.Marshal(" + got + "))"
	}
	return true, "add(asn1.Marshal(raw[1:]))#0"
}

// c14Writer (C14.R4): what the indirect service writes.  Returns whether some leaf built for a path
// without issuers embeds a hash of length 0 (then the reader must expand it, c14HashLengths); true also
// when that cannot be decided.
func c14Writer(r *Run, fn *ssa.Function) (emptyWritten bool) {
	builds := CallsTo(fn, c14BuildFn)
	if len(builds) == 0 {
		r.Fail("indirect.BuildLogLeaf:build", r.FnPos(fn), "undecided: "+FuncName(fn)+" builds no leaf with "+c14BuildFn)
		return true
	}
	terms := c14RawLenTerms(r)
	cases := c14LenCases(r, fn, terms, 1)
	stored := 0
	for _, b := range builds {
		r.ExpectArg(b, "indirect.BuildLogLeaf:leaf", 1, "*p4")
		r.ExpectArg(b, "indirect.BuildLogLeaf:cert", 3, c14RawTerm+"[0]")
		r.ExpectArg(b, "indirect.BuildLogLeaf:isPrecert", 5, "p5")
		ok, detail := true, ""
		var seen []string
		for _, n := range cases {
			s := c14LenSigma(r, fn, terms, n)
			reach := r.D.Walk(fn, s, nil, nil)
			r.Valuations++
			if !reach.Has(b) {
				continue
			}
			hvs := c14ValuesUnder(CallArgs(b)[4], reach, 0)
			what := fmt.Sprintf("a validated path of %d certificates (%d issuers)", n, n-1)
			if len(hvs) == 0 {
				ok, detail = false, "undecided: for "+what+" the chain hash embedded is "+r.D.DUnder(CallArgs(b)[4], reach)
			}
			for _, hv := range hvs {
				if !ok {
					break
				}
				if c14EmptyBytes(hv) {
					if n == 1 {
						emptyWritten = true
						seen = append(seen, "n=1: empty hash")
					} else {
						ok, detail = false, "for "+what+" the leaf embeds an empty chain hash ("+r.D.D(hv)+"): the issuers are neither stored nor referenced, and readers are served an empty chain"
					}
					continue
				}
				isStored, got := c14StoredHash(r, hv)
				if isStored {
					if n >= 2 {
						stored++
					}
					seen = append(seen, fmt.Sprintf("n=%d: %s", n, got))
				} else {
					ok, detail = false, "for "+what+" the chain hash embedded is "+got+", not the hash add() returned for asn1.Marshal(raw[1:])"
				}
			}
			if !ok {
				break
			}
		}
		if ok {
			detail = "the leaf embeds (raw[0], the hash add() returned for asn1.Marshal(raw[1:])) — or an empty hash only for a path without issuers: " + strings.Join(seen, "; ")
			if len(seen) == 0 {
				ok, detail = false, "undecided: this leaf is built for no path length"
			}
		}
		r.Check("indirect.BuildLogLeaf:hash", ok, r.Where(b), detail)
	}
	r.Check("indirect.BuildLogLeaf:build", stored >= 1, r.FnPos(fn), fmt.Sprintf("a leaf that embeds the hash of the stored chain is built for paths with issuers (positive control, %d cases)", stored))
	// what is returned is a leaf built here (or nothing, with the error)
	for _, ret := range Returns(fn) {
		if len(ret.Results) != 2 {
			continue
		}
		got := r.D.D(ret.Results[0])
		r.Check("indirect.BuildLogLeaf:returns-built-leaf", isNilConst(ret.Results[0]) || glob(c14BuildFn+"(*)#0", got), r.Where(ret), "returns a leaf built by "+c14BuildFn+" (or nil with the error): "+shortErr(got))
	}
	c14ErrGate(r, fn, "indirect.BuildLogLeaf:errors", "*", 3, nil)
	return emptyWritten
}

// ---- 3./4. the reader and the hash's length -------------------------------------------------------

// c14HashLayoutRewritten (C14.R3): extra data that is exactly a hash layout is what only this service
// understands; it is never handed on as it is.  From the match of a hash layout, no return that may
// yield nil and no other probe is reached before leaf.ExtraData has been replaced.
func c14HashLayoutRewritten(r *Run, fix *ssa.Function, probes []c14Probe, stores []*ssa.Store) {
	for _, p := range probes {
		if !strings.HasSuffix(p.typ, "Hash") || p.match == nil {
			continue
		}
		key := "FixLogLeaf:hash-layout-always-rewritten:" + p.typ
		stop := map[*ssa.BasicBlock]bool{}
		for _, st := range stores {
			if st.Block() != p.call.Block() {
				stop[st.Block()] = true
			}
		}
		probeBlocks := map[*ssa.BasicBlock]bool{}
		for _, o := range probes {
			if o.call.Block() != p.call.Block() {
				stop[o.call.Block()] = true
				probeBlocks[o.call.Block()] = true
			}
		}
		x := c14Run(r, fix, p.match, p.call.Block(), stop)
		ok, detail := true, fmt.Sprintf("extra data that is exactly a %s is answered only with an error or with the re-inflated entry: no return that may yield nil is reached before leaf.ExtraData was replaced", p.typ)
		switch {
		case x.Over:
			ok, detail = false, "undecided: too many paths through "+FuncName(fix)
		case x.mayYieldNil() != nil:
			ok, detail = false, fmt.Sprintf("extra data that is exactly a %s is served as it is — the internal hash layout instead of the entry with its chain: under %s %s without leaf.ExtraData having been replaced", p.typ, p.match, x.describe(x.mayYieldNil()))
		default:
			for b := range x.Stopped {
				if probeBlocks[b] {
					ok, detail = false, fmt.Sprintf("undecided: after extra data matched %s exactly, another layout is probed at %s without leaf.ExtraData having been replaced", p.typ, r.P.Pos(b.Instrs[0].Pos()))
				}
			}
		}
		r.Check(key, ok, r.Where(p.call), detail)
	}
}

// c14HashLengths (C14.R3): the decisions FixLogLeaf takes on the length of the embedded hash h, read per
// hypothetical length.  lookups: the chain lookups under h; st: the rewrite of this layout.
//   - lookup-by-length: with an empty hash no lookup is made; with a non-empty hash of any length the
//     rewrite is reached only through a lookup (whatever constants the length is compared with);
//   - empty-hash-is-empty-chain (only when the writer embeds the empty hash): with the hash empty and
//     the re-encoding succeeding every return that may execute yields nil and the leaf is rewritten.
func c14HashLengths(r *Run, fix *ssa.Function, hashType, h string, p *c14Probe, st *ssa.Store, lookups []ssa.Instruction, probes []c14Probe, emptyWritten, table bool) {
	if p == nil || p.match == nil || st == nil {
		r.Fail("FixLogLeaf:"+hashType+":hash-length", r.FnPos(fix), "undecided: the probe or the rewrite of the "+hashType+" layout was not found")
		return
	}
	terms := map[string]int{"len(" + h + ")": 0}
	stopProbes := map[*ssa.BasicBlock]bool{}
	for _, o := range probes {
		if o.call.Block() != p.call.Block() {
			stopProbes[o.call.Block()] = true
		}
	}
	with := func(n int, extra Sigma) Sigma {
		s := Sigma{}
		for k, v := range p.match {
			s[k] = v
		}
		for k, v := range c14LenSigma(r, fix, terms, n) {
			s[k] = v
		}
		for k, v := range extra {
			s[k] = v
		}
		return s
	}
	if table {
		ok, detail := len(lookups) > 0, "an empty hash needs no lookup, a non-empty hash of any length reaches the rewrite only through the chain lookup"
		if !ok {
			detail = "undecided: no chain lookup under " + h
		}
		if ok {
			x := c14Run(r, fix, with(0, nil), p.call.Block(), stopProbes)
			for _, l := range lookups {
				if x.Has(l) {
					ok, detail = false, "with an empty hash (the empty issuance chain) the storage is still asked for a chain at "+r.Where(l)
				}
			}
			if x.Over {
				ok, detail = false, "undecided: too many paths through "+FuncName(fix)
			}
		}
		for _, n := range c14LenCases(r, fix, terms, 1) {
			if !ok {
				break
			}
			stop := map[*ssa.BasicBlock]bool{}
			for b := range stopProbes {
				stop[b] = true
			}
			for _, l := range lookups {
				if l.Block() != p.call.Block() {
					stop[l.Block()] = true
				}
			}
			x := c14Run(r, fix, with(n, nil), p.call.Block(), stop)
			switch {
			case x.Over:
				ok, detail = false, "undecided: too many paths through "+FuncName(fix)
			case x.Has(st):
				ok, detail = false, fmt.Sprintf("with a hash of %d bytes the leaf is rewritten (at %s) without the chain stored under that hash having been looked up: the entry is served with an empty or foreign chain", n, r.Where(st))
			}
		}
		r.Check("FixLogLeaf:"+hashType+":lookup-unless-empty", ok, r.Where(p.call), detail)
	}
	if !emptyWritten {
		return
	}
	key := "FixLogLeaf:" + hashType + ":empty-hash-is-empty-chain"
	extra := Sigma{}
	if ex, isEx := st.Val.(*ssa.Extract); isEx {
		if call, isCall := ex.Tuple.(*ssa.Call); isCall {
			if errv := CallResult(call, 1); errv != nil {
				extra["nil?"+r.D.D(errv)] = "nil"
			}
		}
	}
	if len(extra) == 0 {
		r.Fail(key, r.Where(st), "undecided: the bytes stored into leaf.ExtraData are not the result of an encoder whose error can be assumed nil")
		return
	}
	x := c14Run(r, fix, with(0, extra), p.call.Block(), stopProbes)
	ok, detail := true, "BuildLogLeaf records an empty hash for a path without issuers; FixLogLeaf expands it to the entry with an empty chain: with the hash empty (and the re-encoding succeeding) every return that may execute yields nil and leaf.ExtraData is rewritten"
	switch {
	case x.Over:
		ok, detail = false, "undecided: too many paths through "+FuncName(fix)
	case len(x.Rets) == 0:
		ok, detail = false, "undecided: no return is reachable with an empty hash"
	case len(x.Stopped) > 0:
		ok, detail = false, "undecided: with an empty hash in a "+hashType+" the other layouts are probed"
	default:
		for i := range x.Rets {
			if x.Rets[i].status != "nil" {
				ok, detail = false, "BuildLogLeaf records an empty hash for a path without issuers, but FixLogLeaf does not expand it to the entry with an empty chain: with the hash empty "+x.describe(&x.Rets[i])+" — get-entries / get-entry-and-proof fail for every such entry"
				break
			}
		}
		if ok && !x.Has(st) {
			ok, detail = false, "BuildLogLeaf records an empty hash for a path without issuers, but with an empty hash FixLogLeaf never rewrites leaf.ExtraData: such an entry is served in the internal hash layout, not as the in-backend mode serves it"
		}
	}
	r.Check(key, ok, r.Where(p.call), detail)
}
