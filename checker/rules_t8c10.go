package main

import (
	"bytes"
	"fmt"
	"go/ast"
	"go/constant"
	"go/printer"
	"go/token"
	"go/types"
	"os"
	"regexp"
	"sort"
	"strconv"
	"strings"

	"golang.org/x/tools/go/ssa"
)

// C10.R3, round 8 (honest twins of the i / j seeds) — part 1: an early exit that changes nothing.
//
// A guard `if C { …; return E }` that one side has and the other has not is a difference of the
// normal forms (a condition, a return site, and `!(C)` in the chain of everything that follows).
// It is no difference of behaviour when, with C holding, the statements that follow the guard would
// have done the same: computed the same values with the same calls in the same order and returned
// the same results.  That is decided by executing both — the body of the guard and the statements
// after it — symbolically from the state at the guard:
//
//   - the guard stands in the statement list of the function body itself (what follows it runs to
//     the end of the function), has no initialiser and no else, and C is free of calls;
//   - from C, each conjunct `x == k` (x a local / result that is neither address-taken nor captured,
//     k a constant) fixes x; a variable the nil / zero facts of the walk know to be zero at the
//     guard (an error that every path so far has tested) holds its zero value;
//   - statements: assignments (n:n, op=, ++ / --), var declarations, expression statements, if and
//     three-clause for statements whose conditions evaluate to constants under what is known
//     (a loop that runs 0…8 rounds), blocks, return; expressions are folded where their operands
//     are constants and otherwise rendered in the walker's normal form with the known values put in;
//     every call evaluated is recorded, in order, with its arguments;
//   - anything else (a condition that does not evaluate, a range loop, a switch, a store through a
//     pointer or index, a function literal, …) makes the question undecided: the guard is walked as
//     it stands and is reported as the difference it is.
//
// When both executions end in a return, the guard is NEUTRAL iff the recorded calls and the returned
// values agree text for text; a neutral guard is passed over (on either side).  When they differ the
// guard is walked as it stands and, in addition, the two outcomes are reported side by side
// (`early-exit:<function>`): that is the clause "an equal value" stated for the inputs that take the
// exit — e.g. an empty SEQUENCE OF that decodes to the nil slice where the statements that follow
// yield an empty non-nil one (Marshal omits the former and emits the latter).

type fdNote struct {
	Kind string // key prefix of the obligation
	Fn   string
	Pos  token.Pos
	Text string
	Fork bool
}

type seVal struct {
	text string
	c    constant.Value
}

type seOutcome struct {
	results []string
	calls   []string
}

type seExec struct {
	w       *fdWalker
	c       *fdCtx
	env     map[types.Object]seVal
	calls   []string
	bad     bool
	done    bool
	out     []string
	results []*types.Var
	steps   int
}

func (x *seExec) fail() seVal { x.bad = true; return seVal{} }

func (x *seExec) objOf(id *ast.Ident) types.Object {
	info := x.w.s.pkg.TypesInfo
	o := info.Uses[id]
	if o == nil {
		o = info.Defs[id]
	}
	if m, ok := x.w.merge[o]; ok {
		o = m
	}
	return o
}

// plainVar: a local variable, parameter or named result whose only names are its identifier.
func (x *seExec) plainVar(o types.Object) bool {
	v, ok := o.(*types.Var)
	if !ok || v.IsField() || v.Pkg() == nil || v.Parent() == v.Pkg().Scope() || x.w.noFacts[v] {
		return false
	}
	_, aliased := x.w.alias[o]
	return !aliased
}

func seZero(t types.Type) (seVal, bool) {
	switch u := t.Underlying().(type) {
	case *types.Basic:
		switch {
		case u.Info()&types.IsBoolean != 0:
			return seVal{"false", constant.MakeBool(false)}, true
		case u.Info()&types.IsInteger != 0:
			return seVal{"0", constant.MakeInt64(0)}, true
		case u.Info()&types.IsString != 0:
			return seVal{`""`, constant.MakeString("")}, true
		}
	case *types.Pointer, *types.Interface, *types.Slice, *types.Map, *types.Chan, *types.Signature:
		return seVal{text: "nil"}, true
	}
	return seVal{}, false
}

// mentionsBound: e refers to a variable the execution holds a value for.
func (x *seExec) mentionsBound(e ast.Node) bool {
	hit := false
	ast.Inspect(e, func(n ast.Node) bool {
		if id, ok := n.(*ast.Ident); ok {
			if _, bound := x.env[x.objOf(id)]; bound {
				hit = true
			}
		}
		return !hit
	})
	return hit
}

func (x *seExec) eval(e ast.Expr) seVal {
	if x.bad {
		return seVal{}
	}
	info := x.w.s.pkg.TypesInfo
	if tv, ok := info.Types[e]; ok && tv.Value != nil {
		return seVal{tv.Value.ExactString(), tv.Value}
	}
	switch e := e.(type) {
	case *ast.ParenExpr:
		return x.eval(e.X)
	case *ast.Ident:
		o := x.objOf(e)
		if _, isNil := o.(*types.Nil); isNil {
			return seVal{text: "nil"}
		}
		if v, ok := x.env[o]; ok {
			return v
		}
		if def, ok := x.c.inline[o]; ok && x.mentionsBound(def) {
			return x.fail() // defined from a variable as it was then
		}
		return seVal{text: x.c.ident(e)}
	case *ast.UnaryExpr:
		v := x.eval(e.X)
		switch e.Op {
		case token.NOT, token.SUB, token.ADD, token.XOR:
			if v.c != nil {
				if r := constant.UnaryOp(e.Op, v.c, 0); r.Kind() != constant.Unknown {
					return seVal{r.ExactString(), r}
				}
			}
			return seVal{text: e.Op.String() + "(" + v.text + ")"}
		}
		return x.fail()
	case *ast.BinaryExpr:
		a, b := x.eval(e.X), x.eval(e.Y)
		if x.bad {
			return seVal{}
		}
		if a.c != nil && b.c != nil {
			switch e.Op {
			case token.EQL, token.NEQ, token.LSS, token.LEQ, token.GTR, token.GEQ:
				r := constant.MakeBool(constant.Compare(a.c, e.Op, b.c))
				return seVal{r.ExactString(), r}
			case token.LAND, token.LOR, token.ADD, token.SUB, token.MUL, token.AND, token.OR, token.XOR:
				if r := constant.BinaryOp(a.c, e.Op, b.c); r.Kind() != constant.Unknown {
					return seVal{r.ExactString(), r}
				}
			}
			return x.fail()
		}
		if e.Op == token.LAND || e.Op == token.LOR {
			// short circuit on a known left operand; an unknown one leaves the right operand's calls in doubt
			if a.c != nil {
				if constant.BoolVal(a.c) == (e.Op == token.LOR) {
					return a
				}
				return b
			}
			return x.fail()
		}
		return seVal{text: "(" + a.text + " " + e.Op.String() + " " + b.text + ")"}
	case *ast.SelectorExpr:
		if id, ok := e.X.(*ast.Ident); ok {
			if _, isPkg := x.objOf(id).(*types.PkgName); isPkg {
				return seVal{text: x.c.expr(e)}
			}
		}
		if sl := info.Selections[e]; sl == nil || sl.Kind() != types.FieldVal {
			return x.fail()
		}
		if !x.mentionsBound(e) {
			return seVal{text: x.c.expr(e)}
		}
		return seVal{text: x.eval(e.X).text + "." + e.Sel.Name}
	case *ast.CallExpr:
		if e.Ellipsis.IsValid() {
			return x.fail()
		}
		var args []string
		for _, a := range e.Args {
			args = append(args, x.eval(a).text)
		}
		if x.bad {
			return seVal{}
		}
		if tv, ok := info.Types[e.Fun]; ok && tv.IsType() {
			return seVal{text: x.c.typeExpr(e.Fun) + "(" + strings.Join(args, ", ") + ")"}
		}
		fun := ""
		pure := false
		switch f := fdUnparen(e.Fun).(type) {
		case *ast.Ident:
			switch o := x.objOf(f).(type) {
			case *types.Builtin:
				if o.Name() != "len" && o.Name() != "cap" {
					return x.fail()
				}
				fun, pure = o.Name(), true
			case *types.Func:
				fun = x.c.ident(f)
			default:
				return x.fail()
			}
		case *ast.SelectorExpr:
			if _, ok := x.objOf(f.Sel).(*types.Func); !ok {
				return x.fail()
			}
			if id, ok := f.X.(*ast.Ident); ok {
				if _, isPkg := x.objOf(id).(*types.PkgName); isPkg {
					fun = x.c.expr(f)
					break
				}
			}
			fun = x.eval(f.X).text + "." + f.Sel.Name
		default:
			return x.fail()
		}
		if x.bad {
			return seVal{}
		}
		// (the walker's own reading of argument lists: the fork's added arguments are not part of the residual)
		if drop := x.w.s.dropArgs[x.c.calleeObj(e)]; drop != nil {
			var kept []string
			for i, a := range args {
				if !drop[i] {
					kept = append(kept, a)
				}
			}
			args = kept
		}
		t := fun + "(" + strings.Join(args, ", ") + ")"
		if !pure {
			x.calls = append(x.calls, t)
		}
		return seVal{text: t}
	case *ast.CompositeLit, *ast.IndexExpr, *ast.SliceExpr, *ast.StarExpr, *ast.TypeAssertExpr:
		// rendered as it stands when nothing in it has a known value; a call inside is a call made
		if x.mentionsBound(e) {
			return x.fail()
		}
		hasCall := false
		ast.Inspect(e, func(n ast.Node) bool {
			switch n.(type) {
			case *ast.CallExpr, *ast.FuncLit:
				hasCall = true
			}
			return !hasCall
		})
		if hasCall {
			return x.fail()
		}
		return seVal{text: x.c.expr(e)}
	}
	return x.fail()
}

func (x *seExec) target(l ast.Expr) types.Object {
	id, ok := fdUnparen(l).(*ast.Ident)
	if !ok {
		x.bad = true
		return nil
	}
	if id.Name == "_" {
		return nil
	}
	o := x.objOf(id)
	if !x.plainVar(o) {
		x.bad = true
		return nil
	}
	return o
}

func (x *seExec) list(l []ast.Stmt) {
	for _, s := range l {
		if x.bad || x.done {
			return
		}
		x.stmt(s)
	}
}

func (x *seExec) stmt(s ast.Stmt) {
	if x.steps++; x.steps > 400 {
		x.bad = true
		return
	}
	if x.w.s.sinkStmts[s] {
		return
	}
	switch s := s.(type) {
	case *ast.EmptyStmt:
	case *ast.BlockStmt:
		x.list(s.List)
	case *ast.ExprStmt:
		if _, ok := fdUnparen(s.X).(*ast.CallExpr); !ok {
			x.bad = true
			return
		}
		x.eval(s.X)
	case *ast.AssignStmt:
		if len(s.Lhs) != len(s.Rhs) {
			x.bad = true
			return
		}
		if s.Tok != token.ASSIGN && s.Tok != token.DEFINE {
			if len(s.Lhs) != 1 {
				x.bad = true
				return
			}
			var op token.Token
			switch s.Tok {
			case token.ADD_ASSIGN:
				op = token.ADD
			case token.SUB_ASSIGN:
				op = token.SUB
			case token.MUL_ASSIGN:
				op = token.MUL
			default:
				x.bad = true
				return
			}
			o := x.target(s.Lhs[0])
			v := x.eval(&ast.BinaryExpr{X: s.Lhs[0], Op: op, Y: s.Rhs[0]})
			if o != nil && !x.bad {
				x.env[o] = v
			}
			return
		}
		vals := make([]seVal, len(s.Rhs))
		for i, r := range s.Rhs {
			vals[i] = x.eval(r)
		}
		for i, l := range s.Lhs {
			if o := x.target(l); o != nil && !x.bad {
				x.env[o] = vals[i]
			}
		}
	case *ast.IncDecStmt:
		op := token.ADD
		if s.Tok == token.DEC {
			op = token.SUB
		}
		o := x.target(s.X)
		if o == nil || x.bad {
			x.bad = true
			return
		}
		v := x.eval(s.X)
		if v.c == nil {
			x.env[o] = seVal{text: "(" + v.text + " " + op.String() + " 1)"}
			return
		}
		r := constant.BinaryOp(v.c, op, constant.MakeInt64(1))
		x.env[o] = seVal{r.ExactString(), r}
	case *ast.DeclStmt:
		gd, ok := s.Decl.(*ast.GenDecl)
		if !ok || gd.Tok != token.VAR {
			x.bad = gd == nil || gd.Tok != token.CONST && gd.Tok != token.TYPE
			return
		}
		for _, sp := range gd.Specs {
			vs := sp.(*ast.ValueSpec)
			if len(vs.Values) != 0 && len(vs.Values) != len(vs.Names) {
				x.bad = true
				return
			}
			for i, id := range vs.Names {
				var v seVal
				if len(vs.Values) > 0 {
					v = x.eval(vs.Values[i])
				} else {
					o := x.w.s.pkg.TypesInfo.Defs[id]
					if o == nil {
						continue
					}
					z, ok := seZero(o.Type())
					if !ok {
						z = seVal{text: "zero(" + fdTypeStr(o.Type()) + ")"}
					}
					v = z
				}
				if o := x.target(id); o != nil && !x.bad {
					x.env[o] = v
				}
			}
		}
	case *ast.IfStmt:
		if s.Init != nil {
			x.stmt(s.Init)
		}
		v := x.eval(s.Cond)
		if x.bad || v.c == nil || v.c.Kind() != constant.Bool {
			x.bad = true
			return
		}
		if constant.BoolVal(v.c) {
			x.list(s.Body.List)
		} else if s.Else != nil {
			x.stmt(s.Else)
		}
	case *ast.ForStmt:
		if s.Init != nil {
			x.stmt(s.Init)
		}
		if s.Cond == nil {
			x.bad = true
			return
		}
		for round := 0; ; round++ {
			v := x.eval(s.Cond)
			if x.bad || v.c == nil || v.c.Kind() != constant.Bool || round > 8 {
				x.bad = true
				return
			}
			if !constant.BoolVal(v.c) {
				return
			}
			// (a body with break / continue is not executed: BranchStmt is undecided)
			x.list(s.Body.List)
			if x.bad || x.done {
				return
			}
			if s.Post != nil {
				x.stmt(s.Post)
			}
		}
	case *ast.ReturnStmt:
		if len(s.Results) == 0 {
			for _, r := range x.results {
				if r.Name() == "" || r.Name() == "_" {
					x.bad = true
					return
				}
				if v, ok := x.env[r]; ok {
					x.out = append(x.out, v.text)
				} else {
					x.out = append(x.out, x.c.params[r])
				}
			}
			x.done = true
			return
		}
		if len(s.Results) != len(x.results) {
			x.bad = true // a call spread over the results
			return
		}
		for _, e := range s.Results {
			x.out = append(x.out, x.eval(e).text)
		}
		x.done = true
	default:
		x.bad = true
	}
}

// seAssume collects what cond == true fixes: conjuncts x == k.
func (x *seExec) assume(cond ast.Expr) {
	info := x.w.s.pkg.TypesInfo
	switch b := fdUnparen(cond).(type) {
	case *ast.BinaryExpr:
		if b.Op == token.LAND {
			x.assume(b.X)
			x.assume(b.Y)
			return
		}
		if b.Op != token.EQL {
			return
		}
		l, r := fdUnparen(b.X), fdUnparen(b.Y)
		if tv, ok := info.Types[l]; ok && tv.Value != nil {
			l, r = r, l
		}
		tv, ok := info.Types[r]
		id, isID := l.(*ast.Ident)
		if !ok || tv.Value == nil || !isID {
			return
		}
		if o := x.objOf(id); x.plainVar(o) {
			x.env[o] = seVal{tv.Value.ExactString(), tv.Value}
		}
	}
}

// neutralExit: list[i] is a guard that leaves the function and changes nothing (see above).
func (w *fdWalker) neutralExit(list []ast.Stmt, i int) bool {
	if w.fd == nil || w.fd.Body == nil || len(list) == 0 || len(w.fd.Body.List) != len(list) || w.fd.Body.List[0] != list[0] || len(w.frames) > 0 || len(w.loops) > 0 {
		return false
	}
	s, ok := list[i].(*ast.IfStmt)
	if !ok || s.Init != nil || s.Else != nil || !fdTerminates(s.Body.List) || i+1 >= len(list) {
		return false
	}
	info := w.s.pkg.TypesInfo
	if !fdSinkPure(s.Cond, info, 0) {
		return false
	}
	fo, _ := info.Defs[w.fd.Name].(*types.Func)
	if fo == nil {
		return false
	}
	sig := fo.Type().(*types.Signature)
	c := w.ctx()
	run := func(l []ast.Stmt) (*seExec, bool) {
		x := &seExec{w: w, c: c, env: map[types.Object]seVal{}}
		for k := 0; k < sig.Results().Len(); k++ {
			x.results = append(x.results, sig.Results().At(k))
		}
		// what the walk knows to be zero at the guard
		if w.facts != nil {
			for p, v := range w.facts.m {
				if v == 'z' && p.f == "" && x.plainVar(p.o) {
					if z, ok := seZero(p.o.Type()); ok {
						x.env[p.o] = z
					}
				}
			}
		}
		x.assume(s.Cond)
		x.list(l)
		return x, !x.bad && x.done
	}
	a, okA := run(s.Body.List)
	b, okB := run(list[i+1:])
	if !okA || !okB {
		return false
	}
	same := len(a.out) == len(b.out) && len(a.calls) == len(b.calls)
	for k := 0; same && k < len(a.out); k++ {
		same = a.out[k] == b.out[k]
	}
	for k := 0; same && k < len(a.calls); k++ {
		same = a.calls[k] == b.calls[k]
	}
	if same {
		return true
	}
	if w.dry == 0 {
		side := "upstream"
		if w.s.fork {
			side = "the fork"
		}
		desc := func(o *seExec) string {
			t := "returns (" + strings.Join(o.out, ", ") + ")"
			if len(o.calls) > 0 {
				t += " after calling " + strings.Join(o.calls, ", ")
			}
			return t
		}
		w.s.note(fdNote{Kind: "early-exit", Fn: w.fn, Pos: s.Cond.Pos(), Text: fmt.Sprintf("%s leaves %s early when %s and then %s; the statements that follow the exit, executed under the same condition, %s: the inputs that take the exit do not get the value (or the calls) they get without it",
			side, w.fn, c.expr(s.Cond), desc(a), desc(b))})
	}
	return false
}

func (s *fdSide) note(n fdNote) {
	for _, o := range s.notes {
		if o.Kind == n.Kind && o.Fn == n.Fn && o.Pos == n.Pos {
			return
		}
	}
	s.notes = append(s.notes, n)
}

// ---- part 2 (engine side): lookups in a memo table ------------------------------------------------
//
// For a table decided to be a memo table of a pure function (rules_t8c10_memo.go), what a function
// computes is what it computes on a miss: `v, ok := T.Load(k)` reads ok = false (v is then unused),
// and `v, loaded := T.LoadOrStore(k, x)` reads v = x — asserted to x's own type, x.  The two result
// variables must be defined by that statement and written nowhere else, and the lookup must stand as
// `if v, ok := T.Load(k); ok { B }` (or the two statements in a row) where B is, statement for statement,
// what follows the function's only writing call on T, with the value found in place of the value the
// writing call yields (its first result, or the value stored): on a hit the function goes on exactly as
// after a miss.  Otherwise the statements are walked as they stand.

func fdMemoCall(e ast.Expr, info *types.Info, memo map[types.Object]bool) (method string, call *ast.CallExpr) {
	c, ok := fdUnparen(e).(*ast.CallExpr)
	if !ok {
		return "", nil
	}
	sel, ok := fdUnparen(c.Fun).(*ast.SelectorExpr)
	if !ok {
		return "", nil
	}
	id, ok := fdUnparen(sel.X).(*ast.Ident)
	if !ok || !memo[info.Uses[id]] {
		return "", nil
	}
	return sel.Sel.Name, c
}

func fdMemoReads(s *fdSide) {
	if len(s.memo) == 0 {
		return
	}
	info := s.pkg.TypesInfo
	s.falseObjs, s.memoVals = map[types.Object]bool{}, map[types.Object]ast.Expr{}
	for _, fd := range s.funcs {
		if fd.Body == nil {
			continue
		}
		written := map[types.Object]int{}
		ast.Inspect(fd.Body, func(n ast.Node) bool {
			switch x := n.(type) {
			case *ast.AssignStmt:
				for _, l := range x.Lhs {
					if id, ok := l.(*ast.Ident); ok {
						o := info.Defs[id]
						if o == nil {
							o = info.Uses[id]
						}
						written[o]++
					}
				}
			case *ast.IncDecStmt:
				if id, ok := x.X.(*ast.Ident); ok {
					written[info.Uses[id]]++
				}
			case *ast.UnaryExpr:
				if id, ok := fdUnparen(x.X).(*ast.Ident); ok && x.Op == token.AND {
					written[info.Uses[id]] += 2
				}
			case *ast.RangeStmt:
				for _, e := range []ast.Expr{x.Key, x.Value} {
					if id, ok := e.(*ast.Ident); ok {
						o := info.Defs[id]
						if o == nil {
							o = info.Uses[id]
						}
						written[o]++
					}
				}
			}
			return true
		})
		obj := func(e ast.Expr) types.Object {
			id, ok := e.(*ast.Ident)
			if !ok || id.Name == "_" {
				return nil
			}
			o := info.Defs[id]
			if o == nil {
				o = info.Uses[id]
			}
			if written[o] != 1 {
				return nil
			}
			return o
		}
		// the writing calls of the function, per table: the statement, the list it stands in, the value offered
		type put struct {
			list  []ast.Stmt
			at    int
			val   ast.Expr
			res   types.Object // the first result of LoadOrStore, if named
			table types.Object
		}
		var puts []put
		type hit struct {
			okObj types.Object
			val   types.Object
			body  []ast.Stmt
			table types.Object
		}
		var hits []hit
		fdEachList(fd.Body, func(list []ast.Stmt) {
			for i, st := range list {
				switch x := st.(type) {
				case *ast.AssignStmt:
					if len(x.Rhs) != 1 || len(x.Lhs) != 2 {
						continue
					}
					m, call := fdMemoCall(x.Rhs[0], info, s.memo)
					switch {
					case m == "LoadOrStore" && len(call.Args) == 2:
						puts = append(puts, put{list, i, call.Args[1], obj(x.Lhs[0]), info.Uses[fdUnparen(fdUnparen(call.Fun).(*ast.SelectorExpr).X).(*ast.Ident)]})
					case m == "Load" && len(call.Args) == 1 && i+1 < len(list):
						// v, ok := T.Load(k); if ok { … }
						if ifs, isIf := list[i+1].(*ast.IfStmt); isIf && ifs.Init == nil && ifs.Else == nil {
							if id, isID := fdUnparen(ifs.Cond).(*ast.Ident); isID && obj(x.Lhs[1]) != nil && info.Uses[id] == obj(x.Lhs[1]) {
								hits = append(hits, hit{obj(x.Lhs[1]), obj(x.Lhs[0]), ifs.Body.List, info.Uses[fdUnparen(fdUnparen(call.Fun).(*ast.SelectorExpr).X).(*ast.Ident)]})
							}
						}
					}
				case *ast.ExprStmt:
					if m, call := fdMemoCall(x.X, info, s.memo); m == "Store" && len(call.Args) == 2 {
						puts = append(puts, put{list, i, call.Args[1], nil, info.Uses[fdUnparen(fdUnparen(call.Fun).(*ast.SelectorExpr).X).(*ast.Ident)]})
					}
				case *ast.IfStmt:
					// if v, ok := T.Load(k); ok { … }
					a, isA := x.Init.(*ast.AssignStmt)
					if !isA || x.Else != nil || len(a.Rhs) != 1 || len(a.Lhs) != 2 {
						continue
					}
					if m, call := fdMemoCall(a.Rhs[0], info, s.memo); m == "Load" && len(call.Args) == 1 {
						if id, isID := fdUnparen(x.Cond).(*ast.Ident); isID && obj(a.Lhs[1]) != nil && info.Uses[id] == obj(a.Lhs[1]) {
							hits = append(hits, hit{obj(a.Lhs[1]), obj(a.Lhs[0]), x.Body.List, info.Uses[fdUnparen(fdUnparen(call.Fun).(*ast.SelectorExpr).X).(*ast.Ident)]})
						}
					}
				}
			}
		})
		for _, p := range puts {
			if p.res != nil {
				s.memoVals[p.res] = p.val
			}
		}
		// a lookup reads as a miss when what the function does on a hit is what it does after the
		// (only) writing call on the same table, with the value found in place of the value offered
		for _, h := range hits {
			var the *put
			n := 0
			for i := range puts {
				if puts[i].table == h.table {
					the = &puts[i]
					n++
				}
			}
			if n != 1 || h.val == nil {
				continue
			}
			missVal := ""
			switch {
			case the.res != nil:
				missVal = the.res.Name()
			default:
				if id, ok := fdUnparen(the.val).(*ast.Ident); ok {
					missVal = id.Name
				}
			}
			if missVal == "" {
				continue
			}
			if fdStmtsText(s, h.body, h.val.Name()) == fdStmtsText(s, the.list[the.at+1:], missVal) {
				s.falseObjs[h.okObj] = true
			}
		}
	}
}

var fdEntryAssert = regexp.MustCompile(`⟨entry⟩\.\([^()]*\)`)

// fdStmtsText prints a statement list up to and including its first statement that leaves (what
// follows it cannot execute), blocks flattened, with the identifier val replaced by a placeholder.
func fdStmtsText(s *fdSide, list []ast.Stmt, val string) string {
	var flat []ast.Stmt
	var add func(l []ast.Stmt) bool
	add = func(l []ast.Stmt) bool {
		for _, st := range l {
			if b, ok := st.(*ast.BlockStmt); ok {
				if add(b.List) {
					return true
				}
				continue
			}
			flat = append(flat, st)
			if fdTerminates([]ast.Stmt{st}) {
				return true
			}
		}
		return false
	}
	add(list)
	var sb strings.Builder
	re := regexp.MustCompile(`\b` + regexp.QuoteMeta(val) + `\b`)
	for _, st := range flat {
		var b bytes.Buffer
		printer.Fprint(&b, s.pkg.Fset, st)
		// (the value found is an interface value asserted to the type of the value offered)
		sb.WriteString(fdEntryAssert.ReplaceAllString(re.ReplaceAllString(b.String(), "⟨entry⟩"), "⟨entry⟩"))
		sb.WriteString("\n")
	}
	return sb.String()
}

// memoValOf: e is `v.(T)` with v the result of a LoadOrStore on a memo table and T the type of the
// value offered: the value offered.
func (c *fdCtx) memoValOf(e *ast.TypeAssertExpr) ast.Expr {
	id, ok := fdUnparen(e.X).(*ast.Ident)
	if !ok || len(c.s.memoVals) == 0 {
		return nil
	}
	v, ok := c.s.memoVals[c.obj(id)]
	if !ok {
		return nil
	}
	info := c.s.pkg.TypesInfo
	tv, ok1 := info.Types[v]
	tt, ok2 := info.Types[e.Type]
	if !ok1 || !ok2 || tv.Type == nil || tt.Type == nil || !types.Identical(tv.Type, tt.Type) {
		return nil
	}
	return v
}

// ---- part 2 (engine side): a slice filled by tabulation ------------------------------------------------
//
// `S := make([]T, N)` followed by a loop over all indices of S whose body does nothing but
// `S[i] = E(i)` (and `S[i].f = E'(i)`, and definitions of locals used in these) builds the table of
// the function i ↦ E(i) on 0 … N-1: afterwards len(S) is N and S[j] is E(j).  When
//   - N and every operand of E are values that do not change from the fill on — constants, the loop
//     counter, locals of the loop body, parameters that are never assigned and locals that are
//     defined once, neither address-taken nor captured;
//   - E calls nothing but pure functions of the package (decided on the SSA, rules_t8c10_memo.go),
//     methods of reflect.Type / reflect.StructField / reflect.StructTag, conversions, len and cap;
//   - nothing else in the function writes S or an element of S (under any name it goes by), takes its
//     address or appends to it, and S is handed to no call other than a memo table's LoadOrStore /
//     Store (which never writes through it: (read-only) of rules_t8c10_memo.go);
// the table is read as the function it tabulates: the fill is passed over, `range S` (under any name:
// a variable all of whose assignments hand on S, the value a memo table returns for the key it was
// stored under) is the counting loop to N, `S[j]` is E(j) and len(S) is N.  That is what upstream's
// loop computes element by element; where a condition fails everything is walked as it stands.

type fdTab struct {
	s     types.Object
	n     ast.Expr
	idx   types.Object
	elem  ast.Expr
	over  []fdTabField
	stmts [2]ast.Stmt // the make statement and the fill loop
}

type fdTabField struct {
	field *types.Var
	val   ast.Expr
}

type fdTabs struct {
	done bool
	by   map[types.Object]*fdTab
	skip map[ast.Stmt]bool
	// resolution of names to tables
	memo map[types.Object]*fdTab
	busy map[types.Object]bool
}

func (w *fdWalker) writesOf() map[types.Object]int {
	info := w.s.pkg.TypesInfo
	n := map[types.Object]int{}
	obj := func(e ast.Expr) types.Object {
		id, ok := fdUnparen(e).(*ast.Ident)
		if !ok {
			return nil
		}
		if o := info.Defs[id]; o != nil {
			return o
		}
		return info.Uses[id]
	}
	ast.Inspect(w.fd.Body, func(x ast.Node) bool {
		switch x := x.(type) {
		case *ast.AssignStmt:
			for _, l := range x.Lhs {
				if o := obj(l); o != nil {
					n[o]++
				}
			}
		case *ast.IncDecStmt:
			if o := obj(x.X); o != nil {
				n[o]++
			}
		case *ast.RangeStmt:
			for _, e := range []ast.Expr{x.Key, x.Value} {
				if e != nil {
					if o := obj(e); o != nil {
						n[o]++
					}
				}
			}
		case *ast.ValueSpec:
			for _, id := range x.Names {
				if o := info.Defs[id]; o != nil {
					n[o]++
				}
			}
		}
		return true
	})
	return n
}

// tabPure: evaluating e has no effect and yields the same value whenever it is evaluated from the
// fill on (see above).  free: the variables that may vary (the loop counter, locals of the loop body).
func (w *fdWalker) tabPure(e ast.Expr, free map[types.Object]bool, writes map[types.Object]int, depth int) bool {
	info := w.s.pkg.TypesInfo
	if depth > 14 {
		return false
	}
	if tv, ok := info.Types[e]; ok && (tv.Value != nil || tv.IsType()) {
		return true
	}
	switch e := e.(type) {
	case *ast.ParenExpr:
		return w.tabPure(e.X, free, writes, depth+1)
	case *ast.BasicLit:
		return true
	case *ast.Ident:
		o := info.Uses[e]
		if _, isNil := o.(*types.Nil); isNil {
			return true
		}
		v, ok := o.(*types.Var)
		if !ok || v.IsField() || v.Pkg() == nil {
			return false
		}
		if free[v] {
			return true
		}
		if v.Parent() == v.Pkg().Scope() {
			return false
		}
		return writes[v] <= 1 && !w.noFacts[v] && !fdWrittenIn(w.fd.Body, info).addr[v]
	case *ast.UnaryExpr:
		switch e.Op {
		case token.SUB, token.ADD, token.XOR, token.NOT:
			return w.tabPure(e.X, free, writes, depth+1)
		}
		return false
	case *ast.BinaryExpr:
		switch e.Op {
		case token.QUO, token.REM, token.SHL, token.SHR:
			return false
		}
		return w.tabPure(e.X, free, writes, depth+1) && w.tabPure(e.Y, free, writes, depth+1)
	case *ast.SelectorExpr:
		if sl := info.Selections[e]; sl != nil {
			return sl.Kind() == types.FieldVal && !sl.Indirect() && w.tabPure(e.X, free, writes, depth+1)
		}
		return false
	case *ast.CallExpr:
		if e.Ellipsis.IsValid() {
			return false
		}
		for _, a := range e.Args {
			if !w.tabPure(a, free, writes, depth+1) {
				return false
			}
		}
		fun := fdUnparen(e.Fun)
		if tv, ok := info.Types[fun]; ok && tv.IsType() {
			return len(e.Args) == 1
		}
		switch f := fun.(type) {
		case *ast.Ident:
			switch o := info.Uses[f].(type) {
			case *types.Builtin:
				return o.Name() == "len" || o.Name() == "cap"
			case *types.Func:
				return w.s.pureFuncs[o]
			}
		case *ast.SelectorExpr:
			fn, ok := info.Uses[f.Sel].(*types.Func)
			if !ok {
				return false
			}
			sl := info.Selections[f]
			if sl == nil {
				return w.s.pureFuncs[fn] // (a qualified function of another package is not in the set)
			}
			if sl.Kind() != types.MethodVal || !w.tabPure(f.X, free, writes, depth+1) {
				return false
			}
			rt := sl.Recv()
			if p, ok := rt.(*types.Pointer); ok {
				rt = p.Elem()
			}
			if n, ok := rt.(*types.Named); ok && n.Obj().Pkg() != nil && n.Obj().Pkg().Path() == "reflect" {
				switch n.Obj().Name() {
				case "Type", "StructField", "StructTag":
					return true
				}
			}
			return w.s.pureFuncs[fn]
		}
	}
	return false
}

func (w *fdWalker) objOf(e ast.Expr) types.Object {
	id, ok := fdUnparen(e).(*ast.Ident)
	if !ok {
		return nil
	}
	info := w.s.pkg.TypesInfo
	if o := info.Defs[id]; o != nil {
		return o
	}
	return info.Uses[id]
}

// findTabs looks for tabulated slices in the function (once per walker).
func (w *fdWalker) findTabs() *fdTabs {
	if w.tabs != nil {
		return w.tabs
	}
	t := &fdTabs{by: map[types.Object]*fdTab{}, skip: map[ast.Stmt]bool{}, memo: map[types.Object]*fdTab{}, busy: map[types.Object]bool{}}
	w.tabs = t
	if w.fd == nil || w.fd.Body == nil {
		return t
	}
	info := w.s.pkg.TypesInfo
	writes := w.writesOf()
	fdEachList(w.fd.Body, func(list []ast.Stmt) {
		for k := 0; k+1 < len(list); k++ {
			a, ok := list[k].(*ast.AssignStmt)
			if !ok || a.Tok != token.DEFINE || len(a.Lhs) != 1 || len(a.Rhs) != 1 {
				continue
			}
			S := w.objOf(a.Lhs[0])
			call, ok := fdUnparen(a.Rhs[0]).(*ast.CallExpr)
			if S == nil || !ok || len(call.Args) != 2 || w.noFacts[S] {
				continue
			}
			if id, ok := fdUnparen(call.Fun).(*ast.Ident); !ok || id.Name != "make" {
				continue
			} else if _, isB := info.Uses[id].(*types.Builtin); !isB {
				continue
			}
			if _, isSlice := S.Type().Underlying().(*types.Slice); !isSlice {
				continue
			}
			n := call.Args[1]
			if !w.tabPure(n, nil, writes, 0) {
				continue
			}
			// the fill loop: over all indices of S
			var idx types.Object
			var body []ast.Stmt
			idxWrites := 1
			switch lp := list[k+1].(type) {
			case *ast.RangeStmt:
				if lp.Tok != token.DEFINE || lp.Value != nil || lp.Key == nil {
					continue
				}
				c := w.ctx()
				if w.objOf(lp.X) != S && c.expr(lp.X) != c.expr(n) {
					continue
				}
				idx, body = w.objOf(lp.Key), lp.Body.List
			case *ast.ForStmt:
				init, ok1 := lp.Init.(*ast.AssignStmt)
				cond, ok2 := fdUnparen(lp.Cond).(*ast.BinaryExpr)
				post, ok3 := lp.Post.(*ast.IncDecStmt)
				if !ok1 || !ok2 || !ok3 || init.Tok != token.DEFINE || len(init.Lhs) != 1 || len(init.Rhs) != 1 || cond.Op != token.LSS || post.Tok != token.INC {
					continue
				}
				idx = w.objOf(init.Lhs[0])
				c := w.ctx()
				if !c.isZeroConst(init.Rhs[0]) || w.objOf(cond.X) != idx || w.objOf(post.X) != idx {
					continue
				}
				bound := c.expr(cond.Y)
				isLen := false
				if lc, ok := fdUnparen(cond.Y).(*ast.CallExpr); ok && len(lc.Args) == 1 {
					if id, ok := fdUnparen(lc.Fun).(*ast.Ident); ok && id.Name == "len" && w.objOf(lc.Args[0]) == S {
						isLen = true
					}
				}
				if !isLen && bound != c.expr(n) {
					continue
				}
				body = lp.Body.List
				idxWrites = 2 // its definition and its increment
			default:
				continue
			}
			if idx == nil || w.noFacts[idx] {
				continue
			}
			tab := &fdTab{s: S, n: n, idx: idx, stmts: [2]ast.Stmt{list[k], list[k+1]}}
			free := map[types.Object]bool{idx: true}
			ok = true
			for _, st := range body {
				as, isA := st.(*ast.AssignStmt)
				if !isA || len(as.Lhs) != 1 || len(as.Rhs) != 1 || !w.tabPure(as.Rhs[0], free, writes, 0) {
					ok = false
					break
				}
				if as.Tok == token.DEFINE {
					o := w.objOf(as.Lhs[0])
					if o == nil || writes[o] != 1 || w.noFacts[o] {
						ok = false
						break
					}
					free[o] = true
					continue
				}
				if as.Tok != token.ASSIGN {
					ok = false
					break
				}
				l := fdUnparen(as.Lhs[0])
				var fld *types.Var
				if sel, isSel := l.(*ast.SelectorExpr); isSel {
					f, _ := info.Uses[sel.Sel].(*types.Var)
					if f == nil || !f.IsField() {
						ok = false
						break
					}
					fld, l = f, fdUnparen(sel.X)
				}
				ix, isIx := l.(*ast.IndexExpr)
				if !isIx || w.objOf(ix.X) != S || w.objOf(ix.Index) != idx {
					ok = false
					break
				}
				switch {
				case fld != nil && tab.elem != nil:
					tab.over = append(tab.over, fdTabField{fld, as.Rhs[0]})
				case fld == nil && tab.elem == nil && len(tab.over) == 0:
					tab.elem = as.Rhs[0]
				default:
					ok = false
				}
			}
			if !ok || tab.elem == nil || writes[idx] != idxWrites {
				continue
			}
			t.by[S] = tab
		}
	})
	if len(t.by) == 0 {
		return t
	}
	// nothing else writes the table or hands it on
	inFill := func(p token.Pos, tab *fdTab) bool {
		return tab.stmts[0].Pos() <= p && p < tab.stmts[0].End() || tab.stmts[1].Pos() <= p && p < tab.stmts[1].End()
	}
	kill := func(o types.Object) {
		if tab := w.tabOfObj(o); tab != nil {
			delete(t.by, tab.s)
			t.memo = map[types.Object]*fdTab{}
		}
	}
	var base func(e ast.Expr) (types.Object, bool)
	base = func(e ast.Expr) (types.Object, bool) { // the variable an lvalue belongs to; deref: through an index / pointer
		switch e := fdUnparen(e).(type) {
		case *ast.Ident:
			return w.objOf(e), false
		case *ast.SelectorExpr:
			return base(e.X)
		case *ast.IndexExpr:
			o, _ := base(e.X)
			return o, true
		case *ast.StarExpr:
			o, _ := base(e.X)
			return o, true
		case *ast.SliceExpr:
			o, _ := base(e.X)
			return o, true
		}
		return nil, false
	}
	for changed := true; changed; {
		n0 := len(t.by)
		ast.Inspect(w.fd.Body, func(x ast.Node) bool {
			switch x := x.(type) {
			case *ast.AssignStmt:
				for _, l := range x.Lhs {
					o, deref := base(l)
					if o == nil {
						continue
					}
					if tab := w.tabOfObj(o); tab != nil && !inFill(x.Pos(), tab) && (deref || o == tab.s) {
						kill(o)
					}
				}
			case *ast.IncDecStmt:
				if o, deref := base(x.X); o != nil && deref {
					kill(o)
				}
			case *ast.UnaryExpr:
				if x.Op == token.AND {
					if o, _ := base(x.X); o != nil {
						kill(o)
					}
				}
			case *ast.CallExpr:
				if m, _ := fdMemoCall(x, info, w.s.memo); m == "LoadOrStore" || m == "Store" {
					return true
				}
				if id, ok := fdUnparen(x.Fun).(*ast.Ident); ok {
					if b, isB := info.Uses[id].(*types.Builtin); isB && (b.Name() == "len" || b.Name() == "cap") {
						return true
					}
				}
				for _, a := range x.Args {
					if o := w.objOf(a); o != nil {
						kill(o)
					}
					if sl, ok := fdUnparen(a).(*ast.SliceExpr); ok {
						if o := w.objOf(sl.X); o != nil {
							kill(o)
						}
					}
				}
			case *ast.FuncLit:
				ast.Inspect(x, func(y ast.Node) bool {
					if id, ok := y.(*ast.Ident); ok {
						if o := info.Uses[id]; o != nil {
							kill(o)
						}
					}
					return true
				})
				return false
			case *ast.ReturnStmt:
				for _, e := range x.Results {
					if o := w.objOf(e); o != nil {
						kill(o)
					}
				}
			}
			return true
		})
		changed = len(t.by) != n0
	}
	for _, tab := range t.by {
		t.skip[tab.stmts[0]], t.skip[tab.stmts[1]] = true, true
	}
	return t
}

// tabOfObj: the table the variable stands for — the tabulated slice itself, or a variable all of whose
// assignments hand on one and the same table (directly, through a type assertion, through the value a
// memo table returns on a miss — what was offered — or on a hit for a key under which that table is
// stored in the same function).
func (w *fdWalker) tabOfObj(o types.Object) *fdTab {
	t := w.findTabs()
	if o == nil || len(t.by) == 0 {
		return nil
	}
	if tab, ok := t.by[o]; ok {
		return tab
	}
	if tab, ok := t.memo[o]; ok {
		return tab
	}
	if t.busy[o] {
		return nil
	}
	v, ok := o.(*types.Var)
	if !ok || v.IsField() || v.Pkg() == nil || v.Parent() == v.Pkg().Scope() || w.noFacts[v] {
		return nil
	}
	if _, isSlice := v.Type().Underlying().(*types.Slice); !isSlice {
		if _, isIface := v.Type().Underlying().(*types.Interface); !isIface {
			return nil
		}
	}
	t.busy[o] = true
	defer delete(t.busy, o)
	info := w.s.pkg.TypesInfo
	var res *fdTab
	n, bad := 0, false
	take := func(tab *fdTab) {
		n++
		if tab == nil || (res != nil && res != tab) {
			bad = true
		}
		res = tab
	}
	if mv, ok := w.s.memoVals[o]; ok {
		take(w.tabOf(mv))
	} else {
		ast.Inspect(w.fd.Body, func(x ast.Node) bool {
			switch x := x.(type) {
			case *ast.AssignStmt:
				for i, l := range x.Lhs {
					if w.objOf(l) != o {
						continue
					}
					if len(x.Rhs) == len(x.Lhs) {
						if x.Tok != token.ASSIGN && x.Tok != token.DEFINE {
							bad = true
						} else if zero := (&fdCtx{s: w.s}).isZeroConst(x.Rhs[i]); !zero {
							take(w.tabOf(x.Rhs[i]))
						}
						continue
					}
					// v, ok := T.Load(k): the entry under k
					if m, call := fdMemoCall(x.Rhs[0], info, w.s.memo); m == "Load" && i == 0 && len(call.Args) == 1 {
						take(w.tabStoredUnder(call))
						continue
					}
					bad = true
				}
			case *ast.RangeStmt:
				for _, e := range []ast.Expr{x.Key, x.Value} {
					if e != nil && w.objOf(e) == o {
						bad = true
					}
				}
			case *ast.IncDecStmt:
				if w.objOf(x.X) == o {
					bad = true
				}
			case *ast.ValueSpec:
				for i, id := range x.Names {
					if info.Defs[id] == o && len(x.Values) == len(x.Names) {
						take(w.tabOf(x.Values[i]))
					}
				}
			}
			return true
		})
	}
	if bad || n == 0 {
		res = nil
	}
	t.memo[o] = res
	return res
}

// tabStoredUnder: load is T.Load(k); the function stores a table in T under the same key (the only
// writing call on T in the function).
func (w *fdWalker) tabStoredUnder(load *ast.CallExpr) *fdTab {
	info := w.s.pkg.TypesInfo
	tObj := w.objOf(fdUnparen(load.Fun).(*ast.SelectorExpr).X)
	c := w.ctx()
	key := c.expr(load.Args[0])
	var res *fdTab
	n := 0
	ast.Inspect(w.fd.Body, func(x ast.Node) bool {
		call, ok := x.(*ast.CallExpr)
		if !ok {
			return true
		}
		if m, _ := fdMemoCall(call, info, w.s.memo); (m == "LoadOrStore" || m == "Store") && len(call.Args) == 2 &&
			w.objOf(fdUnparen(call.Fun).(*ast.SelectorExpr).X) == tObj {
			n++
			if w.ctx().expr(call.Args[0]) == key {
				res = w.tabOf(call.Args[1])
			} else {
				res = nil
				n++
			}
		}
		return true
	})
	if n != 1 {
		return nil
	}
	return res
}

// tabOf: the table an expression stands for (a name, or a type assertion of one).
func (w *fdWalker) tabOf(e ast.Expr) *fdTab {
	if w == nil || w.fd == nil {
		return nil
	}
	switch x := fdUnparen(e).(type) {
	case *ast.Ident:
		return w.tabOfObj(w.objOf(x))
	case *ast.TypeAssertExpr:
		if x.Type != nil {
			return w.tabOf(x.X)
		}
	}
	return nil
}

// rangeTabAsFor: `for i := range S` over a tabulated slice is the counting loop to its length.
func (w *fdWalker) rangeTabAsFor(s *ast.RangeStmt) *ast.ForStmt {
	if s.Value != nil || s.Key == nil {
		return nil
	}
	tab := w.tabOf(s.X)
	if tab == nil || w.tabs.skip[s] {
		return nil
	}
	return w.rangeIntAsFor(&ast.RangeStmt{For: s.For, Key: s.Key, Tok: s.Tok, TokPos: s.TokPos, Range: s.Range, X: tab.n, Body: s.Body})
}

// tabLen renders len(S) for a tabulated S.
func (c *fdCtx) tabLen(e *ast.CallExpr) (string, bool) {
	if c.w == nil || len(e.Args) != 1 {
		return "", false
	}
	id, ok := fdUnparen(e.Fun).(*ast.Ident)
	if !ok || id.Name != "len" {
		return "", false
	}
	if b, isB := c.obj(id).(*types.Builtin); !isB || b.Name() != "len" {
		return "", false
	}
	tab := c.w.tabOf(e.Args[0])
	if tab == nil {
		return "", false
	}
	return c.expr(tab.n), true
}

// tabElem renders S[j] for a tabulated S.
func (c *fdCtx) tabElem(e *ast.IndexExpr) (string, bool) {
	if c.w == nil || c.bind != nil {
		return "", false
	}
	tab := c.w.tabOf(e.X)
	if tab == nil {
		return "", false
	}
	c.bind = map[types.Object]ast.Expr{tab.idx: e.Index}
	s := c.expr(tab.elem)
	for _, f := range tab.over {
		if c.s.extraFields[f.field] {
			continue
		}
		s += "⟨" + f.field.Name() + ": " + c.expr(f.val) + "⟩"
	}
	c.bind = nil
	return s, true
}

// c10DebugObls (dev aid): with CTVERIF_C10_OBL=<substring> set, print the obligations whose key contains it.
func c10DebugObls(r *Run) {
	pat := os.Getenv("CTVERIF_C10_OBL")
	if pat == "" {
		return
	}
	for _, o := range r.Obls {
		if strings.Contains(o.Key, pat) {
			fmt.Fprintf(os.Stderr, "OBL ok=%v %s @%s: %s\n", o.OK, o.Key, o.Where, o.Detail)
		}
	}
}

// ---- part 3 (engine side): parameter structures ------------------------------------------------------
//
// (updater)  A function that only the fork has, takes one value of a struct type of the package (as
// receiver or parameter, by value), returns that type, and whose whole body is `p.f = <constant>` …
// `return p` gives back its argument with some fields set to constants: it has no effect and no site;
// what it does to the value is followed field by field where the value is used (the SSA executor of
// rules_t8c10_exec.go runs it).  Its calls are no `use` sites and it is no function "on the fork side
// only" that needs a drift entry.
//
// (structure parameter)  A struct parameter that only the fork's function has is not part of the
// residual as such, but when the function hands it on to a callee in the place where upstream passes
// a value of its own (`parseField(…, params)` where upstream has `fieldParameters{}`), what it holds
// is compared: it is rendered as the structure literal of its fields as rules_t8c10_elem.go evaluated
// them through every call site — a constant per field, nothing for the zero value (as in any literal),
// nothing for a field decided not to matter, `f: ⊘` for a field that is unknown and matters.

func fdUpdater(s *fdSide, fn *types.Func, fd *ast.FuncDecl) bool {
	if fn == nil || fd == nil || fd.Body == nil || len(fd.Body.List) == 0 {
		return false
	}
	info := s.pkg.TypesInfo
	sig := fn.Type().(*types.Signature)
	if sig.Variadic() || sig.Results().Len() != 1 {
		return false
	}
	var p *types.Var
	switch {
	case sig.Recv() != nil && sig.Params().Len() == 0:
		p = sig.Recv()
	case sig.Recv() == nil && sig.Params().Len() == 1:
		p = sig.Params().At(0)
	default:
		return false
	}
	n, ok := p.Type().(*types.Named)
	if !ok || n.Obj().Pkg() != s.pkg.Types || !fdIsStructType(p.Type()) || !types.Identical(sig.Results().At(0).Type(), p.Type()) {
		return false
	}
	isP := func(e ast.Expr) bool {
		id, ok := fdUnparen(e).(*ast.Ident)
		return ok && info.Uses[id] == types.Object(p)
	}
	last := len(fd.Body.List) - 1
	for i, st := range fd.Body.List {
		if i == last {
			ret, ok := st.(*ast.ReturnStmt)
			return ok && len(ret.Results) == 1 && isP(ret.Results[0])
		}
		a, ok := st.(*ast.AssignStmt)
		if !ok || a.Tok != token.ASSIGN || len(a.Lhs) != 1 || len(a.Rhs) != 1 {
			return false
		}
		sel, ok := fdUnparen(a.Lhs[0]).(*ast.SelectorExpr)
		if !ok || !isP(sel.X) {
			return false
		}
		if f, ok := info.Uses[sel.Sel].(*types.Var); !ok || !f.IsField() {
			return false
		}
		if tv, ok := info.Types[a.Rhs[0]]; !ok || (tv.Value == nil && !tv.IsNil()) {
			return false
		}
	}
	return false
}

// paramStruct renders a fork-only struct parameter whose fields have been evaluated.
func (c *fdCtx) paramStruct(o types.Object) (string, bool) {
	if c.s.elem == nil || c.s.elem.param == nil || c.s.elem.param != o {
		return "", false
	}
	st, ok := o.Type().Underlying().(*types.Struct)
	n, isNamed := o.Type().(*types.Named)
	if !ok || !isNamed {
		return "", false
	}
	var parts []string
	for i := 0; i < st.NumFields(); i++ {
		f := st.Field(i)
		if c.s.extraFields[f] {
			continue
		}
		v, known := c.s.elem.fields[f]
		switch {
		case !known, v == "!":
			parts = append(parts, f.Name()+": ⊘")
		case v == "?":
		case v == "=false", v == "=0", v == "=nil", v == `=""`:
		default:
			parts = append(parts, f.Name()+": "+strings.TrimPrefix(v, "="))
		}
	}
	return n.Obj().Name() + "{" + strings.Join(parts, ", ") + "}", true
}

var fdLocalNum = regexp.MustCompile(`\bL([0-9]+)\b`)

// fdRenumberLocals: after parts of a chain have been dropped, the locals are numbered 1, 2, … in the
// order of their old numbers (the order of first occurrence, which dropping does not change).
func fdRenumberLocals(text string) string {
	seen := map[int]bool{}
	for _, m := range fdLocalNum.FindAllStringSubmatch(text, -1) {
		n, _ := strconv.Atoi(m[1])
		seen[n] = true
	}
	var ns []int
	for n := range seen {
		ns = append(ns, n)
	}
	sort.Ints(ns)
	to := map[int]int{}
	for i, n := range ns {
		to[n] = i + 1
	}
	return fdLocalNum.ReplaceAllStringFunc(text, func(t string) string {
		n, _ := strconv.Atoi(t[1:])
		return fmt.Sprintf("L%d", to[n])
	})
}

// c10LaxPassThrough: call is a call of a function of the package that returns, on every path, the
// parameter structure it was given as argument k with the lax field as it was (the structure is held
// in a local reached only through its own address, nothing stores to its lax field or overwrites it
// as a whole): k, or -1.
func c10LaxPassThrough(li *c10LaxInfo, call *ssa.Call) int {
	cal := call.Common().StaticCallee()
	if cal == nil || len(cal.Blocks) == 0 || fnPkg(cal) == nil || ShortPkg(fnPkg(cal).Path()) != "asn1" || len(cal.Params) != len(call.Call.Args) {
		return -1
	}
	k := -1
	rets := Returns(cal)
	if len(rets) == 0 {
		return -1
	}
	for _, ret := range rets {
		if len(ret.Results) != 1 {
			return -1
		}
		var p *ssa.Parameter
		switch v := ret.Results[0].(type) {
		case *ssa.Parameter:
			p = v
		case *ssa.UnOp:
			al, ok := v.X.(*ssa.Alloc)
			if !ok || v.Op != token.MUL || !c14Private(al) {
				return -1
			}
			p = paramSpill(al)
			if p == nil {
				return -1
			}
			for _, ref := range *al.Referrers() {
				switch x := ref.(type) {
				case *ssa.Store:
					if x.Val != ssa.Value(p) {
						return -1 // overwritten as a whole
					}
				case *ssa.FieldAddr:
					if fieldOf(x) != li.field {
						continue
					}
					for _, fr := range *x.Referrers() {
						if _, isStore := fr.(*ssa.Store); isStore {
							return -1
						}
					}
				}
			}
		default:
			return -1
		}
		i := paramIndex(p)
		if i < 0 || (k >= 0 && k != i) {
			return -1
		}
		k = i
	}
	if k >= 0 && c10StructParamWith(cal, li.field) != k {
		return -1
	}
	return k
}
