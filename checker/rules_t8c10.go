package main

import (
	"fmt"
	"go/ast"
	"go/constant"
	"go/token"
	"go/types"
	"strings"
)

// C10.R3, round 8 (honest twins of the i / j seeds) — part 1: an early exit that changes nothing.
//
// A guard `if C { …; return E }` that one side has and the other has not is a difference of the
// normal forms (a condition, a return site, and `!(C)` in the chain of everything that follows).
// It is no difference of behaviour when, with C holding, the statements that follow the guard would
// have done the same: computed the same values with the same calls in the same order and returned
// the same results.  That is decided by executing both — the body of the guard and the statements
// after it — symbolically from the state at the guard:
//
//   - the guard stands in the statement list of the function body itself (what follows it runs to
//     the end of the function), has no initialiser and no else, and C is free of calls;
//   - from C, each conjunct `x == k` (x a local / result that is neither address-taken nor captured,
//     k a constant) fixes x; a variable the nil / zero facts of the walk know to be zero at the
//     guard (an error that every path so far has tested) holds its zero value;
//   - statements: assignments (n:n, op=, ++ / --), var declarations, expression statements, if and
//     three-clause for statements whose conditions evaluate to constants under what is known
//     (a loop that runs 0…8 rounds), blocks, return; expressions are folded where their operands
//     are constants and otherwise rendered in the walker's normal form with the known values put in;
//     every call evaluated is recorded, in order, with its arguments;
//   - anything else (a condition that does not evaluate, a range loop, a switch, a store through a
//     pointer or index, a function literal, …) makes the question undecided: the guard is walked as
//     it stands and is reported as the difference it is.
//
// When both executions end in a return, the guard is NEUTRAL iff the recorded calls and the returned
// values agree text for text; a neutral guard is passed over (on either side).  When they differ the
// guard is walked as it stands and, in addition, the two outcomes are reported side by side
// (`early-exit:<function>`): that is the clause "an equal value" stated for the inputs that take the
// exit — e.g. an empty SEQUENCE OF that decodes to the nil slice where the statements that follow
// yield an empty non-nil one (Marshal omits the former and emits the latter).

type fdNote struct {
	Kind string // key prefix of the obligation
	Fn   string
	Pos  token.Pos
	Text string
	Fork bool
}

type seVal struct {
	text string
	c    constant.Value
}

type seOutcome struct {
	results []string
	calls   []string
}

type seExec struct {
	w       *fdWalker
	c       *fdCtx
	env     map[types.Object]seVal
	calls   []string
	bad     bool
	done    bool
	out     []string
	results []*types.Var
	steps   int
}

func (x *seExec) fail() seVal { x.bad = true; return seVal{} }

func (x *seExec) objOf(id *ast.Ident) types.Object {
	info := x.w.s.pkg.TypesInfo
	o := info.Uses[id]
	if o == nil {
		o = info.Defs[id]
	}
	if m, ok := x.w.merge[o]; ok {
		o = m
	}
	return o
}

// plainVar: a local variable, parameter or named result whose only names are its identifier.
func (x *seExec) plainVar(o types.Object) bool {
	v, ok := o.(*types.Var)
	if !ok || v.IsField() || v.Pkg() == nil || v.Parent() == v.Pkg().Scope() || x.w.noFacts[v] {
		return false
	}
	_, aliased := x.w.alias[o]
	return !aliased
}

func seZero(t types.Type) (seVal, bool) {
	switch u := t.Underlying().(type) {
	case *types.Basic:
		switch {
		case u.Info()&types.IsBoolean != 0:
			return seVal{"false", constant.MakeBool(false)}, true
		case u.Info()&types.IsInteger != 0:
			return seVal{"0", constant.MakeInt64(0)}, true
		case u.Info()&types.IsString != 0:
			return seVal{`""`, constant.MakeString("")}, true
		}
	case *types.Pointer, *types.Interface, *types.Slice, *types.Map, *types.Chan, *types.Signature:
		return seVal{text: "nil"}, true
	}
	return seVal{}, false
}

// mentionsBound: e refers to a variable the execution holds a value for.
func (x *seExec) mentionsBound(e ast.Node) bool {
	hit := false
	ast.Inspect(e, func(n ast.Node) bool {
		if id, ok := n.(*ast.Ident); ok {
			if _, bound := x.env[x.objOf(id)]; bound {
				hit = true
			}
		}
		return !hit
	})
	return hit
}

func (x *seExec) eval(e ast.Expr) seVal {
	if x.bad {
		return seVal{}
	}
	info := x.w.s.pkg.TypesInfo
	if tv, ok := info.Types[e]; ok && tv.Value != nil {
		return seVal{tv.Value.ExactString(), tv.Value}
	}
	switch e := e.(type) {
	case *ast.ParenExpr:
		return x.eval(e.X)
	case *ast.Ident:
		o := x.objOf(e)
		if _, isNil := o.(*types.Nil); isNil {
			return seVal{text: "nil"}
		}
		if v, ok := x.env[o]; ok {
			return v
		}
		if def, ok := x.c.inline[o]; ok && x.mentionsBound(def) {
			return x.fail() // defined from a variable as it was then
		}
		return seVal{text: x.c.ident(e)}
	case *ast.UnaryExpr:
		v := x.eval(e.X)
		switch e.Op {
		case token.NOT, token.SUB, token.ADD, token.XOR:
			if v.c != nil {
				if r := constant.UnaryOp(e.Op, v.c, 0); r.Kind() != constant.Unknown {
					return seVal{r.ExactString(), r}
				}
			}
			return seVal{text: e.Op.String() + "(" + v.text + ")"}
		}
		return x.fail()
	case *ast.BinaryExpr:
		a, b := x.eval(e.X), x.eval(e.Y)
		if x.bad {
			return seVal{}
		}
		if a.c != nil && b.c != nil {
			switch e.Op {
			case token.EQL, token.NEQ, token.LSS, token.LEQ, token.GTR, token.GEQ:
				r := constant.MakeBool(constant.Compare(a.c, e.Op, b.c))
				return seVal{r.ExactString(), r}
			case token.LAND, token.LOR, token.ADD, token.SUB, token.MUL, token.AND, token.OR, token.XOR:
				if r := constant.BinaryOp(a.c, e.Op, b.c); r.Kind() != constant.Unknown {
					return seVal{r.ExactString(), r}
				}
			}
			return x.fail()
		}
		if e.Op == token.LAND || e.Op == token.LOR {
			// short circuit on a known left operand; an unknown one leaves the right operand's calls in doubt
			if a.c != nil {
				if constant.BoolVal(a.c) == (e.Op == token.LOR) {
					return a
				}
				return b
			}
			return x.fail()
		}
		return seVal{text: "(" + a.text + " " + e.Op.String() + " " + b.text + ")"}
	case *ast.SelectorExpr:
		if id, ok := e.X.(*ast.Ident); ok {
			if _, isPkg := x.objOf(id).(*types.PkgName); isPkg {
				return seVal{text: x.c.expr(e)}
			}
		}
		if sl := info.Selections[e]; sl == nil || sl.Kind() != types.FieldVal {
			return x.fail()
		}
		if !x.mentionsBound(e) {
			return seVal{text: x.c.expr(e)}
		}
		return seVal{text: x.eval(e.X).text + "." + e.Sel.Name}
	case *ast.CallExpr:
		if e.Ellipsis.IsValid() {
			return x.fail()
		}
		var args []string
		for _, a := range e.Args {
			args = append(args, x.eval(a).text)
		}
		if x.bad {
			return seVal{}
		}
		if tv, ok := info.Types[e.Fun]; ok && tv.IsType() {
			return seVal{text: x.c.typeExpr(e.Fun) + "(" + strings.Join(args, ", ") + ")"}
		}
		fun := ""
		pure := false
		switch f := fdUnparen(e.Fun).(type) {
		case *ast.Ident:
			switch o := x.objOf(f).(type) {
			case *types.Builtin:
				if o.Name() != "len" && o.Name() != "cap" {
					return x.fail()
				}
				fun, pure = o.Name(), true
			case *types.Func:
				fun = x.c.ident(f)
			default:
				return x.fail()
			}
		case *ast.SelectorExpr:
			if _, ok := x.objOf(f.Sel).(*types.Func); !ok {
				return x.fail()
			}
			if id, ok := f.X.(*ast.Ident); ok {
				if _, isPkg := x.objOf(id).(*types.PkgName); isPkg {
					fun = x.c.expr(f)
					break
				}
			}
			fun = x.eval(f.X).text + "." + f.Sel.Name
		default:
			return x.fail()
		}
		if x.bad {
			return seVal{}
		}
		// (the walker's own reading of argument lists: the fork's added arguments are not part of the residual)
		if drop := x.w.s.dropArgs[x.c.calleeObj(e)]; drop != nil {
			var kept []string
			for i, a := range args {
				if !drop[i] {
					kept = append(kept, a)
				}
			}
			args = kept
		}
		t := fun + "(" + strings.Join(args, ", ") + ")"
		if !pure {
			x.calls = append(x.calls, t)
		}
		return seVal{text: t}
	case *ast.CompositeLit, *ast.IndexExpr, *ast.SliceExpr, *ast.StarExpr, *ast.TypeAssertExpr:
		// rendered as it stands when nothing in it has a known value; a call inside is a call made
		if x.mentionsBound(e) {
			return x.fail()
		}
		hasCall := false
		ast.Inspect(e, func(n ast.Node) bool {
			switch n.(type) {
			case *ast.CallExpr, *ast.FuncLit:
				hasCall = true
			}
			return !hasCall
		})
		if hasCall {
			return x.fail()
		}
		return seVal{text: x.c.expr(e)}
	}
	return x.fail()
}

func (x *seExec) target(l ast.Expr) types.Object {
	id, ok := fdUnparen(l).(*ast.Ident)
	if !ok {
		x.bad = true
		return nil
	}
	if id.Name == "_" {
		return nil
	}
	o := x.objOf(id)
	if !x.plainVar(o) {
		x.bad = true
		return nil
	}
	return o
}

func (x *seExec) list(l []ast.Stmt) {
	for _, s := range l {
		if x.bad || x.done {
			return
		}
		x.stmt(s)
	}
}

func (x *seExec) stmt(s ast.Stmt) {
	if x.steps++; x.steps > 400 {
		x.bad = true
		return
	}
	if x.w.s.sinkStmts[s] {
		return
	}
	switch s := s.(type) {
	case *ast.EmptyStmt:
	case *ast.BlockStmt:
		x.list(s.List)
	case *ast.ExprStmt:
		if _, ok := fdUnparen(s.X).(*ast.CallExpr); !ok {
			x.bad = true
			return
		}
		x.eval(s.X)
	case *ast.AssignStmt:
		if len(s.Lhs) != len(s.Rhs) {
			x.bad = true
			return
		}
		if s.Tok != token.ASSIGN && s.Tok != token.DEFINE {
			if len(s.Lhs) != 1 {
				x.bad = true
				return
			}
			var op token.Token
			switch s.Tok {
			case token.ADD_ASSIGN:
				op = token.ADD
			case token.SUB_ASSIGN:
				op = token.SUB
			case token.MUL_ASSIGN:
				op = token.MUL
			default:
				x.bad = true
				return
			}
			o := x.target(s.Lhs[0])
			v := x.eval(&ast.BinaryExpr{X: s.Lhs[0], Op: op, Y: s.Rhs[0]})
			if o != nil && !x.bad {
				x.env[o] = v
			}
			return
		}
		vals := make([]seVal, len(s.Rhs))
		for i, r := range s.Rhs {
			vals[i] = x.eval(r)
		}
		for i, l := range s.Lhs {
			if o := x.target(l); o != nil && !x.bad {
				x.env[o] = vals[i]
			}
		}
	case *ast.IncDecStmt:
		op := token.ADD
		if s.Tok == token.DEC {
			op = token.SUB
		}
		o := x.target(s.X)
		if o == nil || x.bad {
			x.bad = true
			return
		}
		v := x.eval(s.X)
		if v.c == nil {
			x.env[o] = seVal{text: "(" + v.text + " " + op.String() + " 1)"}
			return
		}
		r := constant.BinaryOp(v.c, op, constant.MakeInt64(1))
		x.env[o] = seVal{r.ExactString(), r}
	case *ast.DeclStmt:
		gd, ok := s.Decl.(*ast.GenDecl)
		if !ok || gd.Tok != token.VAR {
			x.bad = gd == nil || gd.Tok != token.CONST && gd.Tok != token.TYPE
			return
		}
		for _, sp := range gd.Specs {
			vs := sp.(*ast.ValueSpec)
			if len(vs.Values) != 0 && len(vs.Values) != len(vs.Names) {
				x.bad = true
				return
			}
			for i, id := range vs.Names {
				var v seVal
				if len(vs.Values) > 0 {
					v = x.eval(vs.Values[i])
				} else {
					o := x.w.s.pkg.TypesInfo.Defs[id]
					if o == nil {
						continue
					}
					z, ok := seZero(o.Type())
					if !ok {
						z = seVal{text: "zero(" + fdTypeStr(o.Type()) + ")"}
					}
					v = z
				}
				if o := x.target(id); o != nil && !x.bad {
					x.env[o] = v
				}
			}
		}
	case *ast.IfStmt:
		if s.Init != nil {
			x.stmt(s.Init)
		}
		v := x.eval(s.Cond)
		if x.bad || v.c == nil || v.c.Kind() != constant.Bool {
			x.bad = true
			return
		}
		if constant.BoolVal(v.c) {
			x.list(s.Body.List)
		} else if s.Else != nil {
			x.stmt(s.Else)
		}
	case *ast.ForStmt:
		if s.Init != nil {
			x.stmt(s.Init)
		}
		if s.Cond == nil {
			x.bad = true
			return
		}
		for round := 0; ; round++ {
			v := x.eval(s.Cond)
			if x.bad || v.c == nil || v.c.Kind() != constant.Bool || round > 8 {
				x.bad = true
				return
			}
			if !constant.BoolVal(v.c) {
				return
			}
			// (a body with break / continue is not executed: BranchStmt is undecided)
			x.list(s.Body.List)
			if x.bad || x.done {
				return
			}
			if s.Post != nil {
				x.stmt(s.Post)
			}
		}
	case *ast.ReturnStmt:
		if len(s.Results) == 0 {
			for _, r := range x.results {
				if r.Name() == "" || r.Name() == "_" {
					x.bad = true
					return
				}
				if v, ok := x.env[r]; ok {
					x.out = append(x.out, v.text)
				} else {
					x.out = append(x.out, x.c.params[r])
				}
			}
			x.done = true
			return
		}
		if len(s.Results) != len(x.results) {
			x.bad = true // a call spread over the results
			return
		}
		for _, e := range s.Results {
			x.out = append(x.out, x.eval(e).text)
		}
		x.done = true
	default:
		x.bad = true
	}
}

// seAssume collects what cond == true fixes: conjuncts x == k.
func (x *seExec) assume(cond ast.Expr) {
	info := x.w.s.pkg.TypesInfo
	switch b := fdUnparen(cond).(type) {
	case *ast.BinaryExpr:
		if b.Op == token.LAND {
			x.assume(b.X)
			x.assume(b.Y)
			return
		}
		if b.Op != token.EQL {
			return
		}
		l, r := fdUnparen(b.X), fdUnparen(b.Y)
		if tv, ok := info.Types[l]; ok && tv.Value != nil {
			l, r = r, l
		}
		tv, ok := info.Types[r]
		id, isID := l.(*ast.Ident)
		if !ok || tv.Value == nil || !isID {
			return
		}
		if o := x.objOf(id); x.plainVar(o) {
			x.env[o] = seVal{tv.Value.ExactString(), tv.Value}
		}
	}
}

// neutralExit: list[i] is a guard that leaves the function and changes nothing (see above).
func (w *fdWalker) neutralExit(list []ast.Stmt, i int) bool {
	if w.fd == nil || w.fd.Body == nil || len(list) == 0 || len(w.fd.Body.List) != len(list) || w.fd.Body.List[0] != list[0] || len(w.frames) > 0 || len(w.loops) > 0 {
		return false
	}
	s, ok := list[i].(*ast.IfStmt)
	if !ok || s.Init != nil || s.Else != nil || !fdTerminates(s.Body.List) || i+1 >= len(list) {
		return false
	}
	info := w.s.pkg.TypesInfo
	if !fdSinkPure(s.Cond, info, 0) {
		return false
	}
	fo, _ := info.Defs[w.fd.Name].(*types.Func)
	if fo == nil {
		return false
	}
	sig := fo.Type().(*types.Signature)
	c := w.ctx()
	run := func(l []ast.Stmt) (*seExec, bool) {
		x := &seExec{w: w, c: c, env: map[types.Object]seVal{}}
		for k := 0; k < sig.Results().Len(); k++ {
			x.results = append(x.results, sig.Results().At(k))
		}
		// what the walk knows to be zero at the guard
		if w.facts != nil {
			for p, v := range w.facts.m {
				if v == 'z' && p.f == "" && x.plainVar(p.o) {
					if z, ok := seZero(p.o.Type()); ok {
						x.env[p.o] = z
					}
				}
			}
		}
		x.assume(s.Cond)
		x.list(l)
		return x, !x.bad && x.done
	}
	a, okA := run(s.Body.List)
	b, okB := run(list[i+1:])
	if !okA || !okB {
		return false
	}
	same := len(a.out) == len(b.out) && len(a.calls) == len(b.calls)
	for k := 0; same && k < len(a.out); k++ {
		same = a.out[k] == b.out[k]
	}
	for k := 0; same && k < len(a.calls); k++ {
		same = a.calls[k] == b.calls[k]
	}
	if same {
		return true
	}
	if w.dry == 0 {
		side := "upstream"
		if w.s.fork {
			side = "the fork"
		}
		desc := func(o *seExec) string {
			t := "returns (" + strings.Join(o.out, ", ") + ")"
			if len(o.calls) > 0 {
				t += " after calling " + strings.Join(o.calls, ", ")
			}
			return t
		}
		w.s.note(fdNote{Kind: "early-exit", Fn: w.fn, Pos: s.Cond.Pos(), Text: fmt.Sprintf("%s leaves %s early when %s and then %s; the statements that follow the exit, executed under the same condition, %s: the inputs that take the exit do not get the value (or the calls) they get without it",
			side, w.fn, c.expr(s.Cond), desc(a), desc(b))})
	}
	return false
}

func (s *fdSide) note(n fdNote) {
	for _, o := range s.notes {
		if o.Kind == n.Kind && o.Fn == n.Fn && o.Pos == n.Pos {
			return
		}
	}
	s.notes = append(s.notes, n)
}
