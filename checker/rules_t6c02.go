package main

import (
	"fmt"
	"go/constant"
	"go/token"
	"go/types"
	"math/big"
	"regexp"
	"sort"
	"strings"

	"golang.org/x/tools/go/ssa"
)

// Round 6, C02.R1 / C02.R3 (also run as C01.R11): the rules restated on the facts they establish, so
// that the "use the slices package / min" tidy-ups of ValidateChain and chainsEquivalent are decided
// like the loops they replace.
//
//	search results   idx := slices.IndexFunc(xs, pred); if idx < 0 { … }  reaches the checker as a loop that
//	                 leaves with "the position of the hit" or, exhausted, with −1, merged in a φ that is
//	                 compared with a constant.  Which side of that comparison an execution takes is a fact
//	                 of the edge it arrived over (evalOrdEdge, hooked into the σ-walk), and which of the
//	                 merged values a later instruction sees is a fact of the edges from which that
//	                 instruction can still be reached (edgesReaching).
//	lengths          "chainsEquivalent refuses other lengths than n or n+1" and "the element-wise comparison
//	                 covers the whole submitted chain" are linear facts over len(p0), len(p1): they are
//	                 decided per path from the branch outcomes of that path (pathCases + Fourier–Motzkin
//	                 entailment of ranges.go), however the test is spelled (two ≠, a difference, min()).
//	cells            a chain held in a variable that a function literal captures lives in a cell; how it is
//	                 filled is read off the stores to the cell (sliceFills, engine_window_c02c18.go).

// ---- integer comparisons of a merged search result -------------------------------------------------

func intConstVal(v ssa.Value) (int64, bool) {
	c, ok := v.(*ssa.Const)
	if !ok || c.Value == nil || c.Value.Kind() != constant.Int {
		return 0, false
	}
	return constant.Int64Val(c.Value)
}

func isIntegerType(t types.Type) bool {
	b, ok := t.Underlying().(*types.Basic)
	return ok && b.Info()&types.IsInteger != 0
}

// evalOrdEdge decides  x <op> c  (c an integer constant, either operand order) where x is a φ of the block
// blk being left and pred the edge through which blk was entered: the value that arrived over that edge is
// an integer constant, or a loop counter that is never negative (the index of a range loop).  U when the
// comparison is not of that form or the valuation fixes its atom.
func (d *Describer) evalOrdEdge(v *ssa.BinOp, s Sigma, blk *ssa.BasicBlock, pred int) Tri {
	if blk == nil || pred < 0 {
		return U
	}
	op := v.Op
	switch op {
	case token.EQL, token.NEQ, token.LSS, token.LEQ, token.GTR, token.GEQ:
	default:
		return U
	}
	x := v.X
	c, ok := intConstVal(v.Y)
	if !ok {
		if c, ok = intConstVal(v.X); !ok {
			return U
		}
		x = v.Y
		switch op { // c <op> x  ⇔  x <mirrored op> c
		case token.LSS:
			op = token.GTR
		case token.LEQ:
			op = token.GEQ
		case token.GTR:
			op = token.LSS
		case token.GEQ:
			op = token.LEQ
		}
	}
	ph, isPhi := x.(*ssa.Phi)
	if !isPhi || ph.Block() != blk || pred >= len(ph.Edges) || !isIntegerType(ph.Type()) || isInduction(ph) {
		return U
	}
	if _, fixed := s[d.Classify(v).Key]; fixed {
		return U // a valuation that fixes the comparison itself wins
	}
	// the range [lo, hi] of the value that arrived (hi open when !bounded)
	e := ph.Edges[pred]
	var lo, hi int64
	bounded := false
	if ev, isC := intConstVal(e); isC {
		lo, hi, bounded = ev, ev, true
	} else if nonNegCounter(e) {
		lo = 0
	} else {
		return U
	}
	tri := func(t, f bool) Tri {
		switch {
		case t:
			return T
		case f:
			return F
		}
		return U
	}
	switch op {
	case token.LSS:
		return tri(bounded && hi < c, lo >= c)
	case token.LEQ:
		return tri(bounded && hi <= c, lo > c)
	case token.GTR:
		return tri(lo > c, bounded && hi <= c)
	case token.GEQ:
		return tri(lo >= c, bounded && hi < c)
	case token.EQL:
		return tri(bounded && lo == c && hi == c, c < lo || bounded && c > hi)
	case token.NEQ:
		return tri(c < lo || bounded && c > hi, bounded && lo == c && hi == c)
	}
	return U
}

// walkEdge is Describer.Walk started in block from as entered over its predecessor edge pred, and without
// entering from a second time.
func (d *Describer) walkEdge(fn *ssa.Function, s Sigma, from *ssa.BasicBlock, pred int) *Reach {
	type st struct {
		b    *ssa.BasicBlock
		pred int
	}
	seen := map[st]bool{}
	r := &Reach{Blocks: map[*ssa.BasicBlock]bool{}, Edges: map[[2]int]bool{}}
	work := []st{{from, pred}}
	first := true
	for len(work) > 0 {
		c := work[len(work)-1]
		work = work[:len(work)-1]
		if seen[c] || c.b == from && !first {
			continue
		}
		first = false
		seen[c] = true
		r.Blocks[c.b] = true
		succs := c.b.Succs
		if n := len(c.b.Instrs); n > 0 {
			if ifi, ok := c.b.Instrs[n-1].(*ssa.If); ok {
				switch d.Eval(ifi.Cond, s, c.b, c.pred) {
				case T:
					succs = c.b.Succs[:1]
				case F:
					succs = c.b.Succs[1:2]
				}
			}
		}
		for _, sb := range succs {
			pi := -1
			for i, p := range sb.Preds {
				if p == c.b {
					pi = i
					break
				}
			}
			if sb != from {
				r.Edges[[2]int{c.b.Index, sb.Index}] = true
			}
			work = append(work, st{sb, pi})
		}
	}
	return r
}

// edgesReaching: the edges over which an execution consistent with σ can enter a block and then reach the
// instruction at without entering that block again — for a block with φ-nodes these are the edges whose
// values the instruction can see (the value of a φ at `at` is the one that arrived at the last entry of
// its block).  Blocks without φ-nodes keep the edges of the σ-walk from the entry.
func (r *Run) edgesReaching(fn *ssa.Function, s Sigma, at ssa.Instruction) *Reach {
	full := r.D.Walk(fn, s, nil, nil)
	r.Valuations++
	out := &Reach{Blocks: full.Blocks, Edges: map[[2]int]bool{}}
	for _, b := range fn.Blocks {
		hasPhi := false
		for _, in := range b.Instrs {
			if _, ok := in.(*ssa.Phi); ok {
				hasPhi = true
			}
		}
		for k, p := range b.Preds {
			e := [2]int{p.Index, b.Index}
			if !full.Edges[e] {
				continue
			}
			if !hasPhi {
				out.Edges[e] = true
				continue
			}
			if b == at.Block() || r.D.walkEdge(fn, s, b, k).Blocks[at.Block()] {
				out.Edges[e] = true
			}
			r.Valuations++
		}
	}
	return out
}

// ---- linear facts of the paths to a block ------------------------------------------------------------

// pathCase is one way to reach a block: the facts over the function's parameters that hold on it.
type pathCase struct {
	Reach *Reach // the edges of the path (blocks inside loops keep all their incoming edges: values merged there stay opaque)
	Facts []ineq
	Desc  string
}

var stableLeafRe = regexp.MustCompile(`^((len|cap)\(p\d+\)|p\d+)$`)

type linLit struct {
	a, b LinForm
	rel  map[string]bool // the relations a ~ b the branch outcome allows
}

// pathCases enumerates the simple paths from the entry of fn to block target and, for each, the linear facts
// its branch outcomes state about values that do not change during a call (parameters and their lengths;
// a ≠ outcome splits the path into the cases < and >).  A fact about anything else is left out, and φ-nodes
// are resolved over the path's edges only outside loops, so the facts of a returned case hold on every
// execution that follows the path after leaving out the cycles it ran through.  ok=false when there are too
// many paths to enumerate.
func (r *Run) pathCases(fn *ssa.Function, target *ssa.BasicBlock) (cases []pathCase, ok bool) {
	inLoop := map[*ssa.BasicBlock]bool{}
	for _, b := range fn.Blocks {
		inLoop[b] = loopHeaderOf(b) != nil
	}
	var paths [][]*ssa.BasicBlock
	onPath := map[*ssa.BasicBlock]bool{}
	var cur []*ssa.BasicBlock
	tooMany := false
	var dfs func(b *ssa.BasicBlock)
	dfs = func(b *ssa.BasicBlock) {
		if tooMany || onPath[b] {
			return
		}
		cur = append(cur, b)
		onPath[b] = true
		if b == target {
			paths = append(paths, append([]*ssa.BasicBlock{}, cur...))
			if len(paths) > 2048 {
				tooMany = true
			}
		} else {
			seenSucc := map[*ssa.BasicBlock]bool{}
			for _, sb := range b.Succs {
				if !seenSucc[sb] {
					seenSucc[sb] = true
					dfs(sb)
				}
			}
		}
		onPath[b] = false
		cur = cur[:len(cur)-1]
	}
	dfs(fn.Blocks[0])
	if tooMany {
		return nil, false
	}
	one := big.NewInt(1)
	for _, p := range paths {
		reach := &Reach{Blocks: map[*ssa.BasicBlock]bool{}, Edges: map[[2]int]bool{}}
		for i, b := range p {
			reach.Blocks[b] = true
			if i > 0 {
				reach.Edges[[2]int{p[i-1].Index, b.Index}] = true
			}
			if inLoop[b] {
				for _, q := range b.Preds {
					reach.Edges[[2]int{q.Index, b.Index}] = true
				}
			}
		}
		var lits []linLit
		leaves := map[string]bool{}
		for i := 0; i+1 < len(p); i++ {
			b := p[i]
			n := len(b.Instrs)
			if n == 0 {
				continue
			}
			ifi, isIf := b.Instrs[n-1].(*ssa.If)
			if !isIf || b.Succs[0] == b.Succs[1] {
				continue
			}
			if lit, ok := r.linLiteral(ifi.Cond, p[i+1] == b.Succs[0], reach, 0); ok {
				lits = append(lits, lit)
				for _, l := range []LinForm{lit.a, lit.b} {
					for k := range l.Coef {
						leaves[k] = true
					}
				}
			}
		}
		var base []ineq
		for _, k := range keysOf(leaves) {
			if strings.HasPrefix(k, "len(") || strings.HasPrefix(k, "cap(") {
				base = append(base, ineqFromLin(linLeaf(k), nil, -1)) // −len ≤ 0
			}
		}
		alts := [][]ineq{base}
		var words []string
		for _, lit := range lits {
			d := lit.a.add(lit.b, -1) // a − b
			var opts [][]ineq
			lt, eq, gt := lit.rel["<"], lit.rel["="], lit.rel[">"]
			rel := ""
			switch {
			case lt && eq && gt:
				continue
			case lt && eq:
				opts, rel = [][]ineq{{ineqFromLin(d, nil, 1)}}, "≤"
			case eq && gt:
				opts, rel = [][]ineq{{ineqFromLin(d, nil, -1)}}, "≥"
			case lt && gt:
				opts, rel = [][]ineq{{ineqFromLin(d, one, 1)}, {ineqFromLin(d, one, -1)}}, "≠"
			case lt:
				opts, rel = [][]ineq{{ineqFromLin(d, one, 1)}}, "<"
			case gt:
				opts, rel = [][]ineq{{ineqFromLin(d, one, -1)}}, ">"
			case eq:
				opts, rel = [][]ineq{{ineqFromLin(d, nil, 1), ineqFromLin(d, nil, -1)}}, "="
			default:
				continue
			}
			if _, trivial := d.isConst(); !trivial {
				words = append(words, strings.TrimPrefix(lit.a.String(), "+")+" "+rel+" "+strings.TrimPrefix(lit.b.String(), "+"))
			}
			var next [][]ineq
			for _, a := range alts {
				for _, o := range opts {
					next = append(next, append(append([]ineq{}, a...), o...))
				}
			}
			alts = next
			if len(alts) > 256 {
				return nil, false
			}
		}
		for _, a := range alts {
			cases = append(cases, pathCase{Reach: reach, Facts: a, Desc: strings.Join(words, " ∧ ")})
		}
	}
	return cases, true
}

// linLiteral: the linear reading of branch condition v having come out `outcome` on a path (φ-nodes over the
// path's edges); ok=false when v is not a comparison of integers over stable leaves.
func (r *Run) linLiteral(v ssa.Value, outcome bool, reach *Reach, depth int) (linLit, bool) {
	if depth > 6 {
		return linLit{}, false
	}
	switch x := v.(type) {
	case *ssa.UnOp:
		if x.Op == token.NOT {
			return r.linLiteral(x.X, !outcome, reach, depth+1)
		}
	case *ssa.Phi:
		var live []ssa.Value
		for i, e := range x.Edges {
			if reach.Edges[[2]int{x.Block().Preds[i].Index, x.Block().Index}] {
				live = append(live, e)
			}
		}
		if len(live) == 1 {
			return r.linLiteral(live[0], outcome, reach, depth+1)
		}
	case *ssa.BinOp:
		var rel map[string]bool
		switch x.Op {
		case token.EQL:
			rel = map[string]bool{"=": true}
		case token.NEQ:
			rel = map[string]bool{"<": true, ">": true}
		case token.LSS:
			rel = map[string]bool{"<": true}
		case token.LEQ:
			rel = map[string]bool{"<": true, "=": true}
		case token.GTR:
			rel = map[string]bool{">": true}
		case token.GEQ:
			rel = map[string]bool{">": true, "=": true}
		default:
			return linLit{}, false
		}
		if !isIntegerType(x.X.Type()) || !isIntegerType(x.Y.Type()) {
			return linLit{}, false
		}
		if !outcome {
			neg := map[string]bool{}
			for _, k := range []string{"<", "=", ">"} {
				if !rel[k] {
					neg[k] = true
				}
			}
			rel = neg
		}
		a, b := r.D.Lin(x.X, reach), r.D.Lin(x.Y, reach)
		for _, l := range []LinForm{a, b} {
			for k, c := range l.Coef {
				if c != 0 && !stableLeafRe.MatchString(k) {
					return linLit{}, false
				}
			}
		}
		return linLit{a, b, rel}, true
	}
	return linLit{}, false
}

func withFacts(facts []ineq, more ...ineq) []ineq { return append(append([]ineq{}, facts...), more...) }

// ---- C02.R3: chainsEquivalent ---------------------------------------------------------------------

// c02LengthFact decides "chainsEquivalent(in, v) answers anything but false only when len(in) is len(v) or
// len(v) − 1" on every shape of the length test: for every path to a return whose result on that path is
// not the constant false, the branch outcomes of the path entail 0 ≤ len(p1) − len(p0) ≤ 1.  Positive
// control: both fitting lengths do reach such a return.
func c02LengthFact(r *Run, fn *ssa.Function) {
	key := "chainsEquivalent:length"
	if len(fn.Params) != 2 {
		r.Fail(key, r.FnPos(fn), "undecided: chainsEquivalent does not take the submitted and the verified chain")
		return
	}
	diff := linLeaf("len(p1)").add(linLeaf("len(p0)"), -1) // len(v) − len(in)
	eqTo := func(c int64) []ineq {                         // len(v) − len(in) = c
		m := big.NewInt(-c)
		p := big.NewInt(c)
		return []ineq{ineqFromLin(diff, m, 1), ineqFromLin(diff, p, -1)}
	}
	bad, where := "", r.FnPos(fn)
	fits := map[int64]bool{}
	n := 0
	for _, ret := range Returns(fn) {
		cases, ok := r.pathCases(fn, ret.Block())
		if !ok {
			r.Fail(key, r.Where(ret), "undecided: too many paths to the return")
			return
		}
		for _, pc := range cases {
			if r.D.DUnder(ret.Results[0], pc.Reach) == "false" || fmInfeasible(pc.Facts) {
				continue
			}
			n++
			r.Valuations++
			longer := !entailsLE(pc.Facts, diff, nil, -1)            // not: len(v) − len(in) ≥ 0
			shorter := !entailsLE(pc.Facts, diff, big.NewInt(-1), 1) // not: len(v) − len(in) ≤ 1
			given := ""
			if pc.Desc != "" {
				given = " (path: " + clipStr(pc.Desc, 160) + ")"
			}
			if longer {
				bad, where = "the result "+clipStr(r.D.DUnder(ret.Results[0], pc.Reach), 60)+" is reachable with a submitted chain LONGER than the verified path (len(in) > len(v))"+given+": certificates submitted beyond the verified path are not refused", r.Where(ret)
			} else if shorter {
				bad, where = "the result "+clipStr(r.D.DUnder(ret.Results[0], pc.Reach), 60)+" is reachable with a submitted chain more than one certificate shorter than the verified path (len(in) < len(v) − 1)"+given, r.Where(ret)
			}
			for _, c := range []int64{0, 1} {
				if !fmInfeasible(withFacts(pc.Facts, eqTo(c)...)) {
					fits[c] = true
				}
			}
		}
	}
	if n == 0 {
		r.Fail(key, where, "undecided: no return of chainsEquivalent can answer anything but false")
		return
	}
	d := fmt.Sprintf("on all %d paths to a result other than false the branch outcomes entail len(in) ∈ {len(v), len(v)−1}", n)
	if bad != "" {
		d = bad
	}
	r.Check(key+"[len(in) ∉ {len(v), len(v)−1}]", bad == "", where, d)
	r.Check(key+"[length fits]", fits[0] && fits[1], r.FnPos(fn), fmt.Sprintf("a result other than false is reachable with len(in) = len(v): %v, with len(in) = len(v) − 1 (root omitted): %v", fits[0], fits[1]))
}

// c02CoversWhole: on every feasible path to call c, the slice value s (an operand of the element-wise
// comparison) is all of parameter p from its element 0: p itself, or p[lo:hi] with lo = 0 and the path's
// branch outcomes entailing hi = len(p).  Returns a description of what is missing ("" when whole).
func c02CoversWhole(r *Run, fn *ssa.Function, c *ssa.Call, s ssa.Value, p *ssa.Parameter, needEnd bool) string {
	if s == ssa.Value(p) {
		return ""
	}
	sl, ok := s.(*ssa.Slice)
	if !ok || sl.X != ssa.Value(p) {
		return "is not (a part of) " + r.D.D(p)
	}
	if sl.Low != nil && !isConstInt(sl.Low, 0) {
		return "starts at element " + r.D.D(sl.Low) + ", not at element 0"
	}
	if sl.High == nil || !needEnd {
		return ""
	}
	cases, ok := r.pathCases(fn, c.Block())
	if !ok {
		return "undecided: too many paths to the comparison"
	}
	pn := fmt.Sprintf("p%d", paramIndex(p))
	n := 0
	for _, pc := range cases {
		if fmInfeasible(pc.Facts) {
			continue
		}
		n++
		r.Valuations++
		hi := r.D.Lin(sl.High, pc.Reach)
		d := hi.add(linLeaf("len("+pn+")"), -1) // hi − len(p)
		if !entailsLE(pc.Facts, d, nil, -1) {   // hi ≥ len(p)
			given := ""
			if pc.Desc != "" {
				given = " on the path " + clipStr(pc.Desc, 160)
			}
			return "ends at element " + strings.TrimPrefix(hi.String(), "+") + ", which may be less than len(" + pn + ")" + given + ": the certificates from there on are not compared"
		}
		if !entailsLE(pc.Facts, d, nil, 1) { // hi ≤ len(p)
			return "ends at element " + strings.TrimPrefix(hi.String(), "+") + ", which is not known to be len(" + pn + ")"
		}
	}
	if n == 0 {
		return "undecided: no feasible path reaches the comparison"
	}
	return ""
}

// c02EqualFuncFacts is the element-wise comparison handed to the standard library, decided on facts:
// slices.EqualFunc(s1, s2, eq) is true iff len(s1) = len(s2) and eq(s1[i], s2[i]) for every i.  With s1 ALL of
// the submitted chain from element 0 (on every path that reaches the call) and s2 a part of the verified chain
// that starts at its element 0, a true verdict means every submitted certificate equals the verified one at
// its position.  Every result is the constant false or that verdict.
func c02EqualFuncFacts(r *Run, fn *ssa.Function, c *ssa.Call) {
	s1, s2, eq := c.Call.Args[0], c.Call.Args[1], c.Call.Args[2]
	r.Assume("slices.EqualFunc(s1, s2, eq) is true iff len(s1) = len(s2) and eq(s1[i], s2[i]) holds for every i (standard library)")
	miss := c02CoversWhole(r, fn, c, s1, fn.Params[0], true)
	d := "slices.EqualFunc compares every element of " + clipStr(r.D.D(s1), 80) + " (the whole submitted chain on every path to the comparison)"
	if miss != "" {
		d = "slices.EqualFunc compares " + clipStr(r.D.D(s1), 80) + ", which " + miss + " — not every submitted certificate is compared with the verified path"
	}
	r.Check("chainsEquivalent:all-submitted-certs", miss == "", r.Where(c), d)
	miss = c02CoversWhole(r, fn, c, s2, fn.Params[1], false)
	d = "… with the element at the same position of " + clipStr(r.D.D(s2), 80) + " (the verified chain from its element 0)"
	if miss != "" {
		d = "the other operand " + clipStr(r.D.D(s2), 80) + " " + miss + ": certificates are not compared with the verified one at the same position"
	}
	r.Check("chainsEquivalent:same-position", miss == "", r.Where(c), d)
	r.Check("chainsEquivalent:certificates-differ", forwardsTo(eq, "(*x509.Certificate).Equal"), r.Where(c), "elements are compared by "+r.D.D(eq)+" = (*x509.Certificate).Equal; one differing pair makes the result false")
	for _, ret := range Returns(fn) {
		leaves, ok := wPhiLeaves(ret.Results[0])
		for _, v := range leaves {
			ok = ok && (v == ssa.Value(c) || r.D.D(v) == "false")
		}
		r.Check("chainsEquivalent:true-only-after-loop", ok, r.Where(ret), "returns "+clipStr(r.D.D(ret.Results[0]), 100)+" (false, or the verdict of the element-wise comparison)")
	}
}

// ---- slices held in a cell -------------------------------------------------------------------------

// cellStores: a is a local slice variable that lives in a cell (because a function literal captures it):
// returns the whole-value stores to it; ok=false when the cell is written any other way (its address handed
// on, or written by a function literal that captures it).
func cellStores(a *ssa.Alloc) (stores []*ssa.Store, ok bool) {
	if a.Referrers() == nil {
		return nil, false
	}
	var readOnly func(v ssa.Value, depth int) bool
	readOnly = func(v ssa.Value, depth int) bool {
		if depth > 4 || v.Referrers() == nil {
			return false
		}
		for _, ref := range *v.Referrers() {
			switch x := ref.(type) {
			case *ssa.UnOp:
				if x.Op != token.MUL {
					return false
				}
			case *ssa.DebugRef:
			case *ssa.Store:
				if x.Addr != v || v != ssa.Value(a) {
					return false
				}
				stores = append(stores, x)
			case *ssa.MakeClosure:
				fn, isFn := x.Fn.(*ssa.Function)
				if !isFn {
					return false
				}
				for i, b := range x.Bindings {
					if b == v && (i >= len(fn.FreeVars) || !readOnly(fn.FreeVars[i], depth+1)) {
						return false
					}
				}
			default:
				return false
			}
		}
		return true
	}
	if !readOnly(a, 0) {
		return nil, false
	}
	sort.Slice(stores, func(i, j int) bool {
		if stores[i].Block().Index != stores[j].Block().Index {
			return stores[i].Block().Index < stores[j].Block().Index
		}
		return stores[i].Pos() < stores[j].Pos()
	})
	return stores, true
}
