package main

// Source normaliser, part 3: the general signature solver ("resig").
//
// signatureBack undoes the pure re-shapings it knows by name (permutation,
// method ↔ function, a parameter group folded into a new struct).  Engineers
// combine them, and add two more that only a look at the body and the call
// sites can identify:
//   - "fields for the object": the confirmed function takes the whole object
//     (receiver or parameter), the current one takes the field(s) it reads —
//     every call site passes X.f for the same X;
//   - "the object for fields": the confirmed function takes values that the
//     current one reads as fields of an object it now receives instead
//     (receiver or parameter) — the body only reads q.f.
// The solver expresses every confirmed parameter (receiver included) by the
// current ones — the same parameter, or q.f — and every current parameter by the
// confirmed ones — the same parameter, or b.f —, then rewrites declaration,
// body and all call sites.  It gives up unless every parameter on both sides is
// accounted for, every use is a direct call, the results are the same and every
// argument it has to move or duplicate is free of effects.

import (
	"go/ast"
	"go/parser"
	"go/token"
	"go/types"
	"strings"

	"golang.org/x/tools/go/ast/astutil"
)

type sigEntry struct {
	name, typ string
	recv      bool
	obj       *types.Var // current side only
	field     *ast.Field // current side only
}

// normTypeText: a canonical spelling of a type text — `interface{}` reads `any`, parameter and result names of
// function types are dropped.
func normTypeText(t string) string {
	t = strings.ReplaceAll(t, "interface{}", "any")
	if !strings.Contains(t, "func(") {
		return t
	}
	variadic := strings.HasPrefix(t, "...")
	e, err := parser.ParseExpr(strings.TrimPrefix(t, "..."))
	if err != nil {
		return t
	}
	strip := func(fl *ast.FieldList) {
		if fl == nil {
			return
		}
		var out []*ast.Field
		for _, f := range fl.List {
			n := len(f.Names)
			if n == 0 {
				n = 1
			}
			for i := 0; i < n; i++ {
				out = append(out, &ast.Field{Type: f.Type})
			}
		}
		fl.List = out
	}
	ast.Inspect(e, func(n ast.Node) bool {
		if ft, ok := n.(*ast.FuncType); ok {
			strip(ft.Params)
			strip(ft.Results)
		}
		return true
	})
	zeroPos(e)
	out := nodeText(e)
	if variadic {
		out = "..." + out
	}
	return out
}

func (in *inliner) resig(from, base, rel string) bool {
	info := in.info()
	var decl *ast.FuncDecl
	var dfile *ast.File
	for _, f := range in.pk.Syntax {
		for _, d := range f.Decls {
			if fd, ok := d.(*ast.FuncDecl); ok && funcKey(rel, fd) == from {
				decl, dfile = fd, f
			}
		}
	}
	if decl == nil || decl.Body == nil || in.fileUnsupported(dfile) {
		return false
	}
	obj, _ := info.Defs[decl.Name].(*types.Func)
	if obj == nil {
		return false
	}
	// results: the same, or the confirmed function had one more — a trailing error — that the current one
	// dropped because it was nil on every path
	addErr := false
	if br, cr := resultsOf(normTypeText(baselineSigs[base])), resultsOf(normTypeText(sigText(decl))); br != cr {
		switch {
		case cr == "()" && br == "(error)":
			addErr = true
		case strings.HasSuffix(br, ",error)") && strings.TrimSuffix(br, ",error)")+")" == cr:
			addErr = true
		default:
			return false
		}
		if decl.Type.Results != nil {
			for _, f := range decl.Type.Results.List {
				if len(f.Names) > 0 {
					return false
				}
			}
		}
	}
	type site struct {
		call *ast.CallExpr
		file *ast.File
	}
	var sites []site
	ok := true
	for _, f := range in.pk.Syntax {
		calls := map[*ast.Ident]*ast.CallExpr{}
		ast.Inspect(f, func(n ast.Node) bool {
			if c, isCall := n.(*ast.CallExpr); isCall {
				switch fx := c.Fun.(type) {
				case *ast.Ident:
					calls[fx] = c
				case *ast.SelectorExpr:
					calls[fx.Sel] = c
				}
			}
			return true
		})
		ast.Inspect(f, func(n ast.Node) bool {
			id, isId := n.(*ast.Ident)
			if !isId || info.Uses[id] != types.Object(obj) {
				return true
			}
			c := calls[id]
			if c == nil || in.fileUnsupported(f) || c.Ellipsis.IsValid() {
				ok = false
				return false
			}
			sites = append(sites, site{c, f})
			return true
		})
	}
	if !ok {
		return false
	}
	type errFix struct {
		assign *ast.AssignStmt
		spec   *ast.ValueSpec
	}
	var errFixes []errFix
	if addErr {
		nres := 0
		if decl.Type.Results != nil {
			nres = len(decl.Type.Results.List)
		}
		for _, s := range sites {
			var fix *errFix
			good := false
			ast.Inspect(s.file, func(n ast.Node) bool {
				switch x := n.(type) {
				case *ast.AssignStmt:
					if len(x.Rhs) == 1 && unparen(x.Rhs[0]) == ast.Expr(s.call) && len(x.Lhs) == nres && nres > 0 {
						fix, good = &errFix{assign: x}, true
					}
				case *ast.ValueSpec:
					if len(x.Values) == 1 && unparen(x.Values[0]) == ast.Expr(s.call) && len(x.Names) == nres && nres > 0 {
						fix, good = &errFix{spec: x}, true
					}
				case *ast.ExprStmt:
					if unparen(x.X) == ast.Expr(s.call) {
						good = true
					}
				}
				return true
			})
			if !good {
				return false
			}
			if fix != nil {
				errFixes = append(errFixes, *fix)
			}
		}
	}
	qual := in.qualifierAt(decl.Pos())
	tstr := func(t types.Type) string {
		bad := false
		s := types.TypeString(t, func(p *types.Package) string {
			n, ok := qual(p)
			if !ok {
				bad = true
			}
			return n
		})
		if bad {
			return ""
		}
		return normTypeText(s)
	}
	// a new unexported named type that only names a non-struct type reads as that type
	expandNew := func(t string) string {
		bt := strings.TrimPrefix(t, "*")
		if tn, ok := in.pk.Types.Scope().Lookup(bt).(*types.TypeName); ok && !ast.IsExported(bt) && baselineDecls[rel+":"+bt] == nil {
			switch tn.Type().Underlying().(type) {
			case *types.Struct, *types.Interface:
			default:
				if s := tstr(tn.Type().Underlying()); s != "" && bt == t {
					return s
				}
			}
		}
		return t
	}
	// ---- both parameter lists, receiver first
	var cur, bas []*sigEntry
	typText := func(e ast.Expr) string { return normTypeText(strings.Join(strings.Fields(nodeText(e)), " ")) }
	if decl.Recv != nil && len(decl.Recv.List) == 1 {
		f := decl.Recv.List[0]
		e := &sigEntry{name: "_", typ: typText(f.Type), recv: true, field: f}
		if len(f.Names) == 1 {
			e.name = f.Names[0].Name
			e.obj, _ = info.Defs[f.Names[0]].(*types.Var)
		}
		cur = append(cur, e)
	}
	if decl.Type.Params != nil {
		for _, f := range decl.Type.Params.List {
			if len(f.Names) == 0 {
				cur = append(cur, &sigEntry{name: "_", typ: typText(f.Type), field: &ast.Field{Type: f.Type}})
			}
			for _, n := range f.Names {
				e := &sigEntry{name: n.Name, typ: typText(f.Type), field: &ast.Field{Names: []*ast.Ident{n}, Type: f.Type}}
				e.obj, _ = info.Defs[n].(*types.Var)
				cur = append(cur, e)
			}
		}
	}
	brecv, bparams, _ := strings.Cut(baselineSpecs[base], "|")
	if brecv != "" {
		n, t, _ := strings.Cut(brecv, " ")
		bas = append(bas, &sigEntry{name: n, typ: normTypeText(t), recv: true})
	}
	if bparams != "" {
		for _, p := range strings.Split(bparams, ";") {
			n, t, _ := strings.Cut(p, " ")
			if strings.HasPrefix(t, "...") {
				return false
			}
			bas = append(bas, &sigEntry{name: n, typ: normTypeText(t)})
		}
	}
	for _, c := range cur {
		if strings.HasPrefix(c.typ, "...") {
			return false
		}
	}
	sameType := func(c, b *sigEntry) bool { return c.typ == b.typ || expandNew(c.typ) == b.typ }
	// ---- direct matches: name and type, then a type that is unique on both sides
	curOf := map[*sigEntry]*sigEntry{} // confirmed → current (direct)
	basOf := map[*sigEntry]*sigEntry{} // current → confirmed (direct)
	for _, b := range bas {
		for _, c := range cur {
			if basOf[c] == nil && curOf[b] == nil && c.name == b.name && c.name != "_" && sameType(c, b) {
				curOf[b], basOf[c] = c, b
			}
		}
	}
	for _, b := range bas {
		if curOf[b] != nil {
			continue
		}
		var cc []*sigEntry
		for _, c := range cur {
			if basOf[c] == nil && sameType(c, b) {
				cc = append(cc, c)
			}
		}
		nb := 0
		for _, b2 := range bas {
			if curOf[b2] == nil && b2.typ == b.typ {
				nb++
			}
		}
		if len(cc) == 1 && nb == 1 {
			curOf[b], basOf[cc[0]] = cc[0], b
		}
	}
	// same type several times on both sides, all still free: keep their relative order
	for _, b := range bas {
		if curOf[b] != nil {
			continue
		}
		var bb, cc []*sigEntry
		for _, b2 := range bas {
			if curOf[b2] == nil && b2.typ == b.typ {
				bb = append(bb, b2)
			}
		}
		for _, c := range cur {
			if basOf[c] == nil && sameType(c, b) {
				cc = append(cc, c)
			}
		}
		if len(bb) == len(cc) && len(bb) > 1 {
			for i := range bb {
				curOf[bb[i]], basOf[cc[i]] = cc[i], bb[i]
			}
		}
	}
	// ---- how the body uses each current parameter
	type useInfo struct {
		onlyFieldReads bool
		fields         map[string]*types.Var
		written        bool
		count          int
	}
	uses := map[*types.Var]*useInfo{}
	for _, c := range cur {
		if c.obj != nil {
			uses[c.obj] = &useInfo{onlyFieldReads: true, fields: map[string]*types.Var{}}
		}
	}
	selOf := map[*ast.Ident]*ast.SelectorExpr{}
	lhs := map[ast.Expr]bool{}
	addrOf := map[ast.Expr]bool{}
	ast.Inspect(decl.Body, func(n ast.Node) bool {
		switch x := n.(type) {
		case *ast.SelectorExpr:
			if id, ok := x.X.(*ast.Ident); ok {
				selOf[id] = x
			}
		case *ast.AssignStmt:
			for _, l := range x.Lhs {
				lhs[unparen(l)] = true
			}
		case *ast.IncDecStmt:
			lhs[unparen(x.X)] = true
		case *ast.RangeStmt:
			if x.Key != nil {
				lhs[unparen(x.Key)] = true
			}
			if x.Value != nil {
				lhs[unparen(x.Value)] = true
			}
		case *ast.UnaryExpr:
			if x.Op == token.AND {
				addrOf[unparen(x.X)] = true
			}
		}
		return true
	})
	ast.Inspect(decl.Body, func(n ast.Node) bool {
		id, ok := n.(*ast.Ident)
		if !ok {
			return true
		}
		v, _ := info.Uses[id].(*types.Var)
		u := uses[v]
		if u == nil {
			return true
		}
		u.count++
		if lhs[id] || addrOf[id] {
			u.written = true
		}
		se := selOf[id]
		if se == nil {
			u.onlyFieldReads = false
			return true
		}
		sel := info.Selections[se]
		if sel == nil || sel.Kind() != types.FieldVal || len(sel.Index()) != 1 || lhs[se] || addrOf[se] {
			u.onlyFieldReads = false
			return true
		}
		u.fields[se.Sel.Name] = sel.Obj().(*types.Var)
		return true
	})
	// a field that the body itself assigns is not read at one point in time only: no re-plumbing through it
	fieldWritten := map[string]bool{}
	for l := range lhs {
		if se, ok := l.(*ast.SelectorExpr); ok {
			fieldWritten[se.Sel.Name] = true
		}
	}
	for l := range addrOf {
		if se, ok := l.(*ast.SelectorExpr); ok {
			fieldWritten[se.Sel.Name] = true
		}
	}
	// ---- "the object for fields": a free current parameter q supplies free confirmed parameters by q.f
	type viaField struct {
		c     *sigEntry
		field string
	}
	fromField := map[*sigEntry]viaField{} // confirmed b = c.field
	for _, c := range cur {
		if basOf[c] != nil || c.obj == nil {
			continue
		}
		u := uses[c.obj]
		if u == nil || !u.onlyFieldReads || len(u.fields) == 0 {
			continue
		}
		plan := map[*sigEntry]string{}
		good := true
		var fnames []string
		for f := range u.fields {
			fnames = append(fnames, f)
		}
		sortStrings(fnames)
		for _, f := range fnames {
			if fieldWritten[f] {
				good = false
				break
			}
			ft := tstr(u.fields[f].Type())
			var bb []*sigEntry
			for _, b := range bas {
				if curOf[b] == nil && fromField[b].c == nil && plan[b] == "" && b.typ == ft && ft != "" {
					bb = append(bb, b)
				}
			}
			if len(bb) > 1 {
				var named []*sigEntry
				for _, b := range bb {
					lb, lf := strings.ToLower(b.name), strings.ToLower(f)
					if lb == lf || strings.Contains(lf, lb) || strings.Contains(lb, lf) {
						named = append(named, b)
					}
				}
				bb = named
			}
			if len(bb) != 1 {
				good = false
				break
			}
			plan[bb[0]] = f
		}
		if !good {
			continue
		}
		for b, f := range plan {
			fromField[b] = viaField{c, f}
		}
		basOf[c] = &sigEntry{name: "·object"} // accounted for
	}
	// ---- "fields for the object": free current parameters are fields of one free confirmed object
	argOf := func(s site, c *sigEntry) ast.Expr {
		if c.recv {
			if se, ok := s.call.Fun.(*ast.SelectorExpr); ok {
				return se.X
			}
			return nil
		}
		i := 0
		for _, c2 := range cur {
			if c2.recv {
				continue
			}
			if c2 == c {
				if i < len(s.call.Args) {
					return s.call.Args[i]
				}
				return nil
			}
			i++
		}
		return nil
	}
	nCurParams := 0
	for _, c := range cur {
		if !c.recv {
			nCurParams++
		}
	}
	for _, s := range sites {
		if len(s.call.Args) != nCurParams {
			return false
		}
		if len(cur) > 0 && cur[0].recv {
			se, isSel := s.call.Fun.(*ast.SelectorExpr)
			if !isSel {
				return false
			}
			if sel := info.Selections[se]; sel == nil || sel.Kind() != types.MethodVal || len(sel.Index()) != 1 {
				return false
			}
		} else if _, isId := s.call.Fun.(*ast.Ident); !isId {
			return false
		}
	}
	toField := map[*sigEntry]viaField{} // current c = b.field   (viaField.c holds the confirmed entry)
	for _, b := range bas {
		if curOf[b] != nil || fromField[b].c != nil || len(sites) == 0 {
			continue
		}
		bt := strings.TrimPrefix(b.typ, "*")
		tn := in.lookupTypeText(bt, dfile)
		if tn == nil {
			continue
		}
		st, _ := tn.Type().Underlying().(*types.Struct)
		if st == nil {
			continue
		}
		for _, c := range cur {
			if basOf[c] != nil || c.obj == nil || uses[c.obj].written {
				continue
			}
			fname := ""
			good := true
			for _, s := range sites {
				se, ok := unparen(argOf(s, c)).(*ast.SelectorExpr)
				if !ok {
					good = false
					break
				}
				sel := info.Selections[se]
				if sel == nil || sel.Kind() != types.FieldVal || len(sel.Index()) != 1 || !in.pure(se.X) {
					good = false
					break
				}
				xt := info.TypeOf(se.X)
				if p, isPtr := xt.(*types.Pointer); isPtr {
					xt = p.Elem()
				}
				if !types.Identical(xt, tn.Type()) || (fname != "" && fname != se.Sel.Name) || fieldWritten[se.Sel.Name] {
					good = false
					break
				}
				fname = se.Sel.Name
			}
			if good && fname != "" {
				toField[c] = viaField{b, fname}
			}
		}
		// all parameters taken from this object must name the same object at each site
		var mine []*sigEntry
		for _, c := range cur {
			if toField[c].c == b {
				mine = append(mine, c)
			}
		}
		if len(mine) == 0 {
			continue
		}
		same := true
		for _, s := range sites {
			x0 := exprText(unparen(argOf(s, mine[0])).(*ast.SelectorExpr).X)
			for _, c := range mine[1:] {
				if exprText(unparen(argOf(s, c)).(*ast.SelectorExpr).X) != x0 {
					same = false
				}
			}
		}
		if !same {
			for _, c := range mine {
				delete(toField, c)
			}
			continue
		}
		for _, c := range mine {
			basOf[c] = b
		}
		curOf[b] = &sigEntry{name: "·fields"}
	}
	// ---- everything accounted for?
	blankRecv := false
	for _, b := range bas {
		if curOf[b] == nil && fromField[b].c == nil {
			if b.recv {
				// nothing the current function receives stands for the confirmed receiver, and it compiles:
				// the receiver was not used.  Accepted only when the current function has no receiver at all
				// (the put-back one is blank)
				if len(cur) > 0 && cur[0].recv {
					return false
				}
				blankRecv = true
				continue
			}
			return false
		}
	}
	for _, c := range cur {
		if basOf[c] == nil {
			if c.obj != nil && uses[c.obj].count == 0 || c.name == "_" {
				continue // unused: dropped (its argument must be free of effects)
			}
			return false
		}
	}
	identity := len(cur) == len(bas)
	if identity {
		for i := range bas {
			if curOf[bas[i]] != cur[i] || bas[i].recv != cur[i].recv {
				identity = false
			}
		}
	}
	if identity && !addErr && decl.Name.Name == base[strings.LastIndex(base, ".")+1:] {
		return false // nothing to put back
	}
	for _, s := range sites {
		for _, c := range cur {
			if a := argOf(s, c); a == nil || !in.pure(a) {
				return false
			}
		}
	}
	// ---- names in use in the body (new parameter names must not capture)
	taken := map[string]bool{}
	ast.Inspect(decl, func(n ast.Node) bool {
		if id, ok := n.(*ast.Ident); ok {
			taken[id.Name] = true
		}
		return true
	})
	fresh := func(n string) string {
		if n == "_" || n == "" {
			n = "p"
		}
		for taken[n] {
			n += "_"
		}
		taken[n] = true
		return n
	}
	typeExpr := func(t string) ast.Expr {
		e, err := parser.ParseExpr(t)
		if err != nil {
			return nil
		}
		zeroPos(e)
		return e
	}
	// ---- the new declaration
	var newRecv *ast.Field
	var newParams []*ast.Field
	nameOf := map[*sigEntry]string{} // confirmed entry → its name in the rewritten declaration
	for _, b := range bas {
		var f *ast.Field
		switch {
		case curOf[b] != nil && curOf[b].field != nil:
			c := curOf[b]
			f = &ast.Field{Type: c.field.Type}
			if len(c.field.Names) == 1 {
				f.Names = []*ast.Ident{ast.NewIdent(c.field.Names[0].Name)}
				nameOf[b] = c.field.Names[0].Name
			} else {
				f.Names = []*ast.Ident{ast.NewIdent("_")}
			}
		default:
			te := typeExpr(b.typ)
			if te == nil {
				return false
			}
			n := "_"
			if !(b.recv && blankRecv && curOf[b] == nil && fromField[b].c == nil) {
				n = fresh(b.name)
			}
			nameOf[b] = n
			f = &ast.Field{Names: []*ast.Ident{ast.NewIdent(n)}, Type: te}
		}
		if b.recv {
			newRecv = f
		} else {
			newParams = append(newParams, f)
		}
	}
	newName := decl.Name.Name
	if i := strings.LastIndex(base, "."); i >= 0 {
		newName = base[i+1:]
	}
	if newRecv == nil && newName != decl.Name.Name && in.pk.Types.Scope().Lookup(newName) != nil {
		return false
	}
	if newRecv == nil && decl.Recv != nil && in.pk.Types.Scope().Lookup(newName) != nil {
		return false
	}
	// ---- call sites (computed before anything is changed)
	type rewrite struct {
		s    site
		fun  ast.Expr
		args []ast.Expr
	}
	var rws []rewrite
	clone := func(e ast.Expr) ast.Expr { return cloneNode(e, nil).(ast.Expr) }
	recvFor := func(call *ast.CallExpr, file *ast.File, brt string) ast.Expr {
		for _, d := range file.Decls {
			fd, ok := d.(*ast.FuncDecl)
			if !ok || fd.Body == nil || call.Pos() < fd.Body.Pos() || call.Pos() > fd.Body.End() {
				continue
			}
			if fd.Recv != nil && len(fd.Recv.List) == 1 && len(fd.Recv.List[0].Names) == 1 && fd.Recv.List[0].Names[0].Name != "_" {
				if typText(fd.Recv.List[0].Type) == brt {
					return ast.NewIdent(fd.Recv.List[0].Names[0].Name)
				}
			}
		}
		var e ast.Expr
		if strings.HasPrefix(brt, "*") {
			e, _ = parser.ParseExpr("(" + brt + ")(nil)")
		} else {
			e, _ = parser.ParseExpr(brt + "{}")
		}
		if e != nil {
			zeroPos(e)
		}
		return e
	}
	for _, s := range sites {
		actual := func(b *sigEntry) ast.Expr {
			switch {
			case curOf[b] != nil && curOf[b].field != nil:
				c := curOf[b]
				a := argOf(s, c)
				if c.recv && !b.recv {
					// receiver → parameter: spell out the implicit & or *
					_, wantPtr := obj.Type().(*types.Signature).Recv().Type().(*types.Pointer)
					_, havePtr := info.TypeOf(a).Underlying().(*types.Pointer)
					switch {
					case wantPtr && !havePtr:
						return &ast.UnaryExpr{Op: token.AND, X: clone(a)}
					case !wantPtr && havePtr:
						return &ast.StarExpr{X: clone(a)}
					}
				}
				return clone(a)
			case fromField[b].c != nil:
				v := fromField[b]
				// a field of a composite literal written at the call site is the element given for it (or the zero value)
				if cl, isLit := unparen(argOf(s, v.c)).(*ast.CompositeLit); isLit {
					if st, isStruct := info.TypeOf(cl).Underlying().(*types.Struct); isStruct {
						idx := -1
						for fi := 0; fi < st.NumFields(); fi++ {
							if st.Field(fi).Name() == v.field {
								idx = fi
							}
						}
						for i, el := range cl.Elts {
							if kv, isKV := el.(*ast.KeyValueExpr); isKV {
								if kid, ok := kv.Key.(*ast.Ident); ok && kid.Name == v.field {
									return clone(kv.Value)
								}
							} else if i == idx {
								return clone(el)
							}
						}
						if idx >= 0 {
							if z := zeroExprOf(st.Field(idx).Type(), tstr); z != nil {
								return z
							}
						}
					}
				}
				return &ast.SelectorExpr{X: parenUnlessSimple(clone(argOf(s, v.c))), Sel: ast.NewIdent(v.field)}
			case curOf[b] != nil: // "·fields": the object named at the site
				for _, c := range cur {
					if toField[c].c == b {
						x := clone(unparen(argOf(s, c)).(*ast.SelectorExpr).X)
						_, wantPtr := in.typeOfText(b.typ)
						_, havePtr := info.TypeOf(unparen(argOf(s, c)).(*ast.SelectorExpr).X).Underlying().(*types.Pointer)
						switch {
						case b.recv:
							return x
						case wantPtr && !havePtr:
							return &ast.UnaryExpr{Op: token.AND, X: x}
						case !wantPtr && havePtr:
							return &ast.StarExpr{X: x}
						}
						return x
					}
				}
			}
			return nil
		}
		rw := rewrite{s: s}
		for _, b := range bas {
			var a ast.Expr
			if b.recv && blankRecv && curOf[b] == nil && fromField[b].c == nil {
				a = recvFor(s.call, s.file, b.typ)
			} else {
				a = actual(b)
			}
			if a == nil {
				return false
			}
			if b.recv {
				rw.fun = &ast.SelectorExpr{X: parenUnlessSimple(a), Sel: ast.NewIdent(newName)}
			} else {
				rw.args = append(rw.args, a)
			}
		}
		if rw.fun == nil {
			rw.fun = ast.NewIdent(newName)
		}
		rws = append(rws, rw)
	}
	// ---- apply: call sites first (a recursive call is part of the body), then the body, then the declaration
	for _, rw := range rws {
		rw.s.call.Fun, rw.s.call.Args = rw.fun, rw.args
		in.changed[rw.s.file] = true
	}
	astutil.Apply(decl.Body, nil, func(c *astutil.Cursor) bool {
		switch x := c.Node().(type) {
		case *ast.SelectorExpr:
			if id, ok := x.X.(*ast.Ident); ok {
				if v, _ := info.Uses[id].(*types.Var); v != nil {
					for b, via := range fromField {
						if via.c.obj == v && via.field == x.Sel.Name {
							c.Replace(ast.NewIdent(nameOf[b]))
						}
					}
				}
			}
		case *ast.Ident:
			if v, _ := info.Uses[x].(*types.Var); v != nil {
				for cc, via := range toField {
					if cc.obj == v {
						if _, isKV := c.Parent().(*ast.KeyValueExpr); isKV && c.Name() == "Key" {
							return true
						}
						c.Replace(&ast.SelectorExpr{X: ast.NewIdent(nameOf[via.c]), Sel: ast.NewIdent(via.field)})
					}
				}
			}
		}
		return true
	})
	if addErr {
		var visit func(n ast.Node) bool
		visit = func(n ast.Node) bool {
			switch x := n.(type) {
			case *ast.FuncLit:
				return false
			case *ast.ReturnStmt:
				x.Results = append(x.Results, ast.NewIdent("nil"))
			}
			return true
		}
		ast.Inspect(decl.Body, visit)
		if decl.Type.Results == nil {
			decl.Type.Results = &ast.FieldList{}
			// a function without results may end without a return statement
			if n := len(decl.Body.List); n == 0 {
				decl.Body.List = append(decl.Body.List, &ast.ReturnStmt{Results: []ast.Expr{ast.NewIdent("nil")}})
			} else if _, isRet := decl.Body.List[n-1].(*ast.ReturnStmt); !isRet {
				decl.Body.List = append(decl.Body.List, &ast.ReturnStmt{Results: []ast.Expr{ast.NewIdent("nil")}})
			}
		}
		decl.Type.Results.List = append(decl.Type.Results.List, &ast.Field{Type: ast.NewIdent("error")})
		for _, fx := range errFixes {
			if fx.assign != nil {
				fx.assign.Lhs = append(fx.assign.Lhs, ast.NewIdent("_"))
			} else {
				fx.spec.Names = append(fx.spec.Names, ast.NewIdent("_"))
			}
		}
	}
	if newRecv != nil {
		decl.Recv = &ast.FieldList{List: []*ast.Field{newRecv}}
	} else {
		decl.Recv = nil
	}
	if decl.Type.Params == nil {
		decl.Type.Params = &ast.FieldList{}
	}
	decl.Type.Params.List = newParams
	if newName != decl.Name.Name {
		decl.Name = ast.NewIdent(newName)
	}
	in.changed[dfile] = true
	return true
}

// typeOfText: is the type text a pointer type?
func (in *inliner) typeOfText(t string) (string, bool) {
	return strings.TrimPrefix(t, "*"), strings.HasPrefix(t, "*")
}

func parenUnlessSimple(e ast.Expr) ast.Expr {
	switch e.(type) {
	case *ast.Ident, *ast.SelectorExpr, *ast.CallExpr, *ast.IndexExpr, *ast.ParenExpr:
		return e
	}
	return &ast.ParenExpr{X: e}
}

func sortStrings(s []string) {
	for i := 1; i < len(s); i++ {
		for j := i; j > 0 && s[j] < s[j-1]; j-- {
			s[j], s[j-1] = s[j-1], s[j]
		}
	}
}

// lookupTypeText resolves "T" or "pkg.T" as written in file to the named type.
func (in *inliner) lookupTypeText(t string, file *ast.File) *types.TypeName {
	q, name, qualified := strings.Cut(t, ".")
	if !qualified {
		tn, _ := in.pk.Types.Scope().Lookup(t).(*types.TypeName)
		return tn
	}
	for _, is := range file.Imports {
		n := ""
		if is.Name != nil {
			n = is.Name.Name
		} else {
			n = in.importedName(is)
		}
		if n != q {
			continue
		}
		path := strings.Trim(is.Path.Value, `"`)
		for _, imp := range in.pk.Types.Imports() {
			if imp.Path() == path {
				tn, _ := imp.Scope().Lookup(name).(*types.TypeName)
				return tn
			}
		}
	}
	return nil
}

// zeroExprOf: an expression for the zero value of t (nil when not expressible at this place).
func zeroExprOf(t types.Type, tstr func(types.Type) string) ast.Expr {
	switch u := t.Underlying().(type) {
	case *types.Pointer, *types.Slice, *types.Map, *types.Chan, *types.Signature, *types.Interface:
		ts := tstr(t)
		if ts == "" {
			return nil
		}
		e, err := parser.ParseExpr("(" + ts + ")(nil)")
		if err != nil {
			return nil
		}
		zeroPos(e)
		return e
	case *types.Basic:
		ts := tstr(t)
		if ts == "" {
			return nil
		}
		lit := "0"
		switch {
		case u.Info()&types.IsString != 0:
			lit = `""`
		case u.Info()&types.IsBoolean != 0:
			lit = "false"
		}
		e, err := parser.ParseExpr(ts + "(" + lit + ")")
		if err != nil {
			return nil
		}
		zeroPos(e)
		return e
	default:
		ts := tstr(t)
		if ts == "" {
			return nil
		}
		e, err := parser.ParseExpr(ts + "{}")
		if err != nil {
			return nil
		}
		zeroPos(e)
		return e
	}
}
