package main

// C11.R8 — "what the standard library's parser computes a value from, the fork computes it from too".
//
// Clause of C11: every well-formed certificate parses with exactly the field values the
// standard library parser reports.  A necessary condition that can be decided from source:
// for every function that exists under the same name in the fork's x509 package and in the
// crypto/x509 of the toolchain that type-checked the tree (both are in the same go/packages
// load, with function bodies), every value the function hands back on a path that is not a
// failure by construction — a non-error result, a field written through a pointer parameter,
// a field of the object it returns — depends in the fork on every *input part* it depends on
// in the standard library: the flag "this name-constraints extension has a name type I do not
// handle" depends on the permitted AND on the excluded subtrees, each Permitted…/Excluded…
// list on its own subtree, every name list of parseSANExtension on the extension bytes …
//
// An input part is a call into another package (cryptobyte, asn1, net, url, strings …),
// identified by callee and constant arguments and — for what the call writes through a
// pointer argument — by the argument position: `toplevel.ReadOptionalASN1(&permitted, &have,
// Tag(0)…)` yields the parts call:…ReadOptionalASN1[_,_,_,Constructed(ContextSpecific(0))]
// (the result) and …@1, …@2 (the bytes / the flag it stores).  Parameters are parts too.
// Dependence is data dependence through SSA values and through memory cells (locals whose
// address is taken, free variables of closures, objects behind pointer parameters) with
// per-use reaching definitions (a store that overwrites a cell ends the contribution of what
// was there before; a call that may write a cell adds to it), plus the conditions that select
// between several definitions reaching one use (φ, several reaching stores).  Functions of the
// same package and function literals are read through summaries instantiated per call site
// (context-sensitive), so `getValues(permitted)` and `getValues(excluded)` contribute their own
// part each, whether the closure hands its verdict back through a shared variable, a result,
// a struct or a pointer.
//
// The comparison is one-sided and modulo the fork's vocabulary: a part the standard library
// depends on that does not occur anywhere in the fork's function (the fork decodes with its
// own asn1 where the library uses cryptobyte) is not demanded.  Error results are not compared
// (the fork is lenient by design); only same-typed leading parameters are aligned.

import (
	"fmt"
	"go/token"
	"go/types"
	"os"
	"sort"
	"strconv"
	"strings"

	"golang.org/x/tools/go/ssa"
)

type tokSet map[string]bool

func (s tokSet) addAll(o tokSet) {
	for k := range o {
		s[k] = true
	}
}

func (s tokSet) sorted() []string {
	out := make([]string, 0, len(s))
	for k := range s {
		out = append(out, k)
	}
	sort.Strings(out)
	return out
}

// ---- abstract locations -----------------------------------------------------------------

type c11Loc struct {
	base  ssa.Value // *ssa.Alloc | *ssa.FreeVar | *ssa.Parameter (pointer)
	path  string    // ".f.g"; "" = the whole cell
	exact bool      // a store through this address overwrites exactly this location
}

func isPtrType(t types.Type) bool {
	_, ok := t.Underlying().(*types.Pointer)
	return ok
}

func c11Resolve(v ssa.Value) *c11Loc { return c11ResolveN(v, 0) }

func c11ResolveN(v ssa.Value, depth int) *c11Loc {
	if depth > 12 {
		return nil
	}
	switch x := v.(type) {
	case *ssa.Alloc:
		return &c11Loc{x, "", true}
	case *ssa.FreeVar:
		return &c11Loc{x, "", true}
	case *ssa.Parameter:
		if isPtrType(x.Type()) {
			return &c11Loc{x, "", true}
		}
	case *ssa.FieldAddr:
		if l := c11ResolveN(x.X, depth+1); l != nil {
			name := "?"
			if f := fieldOf(x); f != nil {
				name = f.Name()
			}
			return &c11Loc{l.base, l.path + "." + name, l.exact}
		}
	case *ssa.IndexAddr:
		if l := c11ResolveN(x.X, depth+1); l != nil {
			return &c11Loc{l.base, l.path, false}
		}
	case *ssa.Slice:
		if l := c11ResolveN(x.X, depth+1); l != nil {
			return &c11Loc{l.base, l.path, false}
		}
	case *ssa.ChangeType:
		return c11ResolveN(x.X, depth+1)
	case *ssa.MakeInterface:
		if isPtrType(x.X.Type()) {
			return c11ResolveN(x.X, depth+1)
		}
	case *ssa.MakeSlice:
		return &c11Loc{x, "", false}
	case *ssa.UnOp:
		if x.Op != token.MUL {
			return nil
		}
		// what a loaded pointer (or slice) points to is folded into the place it was loaded from
		if a, ok := x.X.(*ssa.Alloc); ok {
			// a cell that only ever holds one pointer is that pointer
			if p := paramSpill(a); p != nil && isPtrType(p.Type()) {
				return &c11Loc{p, "", true}
			}
			if u, ok := uniqueStore(a).(*ssa.Alloc); ok {
				return &c11Loc{u, "", true}
			}
		}
		if l := c11ResolveN(x.X, depth+1); l != nil {
			return &c11Loc{l.base, l.path, false}
		}
	}
	return nil
}

func pathRelated(p, q string) bool {
	return p == q || strings.HasPrefix(p, q+".") || strings.HasPrefix(q, p+".")
}

func pathCovers(def, use string) bool { return def == use || strings.HasPrefix(use, def+".") }

// ---- engine -------------------------------------------------------------------------------

type c11DepEngine struct {
	r    *Run
	sums map[*ssa.Function]*c11Sum
	busy map[*ssa.Function]bool
}

// c11Sum: what a function's outputs depend on, in terms of its own inputs
// (P<i> parameter value, P<i>* / FV<j>* what a pointer parameter / free variable points
// to on entry, CB<i> the result of calling parameter i) and of the parts it reads itself.
type c11Sum struct {
	fn     *ssa.Function
	res    []tokSet          // per result, all returns
	resOK  []tokSet          // per result, returns that are not failures by construction
	eff    map[string]tokSet // "P<i>.path" / "FV<j>.path" written, all returns
	effOK  map[string]tokSet
	objOK  map[string]tokSet // "ret#k.path": fields of a returned new object
	vocab  tokSet            // every part read anywhere in the function or below
	cbArgs map[int]tokSet    // parameter i is called: what its arguments depend on
	opaque bool
}

type c11Def struct {
	in   ssa.Instruction
	loc  c11Loc
	val  ssa.Value // store
	ci   *c11CallInfo
	tmpl tokSet // call effect: callee-side dependence, substituted per fix-point round
	env  int    // which environment of the call (0 callee, 1+k the k-th function literal argument)
	tok  string // opaque call: the part written through this argument
	deps tokSet
}

type c11CallInfo struct {
	in     ssa.CallInstruction
	sum    *c11Sum          // summarised callee
	mc     *ssa.MakeClosure // the callee is a function literal
	args   []ssa.Value
	label  string // opaque callee
	cbs    []c11CB
	inputs tokSet
	envs   []*c11Env
}

type c11CB struct {
	argIdx int
	mc     *ssa.MakeClosure
	sum    *c11Sum
}

type c11FA struct {
	e       *c11DepEngine
	fn      *ssa.Function
	val     map[ssa.Value]tokSet
	reach   [][]bool
	defsAt  map[ssa.Instruction][]*c11Def
	bases   map[ssa.Value]map[string]bool // base -> paths defined in fn
	calls   map[ssa.Instruction]*c11CallInfo
	rdMemo  map[string]*c11RD
	regMemo map[[2]int][]ssa.Value
	vocab   tokSet
	cbArgs  map[int]tokSet
	changed bool
}

type c11RD struct {
	defs  []*c11Def
	entry bool
}

func c11NormPkg(s string) string {
	s = strings.ReplaceAll(s, "vendor/", "")
	s = strings.ReplaceAll(s, ModPath+"/x509", "crypto/x509")
	s = strings.ReplaceAll(s, ModPath+"/asn1", "encoding/asn1")
	return s
}

// c11ConstTerm renders a value that is fixed at compile time (constants and calls of
// functions of other packages on constants only), "" otherwise.
func c11ConstTerm(v ssa.Value, depth int) string {
	if depth > 6 {
		return ""
	}
	switch x := v.(type) {
	case *ssa.Const:
		if x.Value == nil {
			return "nil"
		}
		return x.Value.ExactString()
	case *ssa.Convert:
		return c11ConstTerm(x.X, depth+1)
	case *ssa.ChangeType:
		return c11ConstTerm(x.X, depth+1)
	case *ssa.Call:
		f := x.Call.StaticCallee()
		if f == nil || x.Call.IsInvoke() || len(x.Call.Args) == 0 {
			return ""
		}
		var as []string
		for _, a := range x.Call.Args {
			t := c11ConstTerm(a, depth+1)
			if t == "" {
				return ""
			}
			as = append(as, t)
		}
		return f.Name() + "(" + strings.Join(as, ",") + ")"
	}
	return ""
}

func (e *c11DepEngine) samePkg(a, b *ssa.Function) bool {
	pa, pb := fnPkg(a), fnPkg(b)
	return pa != nil && pb != nil && pa.Path() == pb.Path()
}

func (e *c11DepEngine) Sum(fn *ssa.Function) *c11Sum {
	if s, ok := e.sums[fn]; ok {
		return s
	}
	if e.busy[fn] || len(fn.Blocks) == 0 {
		return nil
	}
	e.busy[fn] = true
	fa := &c11FA{e: e, fn: fn, val: map[ssa.Value]tokSet{}, defsAt: map[ssa.Instruction][]*c11Def{}, bases: map[ssa.Value]map[string]bool{},
		calls: map[ssa.Instruction]*c11CallInfo{}, rdMemo: map[string]*c11RD{}, regMemo: map[[2]int][]ssa.Value{}, vocab: tokSet{}, cbArgs: map[int]tokSet{}}
	s := fa.run()
	delete(e.busy, fn)
	e.sums[fn] = s
	if d := os.Getenv("CTVERIF_C11DEP_SUM"); d != "" && strings.Contains(fn.String(), d) {
		fmt.Printf("C11SUM %s\n", fn.String())
		for k, t := range s.res {
			fmt.Printf("  res#%d: %v\n", k, t.sorted())
		}
		for _, k := range keysOf(s.eff) {
			fmt.Printf("  eff %s: %v\n", k, s.eff[k].sorted())
		}
		for _, b := range fn.Blocks {
			for _, in := range b.Instrs {
				if v, ok := in.(ssa.Value); ok {
					fmt.Printf("    b%d %s = %s  :: %v\n", b.Index, v.Name(), in.String(), fa.val[v].sorted())
				}
				for _, d := range fa.defsAt[in] {
					fmt.Printf("    b%d DEF %s%s (%s) :: %v\n", b.Index, d.loc.base.Name(), d.loc.path, in.String(), d.deps.sorted())
				}
			}
		}
	}
	return s
}

func (fa *c11FA) addDef(d *c11Def) {
	d.deps = tokSet{}
	fa.defsAt[d.in] = append(fa.defsAt[d.in], d)
	if fa.bases[d.loc.base] == nil {
		fa.bases[d.loc.base] = map[string]bool{}
	}
	fa.bases[d.loc.base][d.loc.path] = true
}

func (fa *c11FA) calleeLabel(c *ssa.CallCommon) string {
	var name string
	switch {
	case c.IsInvoke():
		name = "iface(" + c11NormPkg(c.Value.Type().String()) + ")." + c.Method.Name()
	case c.StaticCallee() != nil:
		name = c11NormPkg(c.StaticCallee().String())
	default:
		return "dyn"
	}
	var as []string
	any := false
	for _, a := range c.Args {
		t := c11ConstTerm(a, 0)
		if t == "" {
			t = "_"
		} else {
			any = true
		}
		as = append(as, t)
	}
	if any {
		name += "[" + strings.Join(as, ",") + "]"
	}
	return name
}

func (fa *c11FA) prepare() {
	fn := fa.fn
	n := len(fn.Blocks)
	fa.reach = make([][]bool, n)
	for i, b := range fn.Blocks {
		fa.reach[i] = make([]bool, n)
		work := append([]*ssa.BasicBlock{}, b.Succs...)
		for len(work) > 0 {
			x := work[len(work)-1]
			work = work[:len(work)-1]
			if fa.reach[i][x.Index] {
				continue
			}
			fa.reach[i][x.Index] = true
			work = append(work, x.Succs...)
		}
	}
	for _, b := range fn.Blocks {
		for _, in := range b.Instrs {
			switch x := in.(type) {
			case *ssa.Store:
				if l := c11Resolve(x.Addr); l != nil {
					fa.addDef(&c11Def{in: in, loc: *l, val: x.Val})
				}
			case *ssa.MapUpdate:
				if l := c11Resolve(x.Map); l != nil {
					fa.addDef(&c11Def{in: in, loc: c11Loc{l.base, l.path, false}, val: x.Value})
				}
			case ssa.CallInstruction:
				if _, isGo := in.(*ssa.Go); isGo {
					continue
				}
				fa.prepareCall(x)
			}
		}
	}
}

func (fa *c11FA) effectDefs(ci *c11CallInfo, s *c11Sum, env int, args []ssa.Value, mc *ssa.MakeClosure) {
	for _, key := range keysOf(s.eff) {
		var target ssa.Value
		rest := ""
		i := strings.IndexAny(key, ".")
		head := key
		if i >= 0 {
			head, rest = key[:i], key[i:]
		}
		switch {
		case strings.HasPrefix(head, "FV"):
			k, _ := strconv.Atoi(head[2:])
			if mc != nil && k < len(mc.Bindings) {
				target = mc.Bindings[k]
			}
		case strings.HasPrefix(head, "P"):
			k, _ := strconv.Atoi(head[1:])
			if args != nil && k < len(args) {
				target = args[k]
			}
		}
		if target == nil {
			continue
		}
		l := c11Resolve(target)
		if l == nil {
			continue
		}
		loc := c11Loc{l.base, l.path + rest, false}
		// a cell that only holds one pointer: its fields are the fields of what it points to
		if a, ok := loc.base.(*ssa.Alloc); ok && loc.path != "" {
			if p := paramSpill(a); p != nil && isPtrType(p.Type()) {
				loc.base = p
			} else if u, ok := uniqueStore(a).(*ssa.Alloc); ok {
				loc.base = u
			}
		}
		fa.addDef(&c11Def{in: ci.in, loc: loc, ci: ci, tmpl: s.eff[key], env: env})
	}
}

func (fa *c11FA) prepareCall(in ssa.CallInstruction) {
	c := in.Common()
	ci := &c11CallInfo{in: in, inputs: tokSet{}}
	fa.calls[in] = ci
	if _, ok := c.Value.(*ssa.Builtin); ok {
		ci.args = c.Args
		ci.label = "builtin"
		if c.Value.Name() == "copy" && len(c.Args) == 2 {
			if l := c11Resolve(c.Args[0]); l != nil {
				fa.addDef(&c11Def{in: in, loc: c11Loc{l.base, l.path, false}, val: c.Args[1]})
			}
		}
		return
	}
	if c.IsInvoke() {
		ci.args = append([]ssa.Value{c.Value}, c.Args...)
	} else {
		ci.args = c.Args
	}
	// function literals handed to the callee
	for i, a := range ci.args {
		if mc, ok := a.(*ssa.MakeClosure); ok {
			if f, ok := mc.Fn.(*ssa.Function); ok {
				if s := fa.e.Sum(f); s != nil {
					ci.cbs = append(ci.cbs, c11CB{argIdx: i, mc: mc, sum: s})
				}
			}
		}
	}
	if callee := c.StaticCallee(); callee != nil && !c.IsInvoke() && len(callee.Blocks) > 0 && fa.e.samePkg(callee, fa.fn) {
		if s := fa.e.Sum(callee); s != nil {
			ci.sum = s
			ci.mc, _ = c.Value.(*ssa.MakeClosure)
			fa.vocab.addAll(s.vocab)
			fa.effectDefs(ci, s, 0, ci.args, ci.mc)
			for k, cb := range ci.cbs {
				fa.vocab.addAll(cb.sum.vocab)
				fa.effectDefs(ci, cb.sum, 1+k, nil, cb.mc)
			}
			return
		}
	}
	// a parameter that is called
	if p, ok := c.Value.(*ssa.Parameter); ok && !c.IsInvoke() {
		ci.label = "CB" + strconv.Itoa(paramIndex(p))
		if fa.cbArgs[paramIndex(p)] == nil {
			fa.cbArgs[paramIndex(p)] = tokSet{}
		}
		return
	}
	// a local function value that is not a literal at this point, an interface method, another package
	ci.label = "call:" + fa.calleeLabel(c)
	allConst := !c.IsInvoke() && c.StaticCallee() != nil && len(ci.args) > 0
	for _, a := range ci.args {
		if c11ConstTerm(a, 0) == "" {
			allConst = false
		}
	}
	if allConst {
		ci.label = "const"
		return
	}
	if f := c.StaticCallee(); f != nil && !c.IsInvoke() && nonNilMakers[FuncName(f)] {
		ci.label = "errmsg" // the text of an error (error results are not compared)
		return
	}
	fa.vocab[ci.label] = true
	for i, a := range ci.args {
		if _, isMC := a.(*ssa.MakeClosure); isMC {
			continue
		}
		if mi, ok := a.(*ssa.MakeInterface); ok {
			a = mi.X
		}
		if !isPtrType(a.Type()) {
			continue
		}
		if l := c11Resolve(a); l != nil {
			tok := ci.label + "@" + strconv.Itoa(i)
			fa.vocab[tok] = true
			fa.addDef(&c11Def{in: in, loc: c11Loc{l.base, l.path, false}, ci: ci, tok: tok})
		}
	}
	for k, cb := range ci.cbs {
		fa.vocab.addAll(cb.sum.vocab)
		fa.effectDefs(ci, cb.sum, 1+k, nil, cb.mc)
	}
}

// ---- reaching definitions -------------------------------------------------------------------

func (fa *c11FA) reaching(base ssa.Value, path string, at ssa.Instruction) *c11RD {
	key := fmt.Sprintf("%p|%s|%p", base, path, at)
	if rd, ok := fa.rdMemo[key]; ok {
		return rd
	}
	rd := &c11RD{}
	fa.rdMemo[key] = rd
	seenDef := map[*c11Def]bool{}
	seenBlk := map[*ssa.BasicBlock]bool{}
	var scan func(b *ssa.BasicBlock, from int)
	scan = func(b *ssa.BasicBlock, from int) {
		for i := from; i >= 0; i-- {
			in := b.Instrs[i]
			if a, ok := in.(*ssa.Alloc); ok && ssa.Value(a) == base {
				return // a fresh cell
			}
			killed := false
			for _, d := range fa.defsAt[in] {
				if d.loc.base != base || !pathRelated(d.loc.path, path) {
					continue
				}
				if !seenDef[d] {
					seenDef[d] = true
					rd.defs = append(rd.defs, d)
				}
				if d.loc.exact && d.val != nil && pathCovers(d.loc.path, path) {
					if _, isStore := in.(*ssa.Store); isStore {
						killed = true
					}
				}
			}
			if killed {
				return
			}
		}
		if b.Index == 0 {
			rd.entry = true
		}
		for _, p := range b.Preds {
			if !seenBlk[p] {
				seenBlk[p] = true
				scan(p, len(p.Instrs)-1)
			}
		}
	}
	b := at.Block()
	idx := -1
	for i, in := range b.Instrs {
		if in == at {
			idx = i
		}
	}
	scan(b, idx-1)
	return rd
}

// regionConds: the branch conditions that decide which of several definitions arrives
// at block t — those of the blocks between d (a dominator of all of them) and t.
func (fa *c11FA) regionConds(d, t *ssa.BasicBlock) []ssa.Value {
	k := [2]int{d.Index, t.Index}
	if v, ok := fa.regMemo[k]; ok {
		return v
	}
	var out []ssa.Value
	for _, x := range fa.fn.Blocks {
		if !d.Dominates(x) || !(x == d || fa.reach[d.Index][x.Index]) || !fa.reach[x.Index][t.Index] {
			continue
		}
		if x == t && !fa.reach[t.Index][t.Index] {
			continue
		}
		if ifi, ok := x.Instrs[len(x.Instrs)-1].(*ssa.If); ok {
			out = append(out, ifi.Cond)
		}
	}
	fa.regMemo[k] = out
	return out
}

func commonDom(a, b *ssa.BasicBlock) *ssa.BasicBlock {
	for a != nil && !a.Dominates(b) {
		a = a.Idom()
	}
	return a
}

// contents: what the location holds when `at` executes: what its reaching definitions
// stored, and — when a branch of this function selects between them, i.e. one of them does
// not lie on every way to `at` — the conditions between their common dominator and `at`.
// (Definitions that all dominate the use follow one another on every path: early exits in
// between decide whether the use is reached, not what it sees.)
func (fa *c11FA) contents(base ssa.Value, path string, at ssa.Instruction, withEntry bool) tokSet {
	out := tokSet{}
	rd := fa.reaching(base, path, at)
	dom := at.Block()
	selected := false
	for _, d := range rd.defs {
		out.addAll(d.deps)
		if !d.in.Block().Dominates(at.Block()) {
			selected = true
		}
		if c := commonDom(dom, d.in.Block()); c != nil {
			dom = c
		}
	}
	if rd.entry {
		dom = fa.fn.Blocks[0]
		if withEntry {
			switch x := base.(type) {
			case *ssa.Parameter:
				out["P"+strconv.Itoa(paramIndex(x))+"*"] = true
			case *ssa.FreeVar:
				out["FV"+strconv.Itoa(fvIndex(fa.fn, x))+"*"] = true
			}
		}
	}
	if selected {
		for _, c := range fa.regionConds(dom, at.Block()) {
			out.addAll(fa.val[c])
		}
	}
	return out
}

func fvIndex(fn *ssa.Function, fv *ssa.FreeVar) int {
	for i, x := range fn.FreeVars {
		if x == fv {
			return i
		}
	}
	return -1
}

// pointee: what a pointer-typed (or slice-typed) value lets the callee read, at `at`.
func (fa *c11FA) pointee(v ssa.Value, at ssa.Instruction) tokSet {
	if l := c11Resolve(v); l != nil {
		return fa.contents(l.base, l.path, at, true)
	}
	return tokSet{}
}

// ---- value dependence -------------------------------------------------------------------------

func (fa *c11FA) deps(v ssa.Value) tokSet {
	switch x := v.(type) {
	case *ssa.Parameter:
		return tokSet{"P" + strconv.Itoa(paramIndex(x)): true}
	case *ssa.Const, *ssa.Function, *ssa.Builtin, *ssa.Global, *ssa.FreeVar:
		return nil
	}
	return fa.val[v]
}

// flowInsensitive: everything ever stored into a local object (for a pointer that is used as a value).
func (fa *c11FA) allStored(base ssa.Value) tokSet {
	out := tokSet{}
	for _, ds := range fa.defsAt {
		for _, d := range ds {
			if d.loc.base == base {
				out.addAll(d.deps)
			}
		}
	}
	return out
}

func (fa *c11FA) set(v ssa.Value, s tokSet) {
	old := fa.val[v]
	if old == nil {
		old = tokSet{}
		fa.val[v] = old
	}
	for k := range s {
		if !old[k] {
			old[k] = true
			fa.changed = true
		}
	}
}

type c11Env struct {
	param  func(i int) tokSet
	paramC func(i int) tokSet
	fvC    func(j int) tokSet
	cb     func(i int) tokSet
}

func c11Subst(t tokSet, env *c11Env) tokSet {
	out := tokSet{}
	for k := range t {
		switch {
		case strings.HasPrefix(k, "call:") || strings.HasPrefix(k, "rec:"):
			out[k] = true
		case strings.HasPrefix(k, "FV") && strings.HasSuffix(k, "*"):
			j, _ := strconv.Atoi(k[2 : len(k)-1])
			out.addAll(env.fvC(j))
		case strings.HasPrefix(k, "CB"):
			i, _ := strconv.Atoi(k[2:])
			out.addAll(env.cb(i))
		case strings.HasPrefix(k, "P") && strings.HasSuffix(k, "*"):
			i, _ := strconv.Atoi(k[1 : len(k)-1])
			out.addAll(env.paramC(i))
		case strings.HasPrefix(k, "P"):
			i, _ := strconv.Atoi(k[1:])
			out.addAll(env.param(i))
		default:
			out[k] = true
		}
	}
	return out
}

func (fa *c11FA) envs(ci *c11CallInfo) []*c11Env {
	at := ci.in.(ssa.Instruction)
	none := func(int) tokSet { return nil }
	var envs []*c11Env
	// inputs of the call as a whole
	inputs := tokSet{}
	for _, a := range ci.args {
		if _, isMC := a.(*ssa.MakeClosure); isMC {
			continue
		}
		inputs.addAll(fa.argDeps(a))
		inputs.addAll(fa.pointee(a, at))
	}
	ci.inputs = inputs
	cbRes := func(i int) tokSet { // the result of calling function-valued parameter i
		out := tokSet{}
		for k, cb := range ci.cbs {
			if cb.argIdx == i && 1+k < len(envs) {
				for _, rs := range cb.sum.res {
					out.addAll(c11Subst(rs, envs[1+k]))
				}
			}
		}
		return out
	}
	e0 := &c11Env{
		param: func(i int) tokSet {
			if i < len(ci.args) {
				return fa.argDeps(ci.args[i])
			}
			return nil
		},
		paramC: func(i int) tokSet {
			if i < len(ci.args) {
				return fa.pointee(ci.args[i], at)
			}
			return nil
		},
		fvC: func(j int) tokSet {
			if ci.mc != nil && j < len(ci.mc.Bindings) {
				return fa.pointee(ci.mc.Bindings[j], at)
			}
			return nil
		},
		cb: cbRes,
	}
	envs = append(envs, e0)
	for _, cb := range ci.cbs {
		cb := cb
		// what the callee passes to the literal: what the summary recorded, or everything the call reads
		var args tokSet
		if ci.sum != nil {
			args = tokSet{}
			if t := ci.sum.cbArgs[cb.argIdx]; t != nil {
				args = c11Subst(t, &c11Env{param: e0.param, paramC: e0.paramC, fvC: e0.fvC, cb: none})
			}
		} else {
			args = tokSet{ci.label: true}
			args.addAll(inputs)
		}
		envs = append(envs, &c11Env{
			param:  func(int) tokSet { return args },
			paramC: func(int) tokSet { return args },
			fvC: func(j int) tokSet {
				if j < len(cb.mc.Bindings) {
					return fa.pointee(cb.mc.Bindings[j], at)
				}
				return nil
			},
			cb: none,
		})
	}
	return envs
}

func (fa *c11FA) step() {
	for _, b := range fa.fn.Blocks {
		for _, in := range b.Instrs {
			// definitions made here
			var envs []*c11Env
			if ci := fa.calls[in]; ci != nil {
				envs = fa.envs(ci)
				ci.envs = envs
				if p, ok := ci.in.Common().Value.(*ssa.Parameter); ok && strings.HasPrefix(ci.label, "CB") {
					fa.cbArgs[paramIndex(p)].addAll(ci.inputs)
				}
			}
			for _, d := range fa.defsAt[in] {
				var nd tokSet
				switch {
				case d.val != nil:
					nd = tokSet{}
					nd.addAll(fa.deps(d.val))
					if st, ok := in.(*ssa.Store); ok {
						nd.addAll(fa.addrDeps(st.Addr))
					}
				case d.tmpl != nil:
					nd = c11Subst(d.tmpl, envs[d.env])
				default:
					nd = tokSet{d.tok: true}
					nd.addAll(d.ci.inputs)
				}
				for k := range nd {
					if !d.deps[k] {
						d.deps[k] = true
						fa.changed = true
					}
				}
			}
			v, ok := in.(ssa.Value)
			if !ok {
				continue
			}
			out := tokSet{}
			switch x := in.(type) {
			case *ssa.Phi:
				for _, ed := range x.Edges {
					out.addAll(fa.deps(ed))
				}
				if d := b.Idom(); d != nil {
					for _, c := range fa.regionConds(d, b) {
						out.addAll(fa.deps(c))
					}
				}
			case *ssa.Alloc:
				out = fa.allStored(x)
			case *ssa.MakeSlice:
				out = fa.allStored(x)
				out.addAll(fa.deps(x.Len))
			case *ssa.MakeClosure:
				// the function value itself carries nothing; its effects arrive where it is called
			case *ssa.FieldAddr, *ssa.IndexAddr:
				out.addAll(fa.addrDeps(x.(ssa.Value)))
				if l := c11Resolve(x.(ssa.Value)); l != nil {
					if _, isAlloc := l.base.(*ssa.Alloc); isAlloc {
						out.addAll(fa.allStored(l.base))
					}
				}
			case *ssa.UnOp:
				if x.Op == token.MUL {
					out.addAll(fa.addrDeps(x.X))
					if l := c11Resolve(x.X); l != nil {
						out.addAll(fa.contents(l.base, l.path, in, true))
					} else {
						out.addAll(fa.deps(x.X))
					}
				} else {
					out.addAll(fa.deps(x.X))
				}
			case *ssa.Call:
				out = fa.callResult(fa.calls[in], envs)
			case *ssa.Extract:
				// a result of a summarised call: only that result's dependence
				if c, ok := x.Tuple.(*ssa.Call); ok {
					if ci := fa.calls[c]; ci != nil && ci.sum != nil && ci.envs != nil && x.Index < len(ci.sum.res) {
						out = c11Subst(ci.sum.res[x.Index], ci.envs[0])
						break
					}
				}
				out.addAll(fa.deps(x.Tuple))
			default:
				for _, op := range in.Operands(nil) {
					if *op != nil {
						out.addAll(fa.deps(*op))
					}
				}
			}
			fa.set(v, out)
		}
	}
}

// argDeps: what an argument carries as a value; for the address of a location that is its
// address only (what it points to at the time of the call is read by pointee).
func (fa *c11FA) argDeps(a ssa.Value) tokSet {
	if mi, ok := a.(*ssa.MakeInterface); ok && isPtrType(mi.X.Type()) {
		a = mi.X
	}
	if isPtrType(a.Type()) && c11Resolve(a) != nil {
		return fa.addrDeps(a)
	}
	return fa.deps(a)
}

func (fa *c11FA) addrDeps(a ssa.Value) tokSet {
	switch x := a.(type) {
	case *ssa.Alloc, *ssa.FreeVar, *ssa.Global:
		return nil
	case *ssa.FieldAddr:
		return fa.addrDeps(x.X)
	case *ssa.IndexAddr:
		out := tokSet{}
		out.addAll(fa.addrDeps(x.X))
		out.addAll(fa.deps(x.Index))
		return out
	case *ssa.UnOp:
		if x.Op == token.MUL {
			if _, ok := x.X.(*ssa.Alloc); ok {
				return fa.deps(x)
			}
		}
	}
	return fa.deps(a)
}

func (fa *c11FA) callResult(ci *c11CallInfo, envs []*c11Env) tokSet {
	out := tokSet{}
	if ci == nil {
		return out
	}
	switch {
	case ci.sum != nil:
		for _, rs := range ci.sum.res {
			out.addAll(c11Subst(rs, envs[0]))
		}
	case ci.label == "builtin":
		for _, a := range ci.args {
			out.addAll(fa.deps(a))
		}
	case ci.label == "const":
	case ci.label == "errmsg":
		// never nil, whatever the arguments: a test of the error learns nothing from them
	case strings.HasPrefix(ci.label, "CB"):
		out[ci.label] = true
		out.addAll(ci.inputs)
	default:
		out[ci.label] = true
		out.addAll(ci.inputs)
		for k := range ci.cbs {
			for _, rs := range ci.cbs[k].sum.res {
				out.addAll(c11Subst(rs, envs[1+k]))
			}
		}
	}
	return out
}

func (fa *c11FA) run() *c11Sum {
	fa.prepare()
	for round := 0; round < 40; round++ {
		fa.changed = false
		fa.step()
		if !fa.changed {
			break
		}
	}
	fn := fa.fn
	nres := fn.Signature.Results().Len()
	s := &c11Sum{fn: fn, eff: map[string]tokSet{}, effOK: map[string]tokSet{}, objOK: map[string]tokSet{}, vocab: fa.vocab, cbArgs: fa.cbArgs}
	for i := 0; i < nres; i++ {
		s.res = append(s.res, tokSet{})
		s.resOK = append(s.resOK, tokSet{})
	}
	errIdx := -1
	if nres > 0 && TypeName(fn.Signature.Results().At(nres-1).Type()) == "error" {
		errIdx = nres - 1
	}
	// returns that are failures by construction: the error handed back is a fresh error, or
	// the return sits behind the non-nil edge of a test of the very error it hands back
	failure := func(ret *ssa.Return) bool {
		if errIdx < 0 {
			return false
		}
		ev := ret.Results[errIdx]
		if errKind(ev) == "non" {
			return true
		}
		if _, isInstr := ev.(ssa.Instruction); isInstr && ev.Referrers() != nil {
			return nonNilEdgeDominates(fa.e.r, ev, ret.Block())
		}
		return false
	}
	// which of several success returns is taken selects the value handed back: the conditions
	// on the way to them are part of what a result depends on when they hand back different values
	var succ []*ssa.Return
	for _, ret := range Returns(fn) {
		if !failure(ret) {
			succ = append(succ, ret)
		}
	}
	for k := 0; k < nres && len(succ) > 1; k++ {
		differ := false
		for _, ret := range succ[1:] {
			a, b := succ[0].Results[k], ret.Results[k]
			if a != b && !(c11ConstTerm(a, 0) != "" && c11ConstTerm(a, 0) == c11ConstTerm(b, 0)) {
				differ = true
			}
		}
		if !differ {
			continue
		}
		for _, ret := range succ {
			for _, c := range fa.regionConds(fn.Blocks[0], ret.Block()) {
				s.res[k].addAll(fa.deps(c))
				s.resOK[k].addAll(fa.deps(c))
			}
		}
	}
	for _, ret := range Returns(fn) {
		ok := !failure(ret)
		for k, rv := range ret.Results {
			d := fa.deps(rv)
			s.res[k].addAll(d)
			if ok {
				s.resOK[k].addAll(d)
			}
			// the fields of a new object that is handed back
			if l := c11Resolve(rv); l != nil && ok {
				if a, isAlloc := l.base.(*ssa.Alloc); isAlloc && l.path == "" {
					for p := range fa.bases[a] {
						if p == "" {
							continue
						}
						key := "ret#" + strconv.Itoa(k) + p
						if s.objOK[key] == nil {
							s.objOK[key] = tokSet{}
						}
						s.objOK[key].addAll(fa.contents(a, p, ret, false))
					}
				}
			}
		}
		for base, paths := range fa.bases {
			var head string
			switch x := base.(type) {
			case *ssa.Parameter:
				head = "P" + strconv.Itoa(paramIndex(x))
			case *ssa.FreeVar:
				head = "FV" + strconv.Itoa(fvIndex(fn, x))
			default:
				continue
			}
			for p := range paths {
				key := head + p
				c := fa.contents(base, p, ret, false)
				if s.eff[key] == nil {
					s.eff[key] = tokSet{}
				}
				s.eff[key].addAll(c)
				if ok {
					if s.effOK[key] == nil {
						s.effOK[key] = tokSet{}
					}
					s.effOK[key].addAll(c)
				}
			}
		}
	}
	return s
}

// ---- the rule ---------------------------------------------------------------------------------

// c11ParserClosure: the fork's parser entry points and every function of package x509 they
// (transitively, statically) call or hand a function literal to.
func c11ParserClosure(r *Run, pkg *ssa.Package) map[*ssa.Function]bool {
	seen := map[*ssa.Function]bool{}
	var visit func(fn *ssa.Function)
	visit = func(fn *ssa.Function) {
		if fn == nil || seen[fn] || len(fn.Blocks) == 0 {
			return
		}
		if p := fnPkg(fn); p == nil || p.Path() != pkg.Pkg.Path() {
			return
		}
		seen[fn] = true
		eachInstr(fn, func(in ssa.Instruction) {
			for _, op := range in.Operands(nil) {
				switch x := (*op).(type) {
				case *ssa.Function:
					visit(x)
				case *ssa.MakeClosure:
					if f, ok := x.Fn.(*ssa.Function); ok {
						visit(f)
					}
				}
			}
		})
	}
	for name, m := range pkg.Members {
		if f, ok := m.(*ssa.Function); ok && strings.HasPrefix(name, "Parse") {
			visit(f)
		}
	}
	return seen
}

func c11TypeStr(t types.Type) string { return c11NormPkg(t.String()) }

// c11SameType: the same type up to the package the fork was copied from; a named type over
// bytes / a basic type (cryptobyte.String) stands for its underlying type.
func c11SameType(a, b types.Type) bool {
	if c11TypeStr(a) == c11TypeStr(b) {
		return true
	}
	simple := func(t types.Type) bool {
		switch u := t.Underlying().(type) {
		case *types.Basic:
			return true
		case *types.Slice:
			_, ok := u.Elem().Underlying().(*types.Basic)
			return ok
		}
		return false
	}
	return simple(a) && simple(b) && types.Identical(a.Underlying(), b.Underlying())
}

func c11SigCompatible(ff, sf *ssa.Function) bool {
	fp, sp := ff.Signature.Params(), sf.Signature.Params()
	frs, srs := ff.Signature.Results(), sf.Signature.Results()
	if fp.Len() < sp.Len() || frs.Len() != srs.Len() {
		return false
	}
	for i := 0; i < sp.Len(); i++ {
		if !c11SameType(fp.At(i).Type(), sp.At(i).Type()) {
			return false
		}
	}
	for i := 0; i < srs.Len(); i++ {
		if !c11SameType(frs.At(i).Type(), srs.At(i).Type()) {
			return false
		}
	}
	return true
}

// c11Alike: the fork's function is a (lenient) copy of the library's: every function of
// crypto/x509 the library's version calls exists in the fork under the same name with a
// compatible signature and is itself alike.  Where the fork decodes with other helpers
// (parsePublicKey over encoding/asn1 vs. cryptobyte) the dependence on input parts cannot be
// lined up part for part and the pair is left to the other rules.
func c11Alike(ff, sf *ssa.Function, fork, std *ssa.Package, seen map[string]bool) string {
	if seen[sf.Name()] {
		return ""
	}
	seen[sf.Name()] = true
	if !c11SigCompatible(ff, sf) {
		return "the signature " + c11TypeStr(ff.Signature) + " does not start with the standard library's " + c11TypeStr(sf.Signature)
	}
	why := ""
	var visit func(fn *ssa.Function)
	visit = func(fn *ssa.Function) {
		eachInstr(fn, func(in ssa.Instruction) {
			if why != "" {
				return
			}
			for _, op := range in.Operands(nil) {
				switch x := (*op).(type) {
				case *ssa.MakeClosure:
					if f, ok := x.Fn.(*ssa.Function); ok {
						visit(f)
					}
				case *ssa.Function:
					if x.Pkg != std || x.Parent() != nil || len(x.Blocks) == 0 {
						continue
					}
					if x.Signature.Recv() != nil {
						continue // methods of the library's own types: read through their summaries
					}
					g := fork.Func(x.Name())
					if g == nil || len(g.Blocks) == 0 {
						why = "crypto/x509's " + sf.Name() + " uses " + x.Name() + ", which the fork does not have"
						return
					}
					if w := c11Alike(g, x, fork, std, seen); w != "" {
						why = w
						return
					}
				}
			}
		})
	}
	visit(sf)
	return why
}

// anchors: pairs that must be comparable (confirmed by reading: same shape in the fork and in go1.23)
var c11DepAnchors = []string{"parseNameConstraintsExtension", "parseSANExtension"}

func c11StdDeps(r *Run) {
	std := r.P.SSA.ImportedPackage("crypto/x509")
	fork := r.P.SSA.ImportedPackage(ModPath + "/x509")
	if std == nil || fork == nil {
		r.Fail("packages", "-", "undecided: crypto/x509 or the fork's x509 package is not in the program")
		return
	}
	r.Assume("the crypto/x509 compared against is the one of the toolchain that type-checked the tree (same go/packages load); a call into another package reads and writes only what its arguments reach")
	eng := &c11DepEngine{r: r, sums: map[*ssa.Function]*c11Sum{}, busy: map[*ssa.Function]bool{}}
	parsers := c11ParserClosure(r, fork)
	var names []string
	for fn := range parsers {
		if fn.Parent() == nil && fn.Signature.Recv() == nil {
			if sf := std.Func(fn.Name()); sf != nil && len(sf.Blocks) > 0 {
				names = append(names, fn.Name())
			}
		}
	}
	sort.Strings(names)
	for _, a := range c11DepAnchors {
		found := false
		for _, n := range names {
			found = found || n == a
		}
		if !found {
			r.Fail("dep:"+a+":pair", "-", "undecided: "+a+" is not a function of both the fork's parser and crypto/x509")
		}
	}
	debug := os.Getenv("CTVERIF_C11DEP") != ""
	npairs, nout := 0, 0
	for _, name := range names {
		ff, sf := fork.Func(name), std.Func(name)
		// align the leading parameters and the results by type
		fp, sp := ff.Signature.Params(), sf.Signature.Params()
		frs, srs := ff.Signature.Results(), sf.Signature.Results()
		comparable := fp.Len() >= sp.Len() && frs.Len() == srs.Len()
		for i := 0; comparable && i < sp.Len(); i++ {
			comparable = c11SameType(fp.At(i).Type(), sp.At(i).Type())
		}
		for i := 0; comparable && i < srs.Len(); i++ {
			comparable = c11SameType(frs.At(i).Type(), srs.At(i).Type())
		}
		why := ""
		if comparable {
			why = c11Alike(ff, sf, fork, std, map[string]bool{})
			comparable = why == ""
		} else {
			why = "the signature " + c11TypeStr(ff.Signature) + " no longer starts with the standard library's " + c11TypeStr(sf.Signature)
		}
		if !comparable {
			isAnchor := false
			for _, a := range c11DepAnchors {
				isAnchor = isAnchor || a == name
			}
			if isAnchor {
				r.Fail("dep:"+name+":pair", r.FnPos(ff), "undecided: "+why)
			}
			continue
		}
		fs, ss := eng.Sum(ff), eng.Sum(sf)
		if fs == nil || ss == nil {
			r.Fail("dep:"+name+":pair", r.FnPos(ff), "undecided: no dependence summary")
			continue
		}
		r.Funcs[FuncName(ff)] = true
		npairs++
		vocab := tokSet{}
		vocab.addAll(fs.vocab)
		for i := 0; i < sp.Len(); i++ {
			vocab["P"+strconv.Itoa(i)] = true
			vocab["P"+strconv.Itoa(i)+"*"] = true
		}
		type outp struct{ f, s tokSet }
		outs := map[string]*outp{}
		put := func(key string, t tokSet, forkSide bool) {
			if outs[key] == nil {
				outs[key] = &outp{}
			}
			if forkSide {
				outs[key].f = t
			} else {
				outs[key].s = t
			}
		}
		for side, s := range []*c11Sum{fs, ss} {
			for k, t := range s.resOK {
				if TypeName(s.fn.Signature.Results().At(k).Type()) == "error" {
					continue
				}
				put("result#"+strconv.Itoa(k), t, side == 0)
			}
			for key, t := range s.objOK {
				put(key, t, side == 0)
			}
			for key, t := range s.effOK {
				if !strings.HasPrefix(key, "P") {
					continue
				}
				head := key
				if i := strings.Index(key, "."); i >= 0 {
					head = key[:i]
				}
				if i, err := strconv.Atoi(head[1:]); err != nil || i >= sp.Len() {
					continue
				}
				put(key, t, side == 0)
			}
		}
		for _, key := range keysOf(outs) {
			o := outs[key]
			if o.s == nil {
				continue
			}
			var need, missing []string
			for _, t := range o.s.sorted() {
				if vocab[t] {
					need = append(need, t)
					if o.f == nil || !o.f[t] {
						missing = append(missing, t)
					}
				}
			}
			if debug {
				fmt.Printf("C11DEP %s %s\n  std:  %v\n  fork: %v\n  need: %v\n", name, key, o.s.sorted(), sortedOrNil(o.f), need)
			}
			if len(need) == 0 {
				continue // nothing of what the library reads here exists in the fork's function: not comparable
			}
			nout++
			r.Valuations++
			detail := fmt.Sprintf("depends on all %d input parts the standard library's %s computes it from", len(need), name)
			if len(missing) > 0 {
				what := "does not depend on"
				if o.f == nil {
					what = "is not computed; the standard library computes it from"
				}
				detail = fmt.Sprintf("%s of the fork's %s %s %s, which crypto/x509 takes into account (and which the fork's function reads): the values differ from the standard library's on inputs where that part matters",
					c11OutName(ff, key), name, what, strings.Join(missing, ", "))
			}
			r.Check("dep:"+name+":"+key, len(missing) == 0, r.FnPos(ff), detail)
		}
	}
	// 16 pairs / 42 outputs on the unchanged tree (confirmed by reading the list); the two anchors fail
	// closed on their own, the floors leave room for a helper whose signature is reshaped
	r.Floor("function pairs compared with crypto/x509", npairs, 14)
	r.Floor("outputs compared with crypto/x509", nout, 36)
}

func sortedOrNil(t tokSet) []string {
	if t == nil {
		return nil
	}
	return t.sorted()
}

func c11OutName(fn *ssa.Function, key string) string {
	if strings.HasPrefix(key, "P") {
		head, rest := key, ""
		if i := strings.Index(key, "."); i >= 0 {
			head, rest = key[:i], key[i:]
		}
		if i, err := strconv.Atoi(head[1:]); err == nil && i < len(fn.Params) {
			return fn.Params[i].Name() + rest
		}
	}
	return key
}
