package main

import (
	"fmt"
	"sort"
	"strconv"

	"golang.org/x/tools/go/ssa"
)

// E5 TABLE — constant decision tables, extracted from the SSA decision
// structure (so a switch and an if-chain give the same table).
//
// For a scrutinee X (selected by a glob over origin terms) every comparison
// "X op const" in the function is an ord atom.  For each constant c that X is
// compared with, and for one value outside that set ("default"), the valuation
// that a run with X == c would produce is fully determined; the walk under it
// yields the returns/markers that may execute.

type ConstCase struct {
	Value   int64
	Default bool
	Reach   *Reach
	Sigma   Sigma
}

func (d *Describer) ConstTable(fn *ssa.Function, xGlob string, from *ssa.BasicBlock) ([]ConstCase, error) {
	atoms := d.AtomsOf(fn)
	type cmp struct {
		key     string
		c       int64
		xIsLeft bool
	}
	var cmps []cmp
	consts := map[int64]bool{}
	for k, ci := range atoms {
		if ci.Kind != "ord" {
			continue
		}
		if glob(xGlob, ci.A) {
			if c, err := strconv.ParseInt(ci.B, 10, 64); err == nil {
				cmps = append(cmps, cmp{k, c, true})
				consts[c] = true
			}
		} else if glob(xGlob, ci.B) {
			if c, err := strconv.ParseInt(ci.A, 10, 64); err == nil {
				cmps = append(cmps, cmp{k, c, false})
				consts[c] = true
			}
		}
	}
	if len(cmps) == 0 {
		return nil, fmt.Errorf("no comparison of %s with a constant in %s", xGlob, FuncName(fn))
	}
	var vals []int64
	for c := range consts {
		vals = append(vals, c)
	}
	sort.Slice(vals, func(i, j int) bool { return vals[i] < vals[j] })
	// default representative: a value not in the set
	def := vals[len(vals)-1] + 1
	mk := func(x int64, isDef bool) ConstCase {
		s := Sigma{}
		for _, c := range cmps {
			var rel string
			switch {
			case x < c.c:
				rel = "<"
			case x == c.c:
				rel = "="
			default:
				rel = ">"
			}
			if !c.xIsLeft { // key is ord(const, X): relation of const to X
				switch rel {
				case "<":
					rel = ">"
				case ">":
					rel = "<"
				}
			}
			s[c.key] = rel
		}
		return ConstCase{Value: x, Default: isDef, Reach: d.Walk(fn, s, from, nil), Sigma: s}
	}
	var out []ConstCase
	for _, v := range vals {
		out = append(out, mk(v, false))
	}
	out = append(out, mk(def, true))
	return out, nil
}

// reachableReturns lists the returns of fn that may execute under the reach set.
func reachableReturns(fn *ssa.Function, r *Reach) []*ssa.Return {
	var out []*ssa.Return
	for _, ret := range Returns(fn) {
		if r.Has(ret) {
			out = append(out, ret)
		}
	}
	return out
}
