package main

// Round 8 (honest twins of the round-5 seeds C06-j and C08-j): state added to LogSTHGetter next to the mechanism —
// a remembered last tree head whose signature is reused, and coalescing of concurrent fetches of the backend's root.
//
// C06.R1 is restated as facts about the values a success return of the getter hands out, whichever way they travel:
//
//   - results are read through the result variables go/ssa introduces in a function with a deferred call;
//   - "the root the STH is built from" is one SSA value R (TreeSize, Timestamp and root hash are all read from it) and
//     R *resolves to the decoded reply of a latest-root RPC sent for this instance*: through the success returns of any
//     number of functions / function literals called on the way, and through a memory cell of an object published in
//     a cell of the instance, provided every value ever stored there is such a root fetched for the instance the
//     object was published in AND the publisher withdraws the object on every way out (the fetch is in flight while
//     it can be found: a root of a finished fetch is never served);
//   - "the STH is signed" is, for every success return: signV1TreeHead was passed on every path to it, or the
//     signature is the one of a tree head the getter remembered, used only under an equality test of every field the
//     signature input is serialised from (read off ct.SerializeSTHSignatureInput), the remembered tree head being (a
//     copy of) one this function built, taken only after its signing succeeded with a non-empty signature, never
//     modified in place, and accessed under a mutex of the getter.
//
// C08.R7 reads results through result variables and through a cell the error was parked in, and gains two clauses:
// a context's error is handed on only as the gRPC status error of that context ("timeouts give 504"), and an error
// kept for other callers is the backend's error unchanged.

import (
	"fmt"
	"go/token"
	"go/types"
	"os"
	"sort"
	"strings"

	"golang.org/x/tools/go/ssa"
)

// ---- results of a return, success returns ----------------------------------------------------------------------

// c06OKReturns: the returns of fn whose error result — read through the result variables of a function with a
// deferred call — is the nil constant.  The recover block of such a function (it returns whatever the result
// variables hold) is not a return statement of the source.
func c06OKReturns(fn *ssa.Function) []*ssa.Return {
	var out []*ssa.Return
	for _, ret := range Returns(fn) {
		if ret.Block().Comment == "recover" {
			continue
		}
		vs := RetVals(ret)
		if n := len(vs); n > 0 && errKind(vs[n-1]) == "nil" {
			out = append(out, ret)
		}
	}
	return out
}

func c06RetInstrs(rets []*ssa.Return) []ssa.Instruction {
	var out []ssa.Instruction
	for _, x := range rets {
		out = append(out, x)
	}
	return out
}

// c06WantErr is wantErr(true) on the values a return hands out (read through result variables).
func c06WantErr(r *Run, ret *ssa.Return) (bool, string) {
	vs := RetVals(ret)
	n := len(vs)
	if n == 0 {
		return false, "no results"
	}
	if errKind(vs[n-1]) == "nil" {
		return false, "returns a nil error"
	}
	for i := 0; i < n-1; i++ {
		d := r.D.D(vs[i])
		if d != "nil" && d != "0" && d != `""` && d != "false" && !strings.HasPrefix(d, "zero:") {
			return false, fmt.Sprintf("result %d is %s, not a zero value", i, d)
		}
	}
	return true, ""
}

// c06ErrGate: once the error of call c is non-nil, no success return of fn may execute (and with a nil error one can).
func c06ErrGate(r *Run, fn *ssa.Function, key string, c ssa.CallInstruction) {
	name := CalleeOf(c)
	ev := c06ErrResult(c)
	if ev == nil {
		r.Fail(key+"@"+name, r.Where(c), "error result of "+name+" is discarded")
		return
	}
	tested := ev
	if !hasNilTest(ev) {
		for _, ref := range *ev.Referrers() {
			if ph, ok := ref.(*ssa.Phi); ok && hasNilTest(ph) {
				tested = ph
			}
		}
	}
	r.MustGuardFrom(fn, c.Block(), key+"@"+name, "nil?"+r.D.D(tested), "non", c06RetInstrs(c06OKReturns(fn)), "success return of "+FuncName(fn))
}

// c06ErrResult: the error (last) result of a call as an SSA value; nil when the call has none or it is unused.
func c06ErrResult(c ssa.CallInstruction) ssa.Value {
	v := c.Value()
	if v == nil {
		return nil
	}
	errT := types.Universe.Lookup("error").Type()
	if tup, ok := v.Type().(*types.Tuple); ok {
		if tup.Len() == 0 || !types.Identical(tup.At(tup.Len()-1).Type(), errT) {
			return nil
		}
		return CallResult(c, tup.Len()-1)
	}
	if !types.Identical(v.Type(), errT) {
		return nil
	}
	return v
}

// ---- small SSA readers -------------------------------------------------------------------------------------------

func c06StripConv(v ssa.Value) ssa.Value {
	for i := 0; i < 6; i++ {
		switch x := v.(type) {
		case *ssa.Convert:
			v = x.X
		case *ssa.ChangeType:
			v = x.X
		default:
			return v
		}
	}
	return v
}

// c06FieldLoad: v is a load of field `field` of the struct *base points to (or base is the address of); base, ok.
func c06FieldLoad(v ssa.Value, field string) (ssa.Value, bool) {
	ld, ok := c06StripConv(v).(*ssa.UnOp)
	if !ok || ld.Op != token.MUL {
		return nil, false
	}
	fa, ok := ld.X.(*ssa.FieldAddr)
	if !ok {
		return nil, false
	}
	if fv := fieldOf(fa); fv == nil || fv.Name() != field {
		return nil, false
	}
	return fa.X, true
}

// c06FieldLoadsIn: the bases of all loads of a field of named struct type tname (last path element) that feed v
// through arithmetic and conversions.
func c06FieldLoadsIn(v ssa.Value, tname, field string) []ssa.Value {
	var out []ssa.Value
	seen := map[ssa.Value]bool{}
	var visit func(v ssa.Value, depth int)
	visit = func(v ssa.Value, depth int) {
		if v == nil || seen[v] || depth > 10 {
			return
		}
		seen[v] = true
		switch x := v.(type) {
		case *ssa.Convert:
			visit(x.X, depth+1)
		case *ssa.ChangeType:
			visit(x.X, depth+1)
		case *ssa.BinOp:
			visit(x.X, depth+1)
			visit(x.Y, depth+1)
		case *ssa.UnOp:
			if x.Op != token.MUL {
				visit(x.X, depth+1)
				return
			}
			if fa, ok := x.X.(*ssa.FieldAddr); ok {
				if fv := fieldOf(fa); fv != nil && fv.Name() == field && c06PointeeName(fa.X.Type()) == tname {
					out = append(out, fa.X)
				}
				return
			}
			if a, ok := x.X.(*ssa.Alloc); ok {
				if sv := uniqueStore(a); sv != nil {
					visit(sv, depth+1)
				}
			}
		}
	}
	visit(v, 0)
	return out
}

// c06PointeeName: the name of the named type t points to (or is); "" otherwise.
func c06PointeeName(t types.Type) string {
	if p, ok := t.Underlying().(*types.Pointer); ok {
		t = p.Elem()
	}
	if n, ok := t.(*types.Named); ok {
		return n.Obj().Name()
	}
	return ""
}

// c06LocalObj: the object a pointer value of a function denotes when that is decided locally — an allocation, or
// what a local pointer variable holds that is assigned exactly once (a variable captured by a closure lives in such a
// cell).
func c06LocalObj(v ssa.Value) *ssa.Alloc {
	for i := 0; i < 4 && v != nil; i++ {
		switch x := v.(type) {
		case *ssa.Alloc:
			if _, isPtr := x.Type().(*types.Pointer).Elem().Underlying().(*types.Pointer); !isPtr {
				return x
			}
			return nil
		case *ssa.UnOp:
			if x.Op != token.MUL {
				return nil
			}
			pv, ok := x.X.(*ssa.Alloc)
			if !ok {
				return nil
			}
			v = c06OnlyStore(pv)
		default:
			return nil
		}
	}
	return nil
}

// c06OnlyStore: the value of the one store into local pv (nil when there is none or more than one, in pv's function
// or in a closure that captures pv).
func c06OnlyStore(pv *ssa.Alloc) ssa.Value {
	var val ssa.Value
	n := 0
	var visit func(addr ssa.Value, fn *ssa.Function)
	visit = func(addr ssa.Value, fn *ssa.Function) {
		refs := addr.Referrers()
		if refs == nil {
			n = 2
			return
		}
		for _, ref := range *refs {
			switch x := ref.(type) {
			case *ssa.Store:
				if x.Addr == addr {
					n++
					val = x.Val
				} else {
					n = 2 // the address itself is stored away
				}
			case *ssa.MakeClosure:
				cf, _ := x.Fn.(*ssa.Function)
				for i, b := range x.Bindings {
					if b == addr && cf != nil && i < len(cf.FreeVars) {
						visit(cf.FreeVars[i], cf)
					}
				}
			}
		}
	}
	visit(pv, pv.Parent())
	if n != 1 {
		return nil
	}
	return val
}

// c06InstanceOf: the parameter a value of fn stands for — the parameter itself, a load of the local it was spilled to
// (a parameter captured by a closure), or, inside a closure, a load of the free variable bound to such a local of the
// enclosing function.
func c06InstanceOf(v ssa.Value) *ssa.Parameter {
	switch x := v.(type) {
	case *ssa.Parameter:
		return x
	case *ssa.UnOp:
		if x.Op != token.MUL {
			return nil
		}
		switch a := x.X.(type) {
		case *ssa.Alloc:
			return paramSpill(a)
		case *ssa.FreeVar:
			cf := a.Parent()
			par := cf.Parent()
			if par == nil {
				return nil
			}
			idx := -1
			for i, fv := range cf.FreeVars {
				if fv == a {
					idx = i
				}
			}
			var p *ssa.Parameter
			n := 0
			for _, b := range par.Blocks {
				for _, in := range b.Instrs {
					if mc, ok := in.(*ssa.MakeClosure); ok && mc.Fn == ssa.Value(cf) && idx >= 0 && idx < len(mc.Bindings) {
						n++
						if al, ok := mc.Bindings[idx].(*ssa.Alloc); ok {
							p = paramSpill(al)
						}
					}
				}
			}
			if n == 1 {
				return p
			}
		}
	}
	return nil
}

func c06Caretless(t string) string { return strings.ReplaceAll(t, "^", "") }

// c06OnTheSpot: g is a function literal all of whose parameters are rendered as the arguments of the one call that
// runs it where it is written ("^arg"): its origin terms are terms of the enclosing function's frame.
func c06OnTheSpot(r *Run, g *ssa.Function) bool {
	if g.Parent() == nil {
		return false
	}
	for _, p := range g.Params {
		if !strings.HasPrefix(r.D.D(p), "^") {
			return false
		}
	}
	return true
}

// ---- C06.R1: what a success return of the getter hands out ----------------------------------------------------------

// c06GetSTH decides C06.R1 on the getter fn (receiver p0, log instance p0.li).
func c06GetSTH(r *Run, fn *ssa.Function) {
	const k = "GetSTH"
	const li = "p0.li"
	r.Assume("a return that hands out a nil root together with an error value that is not the nil constant is a failure return: callers test the error before they use the root (a nil root that is used crashes: C08.R4 / R8)")
	r.Assume("callers of an STHGetter do not modify the STH they receive (a remembered tree head may share memory with one handed out)")
	oks := c06OKReturns(fn)
	r.Check(k+":success-return", len(oks) >= 1, r.FnPos(fn), fmt.Sprintf("%d success returns", len(oks)))
	// the tree heads handed out: each built in this call
	var sths []*ssa.Alloc
	retsOf := map[*ssa.Alloc][]*ssa.Return{}
	for _, ret := range oks {
		v := RetVals(ret)[0]
		a := c06LocalObj(v)
		if a == nil || a.Parent() != fn || c06PointeeName(a.Type()) != "SignedTreeHead" {
			r.Fail(k+":fresh", r.Where(ret), "a success return hands out "+r.D.D(v)+", not an STH built in this call from the root just fetched (stale size/timestamp/root can be served)"+c06StaleNote(r, fn, v))
			continue
		}
		r.Pass(k+":fresh", r.Where(ret), "the returned STH is allocated in this call")
		if retsOf[a] == nil {
			sths = append(sths, a)
		}
		retsOf[a] = append(retsOf[a], ret)
	}
	var fetchCalls []ssa.CallInstruction // calls of fn whose result is the root
	inGetter := false                    // the RPC is issued by fn itself
	for _, S := range sths {
		name := r.D.allocName(S)
		at := retsOf[S][0]
		// the one root value R the tree head is built from
		var R ssa.Value
		okR := true
		note := func(b ssa.Value, what string, where ssa.Instruction) {
			if R == nil {
				R = b
			} else if R != b {
				okR = false
				r.Fail(k+":root.one-value", r.Where(where), what+" is read from "+r.D.D(b)+", other fields of the same STH from "+r.D.D(R)+": the STH mixes two roots")
			}
		}
		sizeSts := r.StoresTo(fn, "&("+name+".TreeSize)")
		for _, st := range sizeSts {
			if b, ok := c06FieldLoad(st.Val, "TreeSize"); ok && c06PointeeName(b.Type()) == "LogRootV1" {
				note(b, "TreeSize", st)
			}
		}
		if R == nil {
			r.Fail(k+":root", r.Where(at), "undecided: no store to "+name+".TreeSize carries the TreeSize of a log root")
			continue
		}
		root := r.D.D(R)
		r.ExpectFields(fn, k, S, map[string]string{"Version": "0", "TreeSize": root + ".TreeSize"})
		tsSts := r.StoresTo(fn, "&("+name+".Timestamp)")
		for _, st := range tsSts {
			got := r.D.Lin(st.Val, nil).String()
			r.Check(k+".Timestamp", glob("+quo(+"+root+".TimestampNanos, +1000000)", got), r.Where(st), "Timestamp = "+got+" (backend nanoseconds / 1 000 000 = RFC 6962 milliseconds)")
			for _, b := range c06FieldLoadsIn(st.Val, "LogRootV1", "TimestampNanos") {
				note(b, "Timestamp", st)
			}
		}
		r.Check(k+".Timestamp:set", len(tsSts) == 1, r.Where(at), "exactly one store to Timestamp")
		okCopy := false
		var uses []ssa.Instruction
		for _, c := range CallsTo(fn, "copy") {
			if r.D.D(CallArgs(c)[0]) != name+".SHA256RootHash[:]" {
				continue
			}
			if b, ok := c06FieldLoad(CallArgs(c)[1], "RootHash"); ok && c06PointeeName(b.Type()) == "LogRootV1" {
				note(b, "SHA256RootHash", c)
				okCopy = okCopy || b == R
				uses = append(uses, c)
			} else {
				okR = false
				r.Fail(k+".SHA256RootHash", r.Where(c), "SHA256RootHash ← "+r.D.D(CallArgs(c)[1])+", not the root hash of the log root")
			}
		}
		r.Check(k+".SHA256RootHash", okCopy, r.Where(at), "SHA256RootHash ← copy(root.RootHash)")
		if !okR {
			continue
		}
		for _, st := range sizeSts {
			uses = append(uses, st)
		}
		for _, st := range tsSts {
			uses = append(uses, st)
		}
		// where R comes from
		rs := &c06RootResolver{r: r, k: k, top: fn, li: li, seen: map[string]bool{}}
		rs.resolve(R, fn, c06Frame{f: func(t string) string { return t }, id: "top"}, 0)
		rs.report(R, uses)
		for _, leaf := range phiLeaves(R) {
			if ex, ok := leaf.(*ssa.Extract); ok {
				if c, ok := ex.Tuple.(*ssa.Call); ok {
					fetchCalls = append(fetchCalls, c)
				}
			}
		}
		for _, o := range rs.origins {
			if o.h == fn {
				inGetter = true
			}
		}
		// the signature
		c06Signed(r, fn, k, S, retsOf[S])
	}
	// errors of the root fetch and of the signing block the success returns; when the fetch is done in the getter
	// itself its failures are the edges checked on the function issuing the RPC
	seenCall := map[ssa.CallInstruction]bool{}
	n := 0
	for _, c := range append(fetchCalls, CallsTo(fn, "trillian/ctfe.signV1TreeHead")...) {
		if seenCall[c] {
			continue
		}
		seenCall[c] = true
		if _, isCall := c.(*ssa.Call); !isCall {
			continue
		}
		n++
		c06ErrGate(r, fn, k+":errors", c)
	}
	want := 2
	if inGetter {
		want = 1
	}
	if n < want {
		r.Fail(k+":errors", r.FnPos(fn), fmt.Sprintf("expected the errors of the root fetch and of the signing step to block the success returns of %s: %d such calls found, %d expected", FuncName(fn), n, want))
	}
	r.FailEdge(fn, k, EdgeSpec{Name: "empty-signature", Atom: ordAtomR("len(*.TreeHeadSignature.Signature)", "0"), Bad: "=", Want: c06WantErr})
}

// c06StaleNote: when the value handed out is a tree head kept in a cell of the getter, the fields of it that no branch
// condition compares with anything — what can be stale when it is handed out (for the violation text only).
func c06StaleNote(r *Run, fn *ssa.Function, v ssa.Value) string {
	ld, ok := v.(*ssa.UnOp)
	if !ok || ld.Op != token.MUL || c06PointeeName(v.Type()) != "SignedTreeHead" {
		return ""
	}
	if fa, ok := ld.X.(*ssa.FieldAddr); !ok || c06InstanceOf(fa.X) == nil {
		return ""
	}
	m := r.D.D(v)
	var missing []string
	cmps := c06Compares(r, fn)
	for _, F := range []string{"TreeSize", "Timestamp", "SHA256RootHash"} {
		found := false
		for _, c := range cmps {
			if c.x == m+"."+F || c.y == m+"."+F {
				found = true
			}
		}
		if !found {
			missing = append(missing, F)
		}
	}
	if len(missing) == 0 {
		return "; the remembered tree head is shared with every caller it was handed to"
	}
	return fmt.Sprintf("; the tree head remembered in %s is handed out without its %s being compared with the backend root just fetched: a root that differs only there is answered with the remembered, older value", m, strings.Join(missing, ", "))
}

// ---- where the root comes from -------------------------------------------------------------------------------------------

// c06Origin: a place where a root that can reach the getter is decoded from the backend's reply.
type c06Origin struct {
	h     *ssa.Function // the function issuing the RPC
	da    *ssa.Alloc    // the local the reply is decoded into
	frame c06Frame      // renders an origin term of h's frame in the getter's frame
}

// c06Frame renders origin terms of one function's frame in the getter's frame; id tells frames apart.
type c06Frame struct {
	f  func(string) string
	id string
}

// c06Pub: an object holding a root for other callers, published in a cell of the instance.
type c06Pub struct {
	w     *ssa.Function // the publisher
	store *ssa.Store    // <inst>.<cell> ← object
	cell  *types.Var
	inst  *ssa.Parameter
}

type c06RootResolver struct {
	r       *Run
	k, li   string
	top     *ssa.Function
	seen    map[string]bool
	origins []*c06Origin
	pubs    []*c06Pub
	fails   []string
	where   []string
}

func (rs *c06RootResolver) fail(where, why string) {
	rs.fails = append(rs.fails, why)
	rs.where = append(rs.where, where)
}

// resolve: v, a value of fn, is a log root; frame renders origin terms of fn in the getter's frame.
func (rs *c06RootResolver) resolve(v ssa.Value, fn *ssa.Function, frame c06Frame, depth int) {
	r := rs.r
	if depth > 8 {
		rs.fail(r.FnPos(fn), "undecided: the root travels through more than 8 functions / cells")
		return
	}
	sk := fmt.Sprintf("%p|%s|%s", v, v.Name(), frame.id)
	if rs.seen[sk] {
		return
	}
	rs.seen[sk] = true
	switch x := v.(type) {
	case *ssa.Alloc:
		if c06PointeeName(x.Type()) == "LogRootV1" {
			rs.origins = append(rs.origins, &c06Origin{h: fn, da: x, frame: frame})
			return
		}
	case *ssa.Phi:
		n := 0
		for _, e := range x.Edges {
			if isNilConst(e) {
				continue // no root on this edge: using it would be a nil dereference (C08.R4 / R8), not a wrong STH
			}
			n++
			rs.resolve(e, fn, frame, depth+1)
		}
		if n > 0 {
			return
		}
	case *ssa.Extract:
		call, ok := x.Tuple.(*ssa.Call)
		if !ok || x.Index != 0 {
			break
		}
		g := call.Call.StaticCallee()
		if g == nil || len(g.Blocks) == 0 || !r.P.AllFuncs[g] {
			rs.fail(r.Where(call), "undecided: the root is result 0 of "+CalleeOf(call)+", whose body is not available")
			return
		}
		r.Funcs[FuncName(g)] = true
		var nf c06Frame
		if g.Parent() == fn && c06OnTheSpot(r, g) {
			nf = c06Frame{f: func(t string) string { return frame.f(c06Caretless(t)) }, id: frame.id + "^"}
		} else {
			var args []string
			for _, a := range CallArgs(call) {
				args = append(args, frame.f(r.D.D(a)))
			}
			nf = c06Frame{f: func(t string) string { return c06SubstParams(t, args) }, id: "(" + strings.Join(args, ", ") + ")"}
		}
		n := 0
		for _, ret := range Returns(g) {
			if ret.Block().Comment == "recover" {
				continue
			}
			vs := RetVals(ret)
			ek := errKind(vs[len(vs)-1])
			if len(vs) < 2 || ek == "non" {
				continue
			}
			if isNilConst(vs[0]) {
				if ek == "nil" {
					rs.fail(r.Where(ret), FuncName(g)+" returns a nil root together with a nil error")
				}
				continue // (nil, err): a failure return, the caller tests the error
			}
			n++
			rs.resolve(vs[0], g, nf, depth+1)
		}
		if n == 0 {
			rs.fail(r.FnPos(g), "undecided: "+FuncName(g)+" has no return that hands out a root")
		}
		return
	case *ssa.UnOp:
		if x.Op != token.MUL {
			break
		}
		switch a := x.X.(type) {
		case *ssa.Alloc:
			// a local pointer variable: whatever is stored into it
			n := 0
			for _, ref := range *a.Referrers() {
				if st, ok := ref.(*ssa.Store); ok && st.Addr == ssa.Value(a) && !isNilConst(st.Val) {
					n++
					rs.resolve(st.Val, fn, frame, depth+1)
				}
			}
			if n > 0 {
				return
			}
		case *ssa.FieldAddr:
			rs.cell(x, a, fn, frame, depth)
			return
		}
	}
	rs.fail(r.FnPos(fn), "undecided: the root "+r.D.D(v)+" in "+FuncName(fn)+" is neither decoded from a backend reply there, nor the result of a function that does, nor read from a cell filled with such roots")
}

// cell: the root is read from field fa of an object.  Decided when the reader found the object in a cell of the
// instance (<inst>.<cell>, inst a parameter of fn), every store into that field anywhere in the module is into an
// object its function published in the same cell of its own instance parameter, and the value stored resolves to a
// root fetched for that instance.
func (rs *c06RootResolver) cell(ld *ssa.UnOp, fa *ssa.FieldAddr, fn *ssa.Function, frame c06Frame, depth int) {
	r := rs.r
	fv := fieldOf(fa)
	var pubCell *types.Var
	var inst *ssa.Parameter
	if ol, ok := fa.X.(*ssa.UnOp); ok && ol.Op == token.MUL {
		if pfa, ok := ol.X.(*ssa.FieldAddr); ok {
			pubCell, inst = fieldOf(pfa), c06InstanceOf(pfa.X)
		}
	}
	if obj := c06LocalObj(fa.X); fv != nil && obj != nil {
		// an object this function created itself: what it stored into the field
		n := 0
		eachInstr(fn, func(in ssa.Instruction) {
			st, ok := in.(*ssa.Store)
			if !ok || isNilConst(st.Val) {
				return
			}
			if ofa, ok := st.Addr.(*ssa.FieldAddr); ok && fieldOf(ofa) == fv && c06LocalObj(ofa.X) == obj {
				n++
				rs.resolve(st.Val, fn, frame, depth+1)
			}
		})
		if n > 0 {
			return
		}
	}
	if p := c06InstanceOf(fa.X); fv != nil && p != nil {
		rs.fail(r.Where(ld), "the STH can be built from "+r.D.D(ld)+", a root the getter keeps in its own field "+fv.Name()+" from an earlier call — not one fetched for this call or by a fetch in flight during it: the STH served then reports an older tree than the backend's")
		return
	}
	if fv == nil || pubCell == nil || inst == nil {
		rs.fail(r.Where(ld), "undecided: the root "+r.D.D(ld)+" is read from an object that was not found in a cell of the instance")
		return
	}
	instTop := frame.f(r.D.D(inst))
	nW := 0
	for _, w := range r.P.ModFuncs {
		eachInstr(w, func(in ssa.Instruction) {
			st, ok := in.(*ssa.Store)
			if !ok {
				return
			}
			wfa, ok := st.Addr.(*ssa.FieldAddr)
			if !ok || fieldOf(wfa) != fv || isNilConst(st.Val) {
				return
			}
			nW++
			r.Funcs[FuncName(w)] = true
			// the object written and the instance it is published in
			var q *ssa.Parameter
			var pubs []*ssa.Store
			if ol, ok := wfa.X.(*ssa.UnOp); ok && ol.Op == token.MUL {
				if pfa, ok := ol.X.(*ssa.FieldAddr); ok && fieldOf(pfa) == pubCell {
					q = c06InstanceOf(pfa.X) // written through the instance's cell itself
				}
			}
			if obj := c06LocalObj(wfa.X); q == nil && obj != nil {
				q, pubs = c06Published(w, obj, pubCell)
			}
			if q == nil {
				rs.fail(r.Where(st), "undecided: "+FuncName(w)+" stores a root into "+r.D.D(st.Addr)+", an object that is not (only) published in "+pubCell.Name()+" of an instance parameter")
				return
			}
			for _, p := range pubs {
				rs.pubs = append(rs.pubs, &c06Pub{w: w, store: p, cell: pubCell, inst: q})
			}
			// the writer ran for the instance in whose cell the reader found the object
			qt := r.D.D(q)
			wf := c06Frame{id: "cell:" + FuncName(w) + ":" + qt + "=" + instTop, f: func(t string) string {
				if t == qt {
					return instTop
				}
				if strings.HasPrefix(t, qt+".") {
					return instTop + t[len(qt):]
				}
				if !strings.ContainsAny(t, "p^") || strings.HasPrefix(t, "\"") || strings.HasPrefix(t, "g:") {
					return t // a constant or a global: the same in every invocation
				}
				return "opaque:another-invocation(" + t + ")"
			}}
			rs.resolve(st.Val, w, wf, depth+1)
		})
	}
	if nW == 0 {
		rs.fail(r.Where(ld), "undecided: nothing in the module stores a root into "+fv.Name()+" of the object read at "+r.D.D(ld))
	}
	// nothing else is ever put into the instance's cell: a fresh object of its function, or nil
	for _, w := range r.P.ModFuncs {
		eachInstr(w, func(in ssa.Instruction) {
			st, ok := in.(*ssa.Store)
			if !ok {
				return
			}
			if pfa, ok := st.Addr.(*ssa.FieldAddr); ok && fieldOf(pfa) == pubCell && !isNilConst(st.Val) && c06LocalObj(st.Val) == nil {
				rs.fail(r.Where(st), "undecided: "+FuncName(w)+" puts "+r.D.D(st.Val)+" into "+pubCell.Name()+", not an object it just created")
			}
		})
	}
}

// c06Published: object obj of w is made reachable for others only by stores into <q>.<cell>, q one parameter of w
// (q and those stores); its other uses are field accesses, by w or by closures of w.
func c06Published(w *ssa.Function, obj *ssa.Alloc, cell *types.Var) (*ssa.Parameter, []*ssa.Store) {
	var q *ssa.Parameter
	var pubs []*ssa.Store
	ok := true
	var visit func(v ssa.Value, depth int)
	visit = func(v ssa.Value, depth int) {
		refs := v.Referrers()
		if refs == nil || depth > 4 {
			ok = false
			return
		}
		for _, ref := range *refs {
			switch x := ref.(type) {
			case *ssa.DebugRef, *ssa.FieldAddr:
			case *ssa.Store:
				if x.Val != v {
					continue // a store through it cannot happen (v is a pointer value, not an address) …
				}
				if pv, isLocal := x.Addr.(*ssa.Alloc); isLocal {
					// … kept in a local pointer variable: follow its loads
					for _, r2 := range *pv.Referrers() {
						switch y := r2.(type) {
						case *ssa.UnOp:
							visit(y, depth+1)
						case *ssa.MakeClosure:
							cf, _ := y.Fn.(*ssa.Function)
							for i, b := range y.Bindings {
								if b == ssa.Value(pv) && cf != nil && i < len(cf.FreeVars) {
									for _, r3 := range *cf.FreeVars[i].Referrers() {
										if ld, isLoad := r3.(*ssa.UnOp); isLoad {
											visit(ld, depth+1)
										} else if _, dbg := r3.(*ssa.DebugRef); !dbg {
											ok = false
										}
									}
								}
							}
						}
					}
					continue
				}
				pfa, isField := x.Addr.(*ssa.FieldAddr)
				if !isField || fieldOf(pfa) != cell {
					ok = false
					continue
				}
				p := c06InstanceOf(pfa.X)
				if p == nil || p.Parent() != w || q != nil && q != p {
					ok = false
					continue
				}
				q = p
				pubs = append(pubs, x)
			case *ssa.UnOp, *ssa.BinOp, *ssa.If:
			default:
				ok = false
			}
		}
	}
	visit(obj, 0)
	if !ok || q == nil {
		return nil, nil
	}
	return q, pubs
}

// report records what was resolved: the obligations on every function that issues the RPC, and on every publisher.
func (rs *c06RootResolver) report(R ssa.Value, uses []ssa.Instruction) {
	r, k, fn := rs.r, rs.k, rs.top
	for i, why := range rs.fails {
		r.Fail(k+":root", rs.where[i], why)
	}
	if len(rs.origins) == 0 {
		if len(rs.fails) == 0 {
			r.Fail(k+":root", r.FnPos(fn), "undecided: the root "+r.D.D(R)+" does not resolve to a decoded backend reply")
		}
		return
	}
	if len(rs.fails) == 0 {
		var hs []string
		for _, o := range rs.origins {
			hs = append(hs, FuncName(o.h))
		}
		sort.Strings(hs)
		r.Pass(k+":root", r.FnPos(fn), fmt.Sprintf("every root the STH can be built from (%s) is decoded from a reply to %s, in: %s", r.D.D(R), latestRootRPC, strings.Join(hs, ", ")))
	}
	doneH := map[*ssa.Function]bool{}
	for _, o := range rs.origins {
		h := o.h
		hk := k
		if h != fn {
			hk = short(FuncName(h))
		}
		r.Funcs[FuncName(h)] = true
		rpc := r.OneCall(h, hk+":rpc", latestRootRPC)
		if rpc == nil {
			continue
		}
		// what reaches the RPC, in the getter's frame — for every way the root travels
		client := o.frame.f(r.D.D(CallArgs(rpc)[0]))
		r.Check(k+":root.client", client == rs.li+".rpcClient", r.Where(rpc), fmt.Sprintf("the root is requested on %s (expected %s.rpcClient: this instance's backend client)", client, rs.li))
		if a := baseAlloc(CallArgs(rpc)[2]); a == nil || a.Parent() != h {
			r.Fail(k+":root.logID", r.Where(rpc), "undecided: the request "+r.D.D(CallArgs(rpc)[2])+" is not built in a local allocation of "+FuncName(h))
		} else {
			sts := r.StoresTo(h, "&("+r.D.allocName(a)+".LogId)")
			if len(sts) == 0 {
				r.Fail(k+":root.logID", r.Where(rpc), "the request's LogId is never set")
			}
			for _, st := range sts {
				got := o.frame.f(r.D.D(st.Val))
				r.Check(k+":root.logID", got == rs.li+".logID", r.Where(st), fmt.Sprintf("request.LogId ← %s (expected %s.logID: this instance's tree)", got, rs.li))
			}
		}
		if doneH[h] {
			continue
		}
		doneH[h] = true
		// failures of the fetch
		r.FailEdge(h, hk, EdgeSpec{Name: "backend-error", Atom: nilAtom(latestRootRPC + "(*)#1"), Bad: "non", Want: c06WantErr})
		r.FailEdge(h, hk, EdgeSpec{Name: "root-absent", Atom: nilAtom(latestRootRPC + "(*)#0.SignedLogRoot"), Bad: "nil", Want: c06WantErr})
		r.FailEdge(h, hk, EdgeSpec{Name: "root-garbled", Atom: nilAtom("(*types.LogRootV1).UnmarshalBinary(*)"), Bad: "non", Want: c06WantErr})
		r.FailEdge(h, hk, EdgeSpec{Name: "hash-size", Atom: ordAtomR("len("+decodedRoot(r, h)+".RootHash)", "32"), Bad: "<,>", Want: c06WantErr})
		// the decoded reply
		var dec []ssa.CallInstruction
		for _, c := range CallsTo(h, "(*types.LogRootV1).UnmarshalBinary") {
			if glob("(*trillian.SignedLogRoot).GetLogRoot("+latestRootRPC+"(*)#0.SignedLogRoot)", r.D.D(CallArgs(c)[1])) {
				dec = append(dec, c)
			}
		}
		if len(dec) != 1 || baseAlloc(CallArgs(dec[0])[0]) != o.da {
			r.Fail(hk+":result", r.FnPos(h), fmt.Sprintf("undecided: expected exactly one decoding of the reply's SignedLogRoot.LogRoot into the root %s hands on, found %d", FuncName(h), len(dec)))
			continue
		}
		name := r.D.allocName(o.da)
		n := len(r.StoresTo(h, "&("+name+"*")) + len(r.StoresTo(h, name))
		r.Check(hk+":result", n == 0, r.Where(dec[0]), fmt.Sprintf("the root handed on is the one decoded from the backend's SignedLogRoot.LogRoot (%d other writes to it)", n))
		if h == fn {
			for _, u := range uses {
				r.Check(k+":after-decode", c06InstrDominates(dec[0], u), r.Where(u), "the root's field is read after the reply was decoded into it")
			}
		}
	}
	// a root kept for other callers is the root of a fetch in flight
	donePub := map[*ssa.Store]bool{}
	for _, p := range rs.pubs {
		if donePub[p.store] {
			continue
		}
		donePub[p.store] = true
		leak := c06Withdrawn(r, p)
		r.Check(k+":root.in-flight", leak == "", r.Where(p.store), func() string {
			if leak != "" {
				return leak
			}
			return fmt.Sprintf("the object %s publishes in %s of the instance is withdrawn on every way out: a root found there belongs to a fetch still in flight", FuncName(p.w), p.cell.Name())
		}())
	}
}

// c06Withdrawn: after the publication p.store, every return of the publisher is preceded by a store of another value
// (nil, a newer object) into the same cell of the same instance, or by the registration of a deferred function that
// does so on all its paths.  "" when that holds, otherwise the way out that leaves the object published.
func c06Withdrawn(r *Run, p *c06Pub) string {
	withdraws := func(in ssa.Instruction) bool {
		switch x := in.(type) {
		case *ssa.Store:
			fa, ok := x.Addr.(*ssa.FieldAddr)
			return ok && x != p.store && fieldOf(fa) == p.cell && c06InstanceOf(fa.X) == p.inst && x.Val != p.store.Val
		case *ssa.Defer:
			var cf *ssa.Function
			switch f := x.Call.Value.(type) {
			case *ssa.MakeClosure:
				cf, _ = f.Fn.(*ssa.Function)
			case *ssa.Function:
				cf = f
			}
			if cf == nil || len(cf.Blocks) == 0 {
				return false
			}
			// a store of nil into the cell of the same instance that every return of the deferred function has passed
			for _, b := range cf.Blocks {
				for _, in2 := range b.Instrs {
					st, ok := in2.(*ssa.Store)
					if !ok || !isNilConst(st.Val) {
						continue
					}
					fa, ok := st.Addr.(*ssa.FieldAddr)
					if !ok || fieldOf(fa) != p.cell || c06InstanceOf(fa.X) != p.inst {
						continue
					}
					all := true
					for _, ret := range Returns(cf) {
						if !c06InstrDominates(st, ret) {
							all = false
						}
					}
					if all {
						return true
					}
				}
			}
		}
		return false
	}
	type pos struct {
		b *ssa.BasicBlock
		i int
	}
	seen := map[*ssa.BasicBlock]bool{}
	work := []pos{{p.store.Block(), instrIdx(p.store) + 1}}
	for len(work) > 0 {
		c := work[len(work)-1]
		work = work[:len(work)-1]
		stopped := false
		for _, in := range c.b.Instrs[c.i:] {
			if withdraws(in) {
				stopped = true
				break
			}
			if ret, ok := in.(*ssa.Return); ok {
				return fmt.Sprintf("%s publishes a fetch object in %s of the instance and can return at %s with the object still there: every later caller finds a finished fetch and is served its root, however far the backend has moved on (the STH no longer reports the backend's tree)", FuncName(p.w), p.cell.Name(), r.Where(ret))
			}
		}
		if stopped {
			continue
		}
		for _, s := range c.b.Succs {
			if !seen[s] {
				seen[s] = true
				work = append(work, pos{s, 0})
			}
		}
	}
	return ""
}

// ---- the signature ---------------------------------------------------------------------------------------------------------

// c06Signed: every success return handing out S hands out a signed tree head.
func c06Signed(r *Run, fn *ssa.Function, k string, S *ssa.Alloc, rets []*ssa.Return) {
	name := r.D.allocName(S)
	var sign ssa.CallInstruction
	if c := r.OneCall(fn, k+":sign", "trillian/ctfe.signV1TreeHead"); c != nil {
		r.ExpectArg(c, k+":sign.signer", 0, "p0.li.signer")
		r.Check(k+":sign.sth", baseAlloc(CallArgs(c)[1]) == S, r.Where(c), "the STH signed is the STH returned")
		r.ExpectArg(c, k+":sign.cache", 2, "&(p0.cache)")
		if baseAlloc(CallArgs(c)[1]) == S {
			sign = c
		}
	}
	sigSts := r.StoresTo(fn, "&("+name+".TreeHeadSignature)")
	for _, ret := range rets {
		if sign != nil && c06InstrDominates(sign, ret) {
			r.Pass(k+":signature", r.Where(ret), "the STH handed out was signed by signV1TreeHead on every path to this return")
			continue
		}
		var from []*ssa.Store
		for _, st := range sigSts {
			if c06InstrDominates(st, ret) {
				from = append(from, st)
			}
		}
		if len(from) == 0 {
			r.Fail(k+":signature", r.Where(ret), "the STH handed out here was not signed in this call on every path (signV1TreeHead can be by-passed) and carries no remembered signature: what is served does not verify under the log key")
			continue
		}
		for _, st := range from {
			c06Remembered(r, fn, k, S, st, sign)
		}
	}
}

// c06SigInputFields: the fields of ct.SignedTreeHead the signature input is serialised from, read off
// ct.SerializeSTHSignatureInput (fields of its parameter that it reads).
func c06SigInputFields(r *Run) []string {
	g := r.P.Func("ct.SerializeSTHSignatureInput")
	if g == nil || len(g.Blocks) == 0 || len(g.Params) == 0 {
		return nil
	}
	set := map[string]bool{}
	p := g.Params[0]
	stT, ok := p.Type().Underlying().(*types.Struct)
	if !ok {
		return nil
	}
	eachInstr(g, func(in ssa.Instruction) {
		switch x := in.(type) {
		case *ssa.Field:
			if x.X == ssa.Value(p) {
				set[stT.Field(x.Field).Name()] = true
			}
		case *ssa.FieldAddr:
			if a, ok := x.X.(*ssa.Alloc); ok && paramSpill(a) == p {
				set[stT.Field(x.Field).Name()] = true
			}
		}
	})
	return keysOf(set)
}

// c06Compare: one comparison among the branch conditions of a function.
type c06Compare struct {
	at    ssa.Instruction // the comparison
	x, y  string          // origin terms of the operands ("[:]" of a full slice dropped)
	ci    *CondInfo       // its atom
	equal map[string]bool // the values of the atom under which the operands are equal
}

func c06Compares(r *Run, fn *ssa.Function) []c06Compare {
	var out []c06Compare
	seen := map[ssa.Value]bool{}
	trim := func(s string) string { return strings.TrimSuffix(s, "[:]") }
	var visit func(v ssa.Value, depth int)
	visit = func(v ssa.Value, depth int) {
		if v == nil || seen[v] || depth > 6 {
			return
		}
		seen[v] = true
		switch x := v.(type) {
		case *ssa.Phi:
			for _, e := range x.Edges {
				visit(e, depth+1)
			}
		case *ssa.UnOp:
			if x.Op == token.NOT {
				visit(x.X, depth+1)
			}
		case *ssa.BinOp:
			switch x.Op {
			case token.EQL, token.NEQ, token.LSS, token.LEQ, token.GTR, token.GEQ:
			default:
				return
			}
			if isNilConst(x.X) || isNilConst(x.Y) {
				return
			}
			ci := r.D.Classify(x)
			c := c06Compare{at: x, x: trim(r.D.D(x.X)), y: trim(r.D.D(x.Y)), ci: ci, equal: map[string]bool{}}
			switch {
			case ci.Kind == "ord":
				c.equal["="] = true
			case ci.Kind == "bool" && x.Op == token.EQL:
				c.equal["T"] = true
			case ci.Kind == "bool" && x.Op == token.NEQ:
				c.equal["F"] = true
			default:
				return
			}
			out = append(out, c)
		case *ssa.Call:
			if f := x.Call.StaticCallee(); f != nil && FuncName(f) == "bytes.Equal" && len(x.Call.Args) == 2 {
				out = append(out, c06Compare{at: x, x: trim(r.D.D(x.Call.Args[0])), y: trim(r.D.D(x.Call.Args[1])), ci: r.D.Classify(x), equal: map[string]bool{"T": true}})
			}
		}
	}
	for _, b := range fn.Blocks {
		if len(b.Instrs) == 0 {
			continue
		}
		if ifi, ok := b.Instrs[len(b.Instrs)-1].(*ssa.If); ok {
			visit(ifi.Cond, 0)
		}
	}
	return out
}

// c06Remembered decides the use st (S.TreeHeadSignature ← V) of a signature that was not made in this call.
func c06Remembered(r *Run, fn *ssa.Function, k string, S *ssa.Alloc, st *ssa.Store, sign ssa.CallInstruction) {
	k = k + ":remembered-signature"
	name := r.D.allocName(S)
	// V is the signature of a tree head M kept in a cell of the getter
	M, ok := c06FieldLoad(st.Val, "TreeHeadSignature")
	var cellFA *ssa.FieldAddr
	var cellLoad ssa.Instruction
	if ok && c06PointeeName(M.Type()) == "SignedTreeHead" {
		switch m := M.(type) {
		case *ssa.UnOp: // the getter keeps a pointer
			if m.Op == token.MUL {
				cellFA, _ = m.X.(*ssa.FieldAddr)
				cellLoad = m
			}
		case *ssa.FieldAddr: // the getter keeps the value
			cellFA = m
			if ld, isLoad := c06StripConv(st.Val).(*ssa.UnOp); isLoad {
				cellLoad = ld
			}
		}
	}
	if cellFA == nil || c06InstanceOf(cellFA.X) == nil || paramIndex(c06InstanceOf(cellFA.X)) != 0 {
		r.Fail(k, r.Where(st), "TreeHeadSignature ← "+r.D.D(st.Val)+": neither made by signV1TreeHead in this call nor the signature of a tree head remembered in the getter")
		return
	}
	cell := fieldOf(cellFA)
	mterm := r.D.D(M)
	r.Pass(k, r.Where(st), "TreeHeadSignature ← "+r.D.D(st.Val)+": the signature of the tree head remembered in "+cell.Name())

	// (1) used only when every field the signature input is serialised from is equal
	fields := c06SigInputFields(r)
	r.Floor("fields of the tree head read by ct.SerializeSTHSignatureInput", len(fields), 4)
	cmps := c06Compares(r, fn)
	for _, F := range fields {
		key := k + ".key." + F
		fsts := r.StoresTo(fn, "&("+name+"."+F+")")
		cur := map[string]bool{name + "." + F: true}
		allConst, cval := len(fsts) > 0, ""
		for _, fs := range fsts {
			cur[strings.TrimSuffix(r.D.D(fs.Val), "[:]")] = true
			c, isConst := fs.Val.(*ssa.Const)
			if !isConst || cval != "" && cval != r.D.D(c) {
				allConst = false
			} else {
				cval = r.D.D(c)
			}
		}
		var found []c06Compare
		for _, c := range cmps {
			if c.x == mterm+"."+F && cur[c.y] || c.y == mterm+"."+F && cur[c.x] {
				found = append(found, c)
			}
		}
		if len(found) == 0 {
			if allConst {
				r.Pass(key, r.Where(st), fmt.Sprintf("%s is the constant %s in every tree head this function builds, and only such tree heads are remembered", F, cval))
				continue
			}
			r.Fail(key, r.Where(st), fmt.Sprintf("the remembered signature was made over %s.%s, and it is reused without comparing that with the %s of the tree head being served: when they differ the STH served carries a signature over another %s and does not verify under the log key", mterm, F, F, F))
			continue
		}
		okAll, detail := true, ""
		for _, c := range found {
			// the field of the tree head being served has its final value when it is compared
			var sets []ssa.Instruction
			for _, fs := range fsts {
				sets = append(sets, fs)
			}
			for _, cp := range CallsTo(fn, "copy") {
				if r.D.D(CallArgs(cp)[0]) == name+"."+F+"[:]" {
					sets = append(sets, cp)
				}
			}
			for _, fs := range sets {
				if !c06InstrDominates(fs, c.at) {
					okAll, detail = false, fmt.Sprintf("%s of the tree head being served is compared at %s before it is set at %s", F, r.Where(c.at), r.Where(fs))
				}
			}
			reachEq := false
			for _, v := range domains[c.ci.Kind] {
				if r.D.infeasible(r.D.AtomsOf(fn), c.ci.Key, v) {
					continue
				}
				reach := r.D.Walk(fn, Sigma{c.ci.Key: v}, nil, nil)
				r.Valuations++
				switch {
				case c.equal[v]:
					reachEq = reachEq || reach.Has(st)
				case reach.Has(st):
					okAll, detail = false, fmt.Sprintf("the remembered signature is reused under %s = %s, i.e. although %s differs: it was made over %s.%s, so the STH served does not verify under the log key", c.ci.Key, v, F, mterm, F)
				}
			}
			if okAll && !reachEq {
				okAll, detail = false, "the reuse of the remembered signature is unreachable even when "+F+" is equal (positive control)"
			}
		}
		if okAll {
			detail = fmt.Sprintf("the remembered signature is reused only when %s.%s equals the %s of the tree head being served", mterm, F, F)
		}
		r.Check(key, okAll, r.Where(st), detail)
	}

	// (2) what is remembered: (a copy of) the tree head this function built, taken after its signing succeeded
	c06RememberedFill(r, fn, k, S, cell, sign)

	// (3) the cell is accessed under a mutex of the getter
	mu := ""
	if cellLoad != nil {
		inst := r.D.D(c06InstanceOf(cellFA.X))
		for m := range r.heldAt(fn)[cellLoad] {
			if strings.HasPrefix(m, "&("+inst+".") && strings.HasSuffix(m, ")") && !strings.Contains(m[len("&("+inst+"."):], ".") {
				mu = strings.TrimSuffix(m[len("&("+inst+"."):], ")")
			}
		}
	}
	if mu == "" {
		r.Fail(k+".lock", r.Where(st), "the remembered tree head "+mterm+" is read without holding a mutex of the getter: concurrent get-sth calls race on it (a torn or half-updated tree head can be served)")
		return
	}
	owner := ""
	if pt, ok := cellFA.X.Type().Underlying().(*types.Pointer); ok {
		if nt, ok := pt.Elem().(*types.Named); ok && nt.Obj().Pkg() != nil {
			owner = ShortPkg(nt.Obj().Pkg().Path()) + "." + nt.Obj().Name()
		}
	}
	r.LockCheck(LockSpec{Struct: owner, Mutex: mu, Fields: []string{cell.Name()}})
}

// c06RememberedFill: every store into the getter's cell, anywhere in the module, puts there (a pointer to / the value
// of) the tree head S this function built and signed, or a whole-value copy of it that nothing writes afterwards; the
// copy is taken and the cell is filled only after the signing of S succeeded with a non-empty signature; nothing
// modifies the remembered tree head in place.
func c06RememberedFill(r *Run, fn *ssa.Function, k string, S *ssa.Alloc, cell *types.Var, sign ssa.CallInstruction) {
	key := k + ".fill"
	nFill := 0
	for _, w := range r.P.ModFuncs {
		eachInstr(w, func(in ssa.Instruction) {
			// in-place modification of the remembered tree head
			if st, ok := in.(*ssa.Store); ok {
				if inner, ok := st.Addr.(*ssa.FieldAddr); ok {
				chain:
					for x := inner.X; x != nil; {
						switch y := x.(type) {
						case *ssa.FieldAddr:
							if fieldOf(y) == cell {
								r.Fail(key+".in-place", r.Where(st), FuncName(w)+" modifies the remembered tree head in place ("+r.D.D(st.Addr)+"): its signature no longer matches its fields")
							}
							x = y.X
							continue
						case *ssa.UnOp:
							x = y.X
							continue
						case *ssa.IndexAddr:
							x = y.X
							continue
						}
						break chain
					}
				}
			}
			st, ok := in.(*ssa.Store)
			if !ok {
				return
			}
			fa, ok := st.Addr.(*ssa.FieldAddr)
			if !ok || fieldOf(fa) != cell || isNilConst(st.Val) {
				return
			}
			nFill++
			if w != fn {
				r.Fail(key, r.Where(st), "undecided: the remembered tree head is also filled by "+FuncName(w))
				return
			}
			// the value: S itself or a whole-value copy of S
			var src *ssa.Alloc
			switch v := st.Val.(type) {
			case *ssa.Alloc:
				src = v
			case *ssa.UnOp:
				if v.Op == token.MUL {
					src, _ = v.X.(*ssa.Alloc)
				}
			}
			moment := ssa.Instruction(st)
			if src != nil && src != S {
				var cp *ssa.Store
				clean := true
				for _, ref := range *src.Referrers() {
					switch x := ref.(type) {
					case *ssa.DebugRef:
					case *ssa.Store:
						if x.Addr == ssa.Value(src) && cp == nil {
							cp = x
						} else if x != st {
							clean = false // a second whole-value store, or the copy's address kept elsewhere too
						}
					case *ssa.UnOp:
					default:
						clean = false // a field of the copy is written, or the copy is handed to something
					}
				}
				if ld, isLoad := func() (*ssa.UnOp, bool) {
					if cp == nil {
						return nil, false
					}
					u, ok := cp.Val.(*ssa.UnOp)
					return u, ok && u.Op == token.MUL
				}(); !clean || !isLoad || ld.X != ssa.Value(S) {
					src = nil
				} else {
					moment = cp
				}
			}
			if src == nil {
				r.Fail(key, r.Where(st), "the getter remembers "+r.D.D(st.Val)+", which is not the tree head this call built and signed (or an untouched whole-value copy of it): a later call would reuse a signature that does not belong to the fields it is compared by")
				return
			}
			if sign == nil {
				r.Fail(key, r.Where(st), "undecided: the tree head is remembered but the call signing it was not found")
				return
			}
			marks := []ssa.Instruction{moment}
			if moment != ssa.Instruction(st) {
				marks = append(marks, st)
			}
			if !c06InstrDominates(sign, moment) {
				r.Fail(key+".after-signing", r.Where(moment), "the tree head is remembered (copied) at a point signV1TreeHead has not passed on every path: an unsigned tree head can be remembered and its empty signature served on the next call")
				return
			}
			// … not when the signing failed
			if ev := c06ErrResult(sign); ev != nil {
				r.MustGuardFrom(fn, sign.Block(), key+".after-signing", "nil?"+r.D.D(ev), "non", marks, "remembering the tree head")
			}
			// … and not with an empty signature
			c06NotWhenEmpty(r, fn, key+".non-empty", marks)
			// the remembered tree head is not written afterwards
			if src == S {
				bad := ""
				after := c06ReachableAfter(st)
				eachInstr(fn, func(in2 ssa.Instruction) {
					if s2, ok := in2.(*ssa.Store); ok && s2 != st && addrBase(s2.Addr) == S && after(s2) {
						bad = r.Where(s2)
					}
				})
				r.Check(key+".final", bad == "", r.Where(st), "the tree head is not written after it was remembered "+bad)
			}
			r.Pass(key, r.Where(st), "the getter remembers the tree head this call built, after it was signed")
		})
	}
	if nFill == 0 {
		r.Fail(key, r.FnPos(fn), "undecided: a remembered tree head is used but nothing in the module fills "+cell.Name())
	}
}

// c06NotWhenEmpty: once the test of the signature's length against 0 came out "empty", none of marks executes; with a
// non-empty signature one can.
func c06NotWhenEmpty(r *Run, fn *ssa.Function, key string, marks []ssa.Instruction) {
	found := r.D.AtomsOf(fn)
	var keys []string
	for _, kk := range keysOf(found) {
		ci := found[kk]
		if ci.Kind == "ord" && (glob("len(*.TreeHeadSignature.Signature)", ci.A) && ci.B == "0" || glob("len(*.TreeHeadSignature.Signature)", ci.B) && ci.A == "0") {
			keys = append(keys, kk)
		}
	}
	if len(keys) == 0 {
		r.Fail(key, r.FnPos(fn), "undecided: no branch tests the length of the signature: an empty signature can be remembered and served on the next call")
		return
	}
	isKey := map[string]bool{}
	for _, kk := range keys {
		isKey[kk] = true
	}
	blocks := r.blocksTesting(fn, func(ci *CondInfo) bool { return isKey[ci.Key] })
	ok, detail := len(blocks) > 0, "the tree head is remembered only with a non-empty signature"
	pos := false
	for _, m := range marks {
		// the test has been passed on every path to m …
		var tests []*ssa.BasicBlock
		for _, b := range blocks {
			if b != m.Block() && b.Dominates(m.Block()) {
				tests = append(tests, b)
			}
		}
		if len(tests) == 0 {
			ok, detail = false, "the tree head is remembered at "+r.Where(m)+" on a path that has not passed the test of the signature's length: a tree head with an empty signature can be remembered, and the next call serves it with that empty signature and a nil error"
			continue
		}
		// … and came out "not empty"
		for _, b := range tests {
			for _, v := range []string{"<", "=", ">"} {
				s := Sigma{}
				feasible := false
				for _, kk := range keys {
					s[kk] = v
					if !r.D.infeasible(found, kk, v) {
						feasible = true
					}
				}
				if !feasible {
					continue
				}
				reach := r.D.Walk(fn, s, b, nil)
				r.Valuations++
				if !reach.Has(m) {
					continue
				}
				if v == "=" {
					ok, detail = false, "a tree head whose signature is empty can be remembered at "+r.Where(m)+": the next call serves it with that empty signature and a nil error"
				} else {
					pos = true
				}
			}
		}
	}
	if ok && !pos {
		ok, detail = false, "remembering the tree head is unreachable even with a non-empty signature (positive control)"
	}
	r.Check(key, ok, r.Where(marks[0]), detail)
}

// c06ReachableAfter: the instructions that can execute after in.
func c06ReachableAfter(in ssa.Instruction) func(ssa.Instruction) bool {
	after := map[*ssa.BasicBlock]bool{}
	work := append([]*ssa.BasicBlock{}, in.Block().Succs...)
	for len(work) > 0 {
		b := work[len(work)-1]
		work = work[:len(work)-1]
		if !after[b] {
			after[b] = true
			work = append(work, b.Succs...)
		}
	}
	return func(x ssa.Instruction) bool {
		return after[x.Block()] || x.Block() == in.Block() && instrIdx(x) > instrIdx(in)
	}
}

// c06DumpObls (development aid): with CTVERIF_OBLS=<substring> set, the obligations recorded so far whose key contains
// the substring are printed to stderr.
func c06DumpObls(r *Run) {
	pat := os.Getenv("CTVERIF_OBLS")
	if pat == "" {
		return
	}
	for _, o := range r.Obls {
		if strings.Contains(o.Key, pat) {
			fmt.Fprintf(os.Stderr, "OBL ok=%v %s @%s :: %s\n", o.OK, o.Key, o.Where, o.Detail)
		}
	}
}

// ---- C08.R7: errors parked in a cell, errors kept for other callers, context errors ---------------------------------------

// c08FieldStores: every store of the module into field fv.
func c08FieldStores(r *Run, fv *types.Var) []*ssa.Store {
	var out []*ssa.Store
	for _, w := range r.P.ModFuncs {
		eachInstr(w, func(in ssa.Instruction) {
			if st, ok := in.(*ssa.Store); ok {
				if fa, ok := st.Addr.(*ssa.FieldAddr); ok && fieldOf(fa) == fv {
					out = append(out, st)
				}
			}
		})
	}
	return out
}

// c08ParkedLoads: the error ev of a call in fn is stored into a field of an object fn created itself, and that store
// is the only store into that field anywhere in the module; the loads of that field of that object which the store
// dominates read ev back (they are the same value as ev).
func c08ParkedLoads(r *Run, fn *ssa.Function, ev ssa.Value) map[ssa.Value]bool {
	out := map[ssa.Value]bool{}
	if ev.Referrers() == nil {
		return out
	}
	for _, ref := range *ev.Referrers() {
		st, ok := ref.(*ssa.Store)
		if !ok || st.Val != ev {
			continue
		}
		fa, ok := st.Addr.(*ssa.FieldAddr)
		if !ok {
			continue
		}
		obj, fv := c06LocalObj(fa.X), fieldOf(fa)
		if obj == nil || fv == nil || obj.Parent() != fn {
			continue
		}
		if all := c08FieldStores(r, fv); len(all) != 1 || all[0] != st {
			continue
		}
		eachInstr(fn, func(in ssa.Instruction) {
			ld, ok := in.(*ssa.UnOp)
			if !ok || ld.Op != token.MUL {
				return
			}
			if fa2, ok := ld.X.(*ssa.FieldAddr); ok && fieldOf(fa2) == fv && c06LocalObj(fa2.X) == obj && c06InstrDominates(st, ld) {
				out[ld] = true
			}
		})
	}
	return out
}

// c08RelayCells: a function on the way from a backend RPC to toHTTPStatus returns an error it reads from a field
// (of an object another caller filled).  When some store of the module puts a backend error into that field, the
// field relays backend errors between callers, and then every store into it carries the backend's error unchanged
// (or nil, or an error made afresh that has nothing to do with the backend's): an error formatted from the backend's
// error has lost the gRPC status for every caller that reads it.
func c08RelayCells(r *Run, onWay map[*ssa.Function]bool, isBackendErr func(ssa.Value) bool, wraps func(ssa.Value) (bool, ssa.Instruction)) {
	done := map[*types.Var]bool{}
	for _, fn := range r.P.ModFuncs {
		if !onWay[fn] {
			continue
		}
		for _, ret := range Returns(fn) {
			if ret.Block().Comment == "recover" {
				continue
			}
			vs := RetVals(ret)
			if len(vs) == 0 {
				continue
			}
			for _, leaf := range phiLeaves(vs[len(vs)-1]) {
				ld, ok := leaf.(*ssa.UnOp)
				if !ok || ld.Op != token.MUL {
					continue
				}
				fa, ok := ld.X.(*ssa.FieldAddr)
				if !ok {
					continue
				}
				fv := fieldOf(fa)
				if fv == nil || done[fv] {
					continue
				}
				done[fv] = true
				sts := c08FieldStores(r, fv)
				relays, rebuilt := false, false
				for _, st := range sts {
					if isBackendErr(st.Val) {
						relays = true
					}
					if w, _ := wraps(st.Val); w {
						rebuilt = true
					}
				}
				if !relays && !rebuilt {
					continue
				}
				cellName := c06PointeeName(fa.X.Type()) + "." + fv.Name()
				for _, st := range sts {
					key := "status-carried:cell:" + cellName + "@" + FuncName(st.Parent())
					switch w, at := wraps(st.Val); {
					case isBackendErr(st.Val):
						r.Pass(key, r.Where(st), "the error kept in "+cellName+" for other callers is the backend's error unchanged: "+r.D.D(st.Val))
					case w:
						r.Fail(key, r.Where(at), "the error kept in "+cellName+" for other callers ("+FuncName(fn)+" returns it from there) is a new error formatted from the backend's error: its gRPC status (429/503/504/4xx) is lost and those callers are answered 500")
					}
				}
			}
		}
	}
}

// c08CtxKind classifies an error (or text) value by what it has to do with a context's error:
//
//	""           nothing
//	"bare"       the result of ctx.Err() / context.Cause(ctx) itself
//	"text"       the text of such an error
//	"formatted"  a new error (or text) made from such an error or its text: not a gRPC status
//	"relabelled" a gRPC status error made from it with a code other than Canceled / DeadlineExceeded
//	"converted"  the gRPC status error of that context: status.FromContextError(err).Err(), or status.Error /
//	             Errorf with the constant code Canceled (1) or DeadlineExceeded (4)
func c08CtxKind(v ssa.Value, depth int) string {
	if v == nil || depth > 6 {
		return ""
	}
	worst := func(ks ...string) string {
		rank := map[string]int{"": 0, "converted": 1, "text": 2, "relabelled": 3, "formatted": 4, "bare": 5}
		out := ""
		for _, k := range ks {
			if rank[k] > rank[out] {
				out = k
			}
		}
		return out
	}
	// the values a call's arguments carry, the contents of a variadic []any included
	argKinds := func(c *ssa.CallCommon) string {
		out := ""
		for _, a := range c.Args {
			out = worst(out, c08CtxKind(a, depth+1))
			sl, ok := a.(*ssa.Slice)
			if !ok {
				continue
			}
			al, ok := sl.X.(*ssa.Alloc)
			if !ok || al.Referrers() == nil {
				continue
			}
			for _, ref := range *al.Referrers() {
				ia, ok := ref.(*ssa.IndexAddr)
				if !ok || ia.Referrers() == nil {
					continue
				}
				for _, r2 := range *ia.Referrers() {
					if st, ok := r2.(*ssa.Store); ok && st.Addr == ssa.Value(ia) {
						out = worst(out, c08CtxKind(st.Val, depth+1))
					}
				}
			}
		}
		return out
	}
	switch x := v.(type) {
	case *ssa.MakeInterface:
		return c08CtxKind(x.X, depth+1)
	case *ssa.ChangeInterface:
		return c08CtxKind(x.X, depth+1)
	case *ssa.ChangeType:
		return c08CtxKind(x.X, depth+1)
	case *ssa.Phi:
		out := ""
		for _, e := range x.Edges {
			if e != ssa.Value(x) {
				out = worst(out, c08CtxKind(e, depth+1))
			}
		}
		return out
	case *ssa.UnOp:
		if a, ok := x.X.(*ssa.Alloc); ok && x.Op == token.MUL {
			if sv := uniqueStore(a); sv != nil {
				return c08CtxKind(sv, depth+1)
			}
		}
	case *ssa.Call:
		name := CalleeOf(x)
		switch {
		case name == "iface(context.Context).Err" || name == "context.Cause":
			return "bare"
		case name == "iface(error).Error":
			if c08CtxKind(x.Call.Value, depth+1) != "" {
				return "text"
			}
		case name == "(*status.Status).Err" && len(x.Call.Args) == 1:
			inner, ok := x.Call.Args[0].(*ssa.Call)
			if !ok {
				return ""
			}
			switch CalleeOf(inner) {
			case "status.FromContextError":
				if len(inner.Call.Args) == 1 && c08CtxKind(inner.Call.Args[0], depth+1) != "" {
					return "converted"
				}
			case "status.New", "status.Newf":
				if k := argKinds(&inner.Call); k != "" && k != "converted" {
					if len(inner.Call.Args) > 0 && (isConstInt(inner.Call.Args[0], 1) || isConstInt(inner.Call.Args[0], 4)) {
						return "converted"
					}
					return "relabelled"
				}
			}
		case name == "status.Error" || name == "status.Errorf":
			if k := argKinds(&x.Call); k != "" && k != "converted" {
				if len(x.Call.Args) > 0 && (isConstInt(x.Call.Args[0], 1) || isConstInt(x.Call.Args[0], 4)) {
					return "converted"
				}
				return "relabelled"
			}
		case name == "fmt.Errorf" || name == "errors.New" || name == "fmt.Sprintf" || name == "fmt.Sprint" || name == "errors.Join":
			if k := argKinds(&x.Call); k != "" && k != "converted" {
				return "formatted"
			}
		}
	}
	return ""
}

// c08ContextErrors: "timeouts give 504".  A function on the way from a backend RPC to toHTTPStatus that gives up
// because a context ended (its caller's deadline passed or the client went away while it waited) hands on that
// context's gRPC status error — what the gRPC client would have returned for an RPC of its own under that context.
// The bare context error, or an error formatted from it, is not a gRPC status: toHTTPStatus answers 500.
func c08ContextErrors(r *Run, onWay map[*ssa.Function]bool) {
	why := map[string]string{
		"bare":       "the bare context error is handed on: context.DeadlineExceeded / context.Canceled carry no gRPC status, toHTTPStatus answers 500 where a timeout has to give 504",
		"formatted":  "an error formatted from a context's error is handed on: it carries no gRPC status, toHTTPStatus answers 500 where a timeout has to give 504",
		"text":       "the text of a context's error is handed on",
		"relabelled": "a context's error is turned into a gRPC status with a code other than Canceled / DeadlineExceeded: a timeout is not answered 504",
	}
	r.Assume("status.FromContextError(err).Err() is the gRPC status error the gRPC client returns for a call whose context ended with err (Canceled / DeadlineExceeded), and a context whose Done channel is closed reports a non-nil Err()")
	n := 0
	for _, fn := range r.P.ModFuncs {
		if !onWay[fn] {
			continue
		}
		for _, ret := range Returns(fn) {
			if ret.Block().Comment == "recover" {
				continue
			}
			vs := RetVals(ret)
			if len(vs) == 0 {
				continue
			}
			ev := vs[len(vs)-1]
			switch k := c08CtxKind(ev, 0); k {
			case "":
			case "converted":
				n++
				r.Pass("context-error:"+FuncName(fn), r.Where(ret), "a context's error is handed on as that context's gRPC status error: "+r.D.D(ev))
			default:
				n++
				r.Fail("context-error:"+FuncName(fn), r.Where(ret), fmt.Sprintf("%s returns %s: %s", FuncName(fn), r.D.D(ev), why[k]))
			}
		}
	}
	// … and no handler maps such an error itself
	nCtx := 0
	for _, fn := range r.P.ModFuncs {
		if len(CallsTo(fn, "iface(context.Context).Err")) > 0 {
			nCtx++
		}
		if !inCtfePkg(fn) {
			continue
		}
		for _, c := range CallsTo(fn, "(*trillian/ctfe.logInfo).toHTTPStatus") {
			args := CallArgs(c)
			if k := c08CtxKind(args[len(args)-1], 0); k != "" && k != "converted" {
				n++
				r.Fail("context-error:toHTTPStatus@"+FuncName(fn), r.Where(c), "toHTTPStatus is given "+r.D.D(args[len(args)-1])+": "+why[k])
			}
		}
	}
	r.Pass("context-error:sites", "-", fmt.Sprintf("%d returns of functions on the way to toHTTPStatus (or arguments of toHTTPStatus) stem from a context's error", n))
	// positive control of the spelling the clause recognises a context's error by
	r.Floor("functions of the module calling context.Context.Err (as the clause spells it)", nCtx, 1)
}
