package main

import (
	"fmt"
	"go/token"
	"go/types"
	"os"
	"regexp"
	"sort"
	"strings"

	"golang.org/x/tools/go/ssa"
)

// Round 8 (honest twins of the i / j seeds), C03.
//
// R3 restated as the fact it protects.  The fork's asn1.Marshal copies a struct's leading
// RawContent verbatim when it is non-empty and encodes the fields only when it is empty.  The
// cached encoding of a local is FILLED by asn1.Unmarshal into it (then it agrees with the
// fields), goes STALE with the first store into a field, and is EMPTY from the allocation and
// after `Raw = nil` until the next fill.  The fact: whenever the re-marshal executes, the cache
// is not stale — whichever order the clear and the edits come in, and also when the clear
// happens on every path (the function then always re-encodes what it parsed).

// rawLed: t is a struct whose first field is `Raw asn1.RawContent` (either asn1 package).
func rawLed(t types.Type) bool {
	s, ok := t.Underlying().(*types.Struct)
	if !ok || s.NumFields() == 0 {
		return false
	}
	f := s.Field(0)
	return f.Name() == "Raw" && strings.HasSuffix(TypeName(f.Type()), "asn1.RawContent")
}

// emptiesRaw: the value stored is an empty byte string — nil, or any slice cut down to [:0]
// (asn1.Marshal looks at the length of the cached encoding only).
func emptiesRaw(v ssa.Value) bool {
	if isNilConst(v) {
		return true
	}
	if sl, ok := v.(*ssa.Slice); ok && sl.High != nil && isConstInt(sl.High, 0) && sl.Max == nil {
		return true
	}
	return false
}

// rawCache is the may-state of the cached encoding of one local at a program point.
type rawCache struct {
	empty, filled bool
	stale         map[ssa.Instruction]bool // the instructions that made a filled cache stale
}

func (s rawCache) clone() rawCache {
	n := rawCache{empty: s.empty, filled: s.filled, stale: map[ssa.Instruction]bool{}}
	for k := range s.stale {
		n.stale[k] = true
	}
	return n
}

func (s *rawCache) join(o rawCache) bool {
	ch := false
	if o.empty && !s.empty {
		s.empty, ch = true, true
	}
	if o.filled && !s.filled {
		s.filled, ch = true, true
	}
	for k := range o.stale {
		if !s.stale[k] {
			s.stale[k] = true
			ch = true
		}
	}
	return ch
}

// rawEvent classifies what instruction `in` does to the cached encoding of the local a:
// "" nothing, "clear", "fill", "mod" (a field is written), "lost" (the analysis cannot tell).
func rawEvent(r *Run, a *ssa.Alloc, name string, in ssa.Instruction) (ev string, what string) {
	rooted := func(v ssa.Value) bool {
		for i := 0; i < 12 && v != nil; i++ {
			switch x := v.(type) {
			case *ssa.Alloc:
				return x == a
			case *ssa.FieldAddr:
				v = x.X
			case *ssa.IndexAddr:
				v = x.X
			case *ssa.MakeInterface:
				v = x.X
			case *ssa.ChangeType:
				v = x.X
			default:
				return false
			}
		}
		return false
	}
	switch x := in.(type) {
	case *ssa.Store:
		d := r.D.D(x.Addr)
		switch {
		case d == "&("+name+".Raw)":
			if emptiesRaw(x.Val) {
				return "clear", ""
			}
			return "lost", "Raw is set to " + r.D.D(x.Val)
		case x.Addr == ssa.Value(a):
			if c, ok := x.Val.(*ssa.Const); ok && c.Value == nil {
				return "clear", "" // the zero value: every field and the cache are empty
			}
			return "lost", "the whole struct is overwritten with " + r.D.D(x.Val)
		case strings.HasPrefix(d, "&("+name+".") || strings.HasPrefix(d, "&("+name+"["):
			return "mod", strings.TrimSuffix(strings.TrimPrefix(d, "&("+name+"."), ")")
		}
		if rooted(x.Val) {
			return "lost", "its address is stored away"
		}
	case ssa.CallInstruction:
		callee := CalleeOf(x)
		args := CallArgs(x)
		if glob("asn1.Unmarshal*", callee) && len(args) >= 2 && rooted(args[1]) {
			if mi, ok := args[1].(*ssa.MakeInterface); ok && mi.X == ssa.Value(a) {
				return "fill", ""
			}
			return "lost", "a part of it is the target of " + callee
		}
		for _, av := range args {
			if rooted(av) {
				return "lost", "its address is handed to " + callee
			}
		}
	case *ssa.MakeClosure:
		for _, b := range x.Bindings {
			if rooted(b) {
				return "lost", "a function literal captures it"
			}
		}
	}
	return "", ""
}

var c03ParamTerm = regexp.MustCompile(`^(p\d+(\.[A-Za-z_]\w*|\[\d+\])*|-?\d+|nil|len\(p\d+(\.[A-Za-z_]\w*|\[\d+\])*\))$`)

// invariantAtoms: the branch atoms of fn that are tested in two or more blocks and speak only
// about parameters (and what hangs off them) which fn never writes: their value is the same at
// every test, so an execution is consistent with ONE valuation of them.
func invariantAtoms(r *Run, fn *ssa.Function) []*CondInfo {
	writesParams := false
	eachInstr(fn, func(in ssa.Instruction) {
		if st, ok := in.(*ssa.Store); ok && strings.HasPrefix(r.D.D(st.Addr), "&(p") {
			writesParams = true
		}
	})
	if writesParams {
		return nil
	}
	atoms := r.D.AtomsOf(fn)
	var out []*CondInfo
	for _, k := range keysOf(atoms) {
		ci := atoms[k]
		ok := false
		switch ci.Kind {
		case "nil":
			ok = c03ParamTerm.MatchString(strings.TrimPrefix(ci.Key, "nil?"))
		case "ord":
			ok = c03ParamTerm.MatchString(ci.A) && c03ParamTerm.MatchString(ci.B)
		case "bool":
			ok = c03ParamTerm.MatchString(ci.Key)
		}
		if ok && len(r.blocksTesting(fn, func(c *CondInfo) bool { return c.Key == k })) >= 2 {
			out = append(out, ci)
		}
	}
	if len(out) > 5 {
		out = out[:5] // fewer fixed atoms = more paths considered (sound)
	}
	return out
}

func sigmaProduct(atoms []*CondInfo) []Sigma {
	out := []Sigma{{}}
	for _, ci := range atoms {
		var next []Sigma
		for _, s := range out {
			for _, v := range feasibleDomain(ci) {
				n := Sigma{}
				for k, x := range s {
					n[k] = x
				}
				n[ci.Key] = v
				next = append(next, n)
			}
		}
		out = next
	}
	return out
}

// c03RawFresh decides C03.R3 for fn.
func c03RawFresh(r *Run, fn *ssa.Function) {
	name := short(FuncName(fn))
	type site struct {
		call ssa.CallInstruction
		a    *ssa.Alloc
	}
	var sites []site
	for _, c := range CallsTo(fn, "asn1.Marshal*") {
		args := CallArgs(c)
		if len(args) == 0 {
			continue
		}
		v := args[0]
		if mi, ok := v.(*ssa.MakeInterface); ok {
			v = mi.X
		}
		if !rawLed(v.Type()) {
			if p, isP := v.Type().Underlying().(*types.Pointer); !isP || !rawLed(p.Elem()) {
				continue
			}
		}
		var a *ssa.Alloc
		if ld, ok := v.(*ssa.UnOp); ok && ld.Op == token.MUL {
			a, _ = ld.X.(*ssa.Alloc)
		} else if al, ok := v.(*ssa.Alloc); ok {
			a = al
		}
		if a == nil {
			r.Fail(name+":raw-cleared", r.Where(c), "undecided: the value marshalled, "+r.D.D(args[0])+", carries a cached encoding but is not read from a local of "+FuncName(fn))
			continue
		}
		sites = append(sites, site{c, a})
	}
	nMods := 0
	for _, s := range sites {
		an := r.D.allocName(s.a)
		eachInstr(fn, func(in ssa.Instruction) {
			if ev, _ := rawEvent(r, s.a, an, in); ev == "mod" {
				nMods++
			}
		})
	}
	if len(sites) == 0 || nMods == 0 {
		r.Fail(name+":raw-cleared", r.FnPos(fn), fmt.Sprintf("undecided: %d re-marshal(s) of a parsed structure, %d modification(s) of it", len(sites), nMods))
		return
	}
	sigmas := sigmaProduct(invariantAtoms(r, fn))
	for _, s := range sites {
		an := r.D.allocName(s.a)
		r.Check(name+":marshal.tbs", true, r.Where(s.call), "asn1.Marshal encodes the local "+an)
		staleAt := map[ssa.Instruction]bool{}
		for _, sg := range sigmas {
			reach := r.D.Walk(fn, sg, nil, nil)
			r.Valuations++
			in := map[*ssa.BasicBlock]*rawCache{}
			start := rawCache{empty: true, stale: map[ssa.Instruction]bool{}}
			in[fn.Blocks[0]] = &start
			work := []*ssa.BasicBlock{fn.Blocks[0]}
			for len(work) > 0 {
				b := work[0]
				work = work[1:]
				cur := in[b].clone()
				for _, ins := range b.Instrs {
					if ins == ssa.Instruction(s.call) {
						for k := range cur.stale {
							staleAt[k] = true
						}
					}
					switch ev, _ := rawEvent(r, s.a, an, ins); ev {
					case "clear":
						cur = rawCache{empty: true, stale: map[ssa.Instruction]bool{}}
					case "fill":
						cur = rawCache{filled: true, stale: map[ssa.Instruction]bool{}}
					case "mod":
						if cur.filled || len(cur.stale) > 0 {
							cur.filled = false
							cur.stale[ins] = true
						}
					case "lost":
						cur = rawCache{stale: map[ssa.Instruction]bool{ins: true}}
					}
				}
				for _, sb := range b.Succs {
					if !reach.Blocks[sb] || !reach.Edges[[2]int{b.Index, sb.Index}] {
						continue
					}
					if old, ok := in[sb]; ok {
						if old.join(cur) {
							work = append(work, sb)
						}
					} else {
						n := cur.clone()
						in[sb] = &n
						work = append(work, sb)
					}
				}
			}
		}
		eachInstr(fn, func(ins ssa.Instruction) {
			switch ev, what := rawEvent(r, s.a, an, ins); ev {
			case "mod":
				r.Check(name+":raw-cleared-after:"+what, !staleAt[ins], r.Where(ins),
					"whenever asn1.Marshal executes after this modification, tbs.Raw has been cleared since asn1.Unmarshal last filled it (otherwise the stale cached encoding is emitted)")
			case "lost":
				r.Check(name+":raw-cache-known", !staleAt[ins], r.Where(ins),
					"undecided: the state of the cached encoding of "+an+" is not known when asn1.Marshal executes: "+what)
			}
		})
	}
}

var _ = sort.Strings

// ---- C03.R11: a present-but-empty list stays present through the re-parse ---------------------
//
// removeExtension leaves `Extensions` an empty NON-nil slice when it removed the only
// extension, and asn1.Marshal writes that as the empty wrapper `a3 02 30 00`; it omits an
// OPTIONAL field only when it holds the zero value (the nil slice).  The embedded route ends
// there.  The precertificate route parses those bytes again and (pre-issuer given, or whenever
// the cache is cleared) encodes what it parsed — the two routes agree only if the decoder hands
// back a non-nil slice for a SEQUENCE OF / SET OF that is present, also when it has no
// elements.  Decided on the decoder function(s) of the fork that build a value of a requested
// reflect.Type: every value they hand back next to a possibly-nil error was made by
// reflect.MakeSlice (which never yields nil); the zero reflect.Value only next to an error.
func c03EmptyListPresent(r *Run) {
	pk := r.P.Pkg("asn1")
	if pk == nil {
		r.Fail("empty-list-stays-present", "-", "undecided: package asn1 of the module not loaded")
		return
	}
	sp := r.P.SSA.Package(pk.Types)
	n := 0
	var names []string
	for name := range sp.Members {
		names = append(names, name)
	}
	sort.Strings(names)
	for _, name := range names {
		fn, ok := sp.Members[name].(*ssa.Function)
		if !ok || len(fn.Blocks) == 0 {
			continue
		}
		sig := fn.Signature
		if sig.Results().Len() != 2 || TypeName(sig.Results().At(0).Type()) != "reflect.Value" || TypeName(sig.Results().At(1).Type()) != "error" {
			continue
		}
		byType := false
		for i := 0; i < sig.Params().Len(); i++ {
			byType = byType || TypeName(sig.Params().At(i).Type()) == "reflect.Type"
		}
		if !byType {
			continue
		}
		n++
		key := "empty-list-stays-present:" + name
		var bad, good []string
		where := r.FnPos(fn)
		for _, ret := range Returns(fn) {
			if len(ret.Results) != 2 {
				continue
			}
			errNonNil := errKind(ret.Results[1]) == "non" || onlyWhenNonNil(ret.Results[1], ret.Block())
			var leaves []ssa.Value
			seen := map[ssa.Value]bool{}
			var visit func(v ssa.Value)
			visit = func(v ssa.Value) {
				if seen[v] {
					return
				}
				seen[v] = true
				if p, isPhi := v.(*ssa.Phi); isPhi {
					for _, e := range p.Edges {
						visit(e)
					}
					return
				}
				leaves = append(leaves, v)
			}
			visit(ret.Results[0])
			for _, l := range leaves {
				if errNonNil {
					continue // handed back together with an error: nothing is stored
				}
				if c, isCall := l.(*ssa.Call); isCall {
					if f := c.Call.StaticCallee(); f != nil && FuncName(f) == "reflect.MakeSlice" {
						good = append(good, r.D.D(l))
						continue
					}
				}
				if len(bad) == 0 {
					where = r.Where(ret)
				}
				bad = append(bad, r.D.D(l)+" at "+r.Where(ret))
			}
		}
		if len(bad) > 0 {
			r.Fail(key, where, fmt.Sprintf("a SEQUENCE OF / SET OF that is present may decode to %v, not the result of reflect.MakeSlice: if that is the nil slice (reflect.Zero, an unset variable, reflect.New(t).Elem()), asn1.Marshal treats the field as absent and omits an OPTIONAL wrapper — RemoveSCTList keeps `a3 02 30 00` for a certificate whose only extension was the SCT list, while the re-marshal in BuildPrecertTBS drops it for the precertificate whose only extension was the poison, so the two routes yield different entries", bad))
		} else {
			r.Check(key, len(good) > 0, where, fmt.Sprintf("every list handed back without an error is made by reflect.MakeSlice (non-nil also when it has no elements): %v", good))
		}
	}
	r.Floor("decoder functions that build a list of a requested type", n, 1)
}

// ---- C03.R6: what the embedded route of createLeaf hands back ----------------------------------
//
// The fact: with `embedded` set, the leaf handed back is the leaf MerkleTreeLeafForEmbeddedSCT
// (chain, sct.Timestamp) yields — the entry of the final certificate with its SCT list removed,
// under the key hash of chain[1].  Either it IS the result of that call, or it is put together
// here and holds, field by field, what that function puts there for the inputs at hand:
// the same expression over the current chain / timestamp, or a value REMEMBERED from an earlier
// call of it.  A remembered value is what the function would compute now only if
//   - every store into the memory cell is that part of a leaf a successful call produced,
//   - it is served only when every input that part depends on (read off the function's own
//     code) compared equal to a remembered private copy, stored together with the value,
//   - it is served only when the memory is filled, and only for inputs the function itself
//     does not refuse for a reason the comparison does not cover,
//   - all of that happens under one lock, without a gap between test and use.
// Anything the rule cannot establish is reported as undecided.

func c03Strip(s string) string { return strings.ReplaceAll(s, "^", "") }

// localHolds: the stores whose value the scalar local a may hold when `at` executes (zero: it
// may still hold its zero value); ok is false when a is not only stored to and loaded from.
func localHolds(a *ssa.Alloc, at ssa.Instruction) (out []*ssa.Store, zero bool, ok bool) {
	if a.Referrers() == nil {
		return nil, false, false
	}
	for _, ref := range *a.Referrers() {
		switch x := ref.(type) {
		case *ssa.DebugRef:
		case *ssa.UnOp:
			if x.Op != token.MUL {
				return nil, false, false
			}
		case *ssa.Store:
			if x.Addr != ssa.Value(a) || x.Val == ssa.Value(a) {
				return nil, false, false
			}
		default:
			return nil, false, false
		}
	}
	seen := map[*ssa.BasicBlock]bool{}
	found := map[*ssa.Store]bool{}
	var back func(b *ssa.BasicBlock, i int)
	back = func(b *ssa.BasicBlock, i int) {
		for k := i - 1; k >= 0; k-- {
			if st, isSt := b.Instrs[k].(*ssa.Store); isSt && st.Addr == ssa.Value(a) {
				if !found[st] {
					found[st] = true
					out = append(out, st)
				}
				return
			}
			if b.Instrs[k] == ssa.Instruction(a) {
				zero = true
				return
			}
		}
		if len(b.Preds) == 0 {
			zero = true
			return
		}
		for _, p := range b.Preds {
			if !seen[p] {
				seen[p] = true
				back(p, len(p.Instrs))
			}
		}
	}
	b := at.Block()
	for i, in := range b.Instrs {
		if in == at {
			back(b, i)
			return out, zero, true
		}
	}
	return nil, false, false
}

// leafSrc is one origin of a value a function hands back.
type leafSrc struct {
	fn  *ssa.Function   // the function it lives in (the analysed one, or a literal called on the spot inside it)
	v   ssa.Value       // a call result, an object built there, a constant …
	at  ssa.Instruction // where it is looked at (the return, or the store into a result variable)
	top ssa.Instruction // the instruction of the analysed function through which it gets to the return
	why string          // non-empty: the trace gave up
}

type leafTracer struct {
	r   *Run
	top *ssa.Function
	out []leafSrc
	// the merged values whose test against nil came out nil on every way to the return the
	// trace started from (the error that travels with the leaf): an edge over which such a
	// value arrives non-nil is not taken on the way to that return
	nilPhis map[*ssa.Phi]bool
}

// nilTestedPhis: the φ-nodes of ret's function that were compared with nil, with the outcome
// "nil", on every path to ret — and the φ-nodes merged into them.
func nilTestedPhis(ret *ssa.Return) map[*ssa.Phi]bool {
	out := map[*ssa.Phi]bool{}
	var add func(p *ssa.Phi)
	add = func(p *ssa.Phi) {
		if out[p] {
			return
		}
		out[p] = true
		for _, e := range p.Edges {
			if q, ok := e.(*ssa.Phi); ok {
				add(q)
			}
		}
	}
	for _, b := range ret.Parent().Blocks {
		if len(b.Instrs) == 0 {
			continue
		}
		ifi, ok := b.Instrs[len(b.Instrs)-1].(*ssa.If)
		if !ok {
			continue
		}
		bo, ok := ifi.Cond.(*ssa.BinOp)
		if !ok || (bo.Op != token.NEQ && bo.Op != token.EQL) {
			continue
		}
		var ph *ssa.Phi
		if isNilConst(bo.Y) {
			ph, _ = bo.X.(*ssa.Phi)
		} else if isNilConst(bo.X) {
			ph, _ = bo.Y.(*ssa.Phi)
		}
		if ph == nil {
			continue
		}
		k := 1 // `!= nil`: the value is nil on the false edge
		if bo.Op == token.EQL {
			k = 0
		}
		if edgeDominates(b, k, ret.Block()) {
			add(ph)
		}
	}
	return out
}

// errKnownNonNil: the error result of ret is non-nil on every execution that gets there.
func errKnownNonNil(ret *ssa.Return) bool {
	if len(ret.Results) == 0 {
		return false
	}
	ev := ret.Results[len(ret.Results)-1]
	if errKind(ev) == "non" || onlyWhenNonNil(ev, ret.Block()) {
		return true
	}
	if ld, ok := ev.(*ssa.UnOp); ok && ld.Op == token.MUL {
		if a, isA := ld.X.(*ssa.Alloc); isA {
			sts, zero, ok := localHolds(a, ret)
			if !ok || zero || len(sts) == 0 {
				return false
			}
			for _, st := range sts {
				if !(errKind(st.Val) == "non" || onlyWhenNonNil(st.Val, st.Block())) {
					return false
				}
			}
			return true
		}
	}
	return false
}

// spotLiteral: call invokes, where it is written, a function literal of fn (every parameter of
// the literal then reads as the argument, rendered ^arg).
func spotLiteral(fn *ssa.Function, c *ssa.Call) *ssa.Function {
	var cl *ssa.Function
	switch x := c.Call.Value.(type) {
	case *ssa.Function:
		cl = x
	case *ssa.MakeClosure:
		cl, _ = x.Fn.(*ssa.Function)
	}
	if cl == nil || cl.Parent() != fn || len(cl.Blocks) == 0 {
		return nil
	}
	for _, p := range cl.Params {
		if onTheSpotArg(p) == nil {
			return nil
		}
	}
	return cl
}

func (t *leafTracer) trace(fn *ssa.Function, reach *Reach, v ssa.Value, at, top ssa.Instruction, depth int) {
	giveUp := func(why string) {
		t.out = append(t.out, leafSrc{fn: fn, v: v, at: at, top: top, why: why})
	}
	if depth > 12 {
		giveUp("too many steps")
		return
	}
	own := func(in ssa.Instruction) ssa.Instruction {
		if fn == t.top {
			return in
		}
		return top
	}
	enter := func(c *ssa.Call, idx int) bool {
		cl := spotLiteral(fn, c)
		if cl == nil {
			return false
		}
		n := 0
		for _, ret := range Returns(cl) {
			if ret.Block() == cl.Recover || idx >= len(ret.Results) || errKnownNonNil(ret) {
				continue
			}
			n++
			t.trace(cl, nil, ret.Results[idx], ret, own(c), depth+1)
		}
		if n == 0 {
			giveUp("the function literal has no return that can hand back a value")
		}
		return true
	}
	switch x := v.(type) {
	case *ssa.Phi:
		n := 0
		for i, e := range x.Edges {
			if reach != nil && !reach.Edges[[2]int{x.Block().Preds[i].Index, x.Block().Index}] {
				continue
			}
			errs := false
			if fn == t.top {
				for q := range t.nilPhis {
					if q.Block() == x.Block() && q != x && i < len(q.Edges) {
						if ev := q.Edges[i]; errKind(ev) == "non" || onlyWhenNonNil(ev, x.Block().Preds[i]) {
							errs = true
						}
					}
				}
			}
			if errs {
				n++ // the edge exists; it leads to a failure return only
				continue
			}
			n++
			t.trace(fn, reach, e, at, top, depth+1)
		}
		if n == 0 {
			giveUp("no way into the merge")
		}
		return
	case *ssa.Extract:
		if c, ok := x.Tuple.(*ssa.Call); ok {
			if enter(c, x.Index) {
				return
			}
			t.out = append(t.out, leafSrc{fn: fn, v: v, at: at, top: own(c)})
			return
		}
	case *ssa.Call:
		if enter(x, 0) {
			return
		}
		t.out = append(t.out, leafSrc{fn: fn, v: v, at: at, top: own(x)})
		return
	case *ssa.UnOp:
		if a, ok := x.X.(*ssa.Alloc); ok && x.Op == token.MUL {
			sts, zero, ok := localHolds(a, x)
			if !ok {
				giveUp("the variable " + t.r.D.allocName(a) + " is not only assigned and read")
				return
			}
			for _, st := range sts {
				if reach != nil && !reach.Has(st) {
					continue
				}
				t.trace(fn, reach, st.Val, st, own(st), depth+1)
			}
			if zero {
				t.out = append(t.out, leafSrc{fn: fn, v: zeroConstOf(a.Type().(*types.Pointer).Elem()), at: at, top: top})
			}
			return
		}
	case *ssa.Alloc:
		t.out = append(t.out, leafSrc{fn: fn, v: v, at: at, top: own(x)})
		return
	}
	t.out = append(t.out, leafSrc{fn: fn, v: v, at: at, top: top})
}

// resultOf: v is result idx of a static call of callee; the call.
func resultOf(v ssa.Value, callee *ssa.Function, idx int) *ssa.Call {
	switch x := v.(type) {
	case *ssa.Extract:
		if c, ok := x.Tuple.(*ssa.Call); ok && x.Index == idx && c.Call.StaticCallee() == callee {
			return c
		}
	case *ssa.Call:
		if idx == 0 && x.Call.StaticCallee() == callee {
			return x
		}
	}
	return nil
}

// c03EmbeddedRoute decides what createLeaf hands back on the walk sg (embedded set, the SCT
// contained).  It returns the instructions of fn that produce such a leaf (the markers of the
// gating obligations); ok is false when nothing could be decided.
func c03EmbeddedRoute(r *Run, fn, slow *ssa.Function, chain, sct string, sg Sigma) (markers []ssa.Instruction, ok bool) {
	reach := r.D.Walk(fn, sg, nil, nil)
	r.Valuations++
	tr := &leafTracer{r: r, top: fn}
	for _, ret := range reachableReturns(fn, reach) {
		if len(ret.Results) == 2 && errKind(ret.Results[1]) == "nil" {
			tr.nilPhis = nilTestedPhis(ret)
			tr.trace(fn, reach, ret.Results[0], ret, nil, 0)
		}
	}
	if len(tr.out) == 0 {
		r.Fail("createLeaf:routes", r.FnPos(fn), "undecided: no success return of the embedded route found")
		return nil, false
	}
	want := []string{chain, sct + ".Timestamp"}
	seenCall := map[*ssa.Call]bool{}
	seenObj := map[ssa.Value]bool{}
	inside := false
	for _, s := range tr.out {
		if s.top != nil {
			markers = append(markers, s.top)
		}
		switch {
		case s.why != "":
			r.Fail("createLeaf:embedded.leaf", r.Where(s.at), "undecided: the leaf handed back on the embedded route could not be traced to its origin: "+s.why)
		case resultOf(s.v, slow, 0) != nil:
			c := resultOf(s.v, slow, 0)
			if seenCall[c] {
				continue
			}
			seenCall[c] = true
			args := CallArgs(c)
			r.Check("createLeaf:embedded.chain", len(args) == 2 && c03Strip(r.D.D(args[0])) == chain, r.Where(c), "MerkleTreeLeafForEmbeddedSCT is given the chain "+r.D.D(args[0])+" (expected "+chain+")")
			r.Check("createLeaf:embedded.timestamp", len(args) == 2 && c03Strip(r.D.D(args[1])) == want[1], r.Where(c), "MerkleTreeLeafForEmbeddedSCT is given the timestamp "+r.D.D(args[1])+" (expected "+want[1]+")")
		default:
			if a, isA := s.v.(*ssa.Alloc); isA && TypeName(a.Type()) == TypeName(slow.Signature.Results().At(0).Type()) {
				if seenObj[s.v] {
					continue
				}
				seenObj[s.v] = true
				if c03BuiltLikeSlow(r, s, slow, want) && !inside {
					inside = true
					c03LeafStaysInside(r, fn)
				}
				continue
			}
			r.Fail("createLeaf:embedded.leaf", r.Where(s.at), "the leaf handed back on the embedded route is "+r.D.D(s.v)+": neither the result of MerkleTreeLeafForEmbeddedSCT nor an object put together here")
		}
	}
	return markers, true
}

// c03LeafFromRegular: on the walk sg (embedded not set) every leaf handed back is the result of
// the one call of the regular constructor.
func c03LeafFromRegular(r *Run, fn *ssa.Function, reg *ssa.Call, sg Sigma) {
	reach := r.D.Walk(fn, sg, nil, nil)
	r.Valuations++
	tr := &leafTracer{r: r, top: fn}
	for _, ret := range reachableReturns(fn, reach) {
		if len(ret.Results) == 2 && errKind(ret.Results[1]) == "nil" {
			tr.nilPhis = nilTestedPhis(ret)
			tr.trace(fn, reach, ret.Results[0], ret, nil, 0)
		}
	}
	ok := len(tr.out) > 0
	what := []string{}
	for _, s := range tr.out {
		what = append(what, r.D.D(s.v))
		if s.why != "" || resultOf(s.v, reg.Call.StaticCallee(), 0) != reg {
			ok = false
		}
	}
	r.Check("createLeaf:regular.leaf", ok, r.FnPos(fn), fmt.Sprintf("without `embedded` the leaf handed back is the result of MerkleTreeLeafFromChain: %v", what))
}

// slowSuccess: the one success return of the slow function, and the walk it lies on.
func slowSuccess(r *Run, slow *ssa.Function) (*Reach, *ssa.Return) {
	reach := r.D.Walk(slow, Sigma{}, nil, nil)
	r.Valuations++
	var ret *ssa.Return
	n := 0
	for _, rt := range reachableReturns(slow, reach) {
		if len(rt.Results) == 2 && errKind(rt.Results[1]) == "nil" {
			ret = rt
			n++
		}
	}
	if n != 1 {
		return nil, nil
	}
	return reach, ret
}

// c03BuiltLikeSlow: the object s.v, put together on the embedded route, holds field by field
// what `slow` puts into the leaf it hands back for the inputs want (terms of the analysed
// function for slow's parameters).
func c03BuiltLikeSlow(r *Run, s leafSrc, slow *ssa.Function, want []string) (remembered bool) {
	sreach, sret := slowSuccess(r, slow)
	if sret == nil {
		r.Fail("createLeaf:embedded.built", r.Where(s.at), "undecided: "+FuncName(slow)+" does not have exactly one success return")
		return false
	}
	o := &objView{r: r}
	memo := &memoJudge{r: r, src: s, slow: slow, want: want, done: map[string]bool{}}
	var cmp func(path string, t types.Type)
	cmp = func(path string, t types.Type) {
		key := "createLeaf:embedded.built:" + path
		sl, _, why := r.Built(slow, sreach, sret, sret.Results[0], path)
		if why != "" || len(sl) != 1 {
			r.Fail(key, r.Where(sret), fmt.Sprintf("undecided: what %s puts into %s: %v %s", FuncName(slow), path, sl, why))
			return
		}
		var inner *types.Struct
		switch u := t.Underlying().(type) {
		case *types.Pointer:
			if sl[0] != "nil" {
				inner, _ = u.Elem().Underlying().(*types.Struct)
			}
		case *types.Struct:
			inner = u
		}
		if inner != nil {
			for i := 0; i < inner.NumFields(); i++ {
				cmp(path+"."+inner.Field(i).Name(), inner.Field(i).Type())
			}
			return
		}
		_, vals, why := r.Built(s.fn, nil, s.at, s.v, path)
		if why != "" {
			r.Fail(key, r.Where(s.at), "undecided: what the leaf put together here holds in "+path+": "+why)
			return
		}
		expect := c06SubstParams(sl[0], want)
		for _, x := range vals {
			got := c03Strip(o.render(x))
			if got == expect {
				r.Pass(key, r.Where(s.at), path+" = "+got+", the expression "+FuncName(slow)+" uses, over the inputs at hand")
				continue
			}
			if ld, cell, sfx := memoRead(r, x); ld != nil {
				memo.judge(path, sl[0], x, ld, cell, sfx)
				continue
			}
			r.Fail(key, r.Where(s.at), "the leaf put together on the embedded route holds "+got+" in "+path+"; "+FuncName(slow)+" puts "+expect+" there")
		}
	}
	leafT := s.v.Type().(*types.Pointer).Elem()
	st, _ := leafT.Underlying().(*types.Struct)
	if st == nil {
		r.Fail("createLeaf:embedded.built", r.Where(s.at), "undecided: not a struct")
		return false
	}
	for i := 0; i < st.NumFields(); i++ {
		cmp(st.Field(i).Name(), st.Field(i).Type())
	}
	return len(memo.done) > 0
}

// memoRead: x is (a part sfx of) a value read from a field of a package-level variable:
// the load, the name of the cell (g:pkg.var.field) and the selections made on the value.
func memoRead(r *Run, x objVal) (*ssa.UnOp, string, []string) {
	v := x.v
	var sfx []string
	for {
		s, ok := v.(*objSel)
		if !ok {
			break
		}
		sfx = append([]string{s.name}, sfx...)
		v = s.base
	}
	ld, ok := v.(*ssa.UnOp)
	if !ok || ld.Op != token.MUL {
		return nil, "", nil
	}
	if g, _ := globalFieldPath(ld.X); g == nil {
		return nil, "", nil
	}
	return ld, cellName(r, ld.X), sfx
}

func cellName(r *Run, addr ssa.Value) string {
	return strings.TrimSuffix(strings.TrimPrefix(r.D.D(addr), "&("), ")")
}

var c03DepRe = regexp.MustCompile(`p\d+(?:\[\d+\]|\.[A-Za-z_]\w*)*`)

// paramDeps: the parameter-rooted parts a term mentions (maximal selections), e.g.
// p0[0].RawTBSCertificate; ok is false when the term also depends on something that is neither a
// parameter, a constant nor a call.
func paramDeps(term string) (deps []string, ok bool) {
	for _, bad := range []string{"g:", "new:", "phi(", "φ", "it@", "opaque", "fv:", "dyn(", "iface(", "(~", "*", "^"} {
		if strings.Contains(term, bad) {
			return nil, false
		}
	}
	seen := map[string]bool{}
	for _, loc := range c03DepRe.FindAllStringIndex(term, -1) {
		if loc[0] > 0 {
			c := term[loc[0]-1]
			if c == '.' || c == '#' || c == '_' || c >= '0' && c <= '9' || c >= 'a' && c <= 'z' || c >= 'A' && c <= 'Z' {
				continue
			}
		}
		d := term[loc[0]:loc[1]]
		if !seen[d] {
			seen[d] = true
			deps = append(deps, d)
		}
	}
	sort.Strings(deps)
	return deps, true
}

// memoAccess: every use the module makes of the package-level variable g.
type memoAccess struct {
	loads  map[string][]*ssa.UnOp
	stores map[string][]*ssa.Store
	why    string // non-empty: a use the rule does not follow
}

func memoUses(r *Run, g *ssa.Global) *memoAccess {
	m := &memoAccess{loads: map[string][]*ssa.UnOp{}, stores: map[string][]*ssa.Store{}}
	if token.IsExported(g.Name()) {
		m.why = "the variable is exported: any package can write it"
		return m
	}
	var visit func(fa *ssa.FieldAddr)
	visit = func(fa *ssa.FieldAddr) {
		if fa.Referrers() == nil {
			return
		}
		for _, ref := range *fa.Referrers() {
			switch x := ref.(type) {
			case *ssa.DebugRef:
			case *ssa.FieldAddr:
				visit(x)
			case *ssa.UnOp:
				if x.Op == token.MUL {
					c := cellName(r, fa)
					m.loads[c] = append(m.loads[c], x)
				} else {
					m.why = "used by " + x.String()
				}
			case *ssa.Store:
				if x.Addr == ssa.Value(fa) {
					c := cellName(r, fa)
					m.stores[c] = append(m.stores[c], x)
				} else {
					m.why = "the address of " + cellName(r, fa) + " is stored away at " + r.Where(x)
				}
			case ssa.CallInstruction:
				if lockOp(x.Common()) == "" {
					m.why = "the address of " + cellName(r, fa) + " is handed to " + CalleeOf(x) + " at " + r.Where(x)
				}
			default:
				m.why = "the address of " + cellName(r, fa) + " is used at " + r.Where(ref)
			}
		}
	}
	for _, f := range r.P.ModFuncs {
		eachInstr(f, func(in ssa.Instruction) {
			for _, op := range in.Operands(nil) {
				if *op != ssa.Value(g) {
					continue
				}
				if fa, ok := in.(*ssa.FieldAddr); ok && fa.X == ssa.Value(g) {
					visit(fa)
				} else {
					m.why = "the variable is used as a whole at " + r.Where(in)
				}
			}
		})
	}
	return m
}

// memoJudge decides the remembered parts of one leaf put together on the embedded route.
type memoJudge struct {
	r    *Run
	src  leafSrc
	slow *ssa.Function
	want []string
	done map[string]bool
	uses map[*ssa.Global]*memoAccess
}

// selectionsFrom unwinds loads and field selections: v = root.f1.f2…
func selectionsFrom(v ssa.Value) (root ssa.Value, path []string) {
	for i := 0; i < 16; i++ {
		switch x := v.(type) {
		case *ssa.UnOp:
			if x.Op != token.MUL {
				return v, path
			}
			fa, ok := x.X.(*ssa.FieldAddr)
			if !ok {
				return v, path
			}
			if f := fieldOf(fa); f != nil {
				path = append([]string{f.Name()}, path...)
			} else {
				return v, path
			}
			v = fa.X
		case *ssa.Field:
			if f := fieldOfVal(x); f != nil {
				path = append([]string{f.Name()}, path...)
			} else {
				return v, path
			}
			v = x.X
		default:
			return v, path
		}
	}
	return v, path
}

// freshCopyOf: v is a newly allocated copy of a byte string: append(nil / empty, x...),
// bytes.Clone(x), slices.Clone(x); x.
func freshCopyOf(v ssa.Value) ssa.Value {
	c, ok := v.(*ssa.Call)
	if !ok {
		return nil
	}
	if b, isB := c.Call.Value.(*ssa.Builtin); isB && b.Name() == "append" && len(c.Call.Args) == 2 {
		base := c.Call.Args[0]
		empty := isNilConst(base)
		if mk, isMk := base.(*ssa.MakeSlice); isMk && isConstInt(mk.Len, 0) {
			empty = true
		}
		if sl, isSl := base.(*ssa.Slice); isSl {
			if a, isA := sl.X.(*ssa.Alloc); isA {
				if arr, isArr := a.Type().(*types.Pointer).Elem().Underlying().(*types.Array); isArr && arr.Len() == 0 {
					empty = true // []byte{}
				}
			}
		}
		if empty {
			return c.Call.Args[1]
		}
		return nil
	}
	if f := c.Call.StaticCallee(); f != nil && len(c.Call.Args) == 1 {
		if n := FuncName(f); n == "bytes.Clone" || strings.HasPrefix(n, "slices.Clone") {
			return c.Call.Args[0]
		}
	}
	return nil
}

func sameBlockBetween(a, b ssa.Instruction, f func(in ssa.Instruction) bool) bool {
	if a.Block() != b.Block() {
		return false
	}
	in := false
	for _, x := range a.Block().Instrs {
		if x == a || x == b {
			if in {
				return true
			}
			in = true
			continue
		}
		if in && !f(x) {
			return false
		}
	}
	return false
}

func (m *memoJudge) judge(path, slowTerm string, x objVal, ld *ssa.UnOp, cell string, sfx []string) {
	r := m.r
	key := "createLeaf:embedded.remembered:" + path
	if m.done[key+"|"+cell] {
		return
	}
	m.done[key+"|"+cell] = true
	fn := m.src.fn
	where := r.Where(ld)
	fail := func(k, detail string) { r.Fail(k, where, detail) }
	g, _ := globalFieldPath(ld.X)
	if m.uses == nil {
		m.uses = map[*ssa.Global]*memoAccess{}
	}
	if m.uses[g] == nil {
		m.uses[g] = memoUses(r, g)
	}
	acc := m.uses[g]
	if acc.why != "" {
		fail(key, "undecided: "+path+" of the leaf is read from "+cell+", a variable the rule cannot follow: "+acc.why)
		return
	}
	if ld.Block().Parent() != fn {
		fail(key, "undecided: "+cell+" is read outside the function that puts the leaf together")
		return
	}
	// what the slow path puts there depends on …
	deps, pure := paramDeps(slowTerm)
	if !pure || len(deps) == 0 {
		fail(key, "undecided: "+FuncName(m.slow)+" puts "+slowTerm+" into "+path+", which is not a function of its inputs alone; a remembered copy cannot be judged")
		return
	}
	r.Assume("the functions " + FuncName(m.slow) + " computes the parts of its leaf with (x509.RemoveSCTList, sha256.Sum256) depend on their argument bytes alone")
	r.Assume("a TBSCertificate produced by a successful x509.RemoveSCTList is not nil (the remembered value is told from the not-yet-filled memory by a nil test)")

	// (1) every store into the cell is that part of a leaf a successful call of the slow function handed back
	type fill struct {
		st   *ssa.Store
		call *ssa.Call
		args []string
	}
	var fills []fill
	okFill := len(acc.stores[cell]) > 0
	var whyFill []string
	for _, st := range acc.stores[cell] {
		root, sel := selectionsFrom(st.Val)
		c := resultOf(root, m.slow, 0)
		full := strings.Join(append(append([]string{}, sel...), sfx...), ".")
		sf := st.Block().Parent()
		switch {
		case c == nil:
			okFill = false
			whyFill = append(whyFill, r.Where(st)+": "+cell+" ← "+r.D.D(st.Val)+", not a part of a leaf "+FuncName(m.slow)+" handed back")
		case full != path:
			okFill = false
			whyFill = append(whyFill, r.Where(st)+": "+cell+" ← the part "+strings.Join(sel, ".")+" of such a leaf, read as "+path)
		default:
			ev := CallResult(c, 1)
			gated := false
			if ev != nil {
				k := "nil?" + r.D.D(ev)
				if _, has := r.D.AtomsOf(sf)[k]; has {
					reach := r.D.Walk(sf, Sigma{k: "non"}, nil, nil)
					r.Valuations++
					gated = !reach.Has(st)
				}
			}
			if !gated {
				okFill = false
				whyFill = append(whyFill, r.Where(st)+": the store can execute although the call failed (its error is not tested first)")
				continue
			}
			var args []string
			for _, a := range CallArgs(c) {
				args = append(args, r.D.D(a))
			}
			fills = append(fills, fill{st, c, args})
		}
	}
	r.Check(key+":filled-from-success", okFill, where, fmt.Sprintf("every store into %s is the part %s of a leaf that a successful call of %s handed back %v", cell, path, FuncName(m.slow), whyFill))
	if !okFill {
		return
	}

	// (2) served only when every input it depends on compared equal to a remembered private copy
	covered := map[string]bool{}
	var keyCells []string
	var compares []ssa.Instruction
	for _, d := range deps {
		cur := c06SubstParams(d, m.want)
		var kCell string
		var eq *ssa.Call
		for _, c := range append(CallsTo(fn, "bytes.Equal"), CallsTo(fn, "slices.Equal*")...) {
			call, isCall := c.(*ssa.Call)
			args := CallArgs(c)
			if !isCall || len(args) != 2 {
				continue
			}
			for i := 0; i < 2; i++ {
				kl, isLd := args[i].(*ssa.UnOp)
				if !isLd || kl.Op != token.MUL {
					continue
				}
				if kg, _ := globalFieldPath(kl.X); kg != g {
					continue
				}
				if c03Strip(r.D.D(args[1-i])) == cur {
					kCell, eq = cellName(r, kl.X), call
				}
			}
		}
		k := key + ":input-compared:" + d
		if eq == nil {
			fail(k, fmt.Sprintf("%s of the leaf is served from %s; %s computes it from %s of its inputs, and no test compares the %s at hand with a remembered copy before the remembered value is used: after a call with another %s the value of that call is served", path, cell, FuncName(m.slow), d, cur, cur))
			continue
		}
		ek := r.D.Classify(eq).Key
		reach := r.D.Walk(fn, Sigma{ek: "F"}, nil, nil)
		r.Valuations++
		if !r.Check(k, !reach.Has(ld), r.Where(eq), fmt.Sprintf("the remembered %s is read only when %s came out equal", path, ek)) {
			continue
		}
		// the key cell changes only together with the value, and holds a private copy of that call's input
		okK := len(acc.stores[kCell]) > 0
		var whyK []string
		paired := map[*ssa.Store]bool{}
		for _, ks := range acc.stores[kCell] {
			var f *fill
			for i := range fills {
				if fills[i].st.Block() == ks.Block() {
					f = &fills[i]
				}
			}
			if f == nil {
				okK = false
				whyK = append(whyK, r.Where(ks)+": "+kCell+" is written without "+cell+" (key and value no longer belong together)")
				continue
			}
			src := freshCopyOf(ks.Val)
			fillDep := c06SubstParams(d, f.args)
			switch {
			case src == nil:
				okK = false
				whyK = append(whyK, r.Where(ks)+": "+kCell+" ← "+r.D.D(ks.Val)+" is not a private copy (the caller can change the bytes it shares with the remembered key afterwards)")
			case r.D.D(src) != fillDep:
				okK = false
				whyK = append(whyK, r.Where(ks)+": "+kCell+" ← copy of "+r.D.D(src)+", but the value stored with it was computed from "+fillDep)
			default:
				paired[f.st] = true
			}
		}
		for _, f := range fills {
			if !paired[f.st] {
				okK = false
				whyK = append(whyK, r.Where(f.st)+": "+cell+" is written without "+kCell)
			}
		}
		if r.Check(key+":key-is-private-copy:"+d, okK, r.Where(eq), fmt.Sprintf("%s and %s change only together, and %s then holds a private copy of the %s the value was computed from %v", kCell, cell, kCell, d, whyK)) {
			covered[d] = true
			keyCells = append(keyCells, kCell)
			compares = append(compares, eq)
		}
	}

	// (3) never served from the memory as it is before the first fill
	nk := "nil?" + cell
	if _, has := r.D.AtomsOf(fn)[nk]; !has {
		fail(key+":served-only-when-filled", "undecided: no test tells the filled memory from its initial state (all cells zero, which compares equal to an empty input): "+cell+" is not tested against nil")
	} else {
		reach := r.D.Walk(fn, Sigma{nk: "nil"}, nil, nil)
		r.Valuations++
		r.Check(key+":served-only-when-filled", !reach.Has(ld), where, "while "+cell+" is nil (nothing remembered yet) it is not served")
	}

	// (4) inputs the slow function refuses for a reason the comparison does not cover are refused here too
	for _, ak := range keysOf(r.D.AtomsOf(m.slow)) {
		ci := r.D.AtomsOf(m.slow)[ak]
		ads, pureA := paramDeps(ak)
		all := pureA
		for _, d := range ads {
			base := d
			all = all && covered[base]
		}
		if all && len(ads) > 0 {
			continue // decided by inputs that compared equal to those of a call that succeeded
		}
		var refuses []string
		for _, v := range feasibleDomain(ci) {
			reach := r.D.Walk(m.slow, Sigma{ak: v}, nil, nil)
			r.Valuations++
			succ := false
			for _, rt := range reachableReturns(m.slow, reach) {
				succ = succ || errKind(rt.Results[len(rt.Results)-1]) == "nil"
			}
			if !succ {
				refuses = append(refuses, v)
			}
		}
		if len(refuses) == 0 {
			continue
		}
		k := key + ":refused-like-slow-path:" + ak
		if !pureA {
			fail(k, "undecided: "+FuncName(m.slow)+" refuses its inputs when "+ak+" ∈ "+strings.Join(refuses, ",")+", a condition that is not over its inputs alone")
			continue
		}
		// the same atom over the inputs at hand
		fk, flip := "", false
		for _, bk := range keysOf(r.D.AtomsOf(fn)) {
			bi := r.D.AtomsOf(fn)[bk]
			if bi.Kind != ci.Kind {
				continue
			}
			switch ci.Kind {
			case "ord":
				a, b := c06SubstParams(ci.A, m.want), c06SubstParams(ci.B, m.want)
				if c03Strip(bi.A) == a && c03Strip(bi.B) == b {
					fk = bk
				} else if c03Strip(bi.A) == b && c03Strip(bi.B) == a {
					fk, flip = bk, true
				}
			default:
				if c03Strip(bk) == c06SubstParams(ak, m.want) {
					fk = bk
				}
			}
		}
		if fk == "" {
			fail(k, fmt.Sprintf("%s refuses its inputs when %s ∈ {%s}; the function that serves the remembered %s does not test that condition on the inputs at hand, so it hands back a leaf where the slow path reports an error", FuncName(m.slow), ak, strings.Join(refuses, ","), path))
			continue
		}
		okR := true
		for _, v := range refuses {
			if flip {
				v = map[string]string{"<": ">", ">": "<", "=": "="}[v]
			}
			reach := r.D.Walk(fn, Sigma{fk: v}, nil, nil)
			r.Valuations++
			okR = okR && !reach.Has(ld)
		}
		r.Check(k, okR, where, fmt.Sprintf("with %s ∈ {%s} (refused by %s) the remembered %s is not served", fk, strings.Join(refuses, ","), FuncName(m.slow), path))
	}

	// (5) one lock around every access, no gap between test and use / key and value
	cells := append([]string{cell}, keyCells...)
	var common map[string]bool
	var whyL []string
	var unlocks []ssa.Instruction
	byFn := map[*ssa.Function][]ssa.Instruction{}
	for _, c := range cells {
		for _, l := range acc.loads[c] {
			byFn[l.Block().Parent()] = append(byFn[l.Block().Parent()], l)
		}
		for _, s := range acc.stores[c] {
			byFn[s.Block().Parent()] = append(byFn[s.Block().Parent()], s)
		}
	}
	for f, ins := range byFn {
		h := r.heldAt(f)
		for _, in := range ins {
			now := map[string]bool{}
			for mu, mode := range h[in] {
				if mode == 'W' {
					now[mu] = true
				}
			}
			if common == nil {
				common = now
			} else {
				for mu := range common {
					if !now[mu] {
						delete(common, mu)
					}
				}
			}
			if len(now) == 0 {
				whyL = append(whyL, r.Where(in)+": no lock held")
			}
		}
		eachInstr(f, func(in ssa.Instruction) {
			if c, ok := in.(*ssa.Call); ok && lockOp(&c.Call) == "-" {
				unlocks = append(unlocks, in)
			}
		})
	}
	okL := len(common) > 0 && len(whyL) == 0
	between := func(a, b ssa.Instruction) bool { // an explicit unlock can execute between a and b
		for _, u := range unlocks {
			if u.Block().Parent() != a.Block().Parent() {
				continue
			}
			if a.Block() == b.Block() {
				if !sameBlockBetween(a, b, func(in ssa.Instruction) bool { return in != u }) {
					return true
				}
				continue
			}
			if (u.Block() == a.Block() && c06InstrDominates(a, u) || blockReachesBlock(a.Block(), u.Block())) && (u.Block() == b.Block() && c06InstrDominates(u, b) || blockReachesBlock(u.Block(), b.Block())) {
				return true
			}
		}
		return false
	}
	for _, eq := range compares {
		if between(eq, ld) {
			okL = false
			whyL = append(whyL, "the lock can be released between the comparison at "+r.Where(eq)+" and the use of the remembered value")
		}
	}
	for _, f := range fills {
		for _, kc := range keyCells {
			for _, ks := range acc.stores[kc] {
				if ks.Block() == f.st.Block() {
					a, b := ssa.Instruction(ks), ssa.Instruction(f.st)
					if !c06InstrDominates(a, b) {
						a, b = b, a
					}
					if between(a, b) {
						okL = false
						whyL = append(whyL, "the lock can be released between the stores of key and value at "+r.Where(f.st))
					}
				}
			}
		}
	}
	var mus []string
	for mu := range common {
		mus = append(mus, mu)
	}
	sort.Strings(mus)
	r.Check(key+":one-lock", okL, where, fmt.Sprintf("every read and write of %v happens with the same mutex held for writing %v, test and use / key and value in one critical section %v", cells, mus, whyL))

	// (6) the remembered value itself is only compared with nil and put into leaves
	okU := true
	var whyU []string
	for _, l := range acc.loads[cell] {
		if l.Referrers() == nil {
			continue
		}
		for _, ref := range *l.Referrers() {
			switch y := ref.(type) {
			case *ssa.DebugRef:
			case *ssa.BinOp:
				if !(isNilConst(y.X) || isNilConst(y.Y)) {
					okU = false
					whyU = append(whyU, r.Where(y))
				}
			case *ssa.Store:
				if y.Val != ssa.Value(l) {
					okU = false
					whyU = append(whyU, r.Where(y))
				}
			default:
				okU = false
				whyU = append(whyU, r.Where(ref))
			}
		}
	}
	r.Check(key+":remembered-value-not-changed", okU, where, fmt.Sprintf("the value read from %s is only tested against nil and put into a leaf (nothing in this package writes through it) %v", cell, whyU))
}

// c03LeafStaysInside: the leaves createLeaf hands back share bytes with the remembered entry;
// they do not leave the package — createLeaf is not exported and none of its callers hands on
// anything but errors, hashes and strings.
func c03LeafStaysInside(r *Run, fn *ssa.Function) {
	ok := !token.IsExported(fn.Name())
	var why []string
	if !ok {
		why = append(why, FuncName(fn)+" is exported")
	}
	for name, calls := range r.CallersOf(FuncName(fn)) {
		for _, c := range calls {
			res := c.Parent().Signature.Results()
			for i := 0; i < res.Len(); i++ {
				t := res.At(i).Type()
				switch u := t.Underlying().(type) {
				case *types.Basic:
					continue
				case *types.Array:
					if _, isB := u.Elem().Underlying().(*types.Basic); isB {
						continue
					}
				case *types.Interface:
					if TypeName(t) == "error" {
						continue
					}
				}
				ok = false
				why = append(why, name+" returns a "+TypeName(t))
			}
		}
	}
	r.Check("createLeaf:embedded.remembered:leaf-stays-inside", ok, r.FnPos(fn), fmt.Sprintf("leaves that share the remembered bytes are only handed to callers that return errors, hashes and strings %v", why))
}

// c03Debug (dev aid): with CTVERIF_C03_DEBUG=<substring> print the obligations recorded so far
// whose key contains it.
func c03Debug(r *Run) {
	d := os.Getenv("CTVERIF_C03_DEBUG")
	if d == "" {
		return
	}
	for _, o := range r.Obls {
		if strings.Contains(o.Key, d) {
			fmt.Printf("OBL ok=%v %s @ %s: %s\n", o.OK, o.Key, o.Where, o.Detail)
		}
	}
}
