package main

import (
	"fmt"
	"go/constant"
	"go/token"
	"go/types"
	"math"
	"os"
	"sort"
	"strings"

	"golang.org/x/tools/go/ssa"
)

// Round 7, C20.R10: somebody works.
//
// Clause of the property: "a pass that reports success has delivered every index of its range".
// fetchTail reports the verified source tree size when Fetcher.Run returned nil and the shared
// context was not cancelled (C20.R4).  Both verdicts only say that nobody FAILED.  That every batch
// was fetched and stored rests on somebody having WORKED: the range channel is drained by the fetch
// workers, the batch channel by the submitters, and both kinds of worker are goroutines started by a
// counting loop ("fan-out").  A fan-out loop whose body is not entered starts nobody: the WaitGroup
// is empty, Wait() returns at once, nothing failed, nothing was cancelled — and the pass reports the
// tail as transferred although not one entry was copied.
//
// Fact decided, for every fan-out loop the pass depends on — the loop(s) starting the goroutines
// that run runSubmitter (the only function that may store batches, C20.R6), and the loop(s) of the
// Fetcher.Run that fetchTail calls which start the goroutines from which the batch callback is
// invoked:
//
//     for every value of the configuration fields the loop's count is computed from which the
//     configuration validator accepts, the go statement is executed at least once before the code
//     that follows the fan-out.
//
// How: the shape of the function around the go statement gives the decisive tests — the branches
// with one side from which the go statement can still be reached and one from which it cannot
// while the code after the fan-out can (the loop's test before the first round, a guard around the
// loop, …; nothing depends on how the loop is written).  Their operands are followed back to where
// their values are made — through struct fields (by allocation site: a field holds what the
// function that allocated the struct stored into it), copies of structs, parameters (bound at the
// call in hand, else over all call sites), constructor results and defaults — until they end in
// integer fields of a value the program receives from outside (the configuration message).  For a
// finite set of sample values of those fields that contains every constant the code compares them
// with (±1) and the extremes of their type, the chain is then interpreted concretely: branch
// conditions over known integers are decided, everything else stays open.  A sample is *accepted*
// when a success return of every validator of the message type (func(*T) error) may execute; for
// every accepted sample no path from the function's entry may reach the code after the fan-out
// without executing the go statement.  Beyond the property's anchors (fetchTail, runSubmitter, the
// Fetcher.Run it calls) nothing here names a function, a field or a parameter position: the fan-outs
// are found from the goroutines' work, the fields from the tests, the validator from its type.
//
// Also decided: the fields on the way are only ever written into structs the writing function
// allocated itself (otherwise "what the allocating function stored" is not what a reader sees), and
// the validator's verdict stands between the configuration and the pass (a function whose success
// is gated by the validator is called before the configuration is handed on).

// ---- concrete evaluation ---------------------------------------------------------------------------

type cntFrame struct {
	fn        *ssa.Function
	call      ssa.CallInstruction // the call through which the function was entered (nil: any caller)
	up        *cntFrame
	reach     *cntReach
	done      bool
	computing bool
}

type cntReach struct {
	blocks map[*ssa.BasicBlock]bool
	edges  map[[2]*ssa.BasicBlock]bool
}

type cntLeaf struct {
	fr   *cntFrame
	v    ssa.Value  // a value no further reducible in fr
	in   *types.Var // a field of an outside value
	zero bool       // the zero value of a field nobody sets
	unk  string     // not resolved: why
}

type cntStuck struct {
	fn     *ssa.Function
	v      ssa.Value
	holder *types.Named
}

type cntEval struct {
	r                 *Run
	sample            map[*types.Var]int64 // nil: discovery
	inputs            map[*types.Var]*types.Named
	condIn            map[*types.Var]*types.Named // outside integer fields met only in branch conditions on the way
	noCond            bool                        // (while the validators are walked: their other tests are not on the way)
	stuck             []cntStuck
	holders           map[*types.Named]bool
	consts            map[int64]bool
	fields            map[*types.Var]bool   // struct fields met on the way
	structs           map[*types.Named]bool // the struct types they belong to
	frames            map[[3]any]*cntFrame
	trail             []string
	why               string
	steps             int
	busy              map[[2]any]bool
	inCond            int                    // > 0 while a branch condition is being decided: what is met there is not what the count is made of
	asValue           bool                   // the condition being decided is a decisive one: its operands ARE what the count is made of
	phiCtx            map[*ssa.Phi]ssa.Value // φ-nodes whose incoming edge is known on the path being walked
	gateVals          []int64
	openTest, openWhy string
}

func newCntEval(r *Run, sample map[*types.Var]int64, holders map[*types.Named]bool) *cntEval {
	return &cntEval{r: r, sample: sample, inputs: map[*types.Var]*types.Named{}, condIn: map[*types.Var]*types.Named{}, holders: holders, consts: map[int64]bool{},
		fields: map[*types.Var]bool{}, structs: map[*types.Named]bool{}, frames: map[[3]any]*cntFrame{}, busy: map[[2]any]bool{}, phiCtx: map[*ssa.Phi]ssa.Value{}}
}

func (e *cntEval) frame(fn *ssa.Function, call ssa.CallInstruction, up *cntFrame) *cntFrame {
	k := [3]any{fn, call, up}
	f := e.frames[k]
	if f == nil {
		f = &cntFrame{fn: fn, call: call, up: up}
		e.frames[k] = f
	}
	if e.inCond > 0 {
		return f
	}
	name := short(FuncName(fn))
	seen := false
	for _, t := range e.trail {
		seen = seen || t == name
	}
	if !seen {
		e.trail = append(e.trail, name)
	}
	return f
}

func (e *cntEval) fail(why string) {
	if e.why == "" {
		e.why = why
	}
}

func (e *cntEval) budget() bool {
	e.steps++
	if e.steps > 400000 {
		e.fail("evaluation budget exhausted")
		return false
	}
	return true
}

// reachOf: the blocks and edges of the frame's function that may execute, deciding every branch
// condition that compares integers known in this frame.
func (e *cntEval) reachOf(fr *cntFrame) *cntReach {
	if fr.done {
		return fr.reach
	}
	if fr.computing || len(fr.fn.Blocks) == 0 {
		return nil // unrestricted while being computed
	}
	fr.computing = true
	re := &cntReach{blocks: map[*ssa.BasicBlock]bool{}, edges: map[[2]*ssa.BasicBlock]bool{}}
	work := []*ssa.BasicBlock{fr.fn.Blocks[0]}
	for len(work) > 0 {
		b := work[len(work)-1]
		work = work[:len(work)-1]
		if re.blocks[b] {
			continue
		}
		re.blocks[b] = true
		succs := b.Succs
		if len(b.Instrs) > 0 {
			if ifi, ok := b.Instrs[len(b.Instrs)-1].(*ssa.If); ok && len(b.Succs) == 2 {
				switch e.decide(fr, ifi.Cond, 0) {
				case T:
					succs = b.Succs[:1]
				case F:
					succs = b.Succs[1:2]
				}
			}
		}
		for _, s := range succs {
			re.edges[[2]*ssa.BasicBlock{b, s}] = true
			work = append(work, s)
		}
	}
	fr.reach, fr.done, fr.computing = re, true, false
	return re
}

func cntIsInt(t types.Type) bool {
	b, ok := t.Underlying().(*types.Basic)
	return ok && b.Info()&types.IsInteger != 0
}

func (e *cntEval) decide(fr *cntFrame, cond ssa.Value, depth int) Tri {
	if depth > 6 {
		return U
	}
	asValue := e.asValue
	e.asValue = false // whatever this evaluation walks into is decided as a condition
	if !asValue {
		e.inCond++
		defer func() { e.inCond-- }()
	}
	switch c := cond.(type) {
	case *ssa.Const:
		if b, ok := isBoolConst(c); ok {
			if b {
				return T
			}
			return F
		}
	case *ssa.UnOp:
		if c.Op == token.NOT {
			return e.decide(fr, c.X, depth+1).Not()
		}
	case *ssa.BinOp:
		switch c.Op {
		case token.EQL, token.NEQ, token.LSS, token.LEQ, token.GTR, token.GEQ:
		default:
			return U
		}
		if isNilConst(c.X) || isNilConst(c.Y) {
			other := c.X
			if isNilConst(c.X) {
				other = c.Y
			}
			if e.outsidePointer(other) {
				if c.Op == token.NEQ {
					return T
				}
				if c.Op == token.EQL {
					return F
				}
			}
			return U
		}
		if !cntIsInt(c.X.Type()) || !cntIsInt(c.Y.Type()) {
			return U
		}
		for _, side := range []ssa.Value{c.X, c.Y} {
			if k, ok := side.(*ssa.Const); ok && k.Value != nil && k.Value.Kind() == constant.Int {
				if i, exact := constant.Int64Val(k.Value); exact {
					e.consts[i] = true
				}
			}
		}
		saved := e.why
		xs, okx := e.intOf(fr, c.X, 0)
		ys, oky := e.intOf(fr, c.Y, 0)
		if !asValue {
			e.why = saved // an open condition is not a failure
		} else {
			if !e.constHere(c.X, 0) {
				e.gateVals = append(e.gateVals, xs...)
			}
			if !e.constHere(c.Y, 0) {
				e.gateVals = append(e.gateVals, ys...)
			}
		}
		if !okx || !oky || len(xs) == 0 || len(ys) == 0 {
			return U
		}
		res := U
		for _, x := range xs {
			for _, y := range ys {
				t := F
				if cntRel(c.Op, x, y) {
					t = T
				}
				if res != U && res != t {
					return U
				}
				res = t
			}
		}
		return res
	}
	return U
}

// constHere: a constant, or a loop counter that holds a constant on the path being walked.
func (e *cntEval) constHere(v ssa.Value, depth int) bool {
	if depth > 4 {
		return false
	}
	switch x := v.(type) {
	case *ssa.Const:
		return true
	case *ssa.Phi:
		if ed, ok := e.phiCtx[x]; ok {
			return e.constHere(ed, depth+1)
		}
	case *ssa.BinOp:
		return e.constHere(x.X, depth+1) && e.constHere(x.Y, depth+1)
	case *ssa.Convert:
		return e.constHere(x.X, depth+1)
	}
	return false
}

func cntRel(op token.Token, x, y int64) bool {
	switch op {
	case token.EQL:
		return x == y
	case token.NEQ:
		return x != y
	case token.LSS:
		return x < y
	case token.LEQ:
		return x <= y
	case token.GTR:
		return x > y
	case token.GEQ:
		return x >= y
	}
	return false
}

// outsidePointer: a parameter (possibly spilled into a local) pointing to a message type whose
// fields the program receives from outside.
func (e *cntEval) outsidePointer(v ssa.Value) bool {
	if u, ok := v.(*ssa.UnOp); ok && u.Op == token.MUL {
		if a, ok := u.X.(*ssa.Alloc); ok {
			ws := WholeStores(a)
			if len(ws) == 1 {
				v = ws[0].Val
			}
		}
	}
	p, ok := v.(*ssa.Parameter)
	if !ok {
		return false
	}
	pt, ok := p.Type().Underlying().(*types.Pointer)
	if !ok {
		return false
	}
	n, ok := pt.Elem().(*types.Named)
	return ok && e.holders[n]
}

func cntWrap(v int64, t types.Type) int64 {
	b, ok := t.Underlying().(*types.Basic)
	if !ok {
		return v
	}
	switch b.Kind() {
	case types.Int8:
		return int64(int8(v))
	case types.Int16:
		return int64(int16(v))
	case types.Int32:
		return int64(int32(v))
	case types.Uint8:
		return int64(uint8(v))
	case types.Uint16:
		return int64(uint16(v))
	case types.Uint32:
		return int64(uint32(v))
	}
	return v
}

func cntUniq(xs []int64) []int64 {
	sort.Slice(xs, func(i, j int) bool { return xs[i] < xs[j] })
	out := xs[:0]
	for i, x := range xs {
		if i == 0 || x != xs[i-1] {
			out = append(out, x)
		}
	}
	return out
}

// intOf: the integer values v may have in the frame (ok=false: not known).
func (e *cntEval) intOf(fr *cntFrame, v ssa.Value, depth int) ([]int64, bool) {
	if depth > 40 || !e.budget() {
		e.fail("evaluation too deep at " + e.r.D.D(v))
		return nil, false
	}
	switch x := v.(type) {
	case *ssa.Const:
		if x.Value == nil {
			return []int64{0}, true
		}
		if x.Value.Kind() == constant.Int {
			if i, exact := constant.Int64Val(x.Value); exact {
				return []int64{i}, true
			}
		}
		e.fail("constant " + constString(x) + " is not a 64-bit integer")
		return nil, false
	case *ssa.Convert:
		if !cntIsInt(x.Type()) || !cntIsInt(x.X.Type()) {
			e.fail("conversion " + e.r.D.D(v) + " is not between integer types")
			return nil, false
		}
		xs, ok := e.intOf(fr, x.X, depth+1)
		if !ok {
			return nil, false
		}
		out := make([]int64, 0, len(xs))
		for _, i := range xs {
			out = append(out, cntWrap(i, x.Type()))
		}
		return cntUniq(out), true
	case *ssa.ChangeType:
		return e.intOf(fr, x.X, depth+1)
	case *ssa.BinOp:
		if !cntIsInt(x.Type()) {
			break
		}
		switch x.Op {
		case token.ADD, token.SUB, token.MUL:
		default:
			e.fail("operator " + x.Op.String() + " in " + e.r.D.D(v) + " is not interpreted")
			return nil, false
		}
		xs, okx := e.intOf(fr, x.X, depth+1)
		ys, oky := e.intOf(fr, x.Y, depth+1)
		if !okx || !oky {
			return nil, false
		}
		if len(xs)*len(ys) > 256 {
			e.fail("too many values for " + e.r.D.D(v))
			return nil, false
		}
		var out []int64
		for _, a := range xs {
			for _, b := range ys {
				switch x.Op {
				case token.ADD:
					out = append(out, cntWrap(a+b, x.Type()))
				case token.SUB:
					out = append(out, cntWrap(a-b, x.Type()))
				case token.MUL:
					out = append(out, cntWrap(a*b, x.Type()))
				}
			}
		}
		return cntUniq(out), true
	case *ssa.UnOp:
		if x.Op == token.SUB {
			xs, ok := e.intOf(fr, x.X, depth+1)
			if !ok {
				return nil, false
			}
			out := make([]int64, 0, len(xs))
			for _, i := range xs {
				out = append(out, cntWrap(-i, x.Type()))
			}
			return cntUniq(out), true
		}
	case *ssa.Phi:
		if ed, ok := e.phiCtx[x]; ok && x.Parent() == fr.fn {
			return e.intOf(fr, ed, depth+1)
		}
		key := [2]any{fr, v}
		if e.busy[key] {
			e.fail("the value " + e.r.D.D(v) + " is carried round a loop")
			return nil, false
		}
		e.busy[key] = true
		defer delete(e.busy, key)
		re := e.reachOf(fr)
		var out []int64
		for i, ed := range x.Edges {
			if re != nil && !re.edges[[2]*ssa.BasicBlock{x.Block().Preds[i], x.Block()}] {
				continue
			}
			xs, ok := e.intOf(fr, ed, depth+1)
			if !ok {
				return nil, false
			}
			out = append(out, xs...)
		}
		return cntUniq(out), true
	case *ssa.Call:
		if b, ok := x.Call.Value.(*ssa.Builtin); ok && (b.Name() == "min" || b.Name() == "max") && len(x.Call.Args) > 0 {
			sets := make([][]int64, len(x.Call.Args))
			n := 1
			for i, a := range x.Call.Args {
				xs, ok := e.intOf(fr, a, depth+1)
				if !ok || len(xs) == 0 {
					return nil, false
				}
				sets[i] = xs
				n *= len(xs)
			}
			if n > 256 {
				e.fail("too many values for " + e.r.D.D(v))
				return nil, false
			}
			var out []int64
			idx := make([]int, len(sets))
			for {
				best := sets[0][idx[0]]
				for i := 1; i < len(sets); i++ {
					c := sets[i][idx[i]]
					if b.Name() == "min" && c < best || b.Name() == "max" && c > best {
						best = c
					}
				}
				out = append(out, best)
				i := 0
				for ; i < len(idx); i++ {
					idx[i]++
					if idx[i] < len(sets[i]) {
						break
					}
					idx[i] = 0
				}
				if i == len(idx) {
					break
				}
			}
			return cntUniq(out), true
		}
	}
	// everything else: follow the value to where it is made
	leaves := e.resolve(fr, v, nil, nil, depth+1)
	if len(leaves) == 0 {
		e.fail("no origin found for " + e.r.D.D(v))
		return nil, false
	}
	var out []int64
	for _, lf := range leaves {
		switch {
		case lf.unk != "":
			e.fail(lf.unk)
			return nil, false
		case lf.zero:
			out = append(out, 0)
		case lf.in != nil:
			if e.sample == nil {
				e.fail("depends on the outside field " + lf.in.Name())
				return nil, false
			}
			s, ok := e.sample[lf.in]
			if !ok {
				e.fail("no sample for the outside field " + lf.in.Name())
				return nil, false
			}
			out = append(out, s)
		default:
			if lf.v == v && lf.fr == fr {
				e.fail("the value " + e.r.D.D(v) + " in " + short(FuncName(fr.fn)) + " is not interpreted")
				return nil, false
			}
			xs, ok := e.intOf(lf.fr, lf.v, depth+1)
			if !ok {
				return nil, false
			}
			out = append(out, xs...)
		}
	}
	return cntUniq(out), true
}

func cntUnk(why string) []cntLeaf { return []cntLeaf{{unk: why}} }

func cntNamedStruct(t types.Type) *types.Named {
	if p, ok := t.Underlying().(*types.Pointer); ok {
		t = p.Elem()
	}
	n, ok := t.(*types.Named)
	if !ok {
		return nil
	}
	if _, isStruct := n.Underlying().(*types.Struct); !isStruct {
		return nil
	}
	return n
}

// resolve: the value(s) obtained from v (in fr) by selecting the field path (pointers are followed).
// `at` is the instruction at which v is read when that is known (orders the stores of a local).
func (e *cntEval) resolve(fr *cntFrame, v ssa.Value, path []*types.Var, at ssa.Instruction, depth int) []cntLeaf {
	if depth > 60 || !e.budget() {
		return cntUnk("resolution too deep at " + e.r.D.D(v))
	}
	switch x := v.(type) {
	case *ssa.UnOp:
		if x.Op == token.MUL {
			return e.resolveAddr(fr, x.X, path, x, depth+1)
		}
	case *ssa.Field:
		f := fieldOfVal(x)
		if f == nil {
			return cntUnk("field of " + e.r.D.D(x.X) + " not typed")
		}
		return e.resolve(fr, x.X, append([]*types.Var{f}, path...), at, depth+1)
	case *ssa.Alloc:
		if len(path) > 0 {
			return e.cell(fr, x, path, at, depth+1)
		}
	case *ssa.FieldAddr:
		if len(path) > 0 {
			return e.resolveAddr(fr, x, path, at, depth+1)
		}
	case *ssa.ChangeType:
		return e.resolve(fr, x.X, path, at, depth+1)
	case *ssa.MakeInterface:
		if len(path) > 0 {
			return e.resolve(fr, x.X, path, at, depth+1)
		}
	case *ssa.Convert:
		if !cntIsInt(x.Type()) {
			return e.resolve(fr, x.X, path, at, depth+1)
		}
	case *ssa.Phi:
		if len(path) == 0 && cntIsInt(x.Type()) {
			break // integers: intOf reads the φ edge by edge
		}
		if ed, ok := e.phiCtx[x]; ok && x.Parent() == fr.fn {
			return e.resolve(fr, ed, path, at, depth+1)
		}
		key := [2]any{fr, v}
		if e.busy[key] {
			return cntUnk("the value " + e.r.D.D(v) + " is carried round a loop")
		}
		e.busy[key] = true
		defer delete(e.busy, key)
		re := e.reachOf(fr)
		var out []cntLeaf
		for i, ed := range x.Edges {
			if re != nil && !re.edges[[2]*ssa.BasicBlock{x.Block().Preds[i], x.Block()}] {
				continue
			}
			out = append(out, e.resolve(fr, ed, path, at, depth+1)...)
		}
		return out
	case *ssa.Parameter:
		return e.param(fr, x, path, depth+1)
	case *ssa.FreeVar:
		if b, pf := e.binding(x); b != nil {
			return e.resolve(e.frame(pf, nil, nil), b, path, nil, depth+1)
		}
		return cntUnk("captured variable " + x.Name() + " of " + short(FuncName(fr.fn)) + " has no single binding")
	case *ssa.Extract:
		if c, ok := x.Tuple.(*ssa.Call); ok {
			return e.callResult(fr, c, x.Index, path, depth+1)
		}
	case *ssa.Call:
		if _, isBuiltin := x.Call.Value.(*ssa.Builtin); isBuiltin {
			break
		}
		return e.callResult(fr, x, 0, path, depth+1)
	}
	if len(path) == 0 {
		return []cntLeaf{{fr: fr, v: v}}
	}
	return e.outside(fr, v, v.Type(), path)
}

// resolveAddr: the content of the memory at addr, then the field path.
func (e *cntEval) resolveAddr(fr *cntFrame, addr ssa.Value, path []*types.Var, at ssa.Instruction, depth int) []cntLeaf {
	if depth > 60 || !e.budget() {
		return cntUnk("resolution too deep at " + e.r.D.D(addr))
	}
	switch x := addr.(type) {
	case *ssa.Alloc:
		return e.cell(fr, x, path, at, depth+1)
	case *ssa.FieldAddr:
		f := fieldOf(x)
		if f == nil {
			return cntUnk("field of " + e.r.D.D(x.X) + " not typed")
		}
		return e.resolve(fr, x.X, append([]*types.Var{f}, path...), at, depth+1)
	case *ssa.FreeVar:
		if b, pf := e.binding(x); b != nil {
			return e.resolveAddr(e.frame(pf, nil, nil), b, path, nil, depth+1)
		}
		return cntUnk("captured variable " + x.Name() + " of " + short(FuncName(fr.fn)) + " has no single binding")
	case *ssa.Phi:
		// a variable that is a fresh one on every round of a loop (captured loop variables): the
		// address is whichever the edge taken brings
		if ed, ok := e.phiCtx[x]; ok && x.Parent() == fr.fn {
			return e.resolveAddr(fr, ed, path, at, depth+1)
		}
		key := [2]any{fr, addr}
		if e.busy[key] {
			return cntUnk("the address " + e.r.D.D(addr) + " is carried round a loop")
		}
		e.busy[key] = true
		defer delete(e.busy, key)
		re := e.reachOf(fr)
		var out []cntLeaf
		for i, ed := range x.Edges {
			if re != nil && !re.edges[[2]*ssa.BasicBlock{x.Block().Preds[i], x.Block()}] {
				continue
			}
			out = append(out, e.resolveAddr(fr, ed, path, at, depth+1)...)
		}
		return out
	case *ssa.Parameter, *ssa.UnOp, *ssa.Call, *ssa.Extract, *ssa.ChangeType:
		if len(path) > 0 {
			return e.resolve(fr, addr, path, at, depth+1)
		}
	}
	if len(path) > 0 {
		if pt, ok := addr.Type().Underlying().(*types.Pointer); ok {
			return e.outside(fr, addr, pt.Elem(), path)
		}
	}
	return cntUnk("the memory at " + e.r.D.D(addr) + " in " + short(FuncName(fr.fn)) + " is not followed")
}

// binding: what a function literal captured for a free variable (the literal is made in one place).
func (e *cntEval) binding(fv *ssa.FreeVar) (ssa.Value, *ssa.Function) {
	f := fv.Parent()
	if f == nil || f.Parent() == nil {
		return nil, nil
	}
	idx := -1
	for i, x := range f.FreeVars {
		if x == fv {
			idx = i
		}
	}
	var found *ssa.MakeClosure
	n := 0
	eachInstr(f.Parent(), func(in ssa.Instruction) {
		if mc, ok := in.(*ssa.MakeClosure); ok && mc.Fn == ssa.Value(f) {
			found = mc
			n++
		}
	})
	if n != 1 || idx < 0 || idx >= len(found.Bindings) {
		return nil, nil
	}
	return found.Bindings[idx], f.Parent()
}

// outside: the field path of a value nothing in the program makes: a field the program receives.
func (e *cntEval) outside(fr *cntFrame, v ssa.Value, t types.Type, path []*types.Var) []cntLeaf {
	holder := cntNamedStruct(t)
	last := path[len(path)-1]
	if holder == nil || !cntIsInt(last.Type()) {
		return cntUnk(fmt.Sprintf("field %s of %s in %s: the value is not made in the program and is not an integer field of a message", cntPath(path), e.r.D.D(v), short(FuncName(fr.fn))))
	}
	if e.inCond > 0 {
		if !e.noCond {
			e.condIn[last] = holder
		}
		return []cntLeaf{{in: last}}
	}
	for _, f := range path {
		e.fields[f] = true
	}
	e.inputs[last] = holder
	e.stuck = append(e.stuck, cntStuck{fn: fr.fn, v: v, holder: holder})
	return []cntLeaf{{in: last}}
}

func cntPath(path []*types.Var) string {
	var s []string
	for _, f := range path {
		s = append(s, f.Name())
	}
	return strings.Join(s, ".")
}

// callSites: the places where module code calls fn (call, go, defer).
func (e *cntEval) callSites(fn *ssa.Function) []ssa.CallInstruction {
	var out []ssa.CallInstruction
	for _, g := range e.r.P.ModFuncs {
		eachInstr(g, func(in ssa.Instruction) {
			if ci, ok := in.(ssa.CallInstruction); ok && ci.Common().StaticCallee() == fn {
				out = append(out, ci)
			}
		})
	}
	return out
}

func (e *cntEval) param(fr *cntFrame, p *ssa.Parameter, path []*types.Var, depth int) []cntLeaf {
	idx := paramIndex(p)
	fn := p.Parent()
	if fr.call != nil && fr.fn == fn {
		args := fr.call.Common().Args
		if idx < 0 || idx >= len(args) {
			return cntUnk("argument of " + short(FuncName(fn)) + " not found at its call")
		}
		return e.resolve(fr.up, args[idx], path, fr.call, depth+1)
	}
	if fn.Signature.Recv() != nil && idx == 0 && len(path) > 0 {
		if n := cntNamedStruct(p.Type()); n != nil {
			return e.byAllocation(n, path, depth+1)
		}
	}
	sites := e.callSites(fn)
	if len(sites) == 0 {
		if len(path) > 0 {
			return e.outside(fr, p, p.Type(), path)
		}
		return cntUnk("parameter " + p.Name() + " of " + short(FuncName(fn)) + ": no caller in the module")
	}
	var out []cntLeaf
	for _, ci := range sites {
		args := ci.Common().Args
		if idx >= len(args) {
			return cntUnk("argument of " + short(FuncName(fn)) + " not found at its call")
		}
		out = append(out, e.resolve(e.frame(ci.Parent(), nil, nil), args[idx], path, ci, depth+1)...)
	}
	return out
}

func (e *cntEval) callResult(fr *cntFrame, c *ssa.Call, i int, path []*types.Var, depth int) []cntLeaf {
	cal := c.Common().StaticCallee()
	if cal == nil || len(cal.Blocks) == 0 {
		if len(path) > 0 {
			t := c.Type()
			if tup, ok := t.(*types.Tuple); ok && i < tup.Len() {
				t = tup.At(i).Type()
			}
			return e.outside(fr, c, t, path)
		}
		return cntUnk("result of " + CalleeOf(c) + " (no body to read)")
	}
	cf := e.frame(cal, c, fr)
	re := e.reachOf(cf)
	var out []cntLeaf
	n := 0
	for _, ret := range Returns(cal) {
		if ret.Block() == cal.Recover || re != nil && !re.blocks[ret.Block()] {
			continue
		}
		vs := sgRetVals(ret)
		if i >= len(vs) {
			return cntUnk("result of " + CalleeOf(c) + " not found")
		}
		n++
		out = append(out, e.resolve(cf, vs[i], path, ret, depth+1)...)
	}
	if n == 0 {
		return cntUnk("no return of " + CalleeOf(c) + " may execute")
	}
	return out
}

// byAllocation: field path of any value of struct type T — over every place the module allocates
// a T: what the allocating function stored there.
func (e *cntEval) byAllocation(T *types.Named, path []*types.Var, depth int) []cntLeaf {
	var out []cntLeaf
	n := 0
	for _, g := range e.r.P.ModFuncs {
		eachInstr(g, func(in ssa.Instruction) {
			a, ok := in.(*ssa.Alloc)
			if !ok {
				return
			}
			if el, ok := a.Type().Underlying().(*types.Pointer).Elem().(*types.Named); !ok || el != T {
				return
			}
			n++
			out = append(out, e.cell(e.frame(g, nil, nil), a, path, nil, depth+1)...)
		})
	}
	if n == 0 {
		return cntUnk("no allocation of " + TypeName(T) + " in the module")
	}
	return out
}

type cntStore struct {
	st *ssa.Store
	q  []*types.Var
}

// cellStores: the stores into a local and its components made by its function and the literals
// that captured it; escapes: the address is handed to somebody else.
func cntCellStores(a *ssa.Alloc) (stores []cntStore, inClosure bool, escapes bool) {
	var walk func(addr ssa.Value, q []*types.Var, closure bool, depth int)
	walk = func(addr ssa.Value, q []*types.Var, closure bool, depth int) {
		if depth > 8 || addr.Referrers() == nil {
			return
		}
		for _, ref := range *addr.Referrers() {
			switch y := ref.(type) {
			case *ssa.FieldAddr:
				if f := fieldOf(y); f != nil && y.X == addr {
					walk(y, append(append([]*types.Var{}, q...), f), closure, depth+1)
				}
			case *ssa.Store:
				if y.Addr == addr {
					stores = append(stores, cntStore{y, q})
					inClosure = inClosure || closure
				} else {
					escapes = true
				}
			case *ssa.UnOp, *ssa.DebugRef:
			case *ssa.MakeClosure:
				fn, _ := y.Fn.(*ssa.Function)
				for i, b := range y.Bindings {
					if b == addr && fn != nil && i < len(fn.FreeVars) {
						walk(fn.FreeVars[i], q, true, depth+1)
					}
				}
			default:
				escapes = true
			}
		}
	}
	walk(a, nil, false, 0)
	return
}

func cntPrefix(q, path []*types.Var) bool {
	if len(q) > len(path) {
		return false
	}
	for i := range q {
		if q[i] != path[i] {
			return false
		}
	}
	return true
}

// cell: the content of the local a (then the field path) as the frame's function leaves it at `at`.
func (e *cntEval) cell(fr *cntFrame, a *ssa.Alloc, path []*types.Var, at ssa.Instruction, depth int) []cntLeaf {
	if e.inCond == 0 {
		t := a.Type().Underlying().(*types.Pointer).Elem()
		for _, f := range path {
			e.fields[f] = true
			if n := cntNamedStruct(t); n != nil {
				e.structs[n] = true
			}
			t = f.Type()
		}
	}
	if a.Parent() != fr.fn {
		fr = e.frame(a.Parent(), nil, nil)
		at = nil
	}
	all, inClosure, escapes := cntCellStores(a)
	var rel []cntStore
	for _, s := range all {
		if cntPrefix(s.q, path) {
			rel = append(rel, s)
		}
	}
	if len(rel) == 0 {
		if escapes && len(path) > 0 {
			return e.outside(fr, a, a.Type(), path) // filled in by somebody else (a decoder)
		}
		if len(path) == 0 {
			return cntUnk("the local " + e.r.D.D(a) + " of " + short(FuncName(fr.fn)) + " is never set")
		}
		return []cntLeaf{{zero: true}}
	}
	re := e.reachOf(fr)
	live := func(s cntStore) bool {
		return s.st.Parent() != fr.fn || re == nil || re.blocks[s.st.Block()]
	}
	var cands []cntStore
	zero := false
	if at == nil || inClosure || at.Parent() != fr.fn {
		for _, s := range rel {
			if live(s) {
				cands = append(cands, s)
			}
		}
	} else {
		// the stores that may be the last one before `at`: backwards from `at` along edges that may be taken
		relAt := map[ssa.Instruction]cntStore{}
		for _, s := range rel {
			relAt[s.st] = s
		}
		seen := map[*ssa.BasicBlock]bool{}
		var back func(b *ssa.BasicBlock, from int)
		back = func(b *ssa.BasicBlock, from int) {
			for i := from; i >= 0; i-- {
				if s, ok := relAt[b.Instrs[i]]; ok {
					cands = append(cands, s)
					return
				}
			}
			if len(b.Preds) == 0 {
				zero = true
				return
			}
			for _, p := range b.Preds {
				if re != nil && !re.edges[[2]*ssa.BasicBlock{p, b}] {
					continue
				}
				if seen[p] {
					continue
				}
				seen[p] = true
				back(p, len(p.Instrs)-1)
			}
		}
		back(at.Block(), instrPos(at)-1)
	}
	var out []cntLeaf
	done := map[*ssa.Store]bool{}
	for _, s := range cands {
		if done[s.st] {
			continue
		}
		done[s.st] = true
		sf := fr
		if s.st.Parent() != fr.fn {
			sf = e.frame(s.st.Parent(), nil, nil)
		}
		out = append(out, e.resolve(sf, s.st.Val, path[len(s.q):], s.st, depth+1)...)
	}
	if zero && len(path) > 0 {
		out = append(out, cntLeaf{zero: true})
	}
	if len(out) == 0 {
		return cntUnk("no store into " + e.r.D.D(a) + " of " + short(FuncName(fr.fn)) + " may execute")
	}
	return out
}

// ---- is the go statement passed by? ------------------------------------------------------------------

// cntGate: the shape of the function around a go statement.  `after` are the blocks that execute
// only when the fan-out is over (reachable from the go statement, with no way back to it); a path
// from the entry into `after` that does not touch the go statement's block starts nobody.  The
// tests that decide between such a path and the go statement are the decisive ones: an if with
// one side from which the go statement can still be reached and another from which it cannot, but
// `after` can.  Nothing depends on how the loop is written (test at the head, rotated,
// counting up or down, a guard around it, a helper's parameter).
type cntGate struct {
	g        ssa.Instruction
	goB      *ssa.BasicBlock
	after    map[*ssa.BasicBlock]bool
	canSkip  map[*ssa.BasicBlock]bool
	canEnter map[*ssa.BasicBlock]bool
	decisive map[*ssa.BasicBlock]bool
	always   bool
	text     string
	why      string
}

func cntGateOf(r *Run, g ssa.Instruction) *cntGate {
	goB := g.Block()
	fn := goB.Parent()
	gt := &cntGate{g: g, goB: goB, after: map[*ssa.BasicBlock]bool{}, canSkip: map[*ssa.BasicBlock]bool{}, canEnter: map[*ssa.BasicBlock]bool{}, decisive: map[*ssa.BasicBlock]bool{}}
	// blocks from which the go statement can (still) be reached
	var back func(b *ssa.BasicBlock, set map[*ssa.BasicBlock]bool, avoid *ssa.BasicBlock)
	back = func(b *ssa.BasicBlock, set map[*ssa.BasicBlock]bool, avoid *ssa.BasicBlock) {
		if set[b] || b == avoid {
			return
		}
		set[b] = true
		for _, p := range b.Preds {
			back(p, set, avoid)
		}
	}
	back(goB, gt.canEnter, nil)
	fwd := map[*ssa.BasicBlock]bool{}
	var forward func(b *ssa.BasicBlock)
	forward = func(b *ssa.BasicBlock) {
		if fwd[b] {
			return
		}
		fwd[b] = true
		for _, s := range b.Succs {
			forward(s)
		}
	}
	for _, s := range goB.Succs {
		forward(s)
	}
	for b := range fwd {
		if !gt.canEnter[b] {
			gt.after[b] = true
		}
	}
	if len(gt.after) == 0 {
		gt.why = "nothing follows the go statement in " + short(FuncName(fn)) + " that is not part of a loop around it"
		return gt
	}
	for a := range gt.after {
		back(a, gt.canSkip, goB)
	}
	gt.always = !gt.canSkip[fn.Blocks[0]]
	var texts []string
	for _, b := range fn.Blocks {
		if b == goB || len(b.Succs) != 2 || len(b.Instrs) == 0 {
			continue
		}
		ifi, ok := b.Instrs[len(b.Instrs)-1].(*ssa.If)
		if !ok {
			continue
		}
		s0, s1 := b.Succs[0], b.Succs[1]
		if gt.skipSide(s0) && gt.canEnter[s1] || gt.skipSide(s1) && gt.canEnter[s0] { // (skipSide: the go statement is out of reach there)
			gt.decisive[b] = true
			texts = append(texts, r.D.D(ifi.Cond))
		}
	}
	gt.text = strings.Join(texts, ", ")
	return gt
}

// skipSide: from s the code after the fan-out can be reached, the go statement no longer.
func (gt *cntGate) skipSide(s *ssa.BasicBlock) bool { return gt.canSkip[s] && !gt.canEnter[s] }

// passedBy: may a path from the entry reach `after` without touching the go statement?  With
// sure=true a decisive test that cannot be evaluated is taken NOT to let the path through (the
// answer "yes" is then certain); with sure=false it lets it through (the answer "no" is certain).
func (e *cntEval) passedBy(fr *cntFrame, gt *cntGate, sure bool) bool {
	type state struct {
		b    *ssa.BasicBlock
		pred int
	}
	seen := map[state]bool{}
	found := false
	var visit func(b *ssa.BasicBlock, pred int)
	visit = func(b *ssa.BasicBlock, pred int) {
		if found || b == gt.goB || seen[state{b, pred}] || !gt.canSkip[b] {
			return
		}
		seen[state{b, pred}] = true
		if gt.after[b] {
			found = true
			return
		}
		// the φ-nodes of b hold what the edge just taken brings
		type old struct {
			ph *ssa.Phi
			v  ssa.Value
			ok bool
		}
		var saved []old
		if pred >= 0 {
			for _, in := range b.Instrs {
				ph, ok := in.(*ssa.Phi)
				if !ok {
					break
				}
				prev, had := e.phiCtx[ph]
				saved = append(saved, old{ph, prev, had})
				e.phiCtx[ph] = ph.Edges[pred]
			}
		}
		defer func() {
			for _, o := range saved {
				if o.ok {
					e.phiCtx[o.ph] = o.v
				} else {
					delete(e.phiCtx, o.ph)
				}
			}
		}()
		succs := b.Succs
		if len(b.Instrs) > 0 {
			if ifi, ok := b.Instrs[len(b.Instrs)-1].(*ssa.If); ok && len(b.Succs) == 2 {
				e.asValue = gt.decisive[b]
				t := e.decide(fr, ifi.Cond, 0)
				e.asValue = false
				switch t {
				case T:
					succs = b.Succs[:1]
				case F:
					succs = b.Succs[1:2]
				default:
					if gt.decisive[b] {
						if sure {
							succs = nil
							for _, s := range b.Succs {
								if !gt.skipSide(s) {
									succs = append(succs, s)
								}
							}
						} else if e.openTest == "" {
							e.openTest = e.r.D.D(ifi.Cond)
							e.openWhy = e.why
						}
					}
				}
			}
		}
		for _, s := range succs {
			pi := -1
			for i, p := range s.Preds {
				if p == b {
					pi = i
					break
				}
			}
			visit(s, pi)
		}
	}
	visit(fr.fn.Blocks[0], -1)
	return found
}

// entered: is the go statement executed at least once before the code after the fan-out runs?
// ok=false: a decisive test could not be evaluated.  counts: the values the decisive tests compared.
func (e *cntEval) entered(fr *cntFrame, gt *cntGate) (enter bool, counts []int64, ok bool) {
	if gt.always {
		return true, nil, true
	}
	e.gateVals = nil
	maybe := e.passedBy(fr, gt, false)
	counts = cntUniq(e.gateVals)
	if !maybe {
		return true, counts, true
	}
	if e.passedBy(fr, gt, true) {
		return false, counts, true
	}
	if e.openTest != "" {
		e.why = "the test " + e.openTest + " cannot be evaluated: " + e.openWhy
	}
	return false, counts, false
}

// ---- fan-outs of the pass ----------------------------------------------------------------------------

type cntFanOut struct {
	what   string // "submitter" / "fetch worker"
	key    string
	gos    []ssa.Instruction
	fr     func(e *cntEval) *cntFrame // the frame the loop's function is evaluated in
	effect string
}

// reachesCall: f, or a module function f calls statically (same package, three levels), contains an
// instruction accepted by hit.
func cntReaches(f *ssa.Function, hit func(in ssa.Instruction) bool, depth int, seen map[*ssa.Function]bool) bool {
	if f == nil || seen[f] || depth > 3 {
		return false
	}
	seen[f] = true
	found := false
	eachInstr(f, func(in ssa.Instruction) {
		if found {
			return
		}
		if hit(in) {
			found = true
			return
		}
		if ci, ok := in.(ssa.CallInstruction); ok {
			if cal := ci.Common().StaticCallee(); cal != nil && len(cal.Blocks) > 0 && fnPkg(cal) == fnPkg(f) {
				if cntReaches(cal, hit, depth+1, seen) {
					found = true
				}
			}
		}
	})
	return found
}

func c20Counts(r *Run) {
	r.Assume("a pass delivers nothing unless at least one fetch worker and one submitter run: the channels between generator, workers and submitters are the only way a batch travels (C16.R3, C20.R4)")
	r.Assume("configuration messages reach the validator and the controller non-nil; a failed validation ends the program (klog.Exit does not return)")
	ft := r.Fn(c20ctl + "fetchTail")
	if ft == nil {
		return
	}
	tf, _ := c20Transfer(ft)
	runs := CallsTo(tf, "(*scanner.Fetcher).Run")
	if len(runs) != 1 {
		r.Fail("fetchTail:fan-out", r.FnPos(tf), fmt.Sprintf("undecided: %d calls of Fetcher.Run in %s", len(runs), short(FuncName(tf))))
		return
	}
	run := runs[0]
	var fans []cntFanOut

	// submitters: the goroutines from which runSubmitter is called
	sc := c20NewScope(r, tf)
	rs := r.P.Func(c20ctl + "runSubmitter")
	var subGos []ssa.Instruction
	for _, f := range sc.fam {
		eachInstr(f, func(in ssa.Instruction) {
			g, ok := in.(*ssa.Go)
			if !ok {
				return
			}
			cal := g.Common().StaticCallee()
			if cal != nil && rs != nil && cntReaches(cal, func(in ssa.Instruction) bool {
				ci, ok := in.(ssa.CallInstruction)
				return ok && ci.Common().StaticCallee() == rs
			}, 0, map[*ssa.Function]bool{}) || cal != nil && cal == rs {
				subGos = append(subGos, g)
			}
		})
	}
	if len(subGos) == 0 {
		r.Fail("fetchTail:at-least-one-submitter", r.FnPos(tf), "undecided: no go statement of "+short(FuncName(tf))+" (or of a function only it calls) starts a goroutine that runs runSubmitter")
	} else {
		fans = append(fans, cntFanOut{what: "submitter", key: "fetchTail:at-least-one-submitter", gos: subGos,
			fr:     func(e *cntEval) *cntFrame { return nil },
			effect: "no submitter is started: the batches the fetcher delivers stay in the channel (or the handler blocks once it is full), close() and Wait() succeed at once, nothing failed and nothing was cancelled, so fetchTail reports the source tree size although no entry reached the destination"})
	}

	// fetch workers: the goroutines of the Fetcher.Run called here from which the batch callback is invoked
	fr := run.Common().StaticCallee()
	if fr == nil || len(fr.Blocks) == 0 {
		r.Fail("Fetcher.Run:at-least-one-fetch-worker", r.Where(run), "undecided: Fetcher.Run is not a function with a body")
	} else {
		var cbType types.Type
		for _, p := range fr.Params {
			if _, isFunc := p.Type().Underlying().(*types.Signature); isFunc {
				cbType = p.Type()
			}
		}
		delivers := func(in ssa.Instruction) bool {
			ci, ok := in.(ssa.CallInstruction)
			if !ok || ci.Common().IsInvoke() || ci.Common().StaticCallee() != nil {
				return false
			}
			if _, isBuiltin := ci.Common().Value.(*ssa.Builtin); isBuiltin {
				return false
			}
			return cbType != nil && types.Identical(ci.Common().Value.Type(), cbType)
		}
		fsc := c20NewScope(r, fr)
		var wGos []ssa.Instruction
		for _, f := range fsc.fam {
			eachInstr(f, func(in ssa.Instruction) {
				if g, ok := in.(*ssa.Go); ok {
					if cal := g.Common().StaticCallee(); cal != nil && cntReaches(cal, delivers, 0, map[*ssa.Function]bool{}) {
						wGos = append(wGos, g)
					}
				}
			})
		}
		switch {
		case cbType == nil:
			r.Fail("Fetcher.Run:at-least-one-fetch-worker", r.FnPos(fr), "undecided: Fetcher.Run takes no callback")
		case len(wGos) == 0:
			// no fan-out: the callback must then be invoked by Run itself
			sync := cntReaches(fr, delivers, 0, map[*ssa.Function]bool{})
			r.Check("Fetcher.Run:at-least-one-fetch-worker", sync, r.FnPos(fr), fmt.Sprintf("no goroutine of Fetcher.Run delivers batches; Run itself invokes the callback: %v", sync))
		default:
			fans = append(fans, cntFanOut{what: "fetch worker", key: "Fetcher.Run:at-least-one-fetch-worker", gos: wGos,
				fr: func(e *cntEval) *cntFrame {
					return e.frame(fr, run, e.frame(run.Parent(), nil, nil))
				},
				effect: "no fetch worker is started: nobody reads the range channel, Wait() returns at once and Run returns nil; fetchTail closes the batch channel, the submitters end, nothing failed and nothing was cancelled, so fetchTail reports the source tree size although no entry was fetched (in continuous mode the next pass starts from that size)"})
		}
	}

	allFields, allStructs := map[*types.Var]bool{}, map[*types.Named]bool{}
	enforced := map[*ssa.Function]bool{}
	for _, fo := range fans {
		c20CountPositive(r, fo, allFields, allStructs, enforced)
	}
	c20CountDiscipline(r, allFields, allStructs)
	if os.Getenv("CTVERIF_C20_DEBUG") != "" { // dev aid: the obligations of this rule
		for _, o := range r.Obls {
			if o.Rule == "C20.R10" {
				fmt.Fprintf(os.Stderr, "C20DEBUG ok=%v %s @%s: %s\n", o.OK, o.Key, o.Where, o.Detail)
			}
		}
	}
}

// ---- samples, validators, verdict ------------------------------------------------------------------------

func cntRange(t types.Type) (lo, hi int64) {
	lo, hi = math.MinInt64, math.MaxInt64
	if b, ok := t.Underlying().(*types.Basic); ok {
		switch b.Kind() {
		case types.Int8:
			lo, hi = math.MinInt8, math.MaxInt8
		case types.Int16:
			lo, hi = math.MinInt16, math.MaxInt16
		case types.Int32:
			lo, hi = math.MinInt32, math.MaxInt32
		case types.Uint8:
			lo, hi = 0, math.MaxUint8
		case types.Uint16:
			lo, hi = 0, math.MaxUint16
		case types.Uint32:
			lo, hi = 0, math.MaxUint32
		case types.Uint, types.Uint64, types.Uintptr:
			lo = 0
		}
	}
	return
}

// cntValidators: the module functions func(*T) error.
func cntValidators(r *Run, T *types.Named) []*ssa.Function {
	var out []*ssa.Function
	for _, f := range r.P.ModFuncs {
		if f.Parent() != nil || f.Signature.Recv() != nil || len(f.Blocks) == 0 {
			continue
		}
		ps, rs := f.Signature.Params(), f.Signature.Results()
		if ps.Len() != 1 || rs.Len() != 1 || types.TypeString(rs.At(0).Type(), nil) != "error" {
			continue
		}
		if pt, ok := ps.At(0).Type().Underlying().(*types.Pointer); ok && pt.Elem() == types.Type(T) {
			out = append(out, f)
		}
	}
	return out
}

// accepts: a success return of the validator may execute for the sample.
func (e *cntEval) accepts(v *ssa.Function) bool {
	e.noCond = true
	re := e.reachOf(e.frame(v, nil, nil))
	e.noCond = false
	for _, ret := range sgOkReturns(v) {
		if re == nil || re.blocks[ret.Block()] {
			return true
		}
	}
	return false
}

func cntFmtSet(xs []int64) string {
	xs = cntUniq(append([]int64(nil), xs...))
	var s []string
	for _, x := range xs {
		s = append(s, fmt.Sprint(x))
	}
	return "{" + strings.Join(s, ", ") + "}"
}

func c20CountPositive(r *Run, fo cntFanOut, allFields map[*types.Var]bool, allStructs map[*types.Named]bool, enforced map[*ssa.Function]bool) {
	for gi, g := range fo.gos {
		key := fo.key
		if gi > 0 {
			key = fmt.Sprintf("%s#%d", fo.key, gi+1)
		}
		lp := cntGateOf(r, g)
		if lp.why != "" {
			r.Fail(key, r.Where(g), "undecided: "+lp.why)
			continue
		}
		if lp.always {
			r.Pass(key, r.Where(g), "no path of "+short(FuncName(g.Parent()))+" passes the go statement by: a "+fo.what+" is started whatever the configuration says")
			continue
		}
		loopFn := g.Parent()
		frameOf := func(e *cntEval) *cntFrame {
			if f := fo.fr(e); f != nil && f.fn == loopFn {
				return f
			}
			return e.frame(loopFn, nil, nil)
		}
		// discovery: which outside fields does the count depend on, which constants are they compared with
		disc := newCntEval(r, nil, map[*types.Named]bool{})
		disc.entered(frameOf(disc), lp)
		// (a second time with the message types known, so that nil tests of them are decided)
		holders := map[*types.Named]bool{}
		for _, h := range disc.inputs {
			holders[h] = true
		}
		disc2 := newCntEval(r, nil, holders)
		enter, counts, ok := disc2.entered(frameOf(disc2), lp)
		for f := range disc2.fields {
			allFields[f] = true
		}
		for n := range disc2.structs {
			allStructs[n] = true
		}
		trail := strings.Join(disc2.trail, " ← ")
		if len(disc2.inputs) == 0 {
			if !ok {
				r.Fail(key, r.Where(g), fmt.Sprintf("undecided: the count of the %s loop (%s) cannot be followed to where it is made: %s (way: %s)", fo.what, lp.text, disc2.why, trail))
				continue
			}
			r.Check(key, enter, r.Where(g), fmt.Sprintf("the %s loop is passed by unless %s; the values compared are %s for every configuration (way: %s)%s", fo.what, lp.text, cntFmtSet(counts), trail, map[bool]string{true: "", false: ": " + fo.effect}[enter]))
			continue
		}
		var ins []*types.Var
		for f := range disc2.inputs {
			ins = append(ins, f)
		}
		sort.Slice(ins, func(i, j int) bool { return ins[i].Name() < ins[j].Name() })
		// validators of the message types, and the constants they compare with
		var vals []*ssa.Function
		for h := range holders {
			vals = append(vals, cntValidators(r, h)...)
		}
		sort.Slice(vals, func(i, j int) bool { return FuncName(vals[i]) < FuncName(vals[j]) })
		for _, v := range vals {
			disc2.accepts(v)
		}
		var vnames []string
		for _, v := range vals {
			vnames = append(vnames, short(FuncName(v)))
		}
		if len(ins) > 2 {
			r.Fail(key, r.Where(g), fmt.Sprintf("undecided: the count of the %s loop depends on %d outside fields", fo.what, len(ins)))
			continue
		}
		samplesOf := func(f *types.Var) []int64 {
			lo, hi := cntRange(f.Type())
			set := []int64{lo, hi, -2, -1, 0, 1, 2}
			for c := range disc2.consts {
				set = append(set, c-1, c, c+1)
			}
			var out []int64
			for _, s := range set {
				if s >= lo && s <= hi {
					out = append(out, s)
				}
			}
			return cntUniq(out)
		}
		type verdict struct {
			sample map[*types.Var]int64
			counts []int64
		}
		var bad, undec []verdict
		accepted, rejected := 0, 0
		undecWhy := ""
		var rec func(i int, s map[*types.Var]int64)
		rec = func(i int, s map[*types.Var]int64) {
			if i < len(ins) {
				for _, x := range samplesOf(ins[i]) {
					s2 := map[*types.Var]int64{}
					for k, v := range s {
						s2[k] = v
					}
					s2[ins[i]] = x
					rec(i+1, s2)
				}
				return
			}
			r.Valuations++
			e := newCntEval(r, s, holders)
			for _, v := range vals {
				if !e.accepts(v) {
					rejected++
					return
				}
			}
			accepted++
			enter, counts, ok := e.entered(frameOf(e), lp)
			switch {
			case !ok:
				undec = append(undec, verdict{s, nil})
				undecWhy = e.why
			case !enter:
				bad = append(bad, verdict{s, counts})
			}
		}
		rec(0, map[*types.Var]int64{})
		if len(undec) > 0 {
			// the verdict hangs on other outside fields that only branch conditions on the way read:
			// sample those too (same message type), if that stays small
			var extra []*types.Var
			for f, h := range disc2.condIn {
				if _, isIn := disc2.inputs[f]; !isIn && holders[h] {
					extra = append(extra, f)
				}
			}
			sort.Slice(extra, func(i, j int) bool { return extra[i].Name() < extra[j].Name() })
			// (one at a time: the first that settles every sample is the one the verdict hung on)
			base, settled, tried := ins, false, false
			for _, f := range extra {
				if len(base) >= 2 || len(extra) > 8 {
					break
				}
				tried = true
				disc2.inputs[f] = disc2.condIn[f]
				ins = append(append([]*types.Var{}, base...), f)
				bad, undec, accepted, rejected, undecWhy = nil, nil, 0, 0, ""
				rec(0, map[*types.Var]int64{})
				if len(undec) == 0 {
					settled = true
					break
				}
				delete(disc2.inputs, f)
				ins = base
			}
			if tried && !settled {
				// nothing settled it: the verdict of the plain run stands
				bad, undec, accepted, rejected, undecWhy = nil, nil, 0, 0, ""
				rec(0, map[*types.Var]int64{})
			}
		}
		fmtSample := func(s map[*types.Var]int64) string {
			var parts []string
			for _, f := range ins {
				parts = append(parts, fmt.Sprintf("%s.%s = %d", TypeName(disc2.inputs[f]), f.Name(), s[f]))
			}
			return strings.Join(parts, ", ")
		}
		valText := "no validator (func(*T) error) of the message type exists: every value is accepted"
		if len(vals) > 0 {
			valText = "validator " + strings.Join(vnames, ", ")
		}
		switch {
		case len(undec) > 0:
			r.Fail(key, r.Where(g), fmt.Sprintf("undecided: for %s the count of the %s loop (%s) cannot be evaluated: %s (way: %s)", fmtSample(undec[0].sample), fo.what, lp.text, undecWhy, trail))
		case accepted == 0:
			r.Fail(key, r.Where(g), fmt.Sprintf("undecided: %s accepts none of the %d sampled configurations (control)", valText, rejected))
		case len(bad) > 0:
			var ex []string
			if len(ins) == 1 {
				var xs, cs []int64
				for _, b := range bad {
					xs = append(xs, b.sample[ins[0]])
					cs = append(cs, b.counts...)
				}
				ex = append(ex, fmt.Sprintf("%s ∈ %s (count %s)", cntInputs(ins, disc2.inputs), cntFmtSet(xs), cntFmtSet(cs)))
			}
			for i, b := range bad {
				if i < 4 && len(ins) != 1 {
					ex = append(ex, fmt.Sprintf("%s (count %s)", fmtSample(b.sample), cntFmtSet(b.counts)))
				}
			}
			r.Fail(key, r.Where(g), fmt.Sprintf("failing input: %s — accepted (%s) and reaching the %s loop, which is passed by unless %s (way of the count: %s); %d of %d accepted samples fail. Effect: %s",
				strings.Join(ex, "; "), valText, fo.what, lp.text, trail, len(bad), accepted, fo.effect))
		default:
			r.Pass(key, r.Where(g), fmt.Sprintf("for every accepted sample of %s (%d accepted, %d rejected by %s) the %s loop is entered (%s); way of the count: %s", cntInputs(ins, disc2.inputs), accepted, rejected, valText, fo.what, lp.text, trail))
		}
		// the validator's verdict stands between the configuration and the pass
		if len(vals) > 0 {
			c20CountEnforced(r, enforced, disc2, vals)
		}
	}
}

func cntInputs(ins []*types.Var, holders map[*types.Var]*types.Named) string {
	var s []string
	for _, f := range ins {
		s = append(s, TypeName(holders[f])+"."+f.Name())
	}
	return strings.Join(s, ", ")
}

// cntGatedBy: w's success returns cannot execute once a call of v (or of a function so gated) in w
// returned an error.
func cntGatedBy(r *Run, w, v *ssa.Function, depth int) bool {
	if w == v {
		return true
	}
	if depth > 2 || w == nil || len(w.Blocks) == 0 {
		return false
	}
	succ := successReturns(w)
	if len(succ) == 0 {
		return false
	}
	found := false
	eachInstr(w, func(in ssa.Instruction) {
		c, ok := in.(*ssa.Call)
		if !ok || found {
			return
		}
		cal := c.Common().StaticCallee()
		if cal == nil || !cntGatedBy(r, cal, v, depth+1) {
			return
		}
		ev := CallResult(c, c.Common().Signature().Results().Len()-1)
		if c.Common().Signature().Results().Len() == 1 {
			ev = c
		}
		if ev == nil || ev.Referrers() == nil {
			return
		}
		tested := ev
		if !hasNilTest(ev) {
			for _, ref := range *ev.Referrers() {
				if ph, ok := ref.(*ssa.Phi); ok && hasNilTest(ph) {
					tested = ph
				}
			}
		}
		reach := r.D.Walk(w, Sigma{"nil?" + r.D.D(tested): "non"}, c.Block(), nil)
		for _, s := range succ {
			if reach.Has(s) {
				return
			}
		}
		found = true
	})
	return found
}

func c20CountEnforced(r *Run, seen map[*ssa.Function]bool, e *cntEval, vals []*ssa.Function) {
	for _, st := range e.stuck {
		isVal := false
		for _, v := range vals {
			isVal = isVal || st.fn == v
		}
		if isVal || seen[st.fn] {
			continue
		}
		seen[st.fn] = true
		// uses of the outside value as an argument: each must come after a call of a function whose
		// success the validator gates, and whose error is looked at
		var uses []ssa.Instruction
		var collect func(v ssa.Value, depth int)
		collect = func(v ssa.Value, depth int) {
			if v.Referrers() == nil || depth > 2 {
				return
			}
			for _, ref := range *v.Referrers() {
				switch x := ref.(type) {
				case ssa.CallInstruction:
					uses = append(uses, x)
				case *ssa.UnOp:
					if x.Op == token.MUL {
						collect(x, depth+1)
					}
				}
			}
		}
		collect(st.v, 0)
		if in, ok := st.v.(ssa.Instruction); ok && len(uses) == 0 {
			uses = append(uses, in)
		}
		okAll, detail := len(uses) > 0, "no use of the configuration found"
		for _, u := range uses {
			gate := ""
			eachInstr(st.fn, func(in ssa.Instruction) {
				c, ok := in.(*ssa.Call)
				if !ok || gate != "" {
					return
				}
				cal := c.Common().StaticCallee()
				if cal == nil {
					return
				}
				for _, v := range vals {
					if cntGatedBy(r, cal, v, 0) && (instrDominates(c, u) || ssa.Instruction(c) == u) {
						ev := ssa.Value(c)
						if n := c.Common().Signature().Results().Len(); n > 1 {
							ev = CallResult(c, n-1)
						}
						if ev != nil && ev.Referrers() != nil && (hasNilTest(ev) || cntReturned(ev)) {
							gate = short(FuncName(cal))
						}
					}
				}
			})
			if gate == "" {
				okAll = false
				detail = fmt.Sprintf("the configuration %s is handed on at %s without a preceding call of a function whose success %s gates (or its error is not looked at): unvalidated values reach the worker loops", r.D.D(st.v), r.Where(u), cntNames(vals))
			} else if okAll {
				detail = fmt.Sprintf("before %s hands the configuration on it calls %s, which succeeds only if %s does, and looks at its error", short(FuncName(st.fn)), gate, cntNames(vals))
			}
		}
		r.Check("counts:validated-before-use@"+short(FuncName(st.fn)), okAll, r.FnPos(st.fn), detail)
	}
}

func cntReturned(v ssa.Value) bool {
	for _, ref := range *v.Referrers() {
		if _, ok := ref.(*ssa.Return); ok {
			return true
		}
	}
	return false
}

func cntNames(fs []*ssa.Function) string {
	var s []string
	for _, f := range fs {
		s = append(s, short(FuncName(f)))
	}
	return strings.Join(s, ", ")
}

// c20CountDiscipline: the fields the counts travel through are only written into structs the writing
// function allocated itself (so that "what the allocating function stored" is what every reader sees).
func c20CountDiscipline(r *Run, fields map[*types.Var]bool, structs map[*types.Named]bool) {
	if len(fields) == 0 {
		return
	}
	n, bad := 0, 0
	for _, g := range r.P.ModFuncs {
		eachInstr(g, func(in ssa.Instruction) {
			st, ok := in.(*ssa.Store)
			if !ok {
				return
			}
			if nt, isNamed := st.Val.Type().(*types.Named); isNamed && structs[nt] {
				// a whole struct of one of the types on the way is overwritten: only a local of the writer may be
				var root ssa.Value = st.Addr
				for {
					f, ok := root.(*ssa.FieldAddr)
					if !ok {
						break
					}
					root = f.X
				}
				n++
				if _, local := root.(*ssa.Alloc); !local {
					bad++
					r.Fail("counts:written-where-allocated:"+short(TypeName(nt))+"@"+short(FuncName(g)), r.Where(st), fmt.Sprintf("undecided: a whole %s, which a worker count travels in, is overwritten through the pointer %s; the value a reader sees is then not the one the allocating function stored", TypeName(nt), r.D.D(root)))
				}
				return
			}
			fa, ok := st.Addr.(*ssa.FieldAddr)
			if !ok || !fields[fieldOf(fa)] {
				return
			}
			n++
			var root ssa.Value = fa
			for {
				f, ok := root.(*ssa.FieldAddr)
				if !ok {
					break
				}
				root = f.X
			}
			if _, local := root.(*ssa.Alloc); !local {
				bad++
				r.Fail("counts:written-where-allocated:"+fieldOf(fa).Name()+"@"+short(FuncName(g)), r.Where(st), fmt.Sprintf("undecided: field %s, which a worker count travels through, is written through the pointer %s; the value a reader sees is then not the one the allocating function stored", fieldOf(fa).Name(), r.D.D(root)))
			}
		})
	}
	if bad == 0 {
		var names []string
		for f := range fields {
			names = append(names, f.Name())
		}
		sort.Strings(names)
		r.Pass("counts:written-where-allocated", "-", fmt.Sprintf("the %d stores to the fields %s are all into structs the storing function allocated", n, strings.Join(names, ", ")))
	}
}
