package main

import (
	"fmt"
	"go/constant"
	"go/token"
	"go/types"
	"regexp"
	"sort"
	"strconv"
	"strings"

	"golang.org/x/tools/go/ssa"
)

// Small generic additions used by the C13 and C19 rules:
//   - results of returns in functions with a deferred call (go/ssa spills the
//     results into allocations there),
//   - the SSA leaves of a φ under a walk,
//   - retry-loop structure (header, back-edges, "every way round passes X"),
//   - bound-method closures, variadic argument arrays, SQL text normalisation,
//   - a table enumerator that reports the first mismatch per named class.

// RetVals returns the result values of a return.  In a function with a defer,
// go/ssa stores each result into a result allocation immediately before the
// return ("store r0 <- v; ... ; return *r0"); the value stored last in the
// return's own block is the result.  Falls back to the operand itself.
func RetVals(ret *ssa.Return) []ssa.Value {
	out := make([]ssa.Value, len(ret.Results))
	for i, v := range ret.Results {
		out[i] = v
		ld, ok := v.(*ssa.UnOp)
		if !ok || ld.Op != token.MUL {
			continue
		}
		a, ok := ld.X.(*ssa.Alloc)
		if !ok {
			continue
		}
		// the load must sit in the return's block, the store before it
		if ld.Block() != ret.Block() {
			continue
		}
		var last ssa.Value
		for _, in := range ret.Block().Instrs {
			if in == ssa.Instruction(ld) {
				break
			}
			if st, ok := in.(*ssa.Store); ok && st.Addr == ssa.Value(a) {
				last = st.Val
			}
		}
		if last != nil {
			out[i] = last
		}
	}
	return out
}

// PhiLeaves resolves v through φ-nodes, keeping only incoming edges the walk
// may take; the result is the set of non-φ values v can be under the walk.
func PhiLeaves(v ssa.Value, reach *Reach) []ssa.Value {
	var out []ssa.Value
	seen := map[ssa.Value]bool{}
	var visit func(v ssa.Value)
	visit = func(v ssa.Value) {
		if seen[v] {
			return
		}
		seen[v] = true
		ph, ok := v.(*ssa.Phi)
		if !ok {
			out = append(out, v)
			return
		}
		for i, e := range ph.Edges {
			if reach != nil && !reach.Edges[[2]int{ph.Block().Preds[i].Index, ph.Block().Index}] {
				continue
			}
			visit(e)
		}
	}
	visit(v)
	return out
}

// BackEdgeTaken reports whether the walk takes an edge into header from a
// block that header dominates (i.e. goes round the loop again).
func BackEdgeTaken(reach *Reach, header *ssa.BasicBlock) bool {
	for _, p := range header.Preds {
		if header.Dominates(p) && reach.Blocks[p] && reach.Edges[[2]int{p.Index, header.Index}] {
			return true
		}
	}
	return false
}

// IsLoopHeader: some predecessor of b is dominated by b.
func IsLoopHeader(b *ssa.BasicBlock) bool {
	for _, p := range b.Preds {
		if b.Dominates(p) {
			return true
		}
	}
	return false
}

// ReachedAgain reports whether a walk that STARTED at block a comes back to a (takes an edge into
// it): everything such a walk visits is reachable from a, so any edge into a that it takes closes
// a cycle through a — the next iteration.  For a loop header this is BackEdgeTaken.
func ReachedAgain(reach *Reach, a *ssa.BasicBlock) bool {
	for _, p := range a.Preds {
		if reach.Blocks[p] && reach.Edges[[2]int{p.Index, a.Index}] {
			return true
		}
	}
	return false
}

// inNaturalLoop: a belongs to the natural loop of header h (h dominates a, and a reaches a
// back-edge source of h without passing h).
func inNaturalLoop(h, a *ssa.BasicBlock) bool {
	if !h.Dominates(a) {
		return false
	}
	if h == a {
		return IsLoopHeader(h)
	}
	seen := map[*ssa.BasicBlock]bool{h: true}
	var work []*ssa.BasicBlock
	for _, p := range h.Preds {
		if h.Dominates(p) && !seen[p] {
			seen[p] = true
			work = append(work, p)
		}
	}
	for len(work) > 0 {
		b := work[len(work)-1]
		work = work[:len(work)-1]
		if b == a {
			return true
		}
		for _, p := range b.Preds {
			if !seen[p] {
				seen[p] = true
				work = append(work, p)
			}
		}
	}
	return false
}

// LoopHeadOf returns the header of the innermost natural loop that contains block a (a itself
// when it is that header), nil when a is in no loop.
func LoopHeadOf(a *ssa.BasicBlock) *ssa.BasicBlock {
	for h := a; h != nil; h = h.Idom() {
		if IsLoopHeader(h) && inNaturalLoop(h, a) {
			return h
		}
	}
	return nil
}

// PrefixBlocks: the blocks control may pass between entering h and reaching a (h included, a
// excluded; empty when h == a), in index order.  Whatever leaves the loop before a is in it too.
func PrefixBlocks(h, a *ssa.BasicBlock) []*ssa.BasicBlock {
	if h == a {
		return nil
	}
	seen := map[*ssa.BasicBlock]bool{a: true}
	work := []*ssa.BasicBlock{h}
	var out []*ssa.BasicBlock
	for len(work) > 0 {
		b := work[len(work)-1]
		work = work[:len(work)-1]
		if seen[b] {
			continue
		}
		seen[b] = true
		out = append(out, b)
		work = append(work, b.Succs...)
	}
	sort.Slice(out, func(i, j int) bool { return out[i].Index < out[j].Index })
	return out
}

// CycleAvoiding reports whether control can leave block from and come back to
// it without entering any block of avoid (plain CFG reachability).
func CycleAvoiding(from *ssa.BasicBlock, avoid map[*ssa.BasicBlock]bool) bool {
	seen := map[*ssa.BasicBlock]bool{}
	work := append([]*ssa.BasicBlock{}, from.Succs...)
	for len(work) > 0 {
		b := work[len(work)-1]
		work = work[:len(work)-1]
		if b == from {
			return true
		}
		if seen[b] || avoid[b] {
			continue
		}
		seen[b] = true
		work = append(work, b.Succs...)
	}
	return false
}

// BlocksOf returns the set of blocks holding the given instructions.
func BlocksOf(ins []ssa.Instruction) map[*ssa.BasicBlock]bool {
	m := map[*ssa.BasicBlock]bool{}
	for _, in := range ins {
		m[in.Block()] = true
	}
	return m
}

// AllocBehind finds the local allocation behind a value, additionally looking
// through slicing (variadic argument arrays "new [n]T; slice t[:]").
func AllocBehind(v ssa.Value) *ssa.Alloc {
	for i := 0; i < 8 && v != nil; i++ {
		if sl, ok := v.(*ssa.Slice); ok {
			v = sl.X
			continue
		}
		if a := baseAlloc(v); a != nil {
			return a
		}
		return nil
	}
	return nil
}

// WholeStores lists the values stored into the allocation as a whole.
func WholeStores(a *ssa.Alloc) []*ssa.Store {
	var out []*ssa.Store
	if a == nil || a.Referrers() == nil {
		return nil
	}
	for _, ref := range *a.Referrers() {
		if st, ok := ref.(*ssa.Store); ok && st.Addr == ssa.Value(a) {
			out = append(out, st)
		}
	}
	return out
}

// ElemStores lists, per constant index, the values stored into the elements of
// an array allocation (variadic arguments).
func ElemStores(a *ssa.Alloc) map[int64][]ssa.Value {
	out := map[int64][]ssa.Value{}
	if a == nil || a.Referrers() == nil {
		return out
	}
	for _, ref := range *a.Referrers() {
		ia, ok := ref.(*ssa.IndexAddr)
		if !ok {
			continue
		}
		c, ok := ia.Index.(*ssa.Const)
		if !ok || ia.Referrers() == nil {
			continue
		}
		for _, r2 := range *ia.Referrers() {
			if st, ok := r2.(*ssa.Store); ok && st.Addr == ssa.Value(ia) {
				out[c.Int64()] = append(out[c.Int64()], st.Val)
			}
		}
	}
	return out
}

// BoundMethod recognises a bound-method closure "x.M" used as a function
// value; it returns the full name of the method and the receiver value.
func BoundMethod(v ssa.Value) (string, ssa.Value) {
	for { // a method value converted to a named function type is still that method value
		ct, isCT := v.(*ssa.ChangeType)
		if !isCT {
			break
		}
		v = ct.X
	}
	mc, ok := v.(*ssa.MakeClosure)
	if !ok || len(mc.Bindings) != 1 {
		return "", nil
	}
	fn, ok := mc.Fn.(*ssa.Function)
	if !ok || !strings.HasSuffix(fn.Name(), "$bound") {
		return "", nil
	}
	obj, ok := fn.Object().(*types.Func)
	if !ok {
		return "", nil
	}
	return obj.FullName(), mc.Bindings[0]
}

// NormSQL lower-cases a statement and collapses white space.
func NormSQL(s string) string {
	return strings.Join(strings.Fields(strings.ToLower(s)), " ")
}

// StringConst returns the value of a constant string operand.
func StringConst(v ssa.Value) (string, bool) {
	c, ok := v.(*ssa.Const)
	if !ok || c.Value == nil {
		return "", false
	}
	if c.Value.Kind() != constant.String {
		return "", false
	}
	return constant.StringVal(c.Value), true
}

// AtomVal pairs a rule atom with the value it is to take.
type AtomVal struct {
	Atom RuleAtom
	Val  string
}

// BindSigma builds a valuation from rule atoms and values (ord atoms may be
// given by operand globs; "<" then means OrdA < OrdB).  An atom that binds no
// branch condition of fn is an error (fail closed).
func (r *Run) BindSigma(fn *ssa.Function, avs ...AtomVal) (Sigma, error) {
	found := r.D.AtomsOf(fn)
	s := Sigma{}
	for _, av := range avs {
		n := 0
		for _, k := range keysOf(found) {
			ci := found[k]
			v := av.Val
			switch {
			case av.Atom.OrdA != "":
				if ci.Kind != "ord" {
					continue
				}
				if glob(av.Atom.OrdA, ci.A) && glob(av.Atom.OrdB, ci.B) {
				} else if glob(av.Atom.OrdA, ci.B) && glob(av.Atom.OrdB, ci.A) {
					switch v {
					case "<":
						v = ">"
					case ">":
						v = "<"
					}
				} else {
					continue
				}
			case !glob(av.Atom.Pat, k):
				continue
			}
			s[k] = v
			n++
		}
		if n == 0 {
			return nil, fmt.Errorf("no branch condition of %s matches %s%s ~ %s", FuncName(fn), av.Atom.Pat, av.Atom.OrdA, av.Atom.OrdB)
		}
	}
	return s, nil
}

// ClassTable runs a decision table and records one obligation per class: the
// classifier names the class of a valuation, the judge returns "" when the
// walk's outcome is what the class prescribes and a complaint otherwise.
// Classes listed in want must each be hit by at least one valuation.
func (r *Run) ClassTable(fn *ssa.Function, key string, from *ssa.BasicBlock, atoms []RuleAtom, want []string,
	classify func(val map[string]string) string,
	judge func(class string, val map[string]string, reach *Reach) string) {
	bad := map[string]string{}
	hits := map[string]int{}
	res, err := r.D.Table(fn, from, nil, atoms, func(val map[string]string, reach *Reach, s Sigma) {
		c := classify(val)
		if c == "" {
			return
		}
		hits[c]++
		if msg := judge(c, val, reach); msg != "" && bad[c] == "" {
			bad[c] = fmt.Sprintf("%s [valuation %s]", msg, s)
		}
	})
	if err != nil {
		r.Fail(key, r.FnPos(fn), "undecided: "+err.Error())
		return
	}
	r.Valuations += res.Valuations
	for _, c := range want {
		switch {
		case hits[c] == 0:
			r.Fail(key+"["+c+"]", r.FnPos(fn), "undecided: no valuation falls into class "+c)
		case bad[c] != "":
			r.Fail(key+"["+c+"]", r.FnPos(fn), bad[c])
		default:
			r.Pass(key+"["+c+"]", r.FnPos(fn), fmt.Sprintf("%d valuations of class %s all conform", hits[c], c))
		}
	}
	for c := range hits {
		known := false
		for _, w := range want {
			known = known || w == c
		}
		if !known {
			r.Fail(key+"["+c+"]", r.FnPos(fn), "classifier produced an unlisted class")
		}
	}
}

// reachable filters instructions by the walk.
func reachableIns(ins []ssa.Instruction, reach *Reach) []ssa.Instruction {
	var out []ssa.Instruction
	for _, in := range ins {
		if reach.Has(in) {
			out = append(out, in)
		}
	}
	return out
}

func instrIndexOf(in ssa.Instruction) int {
	for i, x := range in.Block().Instrs {
		if x == in {
			return i
		}
	}
	return -1
}

// blockReaches: b can be reached from a by at least one edge.
func blockReachesBlock(a, b *ssa.BasicBlock) bool {
	seen := map[*ssa.BasicBlock]bool{}
	work := append([]*ssa.BasicBlock{}, a.Succs...)
	for len(work) > 0 {
		x := work[len(work)-1]
		work = work[:len(work)-1]
		if x == b {
			return true
		}
		if seen[x] {
			continue
		}
		seen[x] = true
		work = append(work, x.Succs...)
	}
	return false
}

// CopyOf: a is root itself or a local that is only ever assigned (copies of)
// root's value ("x := root").
func CopyOf(a, root *ssa.Alloc) bool {
	for i := 0; i < 4 && a != nil; i++ {
		if a == root {
			return true
		}
		sts := WholeStores(a)
		if len(sts) == 0 {
			return false
		}
		var next *ssa.Alloc
		for _, st := range sts {
			b := baseAlloc(st.Val)
			if b == nil || (next != nil && b != next) {
				return false
			}
			next = b
		}
		a = next
	}
	return false
}

// ---- helpers a rule is decided across (C13) ---------------------------------------

var paramTokenRE = regexp.MustCompile(`\bp([0-9]+)\b`)

// SubstParams rewrites an origin term of a callee's frame into the caller's frame: every
// parameter token pK becomes the origin term of argument K of the call (the receiver is
// argument 0).  Terms with elided sub-terms (~hhhh) or unresolved parts cannot be
// translated (ok = false).
func (r *Run) SubstParams(term string, call ssa.CallInstruction) (string, bool) {
	if strings.Contains(term, "~") || strings.Contains(term, "opaque") {
		return term, false
	}
	args := CallArgs(call)
	ok := true
	out := paramTokenRE.ReplaceAllStringFunc(term, func(m string) string {
		k, err := strconv.Atoi(m[1:])
		if err != nil || k >= len(args) {
			ok = false
			return m
		}
		a := r.D.D(args[k])
		if strings.Contains(a, "~") || strings.Contains(a, "opaque") {
			ok = false
		}
		return a
	})
	return out, ok
}

// PureOfArgs: fn computes its results from its arguments only — it calls nothing but
// builtins and static functions from outside the module, writes nothing but its own
// locals, and neither spawns, defers, sends nor selects.  (What such a helper returns can
// be decided inside it and carried to the call site; it cannot touch the caller's state.)
func PureOfArgs(fn *ssa.Function) (bool, string) { return pureOfArgs(fn, map[*ssa.Function]bool{}) }

// pureOfArgs: a module callee is allowed when it is itself a pure function of its arguments
// (e.g. the monomorphic min/max models the normaliser generates); recursion is refused.
func pureOfArgs(fn *ssa.Function, busy map[*ssa.Function]bool) (bool, string) {
	if fn == nil || len(fn.Blocks) == 0 {
		return false, "no body"
	}
	if busy[fn] || len(busy) > 8 {
		return false, "recursive or too deep"
	}
	busy[fn] = true
	defer delete(busy, fn)
	why := ""
	eachInstr(fn, func(in ssa.Instruction) {
		if why != "" {
			return
		}
		switch x := in.(type) {
		case *ssa.Call:
			c := x.Common()
			if _, isBuiltin := c.Value.(*ssa.Builtin); isBuiltin {
				return
			}
			f := c.StaticCallee()
			if f == nil {
				why = "dynamic or interface call " + CalleeOf(x)
				return
			}
			if f.Pkg != nil && f.Pkg.Pkg != nil && strings.HasPrefix(f.Pkg.Pkg.Path(), ModPath) {
				if ok, w := pureOfArgs(f, busy); !ok {
					why = "calls " + FuncName(f) + " of the module (" + w + ")"
				}
			}
		case *ssa.Store:
			if addrBase(x.Addr) == nil {
				why = "writes outside its own locals: " + x.String()
			}
		case *ssa.Go, *ssa.Defer, *ssa.Send, *ssa.Select, *ssa.MapUpdate, *ssa.Panic, *ssa.RunDefers:
			why = "has an effect: " + in.String()
		}
	})
	return why == "", why
}

// ResultIndex: v is result i of a call (Extract) or the single result (i = 0).
func ResultIndex(v ssa.Value) (ssa.CallInstruction, int) {
	switch x := v.(type) {
	case *ssa.Call:
		return x, 0
	case *ssa.Extract:
		if c, ok := x.Tuple.(*ssa.Call); ok {
			return c, x.Index
		}
	}
	return nil, 0
}
