package main

import (
	"fmt"
	"go/token"
	"go/types"

	"golang.org/x/tools/go/ssa"
)

// C01.R1 / C01.R4 on the add-[pre-]chain response, stated on the facts they establish and not on
// the parameter list of the response writer:
//
//	(a) the SCT the writer serialises is the object buildV1SCT returned for the logged leaf, built
//	    with this log's signer, and nothing writes into it between buildV1SCT and the response;
//	(b) SCTVersion / Timestamp / Extensions / Signature of the response are read from that SCT;
//	(c) the ID of the response is the SHA-256 of the log key.  Two ways of obtaining it are
//	    understood, and each one is checked for what makes it that hash:
//	      recomputed   GetCTLogID(signer.Public()) in the writer, the signer handed in being the
//	                   log's (p1.signer at the call);
//	      from the SCT the LogID.KeyID of that very SCT — which is the hash because the SCT handed
//	                   in is buildV1SCT's (a), buildV1SCT was called with the log's signer (a), on
//	                   every success return of buildV1SCT the field holds
//	                   GetCTLogID(signer.Public()) of its own signer parameter (decided on the
//	                   object at the return, flow-sensitively), the writer does not write into the
//	                   SCT, and nobody but addChainInternal calls the writer;
//	(d) every failure inside the writer (marshalling the signature, the JSON, the write and — when
//	    the ID is recomputed — GetCTLogID) keeps it from returning success.
//
// The writer's parameters are found by what they are (the one parameter that is a
// SignedCertificateTimestamp, the crypto.Signer if there is one), not by position.

const c01WriterName = "trillian/ctfe.marshalAndWriteAddChainResponse"

type c01Writer struct {
	fn          *ssa.Function
	sct, signer int    // parameter positions; -1: none
	why         string // != "": the roles cannot be told
}

func c01WriterRoles(fn *ssa.Function) c01Writer {
	w := c01Writer{fn: fn, sct: -1, signer: -1}
	for i, p := range fn.Params {
		t := p.Type()
		if pt, ok := t.Underlying().(*types.Pointer); ok {
			t = pt.Elem()
		}
		switch TypeName(t) {
		case "ct.SignedCertificateTimestamp":
			if w.sct >= 0 {
				w.why = "more than one SignedCertificateTimestamp parameter"
			}
			w.sct = i
		case "crypto.Signer":
			if w.signer >= 0 {
				w.why = "more than one crypto.Signer parameter"
			}
			w.signer = i
		}
	}
	if w.sct < 0 && w.why == "" {
		w.why = "no SignedCertificateTimestamp parameter"
	}
	return w
}

// writtenThrough: an instruction that may write into the object the pointer v points to, or that
// lets the pointer (or the address of a part of the object) out of sight: a store through it, the
// pointer handed to a call / stored / boxed / merged.  Loads, comparisons, slices of array parts
// (values) and the instructions in `except` are reads.  nil: the object is only read through v.
func writtenThrough(v ssa.Value, except map[ssa.Instruction]bool) ssa.Instruction {
	refs := v.Referrers()
	if refs == nil {
		return nil
	}
	for _, ref := range *refs {
		if except[ref] {
			continue
		}
		switch x := ref.(type) {
		case *ssa.DebugRef:
		case *ssa.UnOp:
			if x.Op != token.MUL {
				return x
			}
		case *ssa.BinOp:
			if x.Op != token.EQL && x.Op != token.NEQ {
				return x
			}
		case *ssa.FieldAddr:
			if in := writtenThrough(x, except); in != nil {
				return in
			}
		case *ssa.IndexAddr:
			if x.X != v {
				break // v is the index
			}
			if in := writtenThrough(x, except); in != nil {
				return in
			}
		case *ssa.Slice:
			// a slice of an array part: a value that is read (the writer copies it into the
			// response); it is not an address the function stores through
			if x.X != v {
				break
			}
			for _, r2 := range *x.Referrers() {
				if ia, ok := r2.(*ssa.IndexAddr); ok && ia.X == ssa.Value(x) {
					if in := writtenThrough(ia, except); in != nil {
						return in
					}
				}
			}
		default:
			return ref
		}
	}
	return nil
}

// c01ResponseCall: the obligations of C01.R1 on the call of the response writer in addChainInternal.
func c01ResponseCall(r *Run, fn *ssa.Function, c ssa.CallInstruction) {
	callee := c.Common().StaticCallee()
	if callee == nil {
		r.Fail("addChainInternal:response.sct", r.Where(c), "undecided: the response writer is not called statically")
		return
	}
	w := c01WriterRoles(callee)
	if w.why != "" {
		r.Fail("addChainInternal:response.sct", r.Where(c), "undecided: "+w.why+" in "+FuncName(callee))
		return
	}
	built := "trillian/ctfe.buildV1SCT(*)#0"
	if _, isPtr := callee.Params[w.sct].Type().Underlying().(*types.Pointer); !isPtr {
		built = "*" + built
	}
	okSCT := r.ExpectArg(c, "addChainInternal:response.sct", w.sct, built)
	if w.signer >= 0 {
		r.ExpectArg(c, "addChainInternal:response.signer", w.signer, "p1.signer")
	} else {
		// no signer is handed over: the key the response names is the one the SCT was built with
		got := r.D.D(CallArgs(c)[w.sct])
		r.Check("addChainInternal:response.signer", glob("trillian/ctfe.buildV1SCT(p1.signer, *)#0", got) || glob("*trillian/ctfe.buildV1SCT(p1.signer, *)#0", got), r.Where(c),
			fmt.Sprintf("%s takes no signer; the SCT it is given is %s (expected the one buildV1SCT built with the log's signer p1.signer)", FuncName(callee), got))
	}
	if okSCT {
		// nothing writes into the SCT between buildV1SCT and the response
		v := CallArgs(c)[w.sct]
		if ld, ok := v.(*ssa.UnOp); ok && ld.Op == token.MUL {
			v = ld.X
		}
		in := writtenThrough(v, map[ssa.Instruction]bool{c: true})
		detail := "the SCT returned by buildV1SCT is only read in " + FuncName(fn) + " (apart from being handed to the response writer)"
		if in != nil {
			detail = "the SCT returned by buildV1SCT may be written, or is handed on, at " + r.Where(in) + " before/around the response"
		}
		r.Check("addChainInternal:response.sct-untouched", in == nil, r.Where(c), detail)
	}
}

// c01ResponseWriter: the obligations of C01.R4 on the response writer itself.
func c01ResponseWriter(r *Run, fn *ssa.Function) {
	w := c01WriterRoles(fn)
	if w.why != "" {
		r.Fail("response", r.FnPos(fn), "undecided: "+w.why+" in "+FuncName(fn))
		return
	}
	P := fmt.Sprintf("p%d", w.sct)
	recomputed := 0
	c := r.OneCall(fn, "response:json", "json.Marshal")
	if c != nil {
		a := baseAlloc(CallArgs(c)[0])
		if a == nil {
			r.Fail("response", r.FnPos(fn), "undecided: value "+r.D.D(CallArgs(c)[0])+" is not built in a local allocation")
		} else {
			name := r.D.allocName(a)
			r.ExpectStores(fn, "response.SCTVersion", "&("+name+".SCTVersion)", P+".SCTVersion", 1)
			r.ExpectStores(fn, "response.Timestamp", "&("+name+".Timestamp)", P+".Timestamp", 1)
			r.ExpectStores(fn, "response.Extensions", "&("+name+".Extensions)", "(*base64.Encoding).EncodeToString(g:base64.StdEncoding, "+P+".Extensions)", 1)
			r.ExpectStores(fn, "response.Signature", "&("+name+".Signature)", "tls.Marshal("+P+".Signature)#0", 1)
			recomputed = c01ResponseID(r, fn, w, name)
		}
		if wr := r.OneCall(fn, "response:write", "iface(http.ResponseWriter).Write"); wr != nil {
			r.ExpectArg(wr, "response:write.bytes", 1, "json.Marshal(*)#0")
		}
	}
	// signature, JSON, write — and GetCTLogID where the writer calls it
	r.ErrorsGate(fn, "response:errors", "*", 3+recomputed)
}

// c01ResponseID decides obligation (c) on the stores to the ID of the response `name`; it returns
// the number of GetCTLogID calls the writer needs for it (1 when the ID is recomputed).
func c01ResponseID(r *Run, fn *ssa.Function, w c01Writer, name string) int {
	P := fmt.Sprintf("p%d", w.sct)
	fromSCT := P + ".LogID.KeyID[:]"
	want := fromSCT
	recomputedT := ""
	if w.signer >= 0 {
		recomputedT = fmt.Sprintf("trillian/ctfe.GetCTLogID(iface(crypto.Signer).Public(p%d))#0[:]", w.signer)
		want = recomputedT + " || " + fromSCT
	}
	sts := r.StoresTo(fn, "&("+name+".ID)")
	if len(sts) < 1 {
		r.Fail("response.ID", r.FnPos(fn), fmt.Sprintf("expected >= 1 stores to &(%s.ID) in %s, found 0", name, FuncName(fn)))
		return 0
	}
	recomputed, taken := 0, false
	for _, st := range sts {
		got := r.D.D(st.Val)
		switch {
		case recomputedT != "" && got == recomputedT:
			recomputed = 1
			r.Pass("response.ID", r.Where(st), fmt.Sprintf("%s <- %s (the log ID recomputed from the signer handed in)", r.D.D(st.Addr), got))
		case got == fromSCT:
			taken = true
			r.Pass("response.ID", r.Where(st), fmt.Sprintf("%s <- %s (the LogID of the SCT handed in; see response.ID:*)", r.D.D(st.Addr), got))
		default:
			r.Fail("response.ID", r.Where(st), fmt.Sprintf("%s <- %s (expected %s)", r.D.D(st.Addr), got, want))
		}
	}
	if !taken {
		return recomputed
	}
	// the LogID of the SCT handed in is the hash of the log key:
	// … the writer reads the SCT it is given and never writes into it
	if p := fn.Params[w.sct]; true {
		if _, isPtr := p.Type().Underlying().(*types.Pointer); isPtr {
			in := writtenThrough(p, nil)
			detail := FuncName(fn) + " only reads the SCT it is given"
			if in != nil {
				detail = FuncName(fn) + " may write into the SCT it is given, or hands it on, at " + r.Where(in)
			}
			r.Check("response.ID:sct-read-only", in == nil, r.FnPos(fn), detail)
		}
	}
	// … only addChainInternal, which hands over buildV1SCT's SCT (C01.R1), calls the writer
	callers := r.CallersOf(FuncName(fn))
	ok := len(callers) > 0
	for _, g := range keysOf(callers) {
		if g != "trillian/ctfe.addChainInternal" {
			ok = false
			r.Fail("response.ID:callers@"+g, r.Where(callers[g][0]), g+" calls "+FuncName(fn)+", which trusts the LogID of the SCT it is given; only trillian/ctfe.addChainInternal (whose SCT is buildV1SCT's) may")
		}
	}
	if ok {
		r.Pass("response.ID:callers", r.FnPos(fn), "only trillian/ctfe.addChainInternal calls "+FuncName(fn))
	} else if len(callers) == 0 {
		r.Fail("response.ID:callers", r.FnPos(fn), "undecided: no caller of "+FuncName(fn)+" found")
	}
	// … and on every success return of buildV1SCT the object returned holds, in LogID.KeyID, the
	// hash of its own signer's public key
	b := r.P.Func("trillian/ctfe.buildV1SCT")
	if b == nil || len(b.Blocks) == 0 {
		r.Fail("response.ID:buildV1SCT", "-", "undecided: trillian/ctfe.buildV1SCT not found")
		return recomputed
	}
	n := 0
	for _, ret := range Returns(b) {
		if errKind(ret.Results[len(ret.Results)-1]) != "nil" {
			continue
		}
		n++
		r.ExpectBuilt(b, "response.ID:buildV1SCT.LogID@return", nil, ret, ret.Results[0], "LogID.KeyID", "trillian/ctfe.GetCTLogID(iface(crypto.Signer).Public(p0))#0")
	}
	if n == 0 {
		r.Fail("response.ID:buildV1SCT.LogID@return", r.FnPos(b), "undecided: trillian/ctfe.buildV1SCT has no success return")
	}
	return recomputed
}
