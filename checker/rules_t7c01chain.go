package main

import (
	"fmt"
	"go/token"
	"go/types"
	"os"
	"sort"
	"strings"
	"time"

	"golang.org/x/tools/go/ssa"
)

// Round 7, C01.R12: "the entry that is signed and stored is derived from the chain that was VALIDATED".
//
// The fact decided: from the moment a validated value exists (the chain verifyAddChain returned, the raw
// request chain it was parsed from, the leaf decoded from the backend's reply) until the last instruction that
// reads it for the entry (the calls from which the LogLeaf handed to QueueLeaf is computed; verifyAddChain for
// the request; buildV1SCT for the returned leaf) nothing writes the memory it consists of: the elements of the
// slice, the certificates they point to, the byte strings of those certificates — by a store, an append to a
// shortened view (s[:0], s[i:j]: append overwrites the elements behind the view), copy / clear / delete, a
// library function that writes its argument (sort.Slice, slices.Reverse, io.ReadFull, …), or a module function
// — called directly, through an interface (all module implementations), a function value (all module
// functions of that signature whose address is taken) or a function literal — that does one of these to the
// parameter it receives the value in, at any depth (parameter-mutation summaries, computed as a fixed point
// over the call graph below the call).
//
// How a value is followed (mutFlow): forward over SSA def-use from the seed.  A tracked value is either
//
//	ref    an address in / a reference to memory of the validated object (a slice of it, &s[i], s[i], p.f,
//	       a value loaded from it that itself refers to memory: pointers, slices, maps, interfaces, structs
//	       holding them; strings and scalars are copies and are not followed);
//	cont   memory of its own that HOLDS such references (a local variable, a composite literal, a slice made
//	       here and filled from the object, the result of append(fresh, s...), a copy): writing a container
//	       does not write the object, loading from it (at a path that was filled from the object) yields a ref.
//
// A write into a container by the function that built it is construction.  A write into a container that
// another function built (it was returned by a call, or it is written by a callee that received it) is
// recorded as a container write; it matters where the container is afterwards handed to a reader.
//
// Fail closed: a call through a function value or a module interface that resolves to nothing, a module
// function without a body, a fixed point that does not settle — "undecided" events, which fail the obligation
// like a write when they can execute before a reader.

const (
	mutRef   uint8 = 1 // refers to memory of the tracked object
	mutShort uint8 = 2 // (ref) a view that may end before the tracked elements do
	mutCont  uint8 = 4 // memory of its own holding references into the tracked object
)

type mutKey struct {
	fn    *ssa.Function
	idx   int // parameter index; free variable i is -(i+1)
	short bool
	cont  bool // the parameter is (a reference to) a container holding references into the object
}

type mutSum struct {
	writes     bool // may write memory reachable through the parameter
	why        mutWhy
	contWrites bool // may write a container holding such references that it did not build itself
	contWhy    mutWhy
	argWrites  bool // (container parameter) may write the container it was handed
	argWhy     mutWhy
	undec      bool
	undecWhy   mutWhy
	ret        map[int]uint8 // result index -> mutRef / mutCont
	round      int
}

// mutWhy: the innermost cause (with its position) and the chain of callees leading to it.
type mutWhy struct {
	via   []string
	cause string
}

func (w mutWhy) below(callee string) mutWhy {
	via := append([]string{callee}, w.via...)
	if len(via) > 6 {
		via = append(via[:5:5], "…")
	}
	return mutWhy{via: via, cause: w.cause}
}

func (w mutWhy) String() string {
	if len(w.via) == 0 {
		return w.cause
	}
	return "via " + strings.Join(w.via, " → ") + ": " + w.cause
}

func (s *mutSum) same(o *mutSum) bool {
	if o == nil || s.writes != o.writes || s.contWrites != o.contWrites || s.argWrites != o.argWrites || s.undec != o.undec || len(s.ret) != len(o.ret) {
		return false
	}
	for k, v := range s.ret {
		if o.ret[k] != v {
			return false
		}
	}
	return true
}

type mutEngine struct {
	r         *Run
	sum       map[mutKey]*mutSum
	visiting  map[mutKey]bool
	round     int
	changed   bool
	implCache map[string][]*ssa.Function
	addrTaken []*ssa.Function
	scanned   bool
	refMemo   map[types.Type]bool
	Summaries int
}

func newMutEngine(r *Run) *mutEngine {
	return &mutEngine{r: r, sum: map[mutKey]*mutSum{}, visiting: map[mutKey]bool{}, implCache: map[string][]*ssa.Function{}, refMemo: map[types.Type]bool{}}
}

// ---- types ----------------------------------------------------------------------------------------------

// refBearing: a value of type t can refer to memory (so a copy of it still shares that memory).
func (e *mutEngine) refBearing(t types.Type) bool {
	if v, ok := e.refMemo[t]; ok {
		return v
	}
	e.refMemo[t] = false // recursive types: decided by the other members
	out := false
	switch u := t.Underlying().(type) {
	case *types.Pointer, *types.Slice, *types.Map, *types.Chan, *types.Signature, *types.Interface:
		out = true
	case *types.Basic:
		out = u.Kind() == types.UnsafePointer
	case *types.Struct:
		for i := 0; i < u.NumFields(); i++ {
			if e.refBearing(u.Field(i).Type()) {
				out = true
				break
			}
		}
	case *types.Array:
		out = e.refBearing(u.Elem())
	case *types.Tuple:
		for i := 0; i < u.Len(); i++ {
			if e.refBearing(u.At(i).Type()) {
				out = true
			}
		}
	case *types.TypeParam:
		out = true
	}
	e.refMemo[t] = out
	return out
}

func elemOf(t types.Type) types.Type {
	switch u := t.Underlying().(type) {
	case *types.Slice:
		return u.Elem()
	case *types.Array:
		return u.Elem()
	case *types.Pointer:
		if a, ok := u.Elem().Underlying().(*types.Array); ok {
			return a.Elem()
		}
	case *types.Map:
		return u.Elem()
	}
	return nil
}

// ---- per-function flow ------------------------------------------------------------------------------------

type mutEvent struct {
	in    ssa.Instruction
	kind  string // "write" | "cont-write" | "undecided"
	why   string
	deep  mutWhy             // for events of callees: where the cause lies
	what  string             // construct (for keys): callee name, "append", "store", …
	line  map[ssa.Value]bool // cont-write: the containers that may be written
	where string
}

type mutEvKey struct {
	in   ssa.Instruction
	kind string
}

type contRec struct {
	root ssa.Value
	path string
}

type contSlot struct {
	bits uint8
	line map[ssa.Value]bool
}

type mutFlow struct {
	e       *mutEngine
	fn      *ssa.Function
	bits    map[ssa.Value]uint8
	order   []ssa.Value
	cont    map[ssa.Value]*contRec
	tainted map[ssa.Value]map[string]*contSlot // container root -> path -> what the slot holds
	line    map[ssa.Value]map[ssa.Value]bool   // container root -> base roots it may share memory with
	foreign map[ssa.Value]bool                 // container roots this function did not build (call results, parameters)
	events  map[mutEvKey]*mutEvent
	evOrder []mutEvKey
	ret     map[int]uint8
	changed bool
	stores  map[ssa.Value]map[string][]ssa.Value // local object -> path -> values stored there
}

func (e *mutEngine) newFlow(fn *ssa.Function) *mutFlow {
	return &mutFlow{e: e, fn: fn, bits: map[ssa.Value]uint8{}, cont: map[ssa.Value]*contRec{}, tainted: map[ssa.Value]map[string]*contSlot{},
		line: map[ssa.Value]map[ssa.Value]bool{}, foreign: map[ssa.Value]bool{}, events: map[mutEvKey]*mutEvent{}, ret: map[int]uint8{}}
}

func (f *mutFlow) add(v ssa.Value, b uint8) {
	if v == nil {
		return
	}
	old, seen := f.bits[v]
	if !seen {
		f.order = append(f.order, v)
	}
	if old|b != old || !seen {
		f.bits[v] = old | b
		f.changed = true
	}
}

func (f *mutFlow) isRef(v ssa.Value) bool { return f.bits[v]&mutRef != 0 }

// container bookkeeping

func (f *mutFlow) lineOf(root ssa.Value) map[ssa.Value]bool {
	l := f.line[root]
	if l == nil {
		l = map[ssa.Value]bool{root: true}
		f.line[root] = l
	}
	return l
}

func (f *mutFlow) regCont(v, root ssa.Value, path string) {
	if _, ok := f.cont[v]; ok {
		return
	}
	f.cont[v] = &contRec{root: root, path: path}
	f.lineOf(root)
	f.add(v, mutCont)
	f.changed = true
}

func (f *mutFlow) taint(root ssa.Value, path string, b uint8, line map[ssa.Value]bool) {
	m := f.tainted[root]
	if m == nil {
		m = map[string]*contSlot{}
		f.tainted[root] = m
	}
	s := m[path]
	if s == nil {
		s = &contSlot{line: map[ssa.Value]bool{}}
		m[path] = s
		f.changed = true
	}
	if s.bits|b != s.bits {
		s.bits |= b
		f.changed = true
	}
	for k := range line {
		if !s.line[k] {
			s.line[k] = true
			f.changed = true
		}
	}
}

func pathsOverlap(p, q string) bool {
	return p == "*" || q == "*" || strings.HasPrefix(p, q) || strings.HasPrefix(q, p)
}

// slotAt: what a load at path p of the container may yield.
func (f *mutFlow) slotAt(root ssa.Value, p string) (uint8, map[ssa.Value]bool) {
	var b uint8
	line := map[ssa.Value]bool{}
	for q, s := range f.tainted[root] {
		if pathsOverlap(p, q) {
			b |= s.bits
			for k := range s.line {
				line[k] = true
			}
		}
	}
	return b, line
}

func (f *mutFlow) anyTaint(root ssa.Value) bool { return len(f.tainted[root]) > 0 }

// virt registers v as a container of its own ("*" holds b) sharing memory with the given lines.
func (f *mutFlow) virt(v ssa.Value, b uint8, lines ...map[ssa.Value]bool) {
	f.regCont(v, v, "")
	l := f.lineOf(v)
	for _, ln := range lines {
		for k := range ln {
			if !l[k] {
				l[k] = true
				f.changed = true
			}
		}
	}
	f.taint(v, "*", b, nil)
}

// contLine: the base roots a tracked container value may share memory with.
func (f *mutFlow) contLine(v ssa.Value) map[ssa.Value]bool {
	if c := f.cont[v]; c != nil {
		return f.lineOf(c.root)
	}
	return nil
}

// addrBase walks an address back to the object it lies in: (root, path).  A pointer loaded from a local
// object is followed to the one local object that was stored there (leaf.TimestampedEntry.X509Entry = … writes
// the TimestampedEntry made a few lines earlier).
func (f *mutFlow) addrBase(addr ssa.Value) (ssa.Value, string) {
	path := ""
	for i := 0; i < 32; i++ {
		switch x := addr.(type) {
		case *ssa.FieldAddr:
			name := fmt.Sprint(x.Field)
			if fv := fieldOf(x); fv != nil {
				name = fv.Name()
			}
			path = "." + name + path
			addr = x.X
		case *ssa.IndexAddr:
			path = "[]" + path
			addr = x.X
		case *ssa.Slice:
			addr = x.X
		case *ssa.ChangeType:
			addr = x.X
		case *ssa.UnOp:
			if x.Op != token.MUL {
				return addr, path
			}
			r2, p2 := f.addrBase(x.X)
			if !isFreshRoot(r2) {
				return addr, path
			}
			var inner ssa.Value
			n := 0
			for _, v := range f.storedAt(r2, p2) {
				n++
				if isFreshRoot(v) {
					inner = v
				}
			}
			if n != 1 || inner == nil {
				return addr, path
			}
			addr = inner
		default:
			return addr, path
		}
	}
	return addr, path
}

// storedAt: the values stored in fn at exactly path p of the local object root.
func (f *mutFlow) storedAt(root ssa.Value, p string) []ssa.Value {
	if f.stores == nil {
		f.stores = map[ssa.Value]map[string][]ssa.Value{}
	}
	m, ok := f.stores[root]
	if !ok {
		m = map[string][]ssa.Value{}
		f.stores[root] = m
		var walk func(a ssa.Value, path string, depth int)
		walk = func(a ssa.Value, path string, depth int) {
			refs := a.Referrers()
			if refs == nil || depth > 12 {
				return
			}
			for _, ref := range *refs {
				switch x := ref.(type) {
				case *ssa.FieldAddr:
					name := fmt.Sprint(x.Field)
					if fv := fieldOf(x); fv != nil {
						name = fv.Name()
					}
					walk(x, path+"."+name, depth+1)
				case *ssa.IndexAddr:
					if x.X == a {
						walk(x, path+"[]", depth+1)
					}
				case *ssa.Slice:
					if x.X == a {
						walk(x, path, depth+1)
					}
				case *ssa.ChangeType:
					walk(x, path, depth+1)
				case *ssa.Store:
					if x.Addr == a {
						m[path] = append(m[path], x.Val)
					}
				}
			}
		}
		walk(root, "", 0)
	}
	return m[p]
}

func isFreshRoot(v ssa.Value) bool {
	switch x := v.(type) {
	case *ssa.Alloc, *ssa.MakeSlice, *ssa.MakeMap:
		return true
	case *ssa.Call:
		if b, ok := x.Call.Value.(*ssa.Builtin); ok && b.Name() == "append" {
			return true
		}
	}
	return false
}

func (f *mutFlow) event(in ssa.Instruction, kind, what, why string, line map[ssa.Value]bool) {
	k := mutEvKey{in, kind}
	if old := f.events[k]; old != nil {
		for x := range line {
			if old.line != nil && !old.line[x] {
				old.line[x] = true
				f.changed = true
			}
		}
		return
	}
	var l map[ssa.Value]bool
	if line != nil {
		l = map[ssa.Value]bool{}
		for x := range line {
			l[x] = true
		}
	}
	f.evOrder = append(f.evOrder, k)
	f.events[k] = &mutEvent{in: in, kind: kind, what: what, why: why, line: l, where: f.e.r.Where(in)}
	f.changed = true
}

// run propagates from the seeds to a fixed point.
func (f *mutFlow) run(seeds map[ssa.Value]uint8) {
	for v, b := range seeds {
		f.add(v, b)
	}
	for n := 0; n < 64; n++ {
		f.changed = false
		for i := 0; i < len(f.order); i++ {
			v := f.order[i]
			refs := v.Referrers()
			if refs == nil {
				continue
			}
			for _, ref := range *refs {
				if f.isRef(v) {
					f.useRef(v, ref)
				} else if f.cont[v] != nil {
					f.useCont(v, ref)
				}
			}
		}
		if !f.changed {
			return
		}
	}
	if len(f.fn.Blocks) > 0 {
		f.event(f.fn.Blocks[0].Instrs[0], "undecided", FuncName(f.fn), "the flow analysis of "+FuncName(f.fn)+" does not settle", nil)
	}
}

func (f *mutFlow) describe(v ssa.Value) string {
	if f.e.r.D != nil {
		return f.e.r.D.D(v)
	}
	return v.Name()
}

// storeInto: the tracked value val (bits b, line for containers) is stored at addr.
func (f *mutFlow) storeInto(in ssa.Instruction, addr ssa.Value, b uint8, line map[ssa.Value]bool) {
	root, path := f.addrBase(addr)
	if f.isRef(root) {
		return // reported as a write through the address
	}
	if c := f.cont[root]; c != nil {
		f.taint(c.root, c.path+path, b&(mutRef|mutCont), line)
		return
	}
	if isFreshRoot(root) {
		f.regCont(root, root, "")
		f.taint(root, path, b&(mutRef|mutCont), line)
		return
	}
	// memory that outlives this function or belongs to someone else (a field of a parameter, a global, the
	// result of a call): the reference is retained there; not followed (see the assumption of the rule)
}

// useRef: one use of a value that refers to memory of the tracked object.
func (f *mutFlow) useRef(v ssa.Value, ref ssa.Instruction) {
	b := f.bits[v] & (mutRef | mutShort)
	e := f.e
	switch x := ref.(type) {
	case *ssa.DebugRef, *ssa.If, *ssa.Jump, *ssa.RunDefers, *ssa.Panic:
	case *ssa.Slice:
		if x.X != v {
			return
		}
		nb := b
		if x.High != nil || x.Max != nil {
			nb |= mutShort
		}
		f.add(x, nb)
	case *ssa.IndexAddr:
		if x.X == v {
			f.add(x, mutRef)
		}
	case *ssa.FieldAddr:
		f.add(x, mutRef)
	case *ssa.Field:
		if e.refBearing(x.Type()) {
			f.add(x, mutRef|mutShort)
		}
	case *ssa.Index:
		if x.X == v && e.refBearing(x.Type()) {
			f.add(x, mutRef|mutShort)
		}
	case *ssa.Lookup:
		if x.X == v && e.refBearing(x.Type()) {
			f.add(x, mutRef|mutShort)
		}
	case *ssa.UnOp:
		switch x.Op {
		case token.MUL, token.ARROW:
			if e.refBearing(x.Type()) {
				f.add(x, mutRef|mutShort)
			}
		}
	case *ssa.Phi:
		f.add(x, b)
	case *ssa.ChangeType:
		f.add(x, b)
	case *ssa.ChangeInterface:
		f.add(x, b)
	case *ssa.MakeInterface:
		f.add(x, b)
	case *ssa.SliceToArrayPointer:
		f.add(x, b)
	case *ssa.Convert:
		// []byte <-> string conversions copy; conversions between pointer-like types keep the reference
		if e.refBearing(x.Type()) && e.refBearing(x.X.Type()) {
			f.add(x, b)
		}
	case *ssa.MultiConvert:
		if e.refBearing(x.Type()) && e.refBearing(x.X.Type()) {
			f.add(x, b)
		}
	case *ssa.TypeAssert:
		if e.refBearing(x.Type()) {
			f.add(x, b)
		}
	case *ssa.Extract:
		if e.refBearing(x.Type()) {
			f.add(x, b)
		}
	case *ssa.Range:
		f.add(x, mutRef)
	case *ssa.Next:
		f.add(x, mutRef|mutShort)
	case *ssa.Select:
		f.add(x, mutRef|mutShort)
	case *ssa.BinOp:
	case *ssa.Store:
		if x.Addr == v {
			f.event(x, "write", "store", "store to "+f.describe(x.Addr), nil)
		}
		if x.Val == v {
			f.storeInto(x, x.Addr, mutRef, nil)
		}
	case *ssa.MapUpdate:
		if x.Map == v {
			f.event(x, "write", "map-update", "map update of "+f.describe(x.Map), nil)
		} else {
			f.storeInto(x, x.Map, mutRef, nil)
		}
	case *ssa.Send:
	case *ssa.Return:
		for i, res := range x.Results {
			if res == v {
				f.ret[i] |= mutRef
			}
		}
	case *ssa.MakeClosure:
		f.closure(x, v, false)
	case ssa.CallInstruction:
		f.call(x, v, false)
	default:
		if val, ok := ref.(ssa.Value); ok && e.refBearing(val.Type()) {
			f.add(val, mutRef|mutShort)
		}
	}
}

// useCont: one use of a container value (its own memory; holds references at the tainted paths).
func (f *mutFlow) useCont(v ssa.Value, ref ssa.Instruction) {
	c := f.cont[v]
	e := f.e
	hb, hline := f.slotAt(c.root, c.path)
	holds := hb != 0
	switch x := ref.(type) {
	case *ssa.DebugRef, *ssa.If, *ssa.Jump, *ssa.BinOp:
	case *ssa.FieldAddr:
		name := fmt.Sprint(x.Field)
		if fv := fieldOf(x); fv != nil {
			name = fv.Name()
		}
		f.regCont(x, c.root, c.path+"."+name)
	case *ssa.IndexAddr:
		if x.X == v {
			f.regCont(x, c.root, c.path+"[]")
		}
	case *ssa.Slice:
		if x.X == v {
			f.regCont(x, c.root, c.path)
		}
	case *ssa.ChangeType:
		f.regCont(x, c.root, c.path)
	case *ssa.UnOp:
		if x.Op != token.MUL || !e.refBearing(x.Type()) || !holds {
			return
		}
		if hb&mutRef != 0 {
			f.add(x, mutRef|mutShort)
		} else {
			f.virt(x, mutRef, hline)
		}
	case *ssa.Field, *ssa.Index, *ssa.Lookup, *ssa.Extract, *ssa.TypeAssert, *ssa.MakeInterface, *ssa.ChangeInterface, *ssa.Phi, *ssa.Convert, *ssa.Next, *ssa.Range:
		val := ref.(ssa.Value)
		_, isRange := ref.(*ssa.Range)
		if !holds || (!isRange && !e.refBearing(val.Type())) {
			return
		}
		if isRange {
			f.virt(val, hb&(mutRef|mutCont), f.lineOf(c.root), hline)
			return
		}
		if ex, ok := ref.(*ssa.Extract); ok {
			if _, fromCall := ex.Tuple.(*ssa.TypeAssert); !fromCall {
				// a key / element delivered by an iterator or a comma-ok lookup: read out of the container
				if hb&mutRef != 0 {
					f.add(val, mutRef|mutShort)
				} else {
					f.virt(val, mutRef, hline)
				}
				return
			}
		}
		if _, isNext := ref.(*ssa.Next); isNext {
			f.virt(val, hb&(mutRef|mutCont), f.lineOf(c.root), hline)
			return
		}
		if lk, ok := ref.(*ssa.Lookup); ok && lk.X != v {
			return
		}
		if ix, ok := ref.(*ssa.Index); ok && ix.X != v {
			return
		}
		if _, isPhi := ref.(*ssa.Phi); isPhi || isForwarding(ref) {
			f.virt(val, hb&(mutRef|mutCont), f.lineOf(c.root), hline)
			if f.foreign[c.root] {
				f.foreign[val] = true
			}
			return
		}
		// an element / field read out of the container
		if hb&mutRef != 0 {
			f.add(val, mutRef|mutShort)
		} else {
			f.virt(val, mutRef, hline)
		}
	case *ssa.Store:
		if x.Addr == v {
			if f.foreign[c.root] {
				f.event(x, "cont-write", "store", "store to "+f.describe(x.Addr)+", a container of references to the validated data that "+FuncName(f.fn)+" did not build", f.lineOf(c.root))
			}
			// what is stored is handled from the stored value's side
		}
		if x.Val == v && holds {
			f.storeInto(x, x.Addr, mutCont, f.lineOf(c.root))
		}
	case *ssa.MapUpdate:
		if x.Map == v {
			if f.foreign[c.root] {
				f.event(x, "cont-write", "map-update", "map update of "+f.describe(x.Map), f.lineOf(c.root))
			}
		} else if holds {
			f.storeInto(x, x.Map, mutCont, f.lineOf(c.root))
		}
	case *ssa.Return:
		if !holds {
			return
		}
		for i, res := range x.Results {
			if res == v {
				f.ret[i] |= mutCont
			}
		}
	case *ssa.MakeClosure:
		if holds {
			f.closure(x, v, true)
		}
	case ssa.CallInstruction:
		f.call(x, v, true)
	}
}

func isForwarding(in ssa.Instruction) bool {
	switch in.(type) {
	case *ssa.MakeInterface, *ssa.ChangeInterface, *ssa.TypeAssert, *ssa.Convert, *ssa.Extract:
		return true
	}
	return false
}

// closure: a tracked value is captured by a function literal; what the literal does to it is attributed to
// the place where the literal is made (the earliest moment it can run).
func (f *mutFlow) closure(mc *ssa.MakeClosure, v ssa.Value, isCont bool) {
	fn, ok := mc.Fn.(*ssa.Function)
	if !ok {
		return
	}
	for i, bnd := range mc.Bindings {
		if bnd != v {
			continue
		}
		s := f.e.summary(fn, -(i + 1), f.bits[v]&mutShort != 0 && !isCont, isCont)
		f.applySummary(mc, FuncName(fn), fmt.Sprintf("captured variable %s", fn.FreeVars[i].Name()), s, v, isCont)
	}
}

func (f *mutFlow) applySummary(in ssa.Instruction, callee, param string, s *mutSum, v ssa.Value, isCont bool) {
	if s.undec {
		f.eventDeep(in, "undecided", callee, callee, s.undecWhy.below(callee), nil)
	}
	if s.writes {
		f.eventDeep(in, "write", callee, callee+" writes through its "+param, s.why.below(callee), nil)
	}
	if s.argWrites && isCont {
		// the callee writes the container it was handed: a write of the container, not of the object — and
		// construction (delegated) when the container is this function's own
		if c := f.cont[v]; c != nil && f.foreign[c.root] {
			f.eventDeep(in, "cont-write", callee, callee+" writes its "+param, s.argWhy.below(callee), f.contLine(v))
		}
	}
	if s.contWrites {
		// the callee writes a container of references to the validated data that another function built for it
		f.eventDeep(in, "cont-write-inside", callee, callee+" writes a container of references to the validated data that it did not build", s.contWhy.below(callee), nil)
	}
}

func (f *mutFlow) eventDeep(in ssa.Instruction, kind, what, text string, deep mutWhy, line map[ssa.Value]bool) {
	_, had := f.events[mutEvKey{in, kind}]
	f.event(in, kind, what, text, line)
	if !had {
		ev := f.events[mutEvKey{in, kind}]
		ev.deep = deep
		if len(deep.via) > 1 {
			ev.why = text + " (" + mutWhy{via: deep.via[1:], cause: deep.cause}.String() + ")"
		} else {
			ev.why = text + " (" + deep.cause + ")"
		}
	}
}

// call: tracked value v is an operand of a call.
func (f *mutFlow) call(ci ssa.CallInstruction, v ssa.Value, isCont bool) {
	e := f.e
	c := ci.Common()
	args := CallArgs(ci)
	var pos []int
	for i, a := range args {
		if a == v {
			pos = append(pos, i)
		}
	}
	if len(pos) == 0 {
		return // v is the function value called
	}
	res := ci.Value()
	short := f.bits[v]&mutShort != 0 && !isCont
	holds := true
	var hb uint8 = mutRef
	var hline map[ssa.Value]bool
	if isCont {
		cr := f.cont[v]
		hb, hline = f.slotAt(cr.root, cr.path)
		holds = hb != 0
		if !holds {
			return
		}
	}
	setRes := func(idx int, b uint8) {
		if res == nil || b == 0 {
			return
		}
		var target ssa.Value
		var t types.Type
		if tup, ok := res.Type().(*types.Tuple); ok {
			if idx >= tup.Len() {
				return
			}
			t = tup.At(idx).Type()
			target = CallResult(ci, idx)
		} else if idx == 0 {
			t = res.Type()
			target = res
		}
		if target == nil || !e.refBearing(t) {
			return
		}
		if b&mutRef != 0 {
			f.add(target, mutRef|mutShort)
		} else {
			f.virt(target, mutRef, hline, f.contLine(v))
			f.foreign[target] = true
		}
	}
	// builtins
	if bi, ok := c.Value.(*ssa.Builtin); ok {
		switch bi.Name() {
		case "append":
			if pos[0] == 0 {
				if isCont {
					f.virt(res, hb, f.contLine(v), hline)
					if f.foreign[f.cont[v].root] {
						f.foreign[res] = true
					}
				} else {
					f.add(res, mutRef|f.bits[v]&mutShort)
					if short {
						f.event(ci, "write", "append", "append to "+f.describe(v)+", a view that ends before the validated elements do: the elements behind it are overwritten", nil)
					}
				}
			}
			if pos[len(pos)-1] == 1 && res != nil && elemOf(res.Type()) != nil && e.refBearing(elemOf(res.Type())) {
				// the appended elements are references into the object: the result holds them
				if !f.isRef(args[0]) {
					if cr := f.cont[args[0]]; cr != nil {
						f.virt(res, mutRef, f.lineOf(cr.root), hline)
						if f.foreign[cr.root] {
							f.foreign[res] = true
						}
					} else {
						f.virt(res, mutRef, hline)
					}
				}
			}
		case "copy":
			if pos[0] == 0 {
				if isCont {
					if f.foreign[f.cont[v].root] {
						f.event(ci, "cont-write", "copy", "copy into "+f.describe(v), f.contLine(v))
					}
				} else {
					f.event(ci, "write", "copy", "copy into "+f.describe(v), nil)
				}
			}
			if pos[len(pos)-1] == 1 && elemOf(args[0].Type()) != nil && e.refBearing(elemOf(args[0].Type())) {
				if isCont {
					f.storeIntoElems(ci, args[0], hb, hline)
				} else {
					f.storeIntoElems(ci, args[0], mutRef, nil)
				}
			}
		case "delete", "clear":
			if pos[0] == 0 {
				if isCont {
					if f.foreign[f.cont[v].root] {
						f.event(ci, "cont-write", bi.Name(), bi.Name()+" of "+f.describe(v), f.contLine(v))
					}
				} else {
					f.event(ci, "write", bi.Name(), bi.Name()+" of "+f.describe(v), nil)
				}
			}
		}
		return
	}
	paramName := func(fn *ssa.Function, i int) string {
		if i < len(fn.Params) {
			return fmt.Sprintf("parameter %s", fn.Params[i].Name())
		}
		return fmt.Sprintf("parameter %d", i)
	}
	// the callees
	var callees []*ssa.Function
	external := false // some callee is not a module function with a body
	name := CalleeOf(ci)
	switch {
	case c.IsInvoke():
		impls := e.impls(c)
		callees = impls
		iface := c.Value.Type()
		inModule := false
		if n, ok := iface.(*types.Named); ok && n.Obj().Pkg() != nil {
			p := n.Obj().Pkg().Path()
			inModule = p == ModPath || strings.HasPrefix(p, ModPath+"/")
		}
		if !inModule {
			external = true
		} else if len(impls) == 0 {
			f.event(ci, "undecided", name, "no module implementation of "+name+" found", nil)
		}
	case c.StaticCallee() != nil:
		g := c.StaticCallee()
		if isModuleFn(g) {
			if len(g.Blocks) == 0 {
				f.event(ci, "undecided", name, name+" has no body to analyse", nil)
			} else {
				callees = []*ssa.Function{g}
			}
		} else {
			external = true
		}
	default:
		callees = e.funcValues(c.Signature())
		if len(callees) == 0 {
			f.event(ci, "undecided", name, "call through a function value ("+name+") that no module function whose address is taken matches", nil)
		}
	}
	for _, g := range callees {
		for _, i := range pos {
			if i >= len(g.Params) {
				continue
			}
			s := e.summary(g, i, short, isCont)
			f.applySummary(ci, FuncName(g), paramName(g, i), s, v, isCont)
			for idx, rb := range s.ret {
				if isCont && rb&mutRef == 0 && rb&mutCont != 0 {
					// (a part of) the container it was handed, or one holding what that one holds
					f.virt2(ci, idx, v, hb, hline)
					continue
				}
				setRes(idx, rb)
			}
		}
	}
	if external {
		g := c.StaticCallee()
		for _, i := range pos {
			w, app := libEffect(g, c, i, args)
			switch {
			case w && isCont:
				if f.foreign[f.cont[v].root] {
					f.event(ci, "cont-write", name, name+" writes its argument "+f.describe(v), f.contLine(v))
				}
			case w:
				f.event(ci, "write", name, name+" writes its argument "+f.describe(v), nil)
			case app && short && !isCont:
				f.event(ci, "write", name, name+" appends to "+f.describe(v)+", a view that ends before the validated elements do", nil)
			}
		}
		// what a library function returns may share memory with what it was handed
		shares := false
		for _, i := range pos {
			if libShares(g, i) {
				shares = true
			}
		}
		if res != nil && !shares {
			// a fresh result
		} else if res != nil && !libFresh(g) {
			n := 1
			if tup, ok := res.Type().(*types.Tuple); ok {
				n = tup.Len()
			}
			for idx := 0; idx < n; idx++ {
				if isCont {
					f.virt2(ci, idx, v, hb, hline)
				} else {
					setRes(idx, mutRef)
				}
			}
		} else if res != nil && libFresh(g) && elemOf(res.Type()) != nil && e.refBearing(elemOf(res.Type())) {
			f.virt(res, hb, hline)
		}
	}
}

// virt2: result idx of the call is a container sharing memory with container v.
func (f *mutFlow) virt2(ci ssa.CallInstruction, idx int, v ssa.Value, hb uint8, hline map[ssa.Value]bool) {
	res := ci.Value()
	if res == nil {
		return
	}
	var target ssa.Value
	var t types.Type
	if tup, ok := res.Type().(*types.Tuple); ok {
		if idx >= tup.Len() {
			return
		}
		t = tup.At(idx).Type()
		target = CallResult(ci, idx)
	} else if idx == 0 {
		t = res.Type()
		target = res
	}
	if target == nil || !f.e.refBearing(t) {
		return
	}
	f.virt(target, hb, f.contLine(v), hline)
	f.foreign[target] = true
}

// storeIntoElems: references are copied into the elements of dst.
func (f *mutFlow) storeIntoElems(in ssa.Instruction, dst ssa.Value, b uint8, line map[ssa.Value]bool) {
	root, path := f.addrBase(dst)
	if f.isRef(root) {
		return
	}
	if c := f.cont[root]; c != nil {
		f.taint(c.root, c.path+path+"[]", b&(mutRef|mutCont), line)
		return
	}
	if isFreshRoot(root) {
		f.regCont(root, root, "")
		f.taint(root, path+"[]", b&(mutRef|mutCont), line)
	}
}

func (f *mutFlow) dump(title string) {
	fmt.Fprintf(os.Stderr, "== flow %s\n", title)
	for _, v := range f.order {
		kind := ""
		if f.isRef(v) {
			kind = "ref"
			if f.bits[v]&mutShort != 0 {
				kind += "/short"
			}
		} else if c := f.cont[v]; c != nil {
			kind = fmt.Sprintf("cont root=%s path=%q holds=%v foreign=%v", c.root.Name(), c.path, f.anyTaint(c.root), f.foreign[c.root])
		}
		pos := ""
		if in, ok := v.(ssa.Instruction); ok {
			pos = f.e.r.Where(in)
		}
		fmt.Fprintf(os.Stderr, "   %-6s %-40s %s   [%s] %s\n", v.Name(), kind, f.describe(v), fmt.Sprintf("%T", v), pos)
	}
	for _, k := range f.evOrder {
		ev := f.events[k]
		fmt.Fprintf(os.Stderr, "   EVENT %s %s: %s at %s\n", ev.kind, ev.what, ev.why, ev.where)
	}
	fmt.Fprintf(os.Stderr, "   ret=%v\n", f.ret)
}

// ---- summaries ------------------------------------------------------------------------------------------

func (e *mutEngine) summary(fn *ssa.Function, idx int, short, cont bool) *mutSum {
	k := mutKey{fn, idx, short && !cont, cont}
	if s, ok := e.sum[k]; ok && (s.round == e.round || e.visiting[k]) {
		return s
	}
	if e.visiting[k] {
		s := &mutSum{ret: map[int]uint8{}}
		e.sum[k] = s
		return s
	}
	var seed ssa.Value
	if idx >= 0 {
		if idx >= len(fn.Params) {
			return &mutSum{ret: map[int]uint8{}}
		}
		seed = fn.Params[idx]
	} else {
		if -(idx + 1) >= len(fn.FreeVars) {
			return &mutSum{ret: map[int]uint8{}}
		}
		seed = fn.FreeVars[-(idx + 1)]
	}
	e.visiting[k] = true
	old := e.sum[k]
	b := mutRef
	if short {
		b |= mutShort
	}
	fl := e.newFlow(fn)
	if cont {
		// a container somebody else built: its own memory is not the object's, what is loaded from it is
		fl.virt(seed, mutRef)
		fl.foreign[seed] = true
		fl.run(nil)
	} else {
		fl.run(map[ssa.Value]uint8{seed: b})
	}
	s := &mutSum{ret: fl.ret, round: e.round}
	for _, k := range fl.evOrder {
		ev := fl.events[k]
		w := ev.deep
		if w.cause == "" {
			w = mutWhy{cause: ev.why + " at " + ev.where}
		}
		switch ev.kind {
		case "write":
			if !s.writes {
				s.writes, s.why = true, w
			}
		case "cont-write", "cont-write-inside":
			if cont && ev.kind == "cont-write" && ev.line[seed] {
				if !s.argWrites {
					s.argWrites, s.argWhy = true, w
				}
			} else if !s.contWrites {
				s.contWrites, s.contWhy = true, w
			}
		case "undecided":
			if !s.undec {
				s.undec, s.undecWhy = true, w
			}
		}
	}
	if dbg := os.Getenv("CTVERIF_MUTDEBUG"); dbg != "" && glob(dbg, FuncName(fn)) {
		fl.dump(fmt.Sprintf("%s #%d short=%v cont=%v round %d", FuncName(fn), idx, short, cont, e.round))
	}
	delete(e.visiting, k)
	if !s.same(old) {
		e.changed = true
	}
	e.sum[k] = s
	e.Summaries++
	return s
}

func shorten(s string) string {
	if len(s) > 420 {
		return s[:420] + "…"
	}
	return s
}

// solve runs f (which queries summaries) until the summaries it rests on no longer change.
func (e *mutEngine) solve(f func()) bool {
	for n := 0; n < 12; n++ {
		e.round++
		e.changed = false
		f()
		if !e.changed {
			return true
		}
	}
	return false
}

// impls: module implementations of the invoked interface method.
func (e *mutEngine) impls(c *ssa.CallCommon) []*ssa.Function {
	key := TypeName(c.Value.Type()) + "." + c.Method.Name()
	if out, ok := e.implCache[key]; ok {
		return out
	}
	var out []*ssa.Function
	iface, ok := c.Value.Type().Underlying().(*types.Interface)
	if ok {
		for _, fn := range e.r.P.ModFuncs {
			recv := fn.Signature.Recv()
			if recv == nil || fn.Name() != c.Method.Name() || len(fn.Blocks) == 0 {
				continue
			}
			if types.Implements(recv.Type(), iface) {
				out = append(out, fn)
			}
		}
	}
	e.implCache[key] = out
	return out
}

// funcValues: the module functions (and function literals) of the given signature whose address is taken —
// the functions a call through a function value of that type can reach.
func (e *mutEngine) funcValues(sig *types.Signature) []*ssa.Function {
	if !e.scanned {
		e.scanned = true
		seen := map[*ssa.Function]bool{}
		var all []*ssa.Function
		for fn := range e.r.P.AllFuncs {
			if isModuleFn(fn) {
				all = append(all, fn)
			}
		}
		for _, fn := range all {
			for _, b := range fn.Blocks {
				for _, in := range b.Instrs {
					var callee ssa.Value
					if ci, ok := in.(ssa.CallInstruction); ok && !ci.Common().IsInvoke() {
						callee = ci.Common().Value
					}
					for _, op := range in.Operands(nil) {
						if *op == nil || *op == callee {
							continue
						}
						var g *ssa.Function
						switch y := (*op).(type) {
						case *ssa.Function:
							g = y
						case *ssa.MakeClosure:
							g, _ = y.Fn.(*ssa.Function)
						}
						if g != nil && !seen[g] && len(g.Blocks) > 0 && isModuleFn(g) {
							seen[g] = true
							e.addrTaken = append(e.addrTaken, g)
						}
					}
					if mc, ok := in.(*ssa.MakeClosure); ok {
						if g, _ := mc.Fn.(*ssa.Function); g != nil && !seen[g] && len(g.Blocks) > 0 {
							seen[g] = true
							e.addrTaken = append(e.addrTaken, g)
						}
					}
				}
			}
		}
		sort.Slice(e.addrTaken, func(i, j int) bool { return FuncName(e.addrTaken[i]) < FuncName(e.addrTaken[j]) })
	}
	var out []*ssa.Function
	for _, g := range e.addrTaken {
		gs := g.Signature
		if gs.Recv() != nil {
			continue // method values are bound through wrappers (Synthetic), which carry their own signature
		}
		if types.Identical(types.NewSignatureType(nil, nil, nil, gs.Params(), gs.Results(), gs.Variadic()), types.NewSignatureType(nil, nil, nil, sig.Params(), sig.Results(), sig.Variadic())) {
			out = append(out, g)
		}
	}
	return out
}

// ---- library functions ----------------------------------------------------------------------------------

// libEffect: what a function outside the module does to its argument i: writes it, or appends to it.  Library
// functions are assumed to only read their arguments unless they are listed here (by what they document).
func libEffect(g *ssa.Function, c *ssa.CallCommon, i int, args []ssa.Value) (writes, appendLike bool) {
	pkg, recv, name := "", "", ""
	if g != nil {
		if pk := fnPkg(g); pk != nil {
			pkg = pk.Path()
		}
		name = g.Name()
		if o := g.Origin(); o != nil {
			name = o.Name()
		}
		if r := g.Signature.Recv(); r != nil {
			recv = types.TypeString(r.Type(), func(p *types.Package) string { return p.Path() })
		}
	} else if c.IsInvoke() {
		name = c.Method.Name()
		recv = "iface"
		if n, ok := c.Value.Type().(*types.Named); ok && n.Obj().Pkg() != nil {
			pkg = n.Obj().Pkg().Path()
		}
	} else {
		return false, false
	}
	isBytes := func(j int) bool {
		if j >= len(args) {
			return false
		}
		_, ok := args[j].Type().Underlying().(*types.Slice)
		return ok
	}
	firstSlice := -1
	start := 0
	if recv != "" {
		start = 1
	}
	for j := start; j < len(args); j++ {
		if isBytes(j) {
			firstSlice = j
			break
		}
	}
	has := func(prefixes ...string) bool {
		for _, p := range prefixes {
			if strings.HasPrefix(name, p) {
				return true
			}
		}
		return false
	}
	switch {
	case pkg == "sort" && recv == "":
		return i == 0, false // Slice, SliceStable, Sort, Stable, Strings, Ints, Float64s (Search*, IsSorted: read, but take no tracked slice in practice)
	case pkg == "slices" && has("Sort", "Reverse", "Delete", "Insert", "Compact", "Replace", "Grow", "Clip"):
		if has("Grow", "Clip") {
			return false, false
		}
		return i == 0, false
	case pkg == "slices" && has("Clone", "Concat"):
		return false, false
	case (pkg == "crypto/rand" || pkg == "math/rand" || pkg == "math/rand/v2") && name == "Read":
		return i == firstSlice, false
	case pkg == "io" && has("ReadFull", "ReadAtLeast"):
		return i == 1, false
	case pkg == "io" && name == "CopyBuffer":
		return i == 2, false
	case pkg == "encoding/binary" && name == "Read":
		return i == 2, false
	case pkg == "encoding/binary" && has("Put"):
		return i == firstSlice, false
	case pkg == "encoding/binary" && has("Append"):
		return false, i == firstSlice
	case (pkg == "encoding/hex" || pkg == "encoding/base64" || pkg == "encoding/base32" || pkg == "encoding/ascii85") && (name == "Decode" || name == "Encode"):
		return i == firstSlice, false
	case has("AppendEncode", "AppendDecode", "AppendQuote", "AppendInt", "AppendUint", "AppendFloat", "AppendBool", "AppendFormat", "AppendRune", "Appendf", "Appendln", "Append"):
		return false, i == firstSlice
	case name == "Unmarshal" || name == "UnmarshalWithParams" || name == "UnmarshalStrict" || name == "NewDecoder" && false:
		return i == len(args)-1 || (i == 1 && len(args) >= 2), false // the target (data, target[, params])
	case (pkg == "encoding/json" || pkg == "encoding/gob" || pkg == "encoding/xml") && name == "Decode":
		return i == 1, false
	case pkg == "fmt" && has("Sscan", "Fscan", "Scan"):
		return i >= 1, false
	case pkg == "sync/atomic":
		return i == 0 && has("Store", "Add", "Swap", "CompareAndSwap", "And", "Or"), false
	case pkg == "reflect" && name == "Copy":
		return i == 0, false
	case pkg == "reflect" && recv != "" && has("Set"):
		return i == 0, false
	case pkg == "math/big" && recv != "" && i == 0:
		// z.Op(x, y) writes z; accessors (Cmp, Sign, Bytes, String, Int64, BitLen, …) only read
		if g != nil && g.Signature.Results().Len() == 1 && types.Identical(g.Signature.Results().At(0).Type(), g.Signature.Recv().Type()) && g.Signature.Params().Len() >= 1 {
			return true, false
		}
		return has("Set", "UnmarshalText", "UnmarshalJSON", "GobDecode", "Scan", "FillBytes") && name != "FillBytes", false
	case pkg == "math/big" && name == "FillBytes":
		return i == 1, false
	case pkg == "crypto/subtle" && name == "ConstantTimeCopy":
		return i == 1, false
	case pkg == "crypto/subtle" && name == "XORBytes":
		return i == 0, false
	case name == "XORKeyStream" || (pkg == "crypto/cipher" && (name == "Encrypt" || name == "Decrypt" || name == "CryptBlocks")):
		return i == firstSlice, false
	case name == "Seal" || name == "Open":
		return false, i == firstSlice
	case name == "Sum" && recv != "" && firstSlice >= 0:
		return false, i == firstSlice // hash.Hash.Sum appends to its argument
	case recv != "" && (name == "Read" || name == "ReadAt" || name == "ReadFull") && firstSlice >= 0:
		return i == firstSlice, false
	case pkg == "google.golang.org/protobuf/proto" && (name == "Merge" || name == "Reset"):
		return i == 0, false
	case pkg == "bytes" && recv != "" && strings.Contains(recv, "Buffer") && i == 0:
		return false, false // a buffer's own memory; buffers are not built over validated data here
	case pkg == "unsafe":
		return false, false
	}
	return false, false
}

// libShares: the result of library function g may share memory with its argument i.
func libShares(g *ssa.Function, i int) bool {
	if g == nil {
		return true
	}
	if pk := fnPkg(g); pk != nil && pk.Path() == "math/big" {
		// z.Op(x, y) returns z; Bytes, String, Text, … return fresh memory
		recv := g.Signature.Recv()
		res := g.Signature.Results()
		return recv != nil && i == 0 && res.Len() >= 1 && types.Identical(res.At(0).Type(), recv.Type())
	}
	if pk := fnPkg(g); pk != nil && pk.Path() == "reflect" {
		// a reflect.Value refers to the memory of what it was made from; types, kinds, lengths and the values
		// reflect creates (New, Zero, MakeSlice, …) do not
		res := g.Signature.Results()
		if res.Len() == 0 {
			return false
		}
		if n, ok := res.At(0).Type().(*types.Named); !ok || n.Obj().Name() != "Value" {
			if _, isIface := res.At(0).Type().Underlying().(*types.Interface); !isIface || (ok && n.Obj().Name() == "Type") {
				if _, isSlice := res.At(0).Type().Underlying().(*types.Slice); !isSlice {
					return false
				}
			}
		}
		switch g.Name() {
		case "New", "NewAt", "Zero", "MakeSlice", "MakeMap", "MakeMapWithSize", "MakeChan", "MakeFunc", "TypeOf", "PtrTo", "PointerTo", "SliceOf", "MapOf", "ArrayOf":
			return false
		}
	}
	return true
}

// libFresh: library functions whose result shares no memory with the argument (a copy).
func libFresh(g *ssa.Function) bool {
	if g == nil {
		return false
	}
	pk := fnPkg(g)
	if pk == nil {
		return false
	}
	name := g.Name()
	if o := g.Origin(); o != nil {
		name = o.Name()
	}
	switch pk.Path() {
	case "slices", "bytes", "maps":
		return name == "Clone" || name == "Concat" || name == "Repeat" || name == "Join"
	}
	return false
}

// ---- the rule ---------------------------------------------------------------------------------------------

// mayPrecede: instruction a can execute before instruction b in one activation of their function.
func mayPrecede(a, b ssa.Instruction) bool {
	ba, bb := a.Block(), b.Block()
	if ba == nil || bb == nil {
		return true
	}
	idx := func(in ssa.Instruction) int {
		for i, x := range in.Block().Instrs {
			if x == in {
				return i
			}
		}
		return -1
	}
	if ba == bb && idx(a) < idx(b) {
		return true
	}
	seen := map[*ssa.BasicBlock]bool{}
	work := append([]*ssa.BasicBlock{}, ba.Succs...)
	for len(work) > 0 {
		x := work[len(work)-1]
		work = work[:len(work)-1]
		if seen[x] {
			continue
		}
		seen[x] = true
		if x == bb {
			return true
		}
		work = append(work, x.Succs...)
	}
	return false
}

// backSlice collects the calls (and address-taking calls on local objects) from which value v is computed.
func backSlice(fn *ssa.Function, start []ssa.Value) map[ssa.CallInstruction]bool {
	calls := map[ssa.CallInstruction]bool{}
	seen := map[ssa.Value]bool{}
	var visit func(v ssa.Value)
	// every value stored in, and every call handed (a part of) the local object root
	var object func(root ssa.Value)
	object = func(root ssa.Value) {
		var walk func(a ssa.Value)
		walk = func(a ssa.Value) {
			refs := a.Referrers()
			if refs == nil {
				return
			}
			for _, ref := range *refs {
				switch x := ref.(type) {
				case *ssa.FieldAddr:
					walk(x)
				case *ssa.IndexAddr:
					if x.X == a {
						walk(x)
					}
				case *ssa.Slice:
					if x.X == a {
						walk(x)
					}
				case *ssa.Store:
					if x.Addr == a {
						visit(x.Val)
					}
				case *ssa.MapUpdate:
					if x.Map == a {
						visit(x.Value)
					}
				case ssa.CallInstruction:
					if !calls[x] {
						calls[x] = true
						for _, arg := range CallArgs(x) {
							visit(arg)
						}
					}
				}
			}
		}
		walk(root)
	}
	visit = func(v ssa.Value) {
		if v == nil || seen[v] {
			return
		}
		seen[v] = true
		switch x := v.(type) {
		case *ssa.Call:
			if !calls[x] {
				calls[x] = true
			}
			for _, arg := range CallArgs(x) {
				visit(arg)
			}
			if _, ok := x.Call.Value.(*ssa.Builtin); !ok && x.Call.StaticCallee() == nil && !x.Call.IsInvoke() {
				visit(x.Call.Value)
			}
		case *ssa.Alloc, *ssa.MakeSlice, *ssa.MakeMap:
			object(x)
		case *ssa.Parameter, *ssa.Const, *ssa.Global, *ssa.FreeVar, *ssa.Function, *ssa.Builtin:
		default:
			if in, ok := v.(ssa.Instruction); ok {
				for _, op := range in.Operands(nil) {
					if *op != nil {
						visit(*op)
					}
				}
			}
		}
	}
	for _, v := range start {
		visit(v)
	}
	return calls
}

// mutTarget describes one validated value of a function and the calls that must see it unwritten.
type mutTarget struct {
	key     string                   // construct name in keys
	what    string                   // text
	seeds   map[ssa.Value]uint8      // where the value comes into being
	readers []ssa.CallInstruction    // candidate readers: those that receive the value count
	also    []ssa.CallInstruction    // calls that read the same memory in another form (count as readers unconditionally)
	birth   map[ssa.Instruction]bool // instructions that produce the value (writes by them are its construction)
	floor   int
	flat    bool   // all obligations of the target under the one key
	until   string // what the readers do with the value ("the entry has been derived from it")
}

// mutUnwritten decides the obligations of one target in fn; it returns the readers that receive the value.
func (e *mutEngine) mutUnwritten(fn *ssa.Function, t mutTarget) []ssa.CallInstruction {
	r := e.r
	var fl *mutFlow
	settled := e.solve(func() {
		fl = e.newFlow(fn)
		fl.run(t.seeds)
	})
	if !settled {
		r.Fail(t.key+".unwritten", r.FnPos(fn), "undecided: the parameter-mutation summaries below "+FuncName(fn)+" do not settle")
		return nil
	}
	if dbg := os.Getenv("CTVERIF_MUTDEBUG"); dbg != "" && glob(dbg, FuncName(fn)) {
		fl.dump(FuncName(fn) + " target " + t.key)
	}
	// the readers that actually receive the value
	type reader struct {
		ci   ssa.CallInstruction
		name string
		args []ssa.Value
	}
	var readers []reader
	var out []ssa.CallInstruction
	isReader := map[ssa.Instruction]bool{}
	for _, ci := range t.readers {
		rd := reader{ci: ci, name: CalleeOf(ci)}
		for _, a := range CallArgs(ci) {
			if fl.isRef(a) || (fl.cont[a] != nil && fl.anyTaint(fl.cont[a].root)) {
				rd.args = append(rd.args, a)
			}
		}
		if len(rd.args) > 0 && !isReader[ci] {
			readers = append(readers, rd)
			out = append(out, ci)
			isReader[ci] = true
		}
	}
	n := len(readers)
	for _, ci := range t.also {
		if !isReader[ci] {
			readers = append(readers, reader{ci: ci, name: CalleeOf(ci)})
			isReader[ci] = true
		}
	}
	sort.SliceStable(readers, func(i, j int) bool { return readers[i].name < readers[j].name })
	if t.flat {
		if n < t.floor {
			r.Fail(t.key, r.FnPos(fn), fmt.Sprintf("undecided: %d call(s) found that read %s (at least %d expected)", n, t.what, t.floor))
		}
	} else {
		r.Floor(t.key+": calls that read "+t.what+" for the entry", n, t.floor)
	}
	if n == 0 {
		return nil
	}
	until := t.until
	if until == "" {
		until = "the entry has been derived from it"
	}
	key := func(sfx string) string {
		if t.flat {
			return t.key
		}
		return t.key + sfx
	}
	// (a) a reader, and whatever it calls, only reads the value
	for _, rd := range readers {
		var bad *mutEvent
		for _, kind := range []string{"write", "cont-write", "cont-write-inside", "undecided"} {
			if ev := fl.events[mutEvKey{rd.ci, kind}]; ev != nil && bad == nil {
				bad = ev
			}
		}
		detail := rd.name + " and the functions it calls only read " + t.what
		if bad != nil {
			detail = rd.name + ", which reads " + t.what + " for the entry, may also write it: " + bad.why
			if bad.kind == "undecided" {
				detail = "undecided: " + bad.why
			}
		}
		if t.flat && bad == nil {
			continue
		}
		r.Check(key(".read-only@"+rd.name), bad == nil, r.Where(rd.ci), detail)
	}
	// (b) nothing that may execute before a reader writes the value
	nbad, late := 0, 0
	for _, k := range fl.evOrder {
		ev := fl.events[k]
		if isReader[ev.in] || t.birth[ev.in] || ev.kind == "cont-write-inside" {
			continue
		}
		if atExit(ev.in) {
			late++ // deferred: runs when the function returns, after every call of its body
			continue
		}
		var after []string
		for _, rd := range readers {
			if !mayPrecede(ev.in, rd.ci) {
				continue
			}
			if ev.kind == "cont-write" {
				// a write of a container matters where that container is afterwards read for the entry
				hit := false
				for _, a := range rd.args {
					for x := range fl.contLine(a) {
						if ev.line[x] {
							hit = true
						}
					}
				}
				if !hit {
					continue
				}
			}
			after = append(after, rd.name+" at "+r.Where(rd.ci))
		}
		if len(after) == 0 {
			late++
			continue
		}
		nbad++
		if ev.kind == "undecided" {
			r.Fail(key(".unwritten@"+ev.what), ev.where, "undecided: "+ev.why+"; "+strings.Join(after, ", ")+" read "+t.what+" afterwards")
		} else {
			r.Fail(key(".unwritten@"+ev.what), ev.where, t.what+" is written before "+until+": "+ev.why+"; read afterwards by "+strings.Join(after, ", "))
		}
	}
	if nbad == 0 {
		r.Pass(key(".unwritten"), r.FnPos(fn), fmt.Sprintf("nothing that can execute before the %d call(s) reading it writes %s or memory it shares (%d values followed in %s, %d write(s) after the last read)", len(readers), t.what, len(fl.order), FuncName(fn), late))
	}
	return out
}

// atExit: the instruction takes effect when the function returns — a defer statement, or a function literal
// that is only ever deferred.
func atExit(in ssa.Instruction) bool {
	switch x := in.(type) {
	case *ssa.Defer:
		return true
	case *ssa.MakeClosure:
		refs := x.Referrers()
		if refs == nil || len(*refs) == 0 {
			return false
		}
		for _, ref := range *refs {
			if _, ok := ref.(*ssa.DebugRef); ok {
				continue
			}
			d, ok := ref.(*ssa.Defer)
			if !ok || d.Call.Value != ssa.Value(x) {
				return false
			}
		}
		return true
	}
	return false
}

// c01ReturnedLeafUnwritten (C01.R1): between the decode of the leaf the backend returned and buildV1SCT nothing
// writes that leaf, and buildV1SCT only reads it.
func c01ReturnedLeafUnwritten(r *Run, fn *ssa.Function, leaf *ssa.Alloc, build ssa.CallInstruction, decodes []ssa.CallInstruction) {
	e := newMutEngine(r)
	birth := map[ssa.Instruction]bool{}
	for _, d := range decodes {
		birth[d] = true
	}
	e.mutUnwritten(fn, mutTarget{key: "addChainInternal:returned-leaf-untouched", what: "the leaf decoded from the backend's reply", flat: true, until: "the SCT has been built over it",
		seeds: map[ssa.Value]uint8{leaf: mutRef}, readers: []ssa.CallInstruction{build}, floor: 1, birth: birth})
}

// c01InputsUnwritten: the generalisation of "memory-resident parameters are never written in the callee"
// (inputsReadOnly) to what the callee hands on: no parameter of fn that refers to memory is written through,
// by fn or by a function it calls.
func c01InputsUnwritten(r *Run, fn *ssa.Function, key string) {
	e := newMutEngine(r)
	var bad []string
	n := 0
	ok := e.solve(func() {
		bad, n = nil, 0
		for i, p := range fn.Params {
			if !e.refBearing(p.Type()) {
				continue
			}
			n++
			s := e.summary(fn, i, false, false)
			switch {
			case s.writes:
				bad = append(bad, "parameter "+p.Name()+" is written through: "+s.why.String())
			case s.undec:
				bad = append(bad, "undecided for parameter "+p.Name()+": "+s.undecWhy.String())
			}
		}
	})
	if !ok {
		bad = append(bad, "undecided: the parameter-mutation summaries below "+FuncName(fn)+" do not settle")
	}
	r.Check(key, len(bad) == 0, r.FnPos(fn), fmt.Sprintf("neither %s nor a function it calls writes through one of its %d memory-referring parameters %s", FuncName(fn), n, strings.Join(bad, "; ")))
}

// leafSlice: the calls of fn from which the Leaf of the request handed to QueueLeaf is computed (nil + reason
// when it cannot be told).
func leafSlice(fn *ssa.Function) ([]ssa.CallInstruction, string) {
	ql := CallsTo(fn, "iface(trillian.TrillianLogClient).QueueLeaf")
	if len(ql) != 1 {
		return nil, fmt.Sprintf("%d QueueLeaf calls in %s (1 expected)", len(ql), FuncName(fn))
	}
	var leafVals []ssa.Value
	if qa := CallArgs(ql[0]); len(qa) >= 3 {
		if a := baseAlloc(qa[2]); a != nil {
			for _, ref := range *a.Referrers() {
				switch y := ref.(type) {
				case *ssa.FieldAddr:
					if fv := fieldOf(y); fv != nil && fv.Name() == "Leaf" {
						for _, r2 := range *y.Referrers() {
							if st, ok := r2.(*ssa.Store); ok && st.Addr == ssa.Value(y) {
								leafVals = append(leafVals, st.Val)
							}
						}
					}
				case *ssa.Store:
					// the request assigned as a whole: everything it is built from
					if y.Addr == ssa.Value(a) {
						leafVals = append(leafVals, y.Val)
					}
				}
			}
		} else {
			// a request built elsewhere: everything the argument is computed from
			leafVals = append(leafVals, qa[2])
		}
	}
	if len(leafVals) == 0 {
		return nil, "the Leaf of the request handed to QueueLeaf is not found"
	}
	slice := backSlice(fn, leafVals)
	var out []ssa.CallInstruction
	eachInstr(fn, func(in ssa.Instruction) {
		if ci, ok := in.(ssa.CallInstruction); ok && slice[ci] {
			out = append(out, ci)
		}
	})
	return out, ""
}

// c01ValidatedUnwritten: C01.R12 on addChainInternal.
func c01ValidatedUnwritten(r *Run) {
	r.Rule("C01.R12")
	if os.Getenv("CTVERIF_MUTDEBUG") != "" {
		t0 := time.Now()
		defer func() {
			fmt.Fprintf(os.Stderr, "C01.R12 took %v\n", time.Since(t0))
			for _, o := range r.Obls {
				if o.Rule == "C01.R12" {
					fmt.Fprintf(os.Stderr, "OBL ok=%v %s @%s: %s\n", o.OK, o.Key, o.Where, o.Detail)
				}
			}
		}()
	}
	r.Assume("library functions (outside the module) only read the memory of their arguments, except those that document a write (copy, sort.*, slices.Sort/Reverse/Delete/Insert/Compact/Replace, io.ReadFull, Read methods, Decode/Unmarshal targets, encoding/binary Put*, math/big z.Op(x,y), sync/atomic, reflect.Copy/Value.Set*); appends by Append*/Sum/Seal/Open count where the slice is a shortened view")
	r.Assume("a reference to validated data retained in memory that outlives the call (a field of a parameter, a global, a channel) or reached through reflect/unsafe is not followed; calls through function values reach the module functions of that signature whose address is taken")
	fn := r.Fn("trillian/ctfe.addChainInternal")
	if fn == nil {
		return
	}
	e := newMutEngine(r)
	k := "addChainInternal:"
	sliceCalls, why := leafSlice(fn)
	if why != "" {
		r.Fail(k+"validated-chain.unwritten", r.FnPos(fn), "undecided: "+why)
		return
	}
	// 1. the chain verifyAddChain returned
	var chainReaders []ssa.CallInstruction
	vc := CallsTo(fn, "trillian/ctfe.verifyAddChain")
	if len(vc) != 1 || CallResult(vc[0], 0) == nil {
		r.Fail(k+"validated-chain.unwritten", r.FnPos(fn), fmt.Sprintf("undecided: %d verifyAddChain calls with a used result in %s (1 expected)", len(vc), FuncName(fn)))
	} else {
		var rd []ssa.CallInstruction
		for _, ci := range sliceCalls {
			if ci != vc[0] {
				rd = append(rd, ci)
			}
		}
		chainReaders = e.mutUnwritten(fn, mutTarget{key: k + "validated-chain", what: "the chain verifyAddChain validated",
			seeds: map[ssa.Value]uint8{CallResult(vc[0], 0): mutRef}, readers: rd, floor: 1, birth: map[ssa.Instruction]bool{vc[0]: true}})
	}
	// 2. the request chain it was parsed from (the certificates' byte strings are parsed out of these bytes, so
	// the calls that read the validated chain read this memory too)
	pb := CallsTo(fn, "trillian/ctfe.ParseBodyAsJSONChain")
	if len(pb) != 1 || CallResult(pb[0], 0) == nil {
		r.Fail(k+"request-chain.unwritten", r.FnPos(fn), fmt.Sprintf("undecided: %d ParseBodyAsJSONChain calls with a used result in %s (1 expected)", len(pb), FuncName(fn)))
	} else {
		e.mutUnwritten(fn, mutTarget{key: k + "request-chain", what: "the submitted chain (the bytes the validated certificates were parsed from)",
			seeds: map[ssa.Value]uint8{CallResult(pb[0], 0): mutRef}, readers: sliceCalls, also: chainReaders, floor: 1, birth: map[ssa.Instruction]bool{pb[0]: true}})
	}
}
