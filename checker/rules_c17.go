package main

import (
	"fmt"
	"go/types"
	"strings"

	"golang.org/x/tools/go/ssa"
)

func init() {
	register("C17", "Decides structural necessary conditions of 'multi-log submission returns a policy-satisfying SCT set or says it did not': "+
		"(L1–L6) every access to the state shared by concurrent submissions, weight changes and log-list / root refreshes is made under its mutex (safeSubmissionState, Distributor, Proxy, LogListManager, LogGroupInfo, logListRefresherImpl); "+
		"(L1–L6 published-object:, L7) publication discipline: a guarded field that holds a reference protects the OBJECT behind it — for every such field either no reference loaded from it outlives its critical section (not used after the unlock, not returned, stored elsewhere, sent, captured by a goroutine or a lasting function value) or no function of the module writes into the published object (stores, map stores / deletes, append / copy into it, calls of functions that write through that argument, writes through the local it was published from after the publishing section); a field with both an escaping reference and an in-place mutation fails, and so does an in-place mutation made under the read lock only; "+
		"(R1) at most one request per log: SubmitToLog is called only from the per-log goroutine of a group race and only after request() returned true; request() refuses a log that already has a result entry and records the entry before it can return true; result entries are never removed or reset to nil; "+
		"(R2) distinct logs: the returned set is built only by ranging over the per-log result map and keeps entries that carry an SCT, labelled with their own key; "+
		"(R3) success ⇔ every group complete: GetSCTs presets every group to 'not complete' before listening for events, records exactly the reported outcome, and returns completenessError over that map on both exits; completenessError is nil only if no entry is false; a race reports Success only from groupComplete(); groupComplete ⇔ needs ≤ 0; needs start at MinInclusions and are decremented only in setResult on the branch that has an SCT (a failed request is booked against no group), and on every path that books the SCT against a group that may still be waiting the log's result entry ends up carrying that SCT; "+
		"(R4) who is contacted: the policy input of addSomeChain comes only from usableLl.Compatible(...) (pending logs only from pendingQualifiedLl), Compatible = TemporallyCompatible then RootCompatible, and a certificate / precertificate mismatch with the endpoint is an error; "+
		"(R9) the log list handed to the policy is, on every path, the result of usableLl.Compatible(leaf, nil | last certificate, recorded roots) computed in this call from the chain parsed from this call's input and handed on with it — never a cached, remembered or unfiltered list; GetSCTs is started only from addSomeChain with the groups of a LogsByGroup call made there; "+
		"(R5) policy group minima: Chrome = Google-operated ≥ 1, non-Google ≥ 1 plus the lifetime-dependent base group; Apple = base group; lifetime thresholds <15 → 2, ≤27 → 3, ≤39 → 4, else 5; setMinInclusions refuses a group that is too small. "+
		"(R6) whom the end of a race may cancel — decided on the contexts themselves: every context derived inside a race from the caller's context (the context.Context parameter of groupRace) is followed through locals, captured variables, parameters and results of module functions to the requests made under it (Submitter calls), the waits on it (Done) and the contexts derived from it, and the cancel function of each derivation to every place it is called, deferred, handed on or stored; (request-not-aborted) every request of the module runs under such a context; a context a request runs under, and every context that one descends from, is derived by WithCancel / WithValue only (no deadline of the race's own) and its cancel function is only handed to the shared submission state, or called / deferred by the activation that itself makes the request synchronously, owns the context alone (made there, or made anew before each start of that activation) and cannot reach its request after the call — never deferred or called by the race or another goroutine, stored, sent, returned or handed to a timer; (turn-not-abandoned) a context that logs only wait on for their turn may in addition be cancelled by a deferred call of the race function itself or under groupComplete() = true; (race-ends) every return of the race is under groupComplete() = true, in the select case / Err() test of the caller's context, or behind the exit of a loop over what the starting loop ranges over in which every round receives an event; "+
		"NOT covered: the outcomes of the races themselves, when the shared state runs a cancel function handed to it (the sweep of setResult), that every per-log goroutine reports exactly once to the counting loop, cancel functions reached through struct fields, slices, maps or channels (reported as undecided), references to ELEMENTS of a published object that leave the critical section (only the reference held in the field is followed), aliases of a published object kept by the callers of a setter, deferred calls that run after a deferred unlock, liveness ('does report success'), termination, fairness of the weighted random order.",
		runC17)
}

func runC17(r *Run) {
	r.Assume("Go's memory model: accesses ordered by a common mutex do not race; channel operations are safe")
	r.pubReset()
	for i, k := range []string{"safeSubmissionState", "Distributor", "Proxy", "LogListManager", "LogGroupInfo", "logListRefresherImpl"} {
		r.Rule(fmt.Sprintf("C17.L%d", i+1))
		r.LockCheck(lockTable[k])
	}
	// publication discipline of those tables (decided inside LockCheck, one obligation per guarded
	// reference field): both sides of it must have been seen at work
	r.Rule("C17.L7")
	r.pubFloors(11)

	if r.Tier == "thorough" && r.cfg == "" {
		// discovery: every mutex-bearing struct of the anchored packages is in the lock
		// table and no field written after construction escapes it without a named reason
		r.Rule("C17.L0")
		r.LockDiscover([]string{"submission", "ctpolicy", "jsonclient", "scanner", "ctutil", "trillian/ctfe"}, lockTable, lockExempt)
	}

	r.Rule("C17.R1")
	// SubmitToLog: only from the per-log goroutine, gated by request()
	callers := r.CallersOf("iface(submission.Submitter).SubmitToLog")
	for _, k := range keysOf(callers) {
		r.Check("who:SubmitToLog@"+k, glob("submission.groupRace$*", k), r.Where(callers[k][0]), k+" submits a chain to a log")
	}
	r.Check("who:SubmitToLog", len(callers) == 1, "-", fmt.Sprintf("%d functions call Submitter.SubmitToLog (the group race's per-log goroutine)", len(callers)))
	for k, cs := range callers {
		fn := r.P.Func(k)
		if fn == nil {
			continue
		}
		r.Funcs[k] = true
		r.MustGuard(fn, "groupRace:submit-only-if-first-request", "(*submission.safeSubmissionState).request(*)", "F", asInstrs(cs), "SubmitToLog")
		for _, c := range cs {
			rq := CallsTo(fn, "(*submission.safeSubmissionState).request")
			if len(rq) == 1 {
				r.Check("groupRace:request-for-same-log", r.D.D(CallArgs(rq[0])[1]) == r.D.D(CallArgs(c)[2]), r.Where(c), "the log asked about in request() is the log submitted to: "+r.D.D(CallArgs(c)[2]))
			} else {
				r.Fail("groupRace:request-for-same-log", r.Where(c), "request() not called exactly once")
			}
			// the result is recorded for that log
			for _, sr := range CallsTo(fn, "(*submission.safeSubmissionState).setResult") {
				r.Check("groupRace:result-for-same-log", r.D.D(CallArgs(sr)[1]) == r.D.D(CallArgs(c)[2]) && glob("iface(submission.Submitter).SubmitToLog(*)#0", r.D.D(CallArgs(sr)[2])), r.Where(sr), "setResult(log, sct of that submission)")
			}
		}
	}
	var marker ssa.Instruction // the entry request() records: the 'already asked' mark of a log
	if fn := r.Fn("(*submission.safeSubmissionState).request"); fn != nil {
		var recorded, cancels ssa.Instruction
		eachInstr(fn, func(in ssa.Instruction) {
			if mu, ok := in.(*ssa.MapUpdate); ok {
				switch r.D.D(mu.Map) {
				case "p0.results":
					recorded = in
					_, isAlloc := mu.Value.(*ssa.Alloc)
					r.Check("request:records-non-nil-entry", isAlloc && r.D.D(mu.Key) == "p1", r.Where(in), "results[logURL] ← "+r.D.D(mu.Value))
				case "p0.cancels":
					cancels = in
				}
			}
		})
		if recorded == nil {
			r.Fail("request:records", r.FnPos(fn), "request() never records the log in results")
		} else {
			marker = recorded
			// already requested ⇒ false without recording again
			reach := r.D.Walk(fn, Sigma{"nil?p0.results[p1]": "non"}, nil, nil)
			r.Valuations++
			vals := c17BoolResults(r, fn, reach)
			r.Check("request[already-requested]", !reach.Has(recorded) && len(vals) == 1 && vals[0] == "false", r.FnPos(fn), fmt.Sprintf("a log with an entry: recorded again=%v, returns %v", reach.Has(recorded), vals))
			// first time ⇒ recorded before any return
			reach = r.D.Walk(fn, Sigma{"nil?p0.results[p1]": "nil"}, nil, nil)
			r.Valuations++
			okDom := true
			for _, ret := range reachableReturns(fn, reach) {
				if ret.Block().Comment == "recover" {
					continue
				}
				if !(recorded.Block().Dominates(ret.Block())) {
					okDom = false
				}
			}
			r.Check("request[first-time]", reach.Has(recorded) && okDom, r.FnPos(fn), "a log without an entry is recorded before request() returns")
			_ = cancels
		}
	}
	// entries are never removed nor reset to nil
	named := r.P.LookupType("submission.safeSubmissionState")
	examined := map[ssa.Instruction]bool{}
	for _, fn := range r.P.ModFuncs {
		eachInstr(fn, func(in ssa.Instruction) {
			switch x := in.(type) {
			case *ssa.MapUpdate:
				if c17IsField(x.Map, named, "results") {
					examined[in] = true
					_, isAlloc := x.Value.(*ssa.Alloc)
					r.Check("results-entry-non-nil@"+FuncName(fn), isAlloc, r.Where(in), "results[…] ← "+r.D.D(x.Value)+" (entries mark 'already requested' and must stay non-nil)")
				}
			case *ssa.Call:
				if b, ok := x.Call.Value.(*ssa.Builtin); ok && b.Name() == "delete" && c17IsField(x.Call.Args[0], named, "results") {
					r.Fail("results-entry-deleted@"+FuncName(fn), r.Where(in), "a result entry is deleted: the log then looks never-requested and can be sent the chain again by another group's race")
				}
			}
		})
	}
	// The enumeration above is over the right set when it contains the writers known by their role:
	// the mark request() sets and the store(s) of setResult that keep an SCT.  (It used to be a floor
	// of 4 syntactic sites — 1 + the 3 identical literals of setResult; what that number protected
	// beyond non-vacuity, "each branch that books the SCT against a group also keeps it", is now
	// C17.R3 setResult:counted-sct-is-kept.)
	c17ResultsWriters(r, examined, marker)

	r.Rule("C17.R2")
	if fn := r.Fn("(*submission.safeSubmissionState).collectSCTs"); fn != nil {
		r.ExpectStores(fn, "collectSCTs:LogURL", "&(new:submission.AssignedSCT#*.LogURL)", "rangekey(p0.results)", 1)
		r.ExpectStores(fn, "collectSCTs:SCT", "&(new:submission.AssignedSCT#*.SCT)", "rangeval(p0.results).sct", 1)
		apps := CallsTo(fn, "append")
		r.Check("collectSCTs:one-append", len(apps) == 1, r.FnPos(fn), fmt.Sprintf("%d append sites", len(apps)))
		if len(apps) == 1 {
			r.MustGuardAfter(fn, "collectSCTs:skip-without-sct", "nil?rangeval(p0.results).sct", "nil", asInstrs(apps), "append to the returned set")
			r.MustGuardAfter(fn, "collectSCTs:skip-nil-entry", "nil?rangeval(p0.results)", "nil", asInstrs(apps), "append to the returned set")
		}
	}

	r.Rule("C17.R3")
	c17Completeness(r)

	r.Rule("C17.R4")
	c17Contacted(r)

	// who is contacted, temporal part: the log-list filter's window table (rule set of C18.R3/R4)
	r.Shared("C17.R4", func() {
		r.Rule("C18.R3")
		c18TemporallyCompatible(r)
	})

	r.Rule("C17.R5")
	c17Policy(r)

	// R6: a request started for one group must be able to outlive that group's race (another group
	// may still need its SCT), and a log waiting for its turn is given up only when the race is over:
	// decided on the contexts and cancel functions of the race themselves (rules_t8c17.go).
	r.Rule("C17.R6")
	c17ContextsOfARace(r)

	r.Rule("C17.R7")
	c17RootsUnknownOnFailure(r)

	// R9: the list the policy sees is computed afresh from this certificate on every path
	r.Rule("C17.R9")
	c17FreshSelection(r)
	// goroutines per log / per group must not share result variables (rule set C12.R10)
	r.Shared("C17.R8", func() {
		r.Rule("C12.R10")
		c12GoSharedWrites(r, "submission", "ctpolicy")
	})
}

// paramOfType: the index (receiver = 0, as in origin terms) of the only parameter of fn whose
// type satisfies pred; -1 when there is none or more than one.
func paramOfType(fn *ssa.Function, pred func(types.Type) bool) int {
	idx := -1
	for i, p := range fn.Params {
		if pred(p.Type()) {
			if idx >= 0 {
				return -1
			}
			idx = i
		}
	}
	return idx
}

// c17RaceParams: positions of groupRace's shared-state and group parameters, found by type.
func c17RaceParams(r *Run) (state, group int) {
	fn := r.P.Func("submission.groupRace")
	if fn == nil {
		return -1, -1
	}
	ptrTo := func(q string) func(types.Type) bool {
		named := r.P.LookupType(q)
		return func(t types.Type) bool {
			pt, ok := t.(*types.Pointer)
			if !ok || named == nil {
				return false
			}
			nt, ok := pt.Elem().(*types.Named)
			return ok && nt.Obj() == named.Obj()
		}
	}
	return paramOfType(fn, ptrTo("submission.safeSubmissionState")), paramOfType(fn, ptrTo("ctpolicy.LogGroupInfo"))
}

func c17IsField(v ssa.Value, named *types.Named, field string) bool {
	u, ok := v.(*ssa.UnOp)
	if !ok {
		return false
	}
	fa, ok := u.X.(*ssa.FieldAddr)
	if !ok || named == nil {
		return false
	}
	f := fieldOf(fa)
	if f == nil || f.Name() != field {
		return false
	}
	pt := fa.X.Type().Underlying().(*types.Pointer)
	nt, ok := pt.Elem().(*types.Named)
	return ok && nt.Obj() == named.Obj()
}

// c17BoolResults: the values stored to the (spilled) bool result on the walk — each value as it is on
// the walk (a φ such as the one of `!known || x` merges only the edges the walk takes).
func c17BoolResults(r *Run, fn *ssa.Function, reach *Reach) []string {
	set := map[string]bool{}
	eachInstr(fn, func(in ssa.Instruction) {
		if st, ok := in.(*ssa.Store); ok && reach.Has(st) && glob("new:bool#*", r.D.D(st.Addr)) {
			set[r.D.DUnder(st.Val, reach)] = true
		}
	})
	for _, ret := range reachableReturns(fn, reach) {
		if ret.Block().Comment == "recover" || len(ret.Results) == 0 {
			continue
		}
		if c, ok := ret.Results[0].(*ssa.Const); ok {
			set[constString(c)] = true
		}
	}
	return keysOf(set)
}

// c17RaceEndsOnDuplicate: in a race's per-log goroutine, finding the log already requested
// (request() = false) leads to the goroutine's end without waiting for that log's answer.
func c17RaceEndsOnDuplicate(r *Run) bool {
	for _, fn := range r.P.ModFuncs {
		if !strings.HasPrefix(FuncName(fn), "submission.groupRace$") {
			continue
		}
		reqs := CallsTo(fn, "(*submission.safeSubmissionState).request")
		subs := CallsTo(fn, "iface(submission.Submitter).SubmitToLog")
		if len(reqs) != 1 || len(subs) == 0 {
			continue
		}
		reach := r.D.Walk(fn, Sigma{r.D.D(reqs[0].Value()): "F"}, reqs[0].Block(), nil)
		r.Valuations++
		submitted := false
		for _, s := range subs {
			if reach.Has(s) {
				submitted = true
			}
		}
		if !submitted && len(reachableReturns(fn, reach)) > 0 {
			return true
		}
	}
	return false
}

func c17Completeness(r *Run) {
	if fn := r.Fn("submission.GetSCTs"); fn != nil {
		ce := CallsTo(fn, "submission.completenessError")
		r.Check("GetSCTs:verdict-sites", len(ce) == 2, r.FnPos(fn), fmt.Sprintf("%d completenessError calls (deadline exit and normal exit)", len(ce)))
		var gc ssa.Value
		for _, c := range ce {
			gc = CallArgs(c)[0]
		}
		for _, ret := range Returns(fn) {
			r.Check("GetSCTs:returns-verdict", glob("submission.completenessError(*)", r.D.D(ret.Results[1])) && glob("(*submission.safeSubmissionState).collectSCTs(*)", r.D.D(ret.Results[0])), r.Where(ret), "returns (collectSCTs(), completenessError(groupComplete))")
		}
		var sel *ssa.Select
		eachInstr(fn, func(in ssa.Instruction) {
			if s, ok := in.(*ssa.Select); ok {
				sel = s
			}
		})
		preset, recorded, final := 0, 0, 0
		reaches := func(from, to *ssa.BasicBlock) bool {
			seen := map[*ssa.BasicBlock]bool{}
			work := append([]*ssa.BasicBlock{}, from.Succs...)
			for len(work) > 0 {
				b := work[len(work)-1]
				work = work[:len(work)-1]
				if seen[b] {
					continue
				}
				seen[b] = true
				if b == to {
					return true
				}
				work = append(work, b.Succs...)
			}
			return false
		}
		eachInstr(fn, func(in ssa.Instruction) {
			mu, ok := in.(*ssa.MapUpdate)
			if !ok || gc == nil || mu.Map != gc {
				return
			}
			switch {
			case glob("(*submission.safeSubmissionState).groupComplete(*, rangeval(p4).Name)", r.D.D(mu.Value)) && glob("rangeval(p4).Name", r.D.D(mu.Key)):
				// the verdict re-read from the shared state, for every group, once no more events are awaited
				final++
				r.Check("GetSCTs:final-verdict-after-all-races", sel != nil && !reaches(mu.Block(), sel.Block()), r.Where(mu), "the groups are judged on the final state after the last race has reported")
			case r.D.D(mu.Value) == "false" && glob("rangeval(p4).Name", r.D.D(mu.Key)):
				preset++
				r.Check("GetSCTs:preset-before-listening", sel != nil && mu.Block().Dominates(sel.Block()) || sel != nil && c17LoopBefore(mu.Block(), sel.Block()), r.Where(mu), "every group is entered as 'not complete' before the first event is awaited")
			case glob("*.Success", r.D.D(mu.Value)) && glob("*.Name", r.D.D(mu.Key)):
				recorded++
				kb, vb := strings.TrimSuffix(r.D.D(mu.Key), ".Name"), strings.TrimSuffix(r.D.D(mu.Value), ".Success")
				r.Check("GetSCTs:records-event", kb == vb, r.Where(mu), "groupComplete[event.Name] ← event.Success of the same event")
			default:
				r.Fail("GetSCTs:groupComplete-write", r.Where(mu), "unexpected write groupComplete["+r.D.D(mu.Key)+"] ← "+r.D.D(mu.Value))
			}
		})
		r.Check("GetSCTs:preset-all-groups-false", preset == 1, r.FnPos(fn), fmt.Sprintf("%d loops preset groupComplete[g.Name] = false over the policy's groups (a group that never reports must count as failed)", preset))
		r.Check("GetSCTs:records-outcomes", recorded == 1, r.FnPos(fn), fmt.Sprintf("%d sites record a race's outcome", recorded))
		// A race can end while a request that counts towards its group is still in flight (its goroutine
		// returns at once when another race has already asked that log): its own verdict may be stale, so
		// the verdict of the normal exit has to be taken from the shared state after all races have ended.
		if c17RaceEndsOnDuplicate(r) {
			r.Check("GetSCTs:final-verdict-from-state", final == 1, r.FnPos(fn), fmt.Sprintf("a race may report before a log asked by another race has answered; %d re-evaluations of the groups on the final state before the normal exit", final))
		}
		// one race per group, each reporting its own result; the literal that runs the race is found by
		// what it does (it is the caller of groupRace), not by its index among the literals
		if clo, c := c17RaceLiteral(r, fn); clo != nil {
			// the race's group and shared state are the parameters of these types, wherever they stand
			si, gi := c17RaceParams(r)
			if gi >= 0 {
				c17RaceOwnGroup(r, fn, clo, c, gi)
			} else {
				r.Fail("GetSCTs:race.group", r.Where(c), "undecided: groupRace has no single *ctpolicy.LogGroupInfo parameter")
			}
			if si >= 0 {
				r.ExpectArg(c, "GetSCTs:race.state", si, "*^new:*submission.safeSubmissionState#0")
			} else {
				r.Fail("GetSCTs:race.state", r.Where(c), "undecided: groupRace has no single *safeSubmissionState parameter")
			}
			snd := false
			eachInstr(clo, func(in ssa.Instruction) {
				if s, ok := in.(*ssa.Send); ok && glob("submission.groupRace(*)", r.D.D(s.X)) {
					snd = true
				}
			})
			r.Check("GetSCTs:race.reports", snd, r.Where(c), "each race's groupState is sent to the event channel")
		}
	}
	if fn := r.Fn("submission.completenessError"); fn != nil {
		// nil only when no entry is false
		apps := CallsTo(fn, "append")
		if len(apps) == 1 {
			r.MustGuardAfter(fn, "completenessError:collects-failed", "rangeval(p0)", "T", asInstrs(apps), "recording a failed group")
			// positive: a false entry is recorded (covered by MustGuardAfter's control)
			r.FailEdge(fn, "completenessError", EdgeSpec{Name: "some-group-failed", Atom: ordAtomR("len(*)", "0"), Bad: ">", Want: wantErr(false)})
			okNil := false
			for _, ret := range Returns(fn) {
				if errKind(ret.Results[0]) == "nil" {
					okNil = true
				}
			}
			r.Check("completenessError:nil-exists", okNil, r.FnPos(fn), "returns nil when nothing failed")
		} else {
			r.Fail("completenessError:collects-failed", r.FnPos(fn), "undecided: failed groups are not collected by a single append")
		}
	}
	if fn := r.Fn("submission.groupRace"); fn != nil {
		n := 0
		si, gi := c17RaceParams(r)
		pState, pGroup := fmt.Sprintf("p%d", si), fmt.Sprintf("p%d", gi)
		if si < 0 {
			r.Fail("groupRace:parameters.state", r.FnPos(fn), "undecided: groupRace must take exactly one *safeSubmissionState")
			pState = "<state parameter>"
		}
		if gi < 0 {
			r.Fail("groupRace:parameters.group", r.FnPos(fn), "undecided: groupRace must take exactly one *ctpolicy.LogGroupInfo")
			pGroup = "<group parameter>"
		}
		eachInstr(fn, func(in ssa.Instruction) {
			st, ok := in.(*ssa.Store)
			if !ok || !glob("&(new:submission.groupState#*.Success)", r.D.D(st.Addr)) {
				return
			}
			n++
			d := r.D.D(st.Val)
			if d == "true" {
				// constant true only right after groupComplete() returned true
				gcs := CallsTo(fn, "(*submission.safeSubmissionState).groupComplete")
				ok := false
				for _, g := range gcs {
					if g.Block().Dominates(st.Block()) {
						reach := r.D.Walk(fn, Sigma{r.D.D(g.Value()): "F"}, g.Block(), nil)
						r.Valuations++
						if !reach.Has(st) {
							ok = true
						}
					}
				}
				r.Check("groupRace:success-true-only-when-complete", ok, r.Where(st), "Success: true is reported only after groupComplete() returned true")
			} else {
				r.Check("groupRace:success-from-state", d == "(*submission.safeSubmissionState).groupComplete("+pState+", "+pGroup+".Name)", r.Where(st), "Success ← "+d)
			}
		})
		r.Check("groupRace:outcomes", n == 3, r.FnPos(fn), fmt.Sprintf("%d outcome constructions", n))
		r.ExpectStores(fn, "groupRace:outcome.Name", "&(new:submission.groupState#*.Name)", pGroup+".Name", 3)
	}
	if fn := r.Fn("(*submission.safeSubmissionState).groupComplete"); fn != nil {
		c17GroupCompleteVerdict(r, fn)
	}
	if fn := r.Fn("submission.newSafeSubmissionState"); fn != nil {
		n := 0
		eachInstr(fn, func(in ssa.Instruction) {
			if mu, ok := in.(*ssa.MapUpdate); ok && glob("*groupNeeds", r.D.D(mu.Map)) {
				n++
				r.Check("newSafeSubmissionState:needs", glob("rangeval(p0).MinInclusions", r.D.D(mu.Value)) && glob("rangeval(p0).Name", r.D.D(mu.Key)), r.Where(mu), "groupNeeds[g.Name] ← g.MinInclusions")
			}
		})
		r.Check("newSafeSubmissionState:needs-initialised", n == 1, r.FnPos(fn), "group needs start at the policy's minimum inclusions")
	}
	// who writes groupNeeds
	named := r.P.LookupType("submission.safeSubmissionState")
	for _, fn := range r.P.ModFuncs {
		eachInstr(fn, func(in ssa.Instruction) {
			if mu, ok := in.(*ssa.MapUpdate); ok && (c17IsField(mu.Map, named, "groupNeeds")) {
				k := FuncName(fn)
				okW := k == "(*submission.safeSubmissionState).setResult" || k == "submission.newSafeSubmissionState"
				r.Check("who-writes:groupNeeds@"+k, okW, r.Where(in), k+" writes group needs")
				if k == "(*submission.safeSubmissionState).setResult" {
					got := r.D.Lin(mu.Value, nil).String()
					r.Check("setResult:decrement", strings.HasSuffix(got, " -1") && strings.Contains(got, "groupNeeds["), r.Where(in), "needs ← "+got+" (one less)")
				}
			}
		})
	}
	if fn := r.Fn("(*submission.safeSubmissionState).setResult"); fn != nil {
		c17NoSctNoDecrement(r, fn)
		c17CountedIsKept(r, fn)
	}
}

// c17LoopBefore: block a belongs to a loop that is left before b is entered (a's loop exit dominates b).
func c17LoopBefore(a, b *ssa.BasicBlock) bool {
	for _, p := range a.Preds {
		for _, s := range p.Succs {
			if s != a && s.Dominates(b) && p.Dominates(b) {
				return true
			}
		}
	}
	return false
}

func c17Contacted(r *Run) {
	if fn := r.Fn("(*submission.Distributor).addSomeChain"); fn != nil {
		if c := r.OneCall(fn, "addSomeChain:policy", "iface(ctpolicy.CTPolicy).LogsByGroup"); c != nil {
			r.ExpectArg(c, "addSomeChain:policy.which", 0, "p0.policy")
			a := baseAlloc(CallArgs(c)[2])
			ok := false
			if a != nil {
				for _, st := range r.StoresTo(fn, r.D.allocName(a)) {
					ok = glob("(*submission.Distributor).addSomeChain$1(*)#0", r.D.D(st.Val)) || glob("dyn(closure:(*submission.Distributor).addSomeChain$1)(*)#0", r.D.D(st.Val))
					if !ok {
						r.Fail("addSomeChain:policy.logs", r.Where(st), "log list handed to the policy ← "+r.D.D(st.Val))
					}
				}
			}
			r.Check("addSomeChain:policy.logs", ok, r.Where(c), "the policy sees only the logs compatibleLogsAndChain() selected")
		}
		submit := asInstrs(CallsTo(fn, "submission.GetSCTs"))
		r.Check("addSomeChain:submits", len(submit) == 1, r.FnPos(fn), fmt.Sprintf("%d GetSCTs calls", len(submit)))
		found := false
		for k := range r.D.AtomsOf(fn) {
			if glob("(p4 != trillian/ctfe.IsPrecertificate(*)#0)", k) || glob("(trillian/ctfe.IsPrecertificate(*)#0 != p4)", k) {
				found = true
				r.MustGuard(fn, "addSomeChain:kind-mismatch-rejected", k, "T", submit, "submission to logs")
				r.FailEdge(fn, "addSomeChain", EdgeSpec{Name: "kind-mismatch", Atom: boolAtom(k), Bad: "T", Want: wantErr(true)})
			}
		}
		r.Check("addSomeChain:kind-compared", found, r.FnPos(fn), "the leaf kind is compared with the endpoint used (asPreChain)")
		r.MustGuard(fn, "addSomeChain:precert-test-error", "nil?trillian/ctfe.IsPrecertificate(*)#1", "non", submit, "submission to logs")
		r.MustGuard(fn, "addSomeChain:policy-error", "nil?iface(ctpolicy.CTPolicy).LogsByGroup(*)#1", "non", submit, "submission to logs")
		r.MustGuard(fn, "addSomeChain:selection-error", "nil?(*submission.Distributor).addSomeChain$1(*)#2", "non", submit, "submission to logs")
		if len(submit) == 1 {
			c := submit[0].(ssa.CallInstruction)
			r.ExpectArg(c, "addSomeChain:submit.groups", 4, "iface(ctpolicy.CTPolicy).LogsByGroup(p0.policy, *)#0")
			r.ExpectArg(c, "addSomeChain:submit.asPreChain", 3, "p4")
			r.ExpectArg(c, "addSomeChain:submit.submitter", 1, "p0")
		}
	}
	if clo := r.Fn("(*submission.Distributor).addSomeChain$1"); clo != nil {
		for _, ret := range Returns(clo) {
			// (a function with a defer spills its results: look at what the return statement stored)
			if len(ret.Results) != 3 || ret.Block().Comment == "recover" || errKind(RetVals(ret)[2]) != "nil" {
				continue
			}
			d := r.D.D(ret.Results[0])
			r.Check("compatibleLogs:source", glob("*(*loglist3.LogList).Compatible(*.usableLl, *", d) || glob("*new:loglist3.LogList#*", d), r.Where(ret), "compatible logs ← "+d)
		}
		cs := CallsTo(clo, "(*loglist3.LogList).Compatible")
		// (how many there are is a matter of code shape; C17.R9 examines every one whose result can reach the policy)
		r.Check("compatibleLogs:calls", len(cs) >= 1, r.FnPos(clo), fmt.Sprintf("%d Compatible() calls", len(cs)))
		for _, c := range cs {
			r.Check("compatibleLogs:usable-list", glob("*.usableLl", r.D.D(CallArgs(c)[0])), r.Where(c), "Compatible() is asked of the usable log list: "+r.D.D(CallArgs(c)[0]))
		}
	}
	for _, af := range []string{"(*submission.Distributor).addSomeChain$2"} {
		if clo := r.Fn(af); clo != nil {
			if c := r.OneCall(clo, "pending:policy", "iface(ctpolicy.CTPolicy).LogsByGroup"); c != nil {
				r.Check("pending:list", glob("*.pendingQualifiedLl", r.D.D(CallArgs(c)[2])), r.Where(c), "pending logs come from pendingQualifiedLl: "+r.D.D(CallArgs(c)[2]))
				r.Check("pending:policy.which", glob("*.pendingLogsPolicy", r.D.D(CallArgs(c)[0])), r.Where(c), "with the pending-logs policy")
			}
		}
	}
	if fn := r.Fn("(*loglist3.LogList).Compatible"); fn != nil {
		tc := CallsTo(fn, "(*loglist3.LogList).TemporallyCompatible")
		rc := CallsTo(fn, "(*loglist3.LogList).RootCompatible")
		if len(tc) == 1 && len(rc) == 1 {
			r.ExpectArg(tc[0], "Compatible:temporal.list", 0, "p0")
			r.ExpectArg(tc[0], "Compatible:temporal.cert", 1, "p1")
			okT := false
			if a := baseAlloc(CallArgs(rc[0])[0]); a != nil {
				for _, st := range r.StoresTo(fn, r.D.allocName(a)) {
					okT = r.D.D(st.Val) == "(*loglist3.LogList).TemporallyCompatible(p0, p1)"
				}
			}
			r.Check("Compatible:root-after-temporal", okT, r.Where(rc[0]), "RootCompatible filters the temporally compatible list")
			for _, ret := range Returns(fn) {
				d := r.D.D(ret.Results[0])
				r.Check("Compatible:result", glob("(*loglist3.LogList).RootCompatible(*)", d) || glob("*new:loglist3.LogList#0", d), r.Where(ret), "returns "+d)
			}
			r.ExpectArg(rc[0], "Compatible:root.cert", 1, "p2")
			r.ExpectArg(rc[0], "Compatible:root.roots", 2, "p3")
		} else {
			r.Fail("Compatible:composition", r.FnPos(fn), fmt.Sprintf("%d temporal / %d root filter calls", len(tc), len(rc)))
		}
	}
}

func c17Policy(r *Run) {
	thresholds := func(fn *ssa.Function, key string) {
		// lifetime → count table: evaluate at representative months
		bf := CallsTo(fn, "ctpolicy.BaseGroupFor")
		if len(bf) != 1 {
			r.Fail(key+":base-group", r.FnPos(fn), "BaseGroupFor not called exactly once")
			return
		}
		m := "ctpolicy.lifetimeInMonths(p1)"
		atoms := r.D.AtomsOf(fn)
		for months, want := range map[int]string{0: "2", 14: "2", 15: "3", 27: "3", 28: "4", 39: "4", 40: "5", 100: "5"} {
			s := Sigma{}
			for k, ci := range atoms {
				if ci.Kind != "ord" {
					continue
				}
				var c int64
				var left bool
				if ci.A == m {
					if v, err := parseInt(ci.B); err == nil {
						c, left = v, true
					} else {
						continue
					}
				} else if ci.B == m {
					if v, err := parseInt(ci.A); err == nil {
						c, left = v, false
					} else {
						continue
					}
				} else {
					continue
				}
				rel := "="
				if int64(months) < c {
					rel = "<"
				} else if int64(months) > c {
					rel = ">"
				}
				if !left {
					rel = map[string]string{"<": ">", ">": "<", "=": "="}[rel]
				}
				s[k] = rel
			}
			got := r.ArgUnder(fn, bf[0], 1, s)
			r.Check(fmt.Sprintf("%s:lifetime[%d months]", key, months), got == want && len(s) >= 3, r.Where(bf[0]), fmt.Sprintf("%d months ⇒ %s SCTs required (policy: %s)", months, got, want))
		}
		r.ErrorsGate(fn, key+":errors", "ctpolicy.BaseGroupFor", 1)
	}
	if fn := r.Fn("(ctpolicy.ChromeCTPolicy).LogsByGroup"); fn != nil {
		thresholds(fn, "Chrome")
		ms := CallsTo(fn, "(*ctpolicy.LogGroupInfo).setMinInclusions")
		r.Check("Chrome:operator-groups", len(ms) == 2, r.FnPos(fn), fmt.Sprintf("%d operator groups with a minimum", len(ms)))
		for _, c := range ms {
			r.ExpectArg(c, "Chrome:group-minimum", 1, "1")
		}
		r.ErrorsGate(fn, "Chrome:errors", "(*ctpolicy.LogGroupInfo).setMinInclusions", 2)
		// the returned map holds the three groups
		n := 0
		eachInstr(fn, func(in ssa.Instruction) {
			if mu, ok := in.(*ssa.MapUpdate); ok && glob("make:ctpolicy.LogPolicyData", r.D.D(mu.Map)) {
				n++
				kb := strings.TrimSuffix(strings.TrimSuffix(r.D.D(mu.Key), ".Name"), "#0")
				r.Check("Chrome:group-keyed-by-own-name", strings.HasPrefix(r.D.D(mu.Value), strings.TrimPrefix(kb, "*")) || strings.HasPrefix(strings.TrimPrefix(kb, "*"), strings.TrimSuffix(r.D.D(mu.Value), "#0")), r.Where(mu), "groups["+r.D.D(mu.Key)+"] ← "+r.D.D(mu.Value))
			}
		})
		r.Check("Chrome:three-groups", n == 3, r.FnPos(fn), fmt.Sprintf("%d groups returned (Google, non-Google, base)", n))
		// Google vs non-Google predicates: found by what they do, not by their index among the literals
		c17OperatorGroups(r, fn)
	}
	if fn := r.Fn("(ctpolicy.AppleCTPolicy).LogsByGroup"); fn != nil {
		thresholds(fn, "Apple")
	}
	if fn := r.Fn("(*ctpolicy.LogGroupInfo).setMinInclusions"); fn != nil {
		r.FailEdge(fn, "setMinInclusions", EdgeSpec{Name: "group-too-small", Atom: ordAtomR("len(p0.LogURLs)", "p1"), Bad: "<", Want: wantErr(false)})
		r.ExpectStores(fn, "setMinInclusions:records", "&(p0.MinInclusions)", "p1", 1)
	}
}
