package main

import (
	"fmt"
	"strings"

	"golang.org/x/tools/go/ssa"
)

// Generalisations added in the third robustness round for the C02 / C15 / C18 rules.

// ---- write-once cells ---------------------------------------------------------------------

// writeOnceCell: a is a local variable cell (a local captured by a function literal lives in
// such a cell) that is written exactly once, by a whole-value store in its own function that
// comes before every other use; every function literal that captures it only reads it.  A load
// of the cell then yields the stored value wherever it executes.  Returns that value (nil when
// a is not such a cell).
func writeOnceCell(a *ssa.Alloc) ssa.Value {
	var st *ssa.Store
	if a.Referrers() == nil {
		return nil
	}
	var readOnly func(v ssa.Value, depth int) bool
	readOnly = func(v ssa.Value, depth int) bool {
		if depth > 4 || v.Referrers() == nil {
			return false
		}
		for _, ref := range *v.Referrers() {
			switch x := ref.(type) {
			case *ssa.UnOp: // load
			case *ssa.DebugRef:
			case *ssa.Store:
				if x.Addr != v || v != ssa.Value(a) || st != nil {
					return false
				}
				st = x
			case *ssa.MakeClosure:
				fn, ok := x.Fn.(*ssa.Function)
				if !ok {
					return false
				}
				for i, b := range x.Bindings {
					if b == v && (i >= len(fn.FreeVars) || !readOnly(fn.FreeVars[i], depth+1)) {
						return false
					}
				}
			default:
				return false
			}
		}
		return true
	}
	if !readOnly(a, 0) || st == nil {
		return nil
	}
	for _, ref := range *a.Referrers() {
		if ref == ssa.Instruction(st) {
			continue
		}
		if _, dbg := ref.(*ssa.DebugRef); dbg {
			continue
		}
		if ref.Block() == st.Block() {
			before := false
			for _, in := range st.Block().Instrs {
				if in == ssa.Instruction(st) {
					before = true
					break
				}
				if in == ref {
					break
				}
			}
			if !before {
				return nil
			}
		} else if !st.Block().Dominates(ref.Block()) {
			return nil
		}
	}
	return st.Val
}

// sameValueTerms returns the origin terms under which the value rendered `term` is read in fn:
// the term itself and, for every write-once cell of fn holding it, the load of that cell.
func (r *Run) sameValueTerms(fn *ssa.Function, term string) []string {
	out := []string{term}
	eachInstr(fn, func(in ssa.Instruction) {
		if a, ok := in.(*ssa.Alloc); ok {
			if v := writeOnceCell(a); v != nil && r.D.D(v) == term {
				out = append(out, "*"+r.D.allocName(a))
			}
		}
	})
	return out
}

// ---- C02.R1: the required-EKU filter ------------------------------------------------------

// c02RequiredEKU decides "with a non-empty configured EKU list, a leaf none of whose EKUs is in
// the list is rejected before chain verification".  What "a leaf EKU is in the list" is decided by
// may take three forms, each of which establishes membership of ONE leaf EKU in the configured list:
//
//	set     a probe set[leafEKU] of a map that is only ever filled with elements of the list;
//	library slices.Contains(list, leafEKU) (true iff some element of list equals leafEKU);
//	scan    the comparison list[j] == leafEKU inside a scan (equal ⇒ leafEKU is element j of list).
//
// "No hit" is the valuation in which that test fails every time it is evaluated.
//
// Returns the atoms of the filter's decision region (list length, membership test).
func c02RequiredEKU(r *Run, fn *ssa.Function, leaf string, vi []ssa.Instruction) []RuleAtom {
	lists := r.sameValueTerms(fn, "p1.extKeyUsages")
	set := "make:map[x509.ExtKeyUsage]*[*]*"
	nAtom := RuleAtom{Name: "n", OrdA: "0", OrdB: "len(p1.extKeyUsages)"}
	for _, l := range lists {
		if a := (RuleAtom{Name: "n", OrdA: "0", OrdB: "len(" + l + ")"}); len(r.bindAtom(fn, a)) > 0 {
			nAtom = a
			break
		}
	}
	form, hit := "set", RuleAtom{Name: "hit", Pat: set}
	if len(r.bindAtom(fn, hit)) == 0 {
	search:
		for _, l := range lists {
			for _, c := range []struct {
				form string
				a    RuleAtom
			}{
				{"library", RuleAtom{Name: "hit", Pat: "slices.Contains[*](" + l + ", " + leaf + ".ExtKeyUsage[*it@*])"}},
				{"scan", RuleAtom{Name: "hit", OrdA: l + "[*it@*]", OrdB: leaf + ".ExtKeyUsage[*it@*]"}},
			} {
				if len(r.bindAtom(fn, c.a)) > 0 {
					form, hit = c.form, c.a
					break search
				}
			}
		}
	}
	isHit := func(v map[string]string) bool { return v["hit"] == "T" || v["hit"] == "=" }
	r.CheckCases(fn, "ValidateChain:required-EKU", CaseTable{
		Atoms: []RuleAtom{nAtom, hit},
		Class: func(v map[string]string) string {
			if v["n"] == "<" && !isHit(v) {
				return "list non-empty, no leaf EKU in it"
			}
			return "ok"
		},
		Want:    map[string]func(*Run, *ssa.Return) (bool, string){"list non-empty, no leaf EKU in it": wantErr(true)},
		Unreach: map[string][]ssa.Instruction{"list non-empty, no leaf EKU in it": vi}, Reach: map[string][]ssa.Instruction{"ok": vi[:1]}, // vi[0] is the call of Verify; the rest are returns that admit without it
		Shared: map[string]bool{"ok": true},
	})
	var setKeys []string
	for _, l := range lists {
		setKeys = append(setKeys, l+"[*]")
	}
	switch form {
	case "set":
		for _, k := range r.bindAtom(fn, hit) {
			r.Check("ValidateChain:required-EKU-probe", glob("make:map[x509.ExtKeyUsage]*["+leaf+".ExtKeyUsage[*]]*", k), r.FnPos(fn), "probes "+clipStr(k, 160))
		}
		c02MapSet(r, fn, "ValidateChain:required-EKU-set", set, strings.Join(setKeys, " || "))
	case "library":
		for _, site := range r.atomSites(fn, wKeySet(r.bindAtom(fn, hit))) {
			c, ok := site.(*ssa.Call)
			callee := ""
			if ok && c.Call.StaticCallee() != nil && c.Call.StaticCallee().Pkg != nil {
				callee = c.Call.StaticCallee().Pkg.Pkg.Path() + "." + strings.SplitN(c.Call.StaticCallee().Name(), "[", 2)[0]
			} else if ok && c.Call.StaticCallee() != nil && c.Call.StaticCallee().Origin() != nil && c.Call.StaticCallee().Origin().Pkg != nil {
				callee = c.Call.StaticCallee().Origin().Pkg.Pkg.Path() + "." + c.Call.StaticCallee().Origin().Name()
			}
			good := ok && callee == "slices.Contains" && len(c.Call.Args) == 2
			r.Check("ValidateChain:required-EKU-probe", good && glob(leaf+".ExtKeyUsage[*it@*]", r.D.D(c.Call.Args[1])), r.Where(c), "probes "+clipStr(r.D.D(site), 160)+" (standard library slices.Contains: true iff the value equals some element of the list)")
			r.Check("ValidateChain:required-EKU-set", good && wKeySet(lists)[r.D.D(c.Call.Args[0])], r.Where(c), "membership is tested in the configured list itself ("+r.D.D(c.Call.Args[0])+" = p1.extKeyUsages)")
		}
	case "scan":
		atoms := r.D.AtomsOf(fn)
		for _, k := range r.bindAtom(fn, hit) {
			a, b := atoms[k].A, atoms[k].B
			if !glob(hit.OrdB, b) {
				a, b = b, a
			}
			r.Check("ValidateChain:required-EKU-probe", glob(leaf+".ExtKeyUsage[*it@*]", b) && strings.Count(b, ".ExtKeyUsage[") == 1, r.FnPos(fn), "compares the leaf's EKU "+clipStr(b, 140))
			r.Check("ValidateChain:required-EKU-set", anyGlob(strings.Join(setKeys, " || "), a) && strings.Count(a, "extKeyUsages") <= 1, r.FnPos(fn), "… with "+a+", an element of the configured list p1.extKeyUsages")
		}
	}
	return []RuleAtom{nAtom, hit}
}

var _ = fmt.Sprintf

// ---- C02.R3: element-wise comparison by the standard library --------------------------------

// libCallee names the standard-library function a call invokes (generic instances by the name of
// their origin): "slices.EqualFunc"; "" for anything else.
func libCallee(c *ssa.Call) string {
	f := c.Call.StaticCallee()
	if f == nil {
		return ""
	}
	if f.Origin() != nil {
		f = f.Origin()
	}
	if f.Pkg == nil || f.Pkg.Pkg == nil {
		return ""
	}
	return f.Pkg.Pkg.Path() + "." + f.Name()
}

// forwardsTo: v is the function `name` itself or a compiler-made wrapper of it (the thunk of a
// method expression such as (*T).M): one block that calls `name` with its own parameters in
// order and returns that call's results.
func forwardsTo(v ssa.Value, name string) bool {
	f, ok := v.(*ssa.Function)
	if !ok {
		if mc, isMC := v.(*ssa.MakeClosure); isMC && len(mc.Bindings) == 0 {
			f, ok = mc.Fn.(*ssa.Function)
		}
		if !ok {
			return false
		}
	}
	if FuncName(f) == name {
		return true
	}
	if len(f.Blocks) != 1 || len(f.FreeVars) != 0 {
		return false
	}
	var call *ssa.Call
	for _, in := range f.Blocks[0].Instrs {
		switch x := in.(type) {
		case *ssa.Call:
			if call != nil {
				return false
			}
			call = x
		case *ssa.Return:
			if call == nil || len(x.Results) != 1 || x.Results[0] != ssa.Value(call) {
				return false
			}
		case *ssa.DebugRef:
		default:
			return false
		}
	}
	if call == nil || call.Call.StaticCallee() == nil || FuncName(call.Call.StaticCallee()) != name || len(call.Call.Args) != len(f.Params) {
		return false
	}
	for i, a := range call.Call.Args {
		if a != ssa.Value(f.Params[i]) {
			return false
		}
	}
	return true
}

// c02EqualFuncForm: chainsEquivalent hands the element-wise comparison to the standard library:
// every result is the constant false or slices.EqualFunc(s1, s2, (*x509.Certificate).Equal).
// slices.EqualFunc(s1, s2, eq) is true iff len(s1) = len(s2) and eq(s1[i], s2[i]) for every i; with
// s1 the whole submitted chain (p0, or p0[:n] where n = len(p0) on every path to the call) and s2 a
// part of the verified chain that starts at its element 0, s2[i] is p1[i], so a true result means every
// submitted certificate equals the verified one at its position — the facts the loop form establishes
// piecewise (c02EqualFuncFacts).  Reports whether this form applies.
func c02EqualFuncForm(r *Run, fn *ssa.Function) bool {
	var calls []*ssa.Call
	eachInstr(fn, func(in ssa.Instruction) {
		if c, ok := in.(*ssa.Call); ok && libCallee(c) == "slices.EqualFunc" {
			calls = append(calls, c)
		}
	})
	if len(calls) != 1 || len(calls[0].Call.Args) != 3 || len(fn.Params) != 2 {
		return false
	}
	c02EqualFuncFacts(r, fn, calls[0]) // rules_t6c02.go
	return true
}

// ---- C18.R5: NewTemporalLogClient with the first shard handled inside the loop ---------------

// c18FoldedShardLoop decides the construction rule for the form in which ONE loop visits every shard
// from index 0 and remembers only the previous shard's upper bound:
//
//	prev := nil; for i, shard := range Shard { cur := shardInterval(shard); if i > 0 { checks on prev, cur.lower }; prev = cur.upper; keep cur }
//
// It establishes the same facts as the overall/next form: every shard's interval is computed and an error
// rejects; for every later shard (i > 0) a previous interval without upper bound, a missing lower bound and
// lower ≠ previous upper reject before the shard is kept; the bound compared with is the upper bound of the
// shard visited just before (the loop-carried value is cur.upper on every way round the loop); interval i
// and client i stem from shard i.  Reports false (nothing recorded) when the function has not this form.
func c18FoldedShardLoop(r *Run, fn *ssa.Function, key string) bool {
	calls := CallsTo(fn, "client.shardInterval")
	if len(calls) != 1 {
		return false
	}
	si := calls[0]
	h := loopHeaderOf(si.Block())
	idx := indexOfElem(CallArgs(si)[0])
	if h == nil || idx == nil {
		return false
	}
	// the local that holds the current shard's interval
	var curA *ssa.Alloc
	eachInstr(fn, func(in ssa.Instruction) {
		if st, ok := in.(*ssa.Store); ok {
			if a, ok := st.Addr.(*ssa.Alloc); ok && st.Val == CallResult(si, 0) {
				curA = a
			}
		}
	})
	if curA == nil {
		return false
	}
	isCurField := func(v ssa.Value, name string) bool {
		ld, ok := v.(*ssa.UnOp)
		if !ok {
			return false
		}
		fa, ok := ld.X.(*ssa.FieldAddr)
		return ok && fa.X == ssa.Value(curA) && fieldOf(fa) != nil && fieldOf(fa).Name() == name
	}
	// the loop-carried previous upper bound
	var prev *ssa.Phi
	for _, in := range h.Instrs {
		ph, ok := in.(*ssa.Phi)
		if !ok || TypeName(ph.Type()) != "*time.Time" {
			continue
		}
		carried := 0
		for i, e := range ph.Edges {
			if h.Dominates(h.Preds[i]) && isCurField(e, "upper") {
				carried++
			}
		}
		if carried > 0 {
			if prev != nil {
				return false
			}
			prev = ph
		}
	}
	if prev == nil {
		return false
	}
	cur := selBase(r.D.D(curA))
	r.Pass(key+":overall/next", r.FnPos(fn), "one loop over all shards: the current shard's interval is shardInterval(Shard[i]) in "+cur+"; the previous shard's upper bound is carried round the loop in "+r.D.D(prev))
	for i, e := range prev.Edges {
		if h.Dominates(h.Preds[i]) {
			r.Check(key+":span-extended-by-new-upper", isCurField(e, "upper"), r.Where(h.Preds[i].Instrs[len(h.Preds[i].Instrs)-1]), "on the way round the loop the remembered upper bound becomes "+r.D.D(e))
		}
	}
	r.ErrorsGate(fn, key+":invalid-shard", "client.shardInterval", 1)
	r.FailEdge(fn, key, EdgeSpec{Name: "empty-config", Atom: ordAtomR("0", "len((*client/configpb.TemporalLogConfig).GetShard(*))"), Bad: "=", Want: wantErr(true)})
	// the loop visits every shard, starting with shard 0
	i := r.D.D(idx)
	r.ExpectArg(si, key+":interval-of-shard-i", 0, "p0.Shard["+i+"]* || (*client/configpb.TemporalLogConfig).GetShard(p0)["+i+"]*")
	r.Check(key+":all-shards-from-0", glob("it@*", i) && nonNegCounter(idx) && c18StartsAtZero(idx) && len(r.bindAtom(fn, ordAtomR(i, "len(p0.Shard) || len((*client/configpb.TemporalLogConfig).GetShard(p0))"))) > 0, r.Where(si),
		"the shard loop runs over index "+i+" from 0 to len(Shard)")

	succ := successReturns(fn)
	shardLen := func(makes []*ssa.MakeSlice) bool {
		return len(makes) == 1 && anyGlob("len(p0.Shard) || len((*client/configpb.TemporalLogConfig).GetShard(p0))", r.D.D(makes[0].Len))
	}
	var keep []ssa.Instruction // where the current shard's interval is put into the result
	for _, ret := range succ {
		a := baseAlloc(ret.(*ssa.Return).Results[0])
		if a == nil {
			r.Fail(key+":result", r.Where(ret), "undecided: the result is not built in a local allocation")
			continue
		}
		for _, st := range r.storesAt(fn, "&("+r.D.allocName(a)+".intervals)") {
			fills, makes, built := sliceFills(st.Val)
			good := built && len(fills) == 1
			for _, f := range fills {
				d := r.D.D(f.Elem)
				good = good && (d == cur || d == "*"+cur) && loopHeaderOf(f.In.Block()) == h && (f.Index == nil || r.D.D(f.Index) == i && shardLen(makes))
				keep = append(keep, f.In)
			}
			r.Check(key+":result.intervals", good, r.Where(st), fmt.Sprintf("intervals ← %s: %d fills, with the interval of shard i inside the shard loop", clipStr(r.D.D(st.Val), 80), len(fills)))
		}
		for _, st := range r.storesAt(fn, "&("+r.D.allocName(a)+".Clients)") {
			fills, makes, built := sliceFills(st.Val)
			good := built && len(fills) == 1
			for _, f := range fills {
				el := r.D.D(f.Elem)
				good = good && glob("client.New(p0.Shard[it@*].Uri, *)#0", el)
				if f.Index != nil {
					good = good && glob("client.New(p0.Shard["+r.D.D(f.Index)+"].Uri, *)#0", el) && shardLen(makes)
				}
			}
			r.Check(key+":result.Clients", good, r.Where(st), fmt.Sprintf("Clients ← %s: %d fills with the client of shard i (at position i)", clipStr(r.D.D(st.Val), 80), len(fills)))
		}
		for _, f := range []string{"intervals", "Clients"} {
			if len(r.storesAt(fn, "&("+r.D.allocName(a)+"."+f+")")) == 0 {
				r.Fail(key+":result."+f, r.Where(ret), "the result's "+f+" are never set")
			}
		}
	}
	if len(keep) == 0 {
		r.Fail(key+":result.intervals", r.FnPos(fn), "undecided: no statement puts the current shard's interval into the result")
		return true
	}
	// every iteration that goes round the loop has kept its shard's interval (position i holds shard i)
	if body := si.Block(); body != h {
		stop := wBlockSet(keep)
		skips := !stop[body] && r.D.Walk(fn, Sigma{}, body, stop).Blocks[h]
		r.Valuations++
		r.Check(key+":every-shard-kept", !skips, r.Where(keep[0]), "the next shard is reached only through the statement that keeps the current shard's interval")
	}
	pv := r.D.D(prev)
	contig := ordAtomR("*"+cur+".lower", "*"+pv)
	for _, e := range []EdgeSpec{
		{Name: "extends-unbounded", Atom: nilAtom(pv), Bad: "nil"},
		{Name: "no-lower-bound", Atom: nilAtom(cur + ".lower"), Bad: "nil"},
		{Name: "not-contiguous", Atom: contig, Bad: "<,>"},
	} {
		e.Want, e.Unreach = wantErr(true), append(append([]ssa.Instruction{}, keep...), succ...)
		r.FailEdge(fn, key, e)
	}
	// the three tests guard every later shard: with i > 0 none of them can be bypassed on the way to the
	// statement that keeps the shard; with i > 0 and contiguous bounds the shard is kept
	later := RuleAtom{Name: "later", OrdA: "0", OrdB: i}
	r.CheckCases(fn, key+":later-shards-from-1", CaseTable{
		Atoms: []RuleAtom{later, {Name: "pu", Pat: "nil?" + pv}, {Name: "pl", Pat: "nil?" + cur + ".lower"}, {Name: "c", OrdA: contig.OrdA, OrdB: contig.OrdB}},
		Class: func(v map[string]string) string {
			switch {
			case v["later"] == ">":
				return ""
			case v["later"] == "=":
				return "first shard"
			case v["pu"] == "nil" || v["pl"] == "nil" || v["c"] != "=":
				return "later shard, not contiguous"
			}
			return "later shard, contiguous"
		},
		Want:    map[string]func(*Run, *ssa.Return) (bool, string){"later shard, not contiguous": wantErr(true)},
		Unreach: map[string][]ssa.Instruction{"later shard, not contiguous": keep},
		Reach:   map[string][]ssa.Instruction{"later shard, contiguous": keep, "first shard": keep},
		Shared:  map[string]bool{"later shard, contiguous": true, "first shard": true},
	})
	for _, v := range r.atomSites(fn, wKeySet(r.bindAtom(fn, contig))) {
		c, ok := v.(*ssa.Call)
		r.Check(key+":contiguity-compares-instants", ok && c.Call.StaticCallee() != nil && FuncName(c.Call.StaticCallee()) == "(time.Time).Equal", r.FnPos(fn), "contiguity test is "+r.D.D(v))
	}
	for _, c := range CallsTo(fn, "client.New") {
		r.ExpectArg(c, key+":client-of-shard", 0, "p0.Shard[*it@*].Uri")
	}
	return true
}

// c18StartsAtZero: the loop counter v is the index of a range loop or an induction variable entered with 0.
func c18StartsAtZero(v ssa.Value) bool {
	switch x := v.(type) {
	case *ssa.BinOp:
		ph, ok := x.X.(*ssa.Phi)
		return ok && isRangePre(ph)
	case *ssa.Phi:
		if !isInduction(x) {
			return false
		}
		n := 0
		for _, e := range x.Edges {
			if c, ok := e.(*ssa.Const); ok {
				if !isConstInt(c, 0) {
					return false
				}
				n++
			}
		}
		return n == 1
	}
	return false
}
