package main

import (
	"fmt"
	"go/token"
	"go/types"
	"os"
	"sort"
	"strings"

	"golang.org/x/tools/go/ssa"
)

// Round 8, C15.R4 — "a mirror never serves an STH larger than its backend tree", stated as a fact about every
// value a success return of (*MirrorSTHGetter).GetSTH can hand out, on every shape of that function:
//
//	served-sth-within-backend-tree   every STH a success return can carry is
//	   (a) the answer the getter's own storage gave IN THIS CALL to a question bounded by the tree size of the
//	       backend root fetched in this call (interface contract of MirrorSTHStorage, recorded as assumption), or
//	   (b) an STH the getter remembered from an earlier call (a field of the getter, read directly or through an
//	       accessor), served only on paths on which ITS tree size was compared with this call's backend root and did
//	       not come out larger: with the comparison fixed at "remembered > backend" the return is unreachable, with
//	       another outcome it is reachable (control).  A private copy of either (a fresh object filled by one
//	       whole-value copy whose TreeSize nobody writes afterwards) counts as the object copied; the comparison
//	       may be made on the copy or on the original.
//	   Anything else that can be served (a fabricated STH, a parameter, a global) is undecided = failed.
//	served-sth-is-tested-sth         the tree size compared in (b) is read from the very value that is served (the same
//	   read of the remembered field), or from another read of it while the getter's mutex is held from the one read
//	   to the other (no unlock of it in between: otherwise a concurrent GetSTH can replace the STH after the test).
//	remembered-sth-from-storage      every store to a remembered field that is served — wherever in the module — carries
//	   nil, an answer of the getter's storage to a question bounded by the same call's backend root, or a private copy
//	   of one;
//	remembered-sth-after-error-gate  … and cannot execute once that answer's error came out non-nil;
//	remembered-sth-under-lock        every read and write of such a field of a shared getter happens with one and the
//	   same mutex of that getter held.
//
// Nothing here names a helper, a field, a local or an order of statements: the remembered field is whatever field of
// the getter a success return can be traced to, the storage whatever field GetMirrorSTH is invoked on (c15Getters).

const c15StorageCall = "iface(trillian/ctfe.MirrorSTHStorage).GetMirrorSTH"

// c15Plain: a term as seen from the function that contains the literal it was rendered in (captures and on-the-spot
// parameters are marked "^" by the describer).
func c15Plain(s string) string { return strings.ReplaceAll(s, "^", "") }

func c15MirrorServes(r *Run, fn *ssa.Function, k, root, fStorage string) {
	r.Assume("an implementation of MirrorSTHStorage.GetMirrorSTH answers with an STH whose tree size does not exceed maxTreeSize (interface contract)")
	rootTS := ""
	if root != "" {
		rootTS = root + ".TreeSize"
	}
	// the storage is asked at all (the mirror serves what its storage holds); which lookups have to be bounded by this
	// call's backend root is decided below: those whose answer a success return can serve as it is
	calls := CallsToDeep(fn, c15StorageCall)
	r.Check(k+"storage", len(calls) >= 1, r.FnPos(fn), fmt.Sprintf("%d lookup(s) of the mirror's STH storage in %s (at least one)", len(calls), FuncName(fn)))
	checked := map[ssa.CallInstruction]bool{}
	lookup := func(c ssa.CallInstruction) bool {
		if checked[c] {
			return true
		}
		checked[c] = true
		args := CallArgs(c)
		if len(args) < 3 {
			r.Fail(k+"storage.maxTreeSize", r.Where(c), "undecided: "+CalleeOf(c)+" called with fewer than two arguments")
			return false
		}
		recv := c15Plain(r.D.D(args[0]))
		ok := r.Check(k+"storage.receiver", recv == "p0."+fStorage, r.Where(c), fmt.Sprintf("the lookup whose answer is served goes to %s (expected the getter's own storage p0.%s)", recv, fStorage))
		bound := c15Plain(r.D.D(args[2]))
		return r.Check(k+"storage.maxTreeSize", rootTS != "" && glob(rootTS, bound), r.Where(c), fmt.Sprintf("the lookup whose answer is served is bounded by %s (expected the tree size of this call's backend root, %s.TreeSize)", bound, root)) && ok
	}
	c15GateErrors(r, fn, k+"errors", 2)

	owner := c15RecvStruct(fn)
	if owner == nil {
		r.Fail(k+"served-sth-within-backend-tree", r.FnPos(fn), "undecided: the receiver of "+FuncName(fn)+" is not a pointer to a struct")
		return
	}
	heldMemo := map[*ssa.Function]map[ssa.Instruction]held{}
	heldIn := func(g *ssa.Function) map[ssa.Instruction]held {
		if heldMemo[g] == nil {
			heldMemo[g] = r.heldAt(g)
		}
		return heldMemo[g]
	}
	remembered := map[*types.Var]bool{}
	rets := sgOkReturns(fn)
	if len(rets) == 0 {
		r.Fail(k+"served-sth-within-backend-tree", r.FnPos(fn), "undecided: "+FuncName(fn)+" has no success return")
	}
	for _, ret := range rets {
		served := sgRetVals(ret)[0]
		n := 0
		for _, lf := range c15Leaves(served, nil) {
			for _, cl := range c15Classify(r, lf.v, owner, 0) {
				n++
				what := r.D.D(lf.v)
				switch cl.kind {
				case "nil":
					// no STH at all on this path: nothing is served that could be larger than the tree
				case "storage":
					// the answer of a lookup made in this call: that lookup goes to the getter's storage and is bounded by the
					// tree size of this call's backend root (where the lookup cannot be told, every lookup has to be)
					ok := true
					if c := c15LookupOf(cl.chain[len(cl.chain)-1]); c != nil {
						ok = lookup(c)
					} else {
						for _, c := range calls {
							ok = lookup(c) && ok
						}
					}
					r.Check(k+"served-sth-within-backend-tree@storage-answer", ok, r.Where(ret), "serves "+what+": the storage's answer in this call, to a question bounded by this call's backend root")
				case "remembered":
					remembered[cl.read.field] = true
					c15ServedRemembered(r, fn, k, ret, lf, cl, rootTS, heldIn(fn))
				default:
					r.Fail(k+"served-sth-within-backend-tree@other", r.Where(ret), "undecided: serves "+what+" ("+cl.why+"): neither the storage's answer to this call's bounded question, nor an STH the getter remembered, nor a private copy of one")
				}
			}
		}
		if n == 0 {
			r.Fail(k+"served-sth-within-backend-tree", r.Where(ret), "undecided: no value found for the STH result of this return")
		}
	}
	var fields []*types.Var
	for f := range remembered {
		fields = append(fields, f)
	}
	sort.Slice(fields, func(i, j int) bool { return fields[i].Name() < fields[j].Name() })
	for _, f := range fields {
		c15RememberedWriters(r, k, f, owner, fStorage)
		c15RememberedLocked(r, k, f, owner, heldIn)
	}
	if os.Getenv("CTVERIF_C15_DEBUG") != "" { // dev: the obligations of this clause, passed ones included
		for _, o := range r.Obls {
			if strings.Contains(o.Key, k) {
				fmt.Fprintf(os.Stderr, "C15DEBUG ok=%v %s @%s: %s\n", o.OK, o.Key, o.Where, o.Detail)
			}
		}
	}
}

// c15LookupOf: the storage lookup whose first result v is (nil when v is not an extracted result of a call).
func c15LookupOf(v ssa.Value) ssa.CallInstruction {
	ex, ok := v.(*ssa.Extract)
	if !ok || ex.Index != 0 {
		return nil
	}
	c, ok := ex.Tuple.(*ssa.Call)
	if !ok || !glob(c15StorageCall, CalleeOf(c)) {
		return nil
	}
	return c
}

// c15RecvStruct: the named struct type behind the pointer receiver of fn.
func c15RecvStruct(fn *ssa.Function) *types.Named {
	if len(fn.Params) == 0 {
		return nil
	}
	pt, ok := fn.Params[0].Type().Underlying().(*types.Pointer)
	if !ok {
		return nil
	}
	n, ok := pt.Elem().(*types.Named)
	if !ok {
		return nil
	}
	if _, ok := n.Underlying().(*types.Struct); !ok {
		return nil
	}
	return n
}

// ---- the values a result can be ---------------------------------------------------------------

// c15Leaf: one value a result can be, with the φ-edges over which it arrives.
type c15Leaf struct {
	v     ssa.Value
	edges [][2]int
}

// c15Leaves resolves v through φ-nodes (recording the edges), value-preserving conversions, parameters of a
// literal called where it is written (the argument) and local cells that are stored exactly once.
func c15Leaves(v ssa.Value, edges [][2]int) []c15Leaf {
	var out []c15Leaf
	seen := map[ssa.Value]bool{}
	var visit func(v ssa.Value, edges [][2]int)
	visit = func(v ssa.Value, edges [][2]int) {
		if seen[v] {
			return
		}
		seen[v] = true
		switch x := v.(type) {
		case *ssa.Phi:
			for i, e := range x.Edges {
				ed := append(append([][2]int{}, edges...), [2]int{x.Block().Preds[i].Index, x.Block().Index})
				visit(e, ed)
			}
			return
		case *ssa.ChangeType:
			visit(x.X, edges)
			return
		case *ssa.Parameter:
			if a := onTheSpotArg(x); a != nil {
				visit(a, nil) // the argument lives in the enclosing function: its own edges
				return
			}
		case *ssa.UnOp:
			if a, ok := x.X.(*ssa.Alloc); ok && x.Op == token.MUL {
				if sv := uniqueStore(a); sv != nil {
					visit(sv, edges)
					return
				}
			}
		}
		out = append(out, c15Leaf{v, edges})
	}
	visit(v, edges)
	return out
}

// c15Read: one read of a field of the getter (directly, or as the result of an accessor).
type c15Read struct {
	field *types.Var
	at    ssa.Instruction // the load, or the call of the accessor
	base  string          // origin term of the getter the field is read from
}

type c15Class struct {
	kind  string      // "nil" | "storage" | "remembered" | "other"
	why   string      // for "other"
	chain []ssa.Value // pointer values whose TreeSize is the served one: private copies first, the original last
	read  *c15Read
}

// c15FieldLoad: v is a load of a field of a pointer to the struct owner.
func c15FieldLoad(r *Run, v ssa.Value, owner *types.Named) *c15Read {
	u, ok := v.(*ssa.UnOp)
	if !ok || u.Op != token.MUL {
		return nil
	}
	fa, ok := u.X.(*ssa.FieldAddr)
	if !ok {
		return nil
	}
	pt, ok := fa.X.Type().Underlying().(*types.Pointer)
	if !ok || !types.Identical(pt.Elem(), owner) {
		return nil
	}
	return &c15Read{field: fieldOf(fa), at: u, base: c15Plain(r.D.D(fa.X))}
}

// c15RememberedRead: v reads a field of the getter — a load, or a call of a function every result of which is such
// a load of one and the same field (an accessor, whatever it is called and whatever it locks).
func c15RememberedRead(r *Run, v ssa.Value, owner *types.Named) *c15Read {
	if rd := c15FieldLoad(r, v, owner); rd != nil {
		return rd
	}
	c, ok := v.(*ssa.Call)
	if !ok {
		return nil
	}
	g := c.Call.StaticCallee()
	if g == nil || len(g.Blocks) == 0 || g.Signature.Results().Len() != 1 {
		return nil
	}
	var got *c15Read
	for _, ret := range Returns(g) {
		if g.Recover != nil && ret.Block() == g.Recover {
			continue
		}
		for _, lf := range c15LeavesInside(sgRetVals(ret)[0]) {
			rd := c15FieldLoad(r, lf, owner)
			if rd == nil || (got != nil && got.field != rd.field) {
				return nil
			}
			got = rd
		}
	}
	if got == nil {
		return nil
	}
	// the getter the accessor reads is the one it is called on / captures, rendered in the caller's terms
	base := got.base
	if _, isLit := c.Call.Value.(*ssa.MakeClosure); !isLit && g.Parent() == nil {
		base = r.substParams(base, c)
	}
	return &c15Read{field: got.field, at: c, base: c15Plain(base)}
}

// c15LeavesInside: leaves of v without leaving the function (φ, conversions, single-store cells).
func c15LeavesInside(v ssa.Value) []ssa.Value {
	var out []ssa.Value
	seen := map[ssa.Value]bool{}
	var visit func(v ssa.Value)
	visit = func(v ssa.Value) {
		if seen[v] {
			return
		}
		seen[v] = true
		switch x := v.(type) {
		case *ssa.Phi:
			for _, e := range x.Edges {
				visit(e)
			}
			return
		case *ssa.ChangeType:
			visit(x.X)
			return
		case *ssa.UnOp:
			if a, ok := x.X.(*ssa.Alloc); ok && x.Op == token.MUL {
				if sv := uniqueStore(a); sv != nil {
					visit(sv)
					return
				}
			}
		}
		out = append(out, v)
	}
	visit(v)
	return out
}

// c15CopyOf: a is a fresh object that holds a copy of *src as far as the tree size goes: exactly one whole-value
// store into it, made in the block that creates it, of a value loaded through src; nobody else can write its TreeSize
// (no store through a TreeSize address, the object is not handed to a call).
func c15CopyOf(r *Run, a *ssa.Alloc) (src ssa.Value, why string) {
	if _, ok := a.Type().Underlying().(*types.Pointer).Elem().Underlying().(*types.Struct); !ok {
		return nil, "not a struct object"
	}
	var whole *ssa.Store
	var bad string
	var fieldRefs func(v ssa.Value, onSize bool)
	fieldRefs = func(v ssa.Value, onSize bool) {
		refs := v.Referrers()
		if refs == nil {
			return
		}
		for _, ref := range *refs {
			switch x := ref.(type) {
			case *ssa.FieldAddr:
				st := x.X.Type().Underlying().(*types.Pointer).Elem().Underlying().(*types.Struct)
				fieldRefs(x, onSize || (v == ssa.Value(a) && st.Field(x.Field).Name() == "TreeSize"))
			case *ssa.Store:
				switch {
				case x.Addr == v && v == ssa.Value(a):
					if whole != nil {
						bad = "filled by more than one whole-value store"
					}
					whole = x
				case x.Addr == v && onSize:
					bad = "its TreeSize is written separately at " + r.Where(x)
				case x.Addr == v:
					// another field is (re)written: a deep copy of a slice, say
				default:
					// the address is stored somewhere: the object itself (x.Val == a) is what a remembered field
					// or a result cell holds; the address of its TreeSize must not leak
					if onSize {
						bad = "the address of its TreeSize escapes"
					}
				}
			case *ssa.UnOp, *ssa.DebugRef, *ssa.Phi, *ssa.Return, *ssa.ChangeType, *ssa.BinOp, *ssa.If:
			case *ssa.MakeInterface, *ssa.Slice, *ssa.IndexAddr:
				if onSize || v == ssa.Value(a) {
					bad = "the object is handed on as " + x.String()
				}
			default:
				if ci, ok := ref.(ssa.CallInstruction); ok {
					if onSize || v == ssa.Value(a) {
						bad = "the object is handed to " + CalleeOf(ci)
					}
					continue
				}
				if onSize || v == ssa.Value(a) {
					bad = "used by " + ref.String()
				}
			}
		}
	}
	fieldRefs(a, false)
	if bad != "" {
		return nil, bad
	}
	if whole == nil {
		return nil, "a fresh object not filled by a whole-value copy"
	}
	if whole.Block() != a.Block() {
		return nil, "filled in another block than the one that creates it"
	}
	ld, ok := whole.Val.(*ssa.UnOp)
	if !ok || ld.Op != token.MUL {
		return nil, "filled with a value that is not a copy of another object"
	}
	return ld.X, ""
}

func c15Classify(r *Run, v ssa.Value, owner *types.Named, depth int) []c15Class {
	if depth > 4 {
		return []c15Class{{kind: "other", why: "copy chain too deep"}}
	}
	if isNilConst(v) {
		return []c15Class{{kind: "nil"}}
	}
	if glob(c15StorageCall+"(*)#0", c15Plain(r.D.D(v))) {
		return []c15Class{{kind: "storage", chain: []ssa.Value{v}}}
	}
	if rd := c15RememberedRead(r, v, owner); rd != nil {
		if rd.base != "p0" {
			return []c15Class{{kind: "other", why: "a field of another getter, " + rd.base}}
		}
		return []c15Class{{kind: "remembered", chain: []ssa.Value{v}, read: rd}}
	}
	if a, ok := v.(*ssa.Alloc); ok {
		src, why := c15CopyOf(r, a)
		if src == nil {
			return []c15Class{{kind: "other", why: why}}
		}
		var out []c15Class
		for _, lf := range c15Leaves(src, nil) {
			for _, cl := range c15Classify(r, lf.v, owner, depth+1) {
				if cl.kind == "nil" {
					continue // a copy of *nil does not come into being
				}
				cl.chain = append([]ssa.Value{v}, cl.chain...)
				out = append(out, cl)
			}
		}
		if len(out) == 0 {
			return []c15Class{{kind: "other", why: "a copy of nothing"}}
		}
		return out
	}
	return []c15Class{{kind: "other", why: "origin " + r.D.D(v)}}
}

// ---- (b): a remembered STH is served only when it is not larger than this call's backend tree -----

// c15SizeOwner: v is the TreeSize of the object p points to (through integer conversions); returns p.
func c15SizeOwner(v ssa.Value) ssa.Value {
	for i := 0; i < 4; i++ {
		switch x := v.(type) {
		case *ssa.Convert:
			v = x.X
			continue
		case *ssa.ChangeType:
			v = x.X
			continue
		}
		break
	}
	u, ok := v.(*ssa.UnOp)
	if !ok || u.Op != token.MUL {
		return nil
	}
	fa, ok := u.X.(*ssa.FieldAddr)
	if !ok {
		return nil
	}
	st := fa.X.Type().Underlying().(*types.Pointer).Elem().Underlying().(*types.Struct)
	if st.Field(fa.Field).Name() != "TreeSize" {
		return nil
	}
	return fa.X
}

func c15ServedRemembered(r *Run, fn *ssa.Function, k string, ret *ssa.Return, lf c15Leaf, cl c15Class, rootTS string, heldFn map[ssa.Instruction]held) {
	owner := c15RecvStruct(fn)
	what := c15Plain(r.D.D(cl.chain[len(cl.chain)-1]))
	if len(cl.chain) > 1 {
		what = "a private copy of " + what
	}
	key := k + "served-sth-within-backend-tree@remembered:" + cl.read.field.Name()
	if rootTS == "" {
		r.Fail(key, r.Where(ret), "undecided: the backend root of this call is not bound, "+what+" is served")
		return
	}
	// the branch conditions that compare the tree size of the served value (or of what it is a copy of) with the
	// tree size of this call's backend root
	atoms := r.D.AtomsOf(fn)
	larger := Sigma{} // the comparison came out "served > backend"
	type test struct {
		cmp   *ssa.BinOp
		owner ssa.Value
	}
	var otherReads []test
	eachInstr(fn, func(in ssa.Instruction) {
		b, ok := in.(*ssa.BinOp)
		if !ok {
			return
		}
		switch b.Op {
		case token.EQL, token.NEQ, token.LSS, token.LEQ, token.GTR, token.GEQ:
		default:
			return
		}
		ci := r.D.Classify(b)
		if ci.Kind != "ord" || atoms[ci.Key] == nil {
			return
		}
		for side, x := range []ssa.Value{b.X, b.Y} {
			other := b.Y
			if side == 1 {
				other = b.X
			}
			p := c15SizeOwner(x)
			if p == nil || !glob(rootTS, r.D.D(other)) {
				continue
			}
			// the object whose size is compared is the served one when every non-nil value the pointer can be (through
			// φ-nodes: a nil one has no TreeSize to read) is the served value, a copy it was made from, or its copy
			same, sameField := false, false
			if pl := c15LeavesInside(p); len(pl) > 0 {
				same = true
				for _, x := range pl {
					in := isNilConst(x)
					for _, al := range cl.chain {
						in = in || x == al
					}
					same = same && in
				}
			}
			if !same {
				// another read of the same remembered field
				if rd := c15RememberedRead(r, p, owner); rd != nil && rd.field == cl.read.field && rd.base == cl.read.base {
					sameField = true
				}
			}
			if !same && !sameField {
				continue
			}
			// "served > backend" in the atom's own operand order
			if r.D.D(x) == ci.A {
				larger[ci.Key] = ">"
			} else {
				larger[ci.Key] = "<"
			}
			if !same {
				otherReads = append(otherReads, test{b, p})
			}
		}
	})
	if len(larger) == 0 {
		r.Fail(key, r.Where(ret), fmt.Sprintf("%s is served whatever its tree size: no branch of %s compares its TreeSize with the tree size of this call's backend root (%s) — a backend that reports a smaller tree than the remembered STH covers gets that STH served", what, FuncName(fn), rootTS))
		return
	}
	via := func(reach *Reach) bool {
		if !reach.Has(ret) {
			return false
		}
		for _, e := range lf.edges {
			if !reach.Edges[e] {
				return false
			}
		}
		return true
	}
	r.Valuations++
	if via(r.D.Walk(fn, larger, nil, nil)) {
		r.Fail(key, r.Where(ret), fmt.Sprintf("%s can be served although its tree size exceeds the tree size of this call's backend root: the success return is reachable under %s", what, larger))
		return
	}
	control := false
	for _, val := range []string{"=", "<"} {
		s := Sigma{}
		for kk, v := range larger {
			switch {
			case val == "=":
				s[kk] = "="
			case v == ">":
				s[kk] = "<"
			default:
				s[kk] = ">"
			}
		}
		r.Valuations++
		if via(r.D.Walk(fn, s, nil, nil)) {
			control = true
		}
	}
	if !r.Check(key, control, r.Where(ret), fmt.Sprintf("%s is served only when its tree size does not exceed the tree size of this call's backend root (return unreachable under %s; reachable otherwise)", what, larger)) {
		return
	}
	// the value tested is the value served
	keyS := k + "served-sth-is-tested-sth@remembered:" + cl.read.field.Name()
	if len(otherReads) == 0 {
		r.Pass(keyS, r.Where(ret), "the tree size compared with the backend root is read from the very value that is served ("+what+")")
		return
	}
	// different reads of the remembered field: one mutex of the getter must be held from the one to the other
	mus := c15MutexFields(owner)
	for _, t := range otherReads {
		rd := c15RememberedRead(r, t.owner, owner)
		ok := false
		why := "no mutex of the getter is held at both reads"
		for _, m := range mus {
			term := "&(" + cl.read.base + "." + m + ")"
			if _, h := heldFn[rd.at][term]; !h {
				continue
			}
			if _, h := heldFn[cl.read.at][term]; !h {
				continue
			}
			if n := c15Unlocks(r, fn, term); n > 0 {
				why = fmt.Sprintf("%s is held at both reads but is unlocked (not deferred) %d time(s) in %s: undecided whether it is held from the one read to the other", term, n, FuncName(fn))
				continue
			}
			ok = true
		}
		r.Check(keyS, ok, r.Where(t.cmp), fmt.Sprintf("the tree size compared with the backend root is read from one read of %s.%s (%s), the STH served from another (%s): %s", cl.read.base, cl.read.field.Name(), r.Where(rd.at), r.Where(cl.read.at),
			map[bool]string{true: "a mutex of the getter is held from the first read to the return", false: why + " — a concurrent GetSTH may replace the remembered STH between the test and the use"}[ok]))
	}
}

// c15MutexFields: names of the sync.Mutex / sync.RWMutex fields of the struct.
func c15MutexFields(owner *types.Named) []string {
	var out []string
	st := owner.Underlying().(*types.Struct)
	for i := 0; i < st.NumFields(); i++ {
		t := st.Field(i).Type()
		if p, ok := t.(*types.Pointer); ok {
			t = p.Elem()
		}
		if n, ok := t.(*types.Named); ok && n.Obj().Pkg() != nil && n.Obj().Pkg().Path() == "sync" && (n.Obj().Name() == "Mutex" || n.Obj().Name() == "RWMutex") {
			out = append(out, st.Field(i).Name())
		}
	}
	return out
}

// c15Unlocks: number of non-deferred unlocks of the mutex in fn.
func c15Unlocks(r *Run, fn *ssa.Function, term string) int {
	n := 0
	eachInstr(fn, func(in ssa.Instruction) {
		if c, ok := in.(*ssa.Call); ok && lockOp(&c.Call) == "-" && r.D.D(c.Call.Args[0]) == term {
			n++
		}
	})
	return n
}

// ---- what a remembered field holds, and how it is accessed ------------------------------------------

// c15Accesses: every load and store of field f of a pointer to owner, module-wide.
func c15Accesses(r *Run, f *types.Var, owner *types.Named, visit func(g *ssa.Function, fa *ssa.FieldAddr, at ssa.Instruction, st *ssa.Store)) {
	for _, g := range r.P.ModFuncs {
		eachInstr(g, func(in ssa.Instruction) {
			fa, ok := in.(*ssa.FieldAddr)
			if !ok || fieldOf(fa) != f {
				return
			}
			refs := fa.Referrers()
			if refs == nil {
				return
			}
			for _, ref := range *refs {
				switch x := ref.(type) {
				case *ssa.Store:
					if x.Addr == ssa.Value(fa) {
						visit(g, fa, x, x)
					} else {
						visit(g, fa, x, nil) // the address itself is stored: treated as an access that must be decided
					}
				case *ssa.DebugRef:
				default:
					visit(g, fa, ref, nil)
				}
			}
		})
	}
}

// c15SitesIn: the instructions of host at which in executes — in itself, or the calls of the literal that contains it.
func c15SitesIn(host *ssa.Function, in ssa.Instruction) []ssa.Instruction {
	g := in.Parent()
	if g == host {
		return []ssa.Instruction{in}
	}
	var out []ssa.Instruction
	for depth := 0; g != nil && depth < 3; depth++ {
		if g.Parent() == host {
			eachInstr(host, func(c ssa.Instruction) {
				if call, ok := c.(*ssa.Call); ok && call.Call.StaticCallee() == g {
					out = append(out, call)
				}
			})
			return out
		}
		g = g.Parent()
	}
	return nil
}

func c15RememberedWriters(r *Run, k string, f *types.Var, owner *types.Named, fStorage string) {
	name := owner.Obj().Name() + "." + f.Name()
	keyV, keyG := k+"remembered-sth-from-storage", k+"remembered-sth-after-error-gate"
	n := 0
	c15Accesses(r, f, owner, func(g *ssa.Function, fa *ssa.FieldAddr, at ssa.Instruction, st *ssa.Store) {
		if st == nil {
			return
		}
		n++
		for _, lf := range c15Leaves(st.Val, nil) {
			for _, cl := range c15Classify(r, lf.v, owner, 0) {
				switch cl.kind {
				case "nil":
					r.Pass(keyV, r.Where(st), name+" ← nil (nothing remembered)")
				case "storage":
					// the answer of a lookup: the lookup's receiver and bound are decided where it is made (every lookup of
					// the function that contains it, below); here: no store once its error is non-nil
					call, _ := c15LookupOf(cl.chain[len(cl.chain)-1]).(*ssa.Call)
					if call == nil {
						r.Fail(keyV, r.Where(st), "undecided: "+name+" ← "+r.D.D(lf.v)+": the lookup that produced it is not a call in sight")
						continue
					}
					host := call.Parent()
					// (its bound does not matter: whatever is remembered is served under the test of its own tree size only)
					recv := c15Plain(r.D.D(CallArgs(call)[0]))
					okV := recv == "p0."+fStorage && c15RecvStruct(c15Outermost(host)) == owner
					r.Check(keyV, okV, r.Where(st), fmt.Sprintf("%s ← %s answer of %s, obtained in %s (expected: of the getter's own storage p0.%s)", name, map[bool]string{true: "a private copy of the", false: "the"}[len(cl.chain) > 1], recv, FuncName(host), fStorage))
					ev := CallResult(call, 1)
					sites := c15SitesIn(host, st)
					if ev == nil || len(sites) == 0 {
						r.Fail(keyG, r.Where(st), "undecided: the error of the lookup is discarded, or the store is not made in the function of the lookup")
						continue
					}
					atom := "nil?" + r.D.D(ev)
					if r.D.AtomsOf(host)[atom] == nil {
						r.Fail(keyG, r.Where(st), "undecided: no branch of "+FuncName(host)+" tests the error of the lookup ("+atom+")")
						continue
					}
					r.Valuations++
					reach := r.D.Walk(host, Sigma{atom: "non"}, nil, nil)
					hit := false
					for _, s := range sites {
						hit = hit || reach.Has(s)
					}
					r.Check(keyG, !hit, r.Where(st), fmt.Sprintf("%s is %s once the lookup's error is non-nil (%s=non)", name, map[bool]string{true: "still written", false: "not written"}[hit], atom))
				case "remembered":
					r.Check(keyV, cl.read.field == f, r.Where(st), name+" ← "+c15Plain(r.D.D(cl.chain[len(cl.chain)-1]))+" (what was remembered before)")
				default:
					r.Fail(keyV, r.Where(st), fmt.Sprintf("undecided: %s ← %s (%s): the getter later serves this field, and this is neither nil nor an answer of its storage nor a private copy of one", name, r.D.D(lf.v), cl.why))
				}
			}
		}
	})
	if n == 0 {
		// served but never written: only the zero value (nil) can be read
		r.Pass(keyV, "-", name+" is never written: it holds nil")
	}
}

func c15Outermost(g *ssa.Function) *ssa.Function {
	for g != nil && g.Parent() != nil {
		g = g.Parent()
	}
	return g
}

func c15RememberedLocked(r *Run, k string, f *types.Var, owner *types.Named, heldIn func(*ssa.Function) map[ssa.Instruction]held) {
	name := owner.Obj().Name() + "." + f.Name()
	key := k + "remembered-sth-under-lock"
	mus := c15MutexFields(owner)
	type acc struct {
		at   ssa.Instruction
		held map[string]bool // mutex fields of the same getter held at the access
	}
	var accs []acc
	c15Accesses(r, f, owner, func(g *ssa.Function, fa *ssa.FieldAddr, at ssa.Instruction, st *ssa.Store) {
		if baseAlloc(fa.X) != nil {
			return // a getter under construction in this function: not shared yet
		}
		a := acc{at: at, held: map[string]bool{}}
		base := selBase(r.D.D(fa.X))
		for _, m := range mus {
			// a read may hold the mutex in either mode, anything else needs it exclusively
			h, ok := heldIn(g)[at]["&("+base+"."+m+")"]
			_, isLoad := at.(*ssa.UnOp)
			if ok && (h == 'W' || isLoad) {
				a.held[m] = true
			}
		}
		accs = append(accs, a)
	})
	if len(mus) == 0 {
		r.Fail(key, "-", fmt.Sprintf("%s is read and written by concurrent GetSTH calls (%d accesses) and the getter has no mutex", name, len(accs)))
		return
	}
	best, bestBad := "", []acc(nil)
	for _, m := range mus {
		var bad []acc
		for _, a := range accs {
			if !a.held[m] {
				bad = append(bad, a)
			}
		}
		if best == "" || len(bad) < len(bestBad) {
			best, bestBad = m, bad
		}
	}
	if len(bestBad) == 0 {
		r.Pass(key, "-", fmt.Sprintf("all %d reads and writes of %s happen with %s.%s held", len(accs), name, owner.Obj().Name(), best))
		return
	}
	for _, a := range bestBad {
		r.Fail(key, r.Where(a.at), fmt.Sprintf("%s is accessed here without %s.%s held (the other accesses hold it): concurrent GetSTH calls race on the remembered STH, a reader may see a half-published object whose tree size is not the one it tested", name, owner.Obj().Name(), best))
	}
}

// ---- errors gate on resolved returns ----------------------------------------------------------------

// c15GateErrors is ErrorsGate with the success returns taken from the resolved results (a function with a deferred
// call returns through result cells): once the error of any call in fn is non-nil, no success return executes.
func c15GateErrors(r *Run, fn *ssa.Function, key string, min int) {
	var succ []ssa.Instruction
	for _, ret := range sgOkReturns(fn) {
		succ = append(succ, ret)
	}
	errT := types.Universe.Lookup("error").Type()
	n := 0
outer:
	for _, c := range CallsTo(fn, "*") {
		name := CalleeOf(c)
		for _, ig := range errGateIgnore {
			if glob(ig, name) {
				continue outer
			}
		}
		if _, isCall := c.(*ssa.Call); !isCall {
			continue
		}
		v := c.Value()
		var ev ssa.Value
		if tup, ok := v.Type().(*types.Tuple); ok {
			if tup.Len() == 0 || !types.Identical(tup.At(tup.Len()-1).Type(), errT) {
				continue
			}
			ev = CallResult(c, tup.Len()-1)
			if ev == nil {
				r.Fail(key+"@"+name, r.Where(c), "error result of "+name+" is discarded")
				n++
				continue
			}
		} else {
			if !types.Identical(v.Type(), errT) {
				continue
			}
			ev = v
		}
		n++
		tested := ev
		if !hasNilTest(ev) {
			for _, ref := range *ev.Referrers() {
				if ph, ok := ref.(*ssa.Phi); ok && hasNilTest(ph) {
					tested = ph
				}
			}
		}
		r.MustGuardFrom(fn, c.Block(), key+"@"+name, "nil?"+r.D.D(tested), "non", succ, "success return of "+FuncName(fn))
	}
	if n < min {
		r.Fail(key, r.FnPos(fn), fmt.Sprintf("expected >= %d error-returning calls in %s, found %d", min, FuncName(fn), n))
	}
}
