package main

import (
	"fmt"
	"go/token"
	"go/types"

	"golang.org/x/tools/go/ssa"
)

func init() {
	register("C06", "Decides the front end's share of 'one verifiable, append-only history' — faithful relaying — as structural necessary conditions: "+
		"(R1) every STH a success return of LogSTHGetter.GetSTH hands out (results read through the result variables of a function with a deferred call) is built in that call from ONE backend root value: TreeSize ← root.TreeSize, Timestamp ← root.TimestampNanos / 1 000 000 (ns → ms), SHA256RootHash ← root.RootHash, Version V1; that root resolves — through the success returns of any number of functions or function literals called on the way, and through a field of an object that a caller published in a cell of this instance, every store into that field being such a root fetched for the instance the object was published in and the publisher withdrawing the object on every way out (so a root found there belongs to a fetch still in flight, never to a finished one) — to the local a GetLatestSignedLogRoot reply was decoded into, the request going to this instance's backend client with this instance's log id whichever way these values reach the RPC, and the function issuing the RPC rejects backend errors, missing or garbled roots and hashes that are not 32 bytes; a root the getter merely remembered from an earlier call is not such a root; the errors of the fetch and of the signing block the success returns, and an empty signature is an error; every STH handed out is signed: signV1TreeHead with the log's signer was passed on every path to the return, or its signature is that of a tree head the getter remembered, which is decided safe only if the signature is reused under an equality test of every field the signature input is serialised from (read off ct.SerializeSTHSignatureInput: Version, TreeSize, Timestamp, SHA256RootHash; a field that is the same constant in every tree head built counts as equal), each compared after the served tree head's field was set, the remembered tree head is (a whole-value copy of) the tree head this function built, taken only after its signing succeeded with a non-empty signature, is written by nobody else and never modified in place, and the getter's cell is accessed under a mutex of the getter (lock discipline over the whole module); "+
		"(R2) signV1TreeHead signs SHA-256 of SerializeSTHSignatureInput(*sth) with SHA-256 options and uses a cached signature only when the cache holds a signature for exactly those bytes; "+
		"(R3) SignatureCache and ctutil.LogInfo state is accessed under its mutex; "+
		"(R4) get-sth-consistency / get-proof-by-hash / get-entry-and-proof forward first/second, hash/tree_size, leaf_index/tree_size to the backend fields of the same meaning on this log and relay the proof hashes, leaf index and leaf bytes of the backend's reply (whichever function issues the RPC: the handler or the one function it calls for it), and the leaf get-entry-and-proof relays has gone through FixLogLeaf, its failure blocking success; first = 0 ⇒ empty proof; writeSTH serialises the STH it was given; "+
		"(R5) the client library sends each argument under its RFC 6962 parameter name and VerifyInclusionAt verifies (index, size, leaf hash, path, root) in that order and returns the index only after verification; the leaf hash is SHA-256(0x00 ‖ leaf); "+
		"(R6) the STH getter is chosen only in newLogInfo and get-sth reaches the backend only through it. "+
		"NOT covered: append-only-ness and proof validity (backend + Merkle library), linkage of STHs across a history, sequencing, concurrency of handlers beyond the shared state of R3 and the getter's remembered tree head; for a root shared between concurrent callers: that a waiter reads the shared root only after the fetch completed (channel / flag synchronisation), and how long before a waiter's own request the backend may have read a root that was in flight when the waiter arrived; aliasing between a remembered tree head and one handed to a caller (callers are assumed not to modify the STH they receive).",
		runC06)
}

func runC06(r *Run) {
	r.Assume("the Trillian backend maintains an append-only Merkle tree and returns proofs for the sizes asked")

	r.Rule("C06.R1")
	if fn := r.Fn("(*trillian/ctfe.LogSTHGetter).GetSTH"); fn != nil {
		// what a success return hands out: an STH built in this call from one root that resolves to the decoded reply
		// of a latest-root RPC sent for this instance, signed in this call or carrying a remembered signature that is
		// decided safe (rules_t8c06.go)
		c06GetSTH(r, fn)
	}

	r.Rule("C06.R2")
	if fn := r.Fn("trillian/ctfe.signV1TreeHead"); fn != nil {
		ser := r.OneCall(fn, "signV1TreeHead:serialize", "ct.SerializeSTHSignatureInput")
		if ser != nil {
			r.ExpectArg(ser, "signV1TreeHead:input", 0, "*p1")
		}
		// the digest signed is SHA-256 of the serialized tree head: New/Write/Sum(nil) over it, or the one-shot
		// sha256.Sum256 of it handed to Sign in full
		sign := r.OneCall(fn, "signV1TreeHead:sign", "iface(crypto.Signer).Sign")
		var oneShot ssa.CallInstruction
		if sign != nil {
			oneShot = c06OneShotSHA256(fn, CallArgs(sign)[2], sign)
		}
		if oneShot != nil {
			r.Pass("signV1TreeHead:sign.digest", r.Where(sign), "arg 2 of iface(crypto.Signer).Sign = "+r.D.D(CallArgs(sign)[2])+": the whole, unmodified result of one sha256.Sum256 call")
			r.ExpectArg(oneShot, "signV1TreeHead:hash.bytes", 0, "ct.SerializeSTHSignatureInput(*p1)#0")
		} else if w := r.OneCall(fn, "signV1TreeHead:hash-write", "iface(hash.Hash).Write"); w != nil {
			r.ExpectArg(w, "signV1TreeHead:hash.h", 0, "sha256.New()")
			r.ExpectArg(w, "signV1TreeHead:hash.bytes", 1, "ct.SerializeSTHSignatureInput(*p1)#0")
		}
		if c := sign; c != nil {
			r.ExpectArg(c, "signV1TreeHead:sign.signer", 0, "p0")
			if oneShot == nil {
				r.ExpectArg(c, "signV1TreeHead:sign.digest", 2, "iface(hash.Hash).Sum(sha256.New(*), nil)")
			}
			r.ExpectArg(c, "signV1TreeHead:sign.opts", 3, "5")
		}
		if g := r.OneCall(fn, "signV1TreeHead:cache-get", "(*trillian/ctfe.SignatureCache).GetSignature"); g != nil {
			r.ExpectArg(g, "signV1TreeHead:cache-get.key", 1, "ct.SerializeSTHSignatureInput(*p1)#0")
		}
		if s := r.OneCall(fn, "signV1TreeHead:cache-set", "(*trillian/ctfe.SignatureCache).SetSignature"); s != nil {
			r.ExpectArg(s, "signV1TreeHead:cache-set.key", 1, "ct.SerializeSTHSignatureInput(*p1)#0")
			// the signature cached is the one this call hands out in the STH: read back from sth.TreeHeadSignature, or
			// the very value that was stored into it before the cache is set
			if sig := CallArgs(s)[2]; c06IsValueStored(r, fn, sig, "&(p1.TreeHeadSignature)", s) {
				r.Pass("signV1TreeHead:cache-set.sig", r.Where(s), "arg 2 of "+CalleeOf(s)+" = "+r.D.D(sig)+": the value just stored into p1.TreeHeadSignature")
			} else {
				r.ExpectArg(s, "signV1TreeHead:cache-set.sig", 2, "p1.TreeHeadSignature")
			}
		}
		// the cached signature is used only on the ok edge
		hit := "(*trillian/ctfe.SignatureCache).GetSignature(*)#1"
		for _, st := range r.StoresTo(fn, "&(p1.TreeHeadSignature)") {
			if glob("(*trillian/ctfe.SignatureCache).GetSignature(*)#0", r.D.D(st.Val)) {
				r.MustGuardAfter(fn, "signV1TreeHead:cached-only-on-hit", hit, "F", []ssa.Instruction{st}, "use of the cached signature")
			} else {
				r.ExpectFields(fn, "signV1TreeHead:sig", st.Val, map[string]string{
					"Algorithm.Hash":      "4",
					"Algorithm.Signature": "tls.SignatureAlgorithmFromPubKey(iface(crypto.Signer).Public(p0))",
					"Signature":           "iface(crypto.Signer).Sign(*)#0",
				})
			}
		}
		r.Check("signV1TreeHead:stores", len(r.StoresTo(fn, "&(p1.TreeHeadSignature)")) == 2, r.FnPos(fn), "signature set on the cache-hit path and on the signing path")
		r.ErrorsGate(fn, "signV1TreeHead:errors", "*", 2)
	}
	if fn := r.Fn("(*trillian/ctfe.SignatureCache).GetSignature"); fn != nil {
		_, err := r.D.Table(fn, nil, nil, []RuleAtom{{Name: "eq", Pat: "bytes.Equal(p1, p0.input)"}}, func(val map[string]string, reach *Reach, s Sigma) {
			r.Valuations++
			// what the returns that may execute hand out (a result that is spilled to a result variable because
			// of a deferred unlock is read back through the store that precedes the return)
			var oks []string
			var sigs []string
			for _, ret := range reachableReturns(fn, reach) {
				sigs = append(sigs, r.D.D(c06ReturnedValue(ret, 0)))
				oks = append(oks, r.D.D(c06ReturnedValue(ret, 1)))
			}
			allAre := func(xs []string, want string) bool {
				for _, x := range xs {
					if x != want {
						return false
					}
				}
				return len(xs) >= 1
			}
			if val["eq"] == "T" {
				r.Check("GetSignature[input-matches]", allAre(oks, "true") && allAre(sigs, "p0.sig"), r.FnPos(fn), fmt.Sprintf("input equal ⇒ (%v, %v)", sigs, oks))
			} else {
				r.Check("GetSignature[input-differs]", allAre(oks, "false"), r.FnPos(fn), fmt.Sprintf("input differs ⇒ ok=%v", oks))
			}
		})
		if err != nil {
			r.Fail("GetSignature", r.FnPos(fn), "undecided: "+err.Error())
		}
	}
	if fn := r.Fn("(*trillian/ctfe.SignatureCache).SetSignature"); fn != nil {
		r.ExpectStores(fn, "SetSignature.input", "&(p0.input)", "p1", 1)
		r.ExpectStores(fn, "SetSignature.sig", "&(p0.sig)", "p2", 1)
	}

	r.Rule("C06.R3")
	r.LockCheck(lockTable["SignatureCache"])
	r.LockCheck(lockTable["LogInfo"])

	r.Rule("C06.R4")
	c06Forwarding(r)

	r.Rule("C06.R5")
	c06Client(r)

	r.Rule("C06.R6")
	w := r.FieldWriters("trillian/ctfe.logInfo.sthGetter")
	for _, k := range keysOf(w) {
		r.Check("who-writes:sthGetter@"+k, k == "trillian/ctfe.newLogInfo", r.Where(w[k][0]), k+" assigns logInfo.sthGetter")
	}
	// newLogInfo assigns a getter of its own for each kind of log: three assignments, or fewer assignments of a
	// value that merges (φ) the alternatives selected before — what counts is the number of distinct values
	// that can be assigned
	nGetters := map[ssa.Value]bool{}
	for _, in := range w["trillian/ctfe.newLogInfo"] {
		if st, ok := in.(*ssa.Store); ok {
			for _, leaf := range phiLeaves(st.Val) {
				nGetters[leaf] = true
			}
		}
	}
	r.Check("who-writes:sthGetter", len(nGetters) >= 3, "-", fmt.Sprintf("newLogInfo assigns the getter on %d paths (frozen / mirror / log)", len(nGetters)))
	if fn := r.Fn("trillian/ctfe.getSTH"); fn != nil {
		r.Check("getSTH:no-direct-rpc", len(CallsTo(fn, "iface(trillian.TrillianLogClient).*")) == 0, r.FnPos(fn), "the get-sth handler issues no backend call of its own")
		if c := r.OneCall(fn, "getSTH:getter", "(*trillian/ctfe.logInfo).getSTH"); c != nil {
			if w := r.OneCall(fn, "getSTH:write", "trillian/ctfe.writeSTH"); w != nil {
				r.ExpectArg(w, "getSTH:write.sth", 0, "(*trillian/ctfe.logInfo).getSTH(*)#0")
			}
		}
	}
	if fn := r.Fn("(*trillian/ctfe.logInfo).getSTH"); fn != nil {
		if c := r.OneCall(fn, "logInfo.getSTH", "iface(trillian/ctfe.STHGetter).GetSTH"); c != nil {
			r.ExpectArg(c, "logInfo.getSTH:getter", 0, "p0.sthGetter")
			for _, ret := range Returns(fn) {
				if errKind(ret.Results[1]) == "nil" {
					r.Check("logInfo.getSTH:result", glob("iface(trillian/ctfe.STHGetter).GetSTH(*)#0", r.D.D(ret.Results[0])), r.Where(ret), "returns the getter's STH unchanged")
				}
			}
		}
	}

	// every issued SCT names the stored leaf: it is built from the leaf the backend returned (rule set of C01.R1)
	r.Shared("C06.R7", func() {
		r.Rule("C01.R1")
		if fn := r.Fn("trillian/ctfe.addChainInternal"); fn != nil {
			c01ReturnedLeaf(r, fn)
		}
	})

	// the entry a client derives from certificate + SCT is the entry that was logged (rule set of C01.R7),
	// and an accepted submission's chain is retrievable (rule set of C14.R5)
	r.Shared("C06.R8", func() {
		r.Rule("C01.R7")
		c01Leaf(r)
	})
	c06MoreShares(r)
	c06DumpObls(r)
}

// c06MoreShares: further mechanisms this property rests on, decided by the rule sets of the
// properties that own them.
func c06MoreShares(r *Run) {
	// proofs and entries are only relayed for a tree the backend really has: the reply checks of the
	// read handlers (tree-too-small, absent leaf / proof, garbled root, hash sizes) — rule set C08.R3
	r.Shared("C06.R9", func() {
		r.Rule("C08.R3")
		c08Edges(r)
	})
	// "the stored entry decodes to the submitted certificate and chain" also when chains are kept
	// outside the backend — rule sets of C14
	r.Shared("C06.R10", func() { runC14(r) })
	// "… at a single index whose stored entry decodes to the submitted certificate and chain": the extra data
	// handed to the backend has the form the readers decode (full chain unless a chain hash was computed) and
	// carries the validated chain — rule sets C01.R5 (leaf construction) and C01.R6 (what the chain service passes)
	// "found by the leaf hash a client computes from the certificate and the SCT alone": every leaf a client builds
	// for an SCT and hashes carries that SCT's extensions — rule set C04.R10
	r.Shared("C06.R12", func() {
		r.Rule("C04.R10")
		c04SCTLeafExtensions(r)
	})
	r.Shared("C06.R11", func() {
		r.Rule("C01.R5")
		c01LogLeaf(r)
		r.Rule("C01.R6")
		c01ChainHandedOn(r)
	})
}

func c06Forwarding(r *Run) {
	if fn := r.Fn("trillian/ctfe.getSTHConsistency"); fn != nil {
		if c := r.OneCall(fn, "consistency:rpc", "iface(trillian.TrillianLogClient).GetConsistencyProof"); c != nil {
			r.ExpectArg(c, "consistency:client", 0, "p1.rpcClient")
			r.ExpectFields(fn, "consistency:req", CallArgs(c)[2], map[string]string{
				"LogId":          "p1.logID",
				"FirstTreeSize":  "trillian/ctfe.parseGetSTHConsistencyRange(p3)#0",
				"SecondTreeSize": "trillian/ctfe.parseGetSTHConsistencyRange(p3)#1",
			})
			// first == 0 ⇒ no RPC, empty proof
			r.MustGuardAfter(fn, "consistency:first-zero-no-rpc", "ord(0, trillian/ctfe.parseGetSTHConsistencyRange(p3)#0)", "=", []ssa.Instruction{c}, "GetConsistencyProof")
		}
		if j := r.OneCall(fn, "consistency:json", "json.Marshal"); j != nil {
			a := baseAlloc(c06Built(CallArgs(j)[0], j))
			if a != nil {
				c06RelayedOrEmpty(r, fn, "consistency:rsp", "consistency:rsp.relayed", a, "Consistency", "iface(trillian.TrillianLogClient).GetConsistencyProof(*)#0.Proof.Hashes", j)
			}
		}
	}
	if fn := r.Fn("trillian/ctfe.parseGetSTHConsistencyRange"); fn != nil {
		for _, ret := range Returns(fn) {
			if errKind(ret.Results[2]) == "nil" {
				r.Check("consistency:parse.first", glob("strconv.ParseInt((*http.Request).FormValue(p0, \"first\"), 10, 64)#0", r.D.D(ret.Results[0])), r.Where(ret), "result 0 = "+r.D.D(ret.Results[0]))
				r.Check("consistency:parse.second", glob("strconv.ParseInt((*http.Request).FormValue(p0, \"second\"), 10, 64)#0", r.D.D(ret.Results[1])), r.Where(ret), "result 1 = "+r.D.D(ret.Results[1]))
			}
		}
		F := "strconv.ParseInt((*http.Request).FormValue(p0, \"first\"), 10, 64)#0"
		Sx := "strconv.ParseInt((*http.Request).FormValue(p0, \"second\"), 10, 64)#0"
		r.FailEdge(fn, "consistency:parse", EdgeSpec{Name: "first-negative", Atom: ordAtomR(F, "0"), Bad: "<", Want: wantErr(true)})
		r.FailEdge(fn, "consistency:parse", EdgeSpec{Name: "second-negative", Atom: ordAtomR(Sx, "0"), Bad: "<", Want: wantErr(true)})
		r.FailEdge(fn, "consistency:parse", EdgeSpec{Name: "second-before-first", Atom: ordAtomR(Sx, F), Bad: "<", Want: wantErr(true)})
		r.ErrorsGate(fn, "consistency:parse.errors", "strconv.ParseInt", 2)
	}
	if fn := r.Fn("trillian/ctfe.getProofByHash"); fn != nil {
		if c := r.OneCall(fn, "proof:rpc", "iface(trillian.TrillianLogClient).GetInclusionProofByHash"); c != nil {
			r.ExpectFields(fn, "proof:req", CallArgs(c)[2], map[string]string{
				"LogId":           "p1.logID",
				"LeafHash":        "(*base64.Encoding).DecodeString(g:base64.StdEncoding, (*http.Request).FormValue(p3, \"hash\"))#0",
				"TreeSize":        "strconv.ParseInt((*http.Request).FormValue(p3, \"tree_size\"), 10, 64)#0",
				"OrderBySequence": "true",
			})
		}
		if j := r.OneCall(fn, "proof:json", "json.Marshal"); j != nil {
			built := c06Built(CallArgs(j)[0], j)
			r.ExpectFields(fn, "proof:rsp", built, map[string]string{
				"LeafIndex": "iface(trillian.TrillianLogClient).GetInclusionProofByHash(*)#0.Proof[0].LeafIndex",
			})
			if a := baseAlloc(built); a != nil {
				c06RelayedOrEmpty(r, fn, "proof:rsp.AuditPath", "proof:rsp.AuditPath.relayed", a, "AuditPath", "iface(trillian.TrillianLogClient).GetInclusionProofByHash(*)#0.Proof[0].Hashes", j)
			}
		}
	}
	if fn := r.Fn("trillian/ctfe.getEntryAndProof"); fn != nil {
		// the fetch of the backend's reply: the GetEntryAndProof RPC in the handler itself or in the one function
		// the handler calls for it — the facts below are stated on whichever function issues the RPC
		if f := c06BackendFetch(r, fn, "entry-proof:rpc", "GetEntryAndProof"); f != nil {
			if req := f.request(r, "entry-proof:req"); req != nil {
				r.ExpectFields(fn, "entry-proof:req", req, map[string]string{
					"LogId":     "p1.logID",
					"LeafIndex": "trillian/ctfe.parseGetEntryAndProofParams(p3)#0",
					"TreeSize":  "trillian/ctfe.parseGetEntryAndProofParams(p3)#1",
				})
			}
			f.relays(r, "entry-proof:rpc", "p1")
			if j := r.OneCall(fn, "entry-proof:json", "json.Marshal"); j != nil {
				r.ExpectFields(fn, "entry-proof:rsp", c06Built(CallArgs(j)[0], j), map[string]string{
					"LeafInput": f.reply() + ".Leaf.LeafValue",
					"ExtraData": f.reply() + ".Leaf.ExtraData",
					"AuditPath": f.reply() + ".Proof.Hashes",
				})
			}
			// "the stored entry decodes to the submitted certificate and chain": the leaf relayed went through
			// FixLogLeaf (restores a chain kept outside the backend) before its extra data is read
			f.chainRestored(r, "entry-proof:chain-restored")
		}
	}
	if fn := r.Fn("trillian/ctfe.parseGetEntryAndProofParams"); fn != nil {
		for _, ret := range Returns(fn) {
			if errKind(ret.Results[2]) == "nil" {
				r.Check("entry-proof:parse.leaf_index", glob("strconv.ParseInt((*http.Request).FormValue(p0, \"leaf_index\"), 10, 64)#0", r.D.D(ret.Results[0])), r.Where(ret), "result 0 = "+r.D.D(ret.Results[0]))
				r.Check("entry-proof:parse.tree_size", glob("strconv.ParseInt((*http.Request).FormValue(p0, \"tree_size\"), 10, 64)#0", r.D.D(ret.Results[1])), r.Where(ret), "result 1 = "+r.D.D(ret.Results[1]))
			}
		}
		L := "strconv.ParseInt((*http.Request).FormValue(p0, \"leaf_index\"), 10, 64)#0"
		T := "strconv.ParseInt((*http.Request).FormValue(p0, \"tree_size\"), 10, 64)#0"
		r.FailEdge(fn, "entry-proof:parse", EdgeSpec{Name: "tree-size-not-positive", Atom: ordAtomR(T, "0"), Bad: "<,=", Want: wantErr(true)})
		r.FailEdge(fn, "entry-proof:parse", EdgeSpec{Name: "index-negative", Atom: ordAtomR(L, "0"), Bad: "<", Want: wantErr(true)})
		r.FailEdge(fn, "entry-proof:parse", EdgeSpec{Name: "index-beyond-tree", Atom: ordAtomR(L, T), Bad: "=,>", Want: wantErr(true)})
		r.ErrorsGate(fn, "entry-proof:parse.errors", "strconv.ParseInt", 2)
	}
	if fn := r.Fn("trillian/ctfe.writeSTH"); fn != nil {
		if j := r.OneCall(fn, "writeSTH:json", "json.Marshal"); j != nil {
			r.ExpectFields(fn, "writeSTH", c06Built(CallArgs(j)[0], j), map[string]string{
				"TreeSize":          "p0.TreeSize",
				"Timestamp":         "p0.Timestamp",
				"SHA256RootHash":    "p0.SHA256RootHash[:]",
				"TreeHeadSignature": "tls.Marshal(p0.TreeHeadSignature)#0",
			})
			if w := r.OneCall(fn, "writeSTH:write", "iface(http.ResponseWriter).Write"); w != nil {
				r.ExpectArg(w, "writeSTH:body", 1, "json.Marshal(*)#0")
			}
		}
		r.ErrorsGate(fn, "writeSTH:errors", "*", 3)
	}
}

// c06RelayedOrEmpty decides "field `field` of the response built in local a carries the backend's hash list H, and
// nothing but the module's empty proof ever stands in for it":
//   - every value stored into the field is, on each alternative a merge (φ) of values can take, H or
//     g:trillian/ctfe.emptyProof (key);
//   - there is a store whose value is H itself whenever H is non-nil — a plain store of H, or a merge that the test
//     of H against nil resolves to H (the shape `if H == nil {empty} else {H}` leaves behind, written out or
//     inlined from a helper) (keyRelayed).
func c06RelayedOrEmpty(r *Run, fn *ssa.Function, key, keyRelayed string, a *ssa.Alloc, field, H string, at ssa.Instruction) {
	const empty = "g:trillian/ctfe.emptyProof"
	sts := r.StoresTo(fn, "&("+r.D.allocName(a)+"."+field+")")
	if len(sts) == 0 {
		r.Fail(key, r.FnPos(fn), fmt.Sprintf("expected >= 1 stores to %s.%s in %s, found 0", r.D.allocName(a), field, FuncName(fn)))
	}
	// the valuation "the backend's list is non-nil" (when the code tests the list at all); the list is H whether it is
	// read by loading the fields or through their nil-safe accessors (partTerm)
	nonNil := Sigma{}
	for _, k := range c08NilTests(r, fn, H) {
		nonNil[k] = "non"
	}
	walk := r.D.Walk(fn, nonNil, nil, nil)
	r.Valuations++
	relayed := ""
	for _, st := range sts {
		got := r.D.D(st.Val)
		ok := true
		for _, leaf := range phiLeaves(st.Val) {
			if d := partTerm(r, leaf); !glob(H, d) && d != empty {
				ok = false
			}
		}
		r.Check(key, ok, r.Where(st), field+" ← "+got)
		under := leavesUnder(st.Val, walk)
		all := len(under) > 0
		for _, leaf := range under {
			if !glob(H, partTerm(r, leaf)) {
				all = false
			}
		}
		if all {
			relayed = r.D.DUnder(st.Val, walk)
		}
	}
	r.Check(keyRelayed, relayed != "", r.Where(at), "the backend's proof hashes are relayed whenever the backend sent any: "+relayed)
}

// c06OneShotSHA256: v, an argument of the call use, is `d[:]` — the full slice, no bounds — of a local [32]byte
// array d that holds the result of exactly one sha256.Sum256 call: d is written by one whole-value store of that
// result, executed before use on every path, and is otherwise only loaded or sliced, every slice of it being
// nothing but an argument of use (so nothing can alter the digest between the hashing and use). It returns the
// Sum256 call (whose argument is the data hashed); nil when that cannot be established.
func c06OneShotSHA256(fn *ssa.Function, v ssa.Value, use ssa.CallInstruction) ssa.CallInstruction {
	sl, ok := v.(*ssa.Slice)
	if !ok || sl.Low != nil || sl.High != nil || sl.Max != nil {
		return nil
	}
	a, ok := sl.X.(*ssa.Alloc)
	if !ok || a.Referrers() == nil {
		return nil
	}
	arr, ok := a.Type().(*types.Pointer).Elem().Underlying().(*types.Array)
	if !ok || arr.Len() != 32 {
		return nil
	}
	var st *ssa.Store
	for _, ref := range *a.Referrers() {
		switch x := ref.(type) {
		case *ssa.DebugRef:
		case *ssa.UnOp:
			if x.Op != token.MUL {
				return nil
			}
		case *ssa.Store:
			if x.Addr != ssa.Value(a) || st != nil {
				return nil
			}
			st = x
		case *ssa.Slice:
			if x.Referrers() == nil {
				return nil
			}
			for _, r2 := range *x.Referrers() {
				if _, dbg := r2.(*ssa.DebugRef); !dbg && r2 != ssa.Instruction(use) {
					return nil
				}
			}
		default:
			return nil
		}
	}
	if st == nil || !c06InstrDominates(st, use) {
		return nil
	}
	c, ok := st.Val.(*ssa.Call)
	if !ok || CalleeOf(c) != "sha256.Sum256" {
		return nil
	}
	return c
}

// c06IsValueStored: v, an argument of the call at, is the value that a store to the address addrTerm put there —
// the same SSA value, or a second read of the same local with nothing written into that local in between — and
// that store executes before at on every path.
func c06IsValueStored(r *Run, fn *ssa.Function, v ssa.Value, addrTerm string, at ssa.CallInstruction) bool {
	for _, st := range r.StoresTo(fn, addrTerm) {
		if !c06InstrDominates(st, at) {
			continue
		}
		if st.Val == v {
			return true
		}
		l1, ok1 := st.Val.(*ssa.UnOp)
		l2, ok2 := v.(*ssa.UnOp)
		if !ok1 || !ok2 || l1.Op != token.MUL || l2.Op != token.MUL || l1.X != l2.X || l1.Block() != l2.Block() {
			continue
		}
		a, ok := l1.X.(*ssa.Alloc)
		if !ok {
			continue
		}
		lo, hi := instrIdx(l1), instrIdx(l2)
		if lo > hi {
			lo, hi = hi, lo
		}
		clean := true
		for _, in := range l1.Block().Instrs[lo:hi] {
			if s, isStore := in.(*ssa.Store); isStore && addrBase(s.Addr) == a {
				clean = false
			}
			if c, isCall := in.(ssa.CallInstruction); isCall {
				for _, arg := range c.Common().Args {
					if addrBase(arg) == a {
						clean = false
					}
				}
			}
		}
		if clean {
			return true
		}
	}
	return false
}

func c06Client(r *Run) {
	type row struct {
		fn, path string
		params   map[string]string
	}
	for _, x := range []row{
		{"(*client.LogClient).GetSTHConsistency", `"/ct/v1/get-sth-consistency"`, map[string]string{`"first"`: "strconv.FormatUint(p2, 10)", `"second"`: "strconv.FormatUint(p3, 10)"}},
		{"(*client.LogClient).GetProofByHash", `"/ct/v1/get-proof-by-hash"`, map[string]string{`"hash"`: "(*base64.Encoding).EncodeToString(g:base64.StdEncoding, p2)", `"tree_size"`: "strconv.FormatUint(p3, 10)"}},
		{"(*client.LogClient).GetEntryAndProof", `"/ct/v1/get-entry-and-proof"`, map[string]string{`"leaf_index"`: "strconv.FormatUint(p2, 10)", `"tree_size"`: "strconv.FormatUint(p3, 10)"}},
	} {
		fn := r.Fn(x.fn)
		if fn == nil {
			continue
		}
		for k, v := range x.params {
			r.ExpectMapEntry(fn, short(x.fn)+":param"+k, "make:map[string]string", k, v)
		}
		if c := r.OneCall(fn, short(x.fn)+":get", "(*jsonclient.JSONClient).GetAndParse"); c != nil {
			r.ExpectArg(c, short(x.fn)+":path", 2, x.path)
			r.ExpectArg(c, short(x.fn)+":params", 3, "make:map[string]string")
		}
		r.ErrorsGate(fn, short(x.fn)+":errors", "(*jsonclient.JSONClient).GetAndParse", 1)
	}
	for name, want := range map[string]string{"ct.GetSTHConsistencyPath": `"/ct/v1/get-sth-consistency"`, "ct.GetProofByHashPath": `"/ct/v1/get-proof-by-hash"`, "ct.GetEntryAndProofPath": `"/ct/v1/get-entry-and-proof"`, "ct.GetSTHPath": `"/ct/v1/get-sth"`, "ct.GetEntriesPath": `"/ct/v1/get-entries"`, "ct.GetRootsPath": `"/ct/v1/get-roots"`, "ct.AddChainPath": `"/ct/v1/add-chain"`, "ct.AddPreChainPath": `"/ct/v1/add-pre-chain"`} {
		c := r.P.LookupConst(name)
		r.Check("path:"+name, c != nil && c.Val().ExactString() == want, "-", name+" = "+want)
	}
	if fn := r.Fn("(*ctutil.LogInfo).VerifyInclusionAt"); fn != nil {
		r.ExpectStores(fn, "VerifyInclusionAt:timestamp", "&(p2.TimestampedEntry.Timestamp)", "p3", 1)
		if h := r.OneCall(fn, "VerifyInclusionAt:leafhash", "ct.LeafHashForLeaf"); h != nil {
			r.ExpectArg(h, "VerifyInclusionAt:leafhash.leaf", 0, "&(p2)")
		}
		if g := r.OneCall(fn, "VerifyInclusionAt:get", "iface(client.CheckLogClient).GetProofByHash"); g != nil {
			r.ExpectArg(g, "VerifyInclusionAt:get.hash", 2, "ct.LeafHashForLeaf(&(p2))#0[:]")
			r.ExpectArg(g, "VerifyInclusionAt:get.size", 3, "p4")
		}
		if v := r.OneCall(fn, "VerifyInclusionAt:verify", "proof.VerifyInclusion"); v != nil {
			r.ExpectArg(v, "VerifyInclusionAt:verify.hasher", 0, "g:rfc6962.DefaultHasher")
			r.ExpectArg(v, "VerifyInclusionAt:verify.index", 1, "iface(client.CheckLogClient).GetProofByHash(*)#0.LeafIndex")
			r.ExpectArg(v, "VerifyInclusionAt:verify.size", 2, "p4")
			r.ExpectArg(v, "VerifyInclusionAt:verify.leafhash", 3, "ct.LeafHashForLeaf(&(p2))#0[:]")
			r.ExpectArg(v, "VerifyInclusionAt:verify.path", 4, "iface(client.CheckLogClient).GetProofByHash(*)#0.AuditPath")
			r.ExpectArg(v, "VerifyInclusionAt:verify.root", 5, "p5")
		}
		r.ErrorsGate(fn, "VerifyInclusionAt:errors", "*", 3)
		for _, ret := range Returns(fn) {
			if errKind(ret.Results[1]) == "nil" {
				r.Check("VerifyInclusionAt:result", glob("iface(client.CheckLogClient).GetProofByHash(*)#0.LeafIndex", r.D.D(ret.Results[0])), r.Where(ret), "returns the proven index")
			}
		}
	}
	if fn := r.Fn("ct.LeafHashForLeaf"); fn != nil {
		if c := r.OneCall(fn, "LeafHashForLeaf:sum", "sha256.Sum256"); c != nil {
			r.ExpectArg(c, "LeafHashForLeaf:data", 0, "append(new:[1]byte#0[:], tls.Marshal(*p0)#0)")
			r.ExpectStores(fn, "LeafHashForLeaf:prefix", "&(new:[1]byte#0[0])", "0", 1)
		}
		r.ErrorsGate(fn, "LeafHashForLeaf:errors", "tls.Marshal", 1)
	}
	for name, want := range map[string]string{"ct.TreeLeafPrefix": "0", "ct.TreeNodePrefix": "1"} {
		c := r.P.LookupConst(name)
		r.Check("const:"+name, c != nil && c.Val().ExactString() == want, "-", name+" = "+want)
	}
}

// ---- C06.R1: the fetch of the backend's latest root ---------------------------------------------------------

const latestRootRPC = "iface(trillian.TrillianLogClient).GetLatestSignedLogRoot"

// c06SubstParams replaces every parameter token pN of an origin term (outside string constants, not a field
// selector) by args[N]; a parameter without argument is rendered opaque so that no expectation can match it.
func c06SubstParams(term string, args []string) string {
	isWord := func(c byte) bool {
		return c == '_' || c >= '0' && c <= '9' || c >= 'a' && c <= 'z' || c >= 'A' && c <= 'Z'
	}
	var out []byte
	inStr := false
	for i := 0; i < len(term); i++ {
		c := term[i]
		if inStr {
			out = append(out, c)
			if c == '\\' && i+1 < len(term) {
				i++
				out = append(out, term[i])
			} else if c == '"' {
				inStr = false
			}
			continue
		}
		if c == '"' {
			inStr = true
			out = append(out, c)
			continue
		}
		if c == 'p' && (i == 0 || !isWord(term[i-1]) && term[i-1] != '.' && term[i-1] != '#' && term[i-1] != '@') {
			j := i + 1
			n := 0
			for j < len(term) && term[j] >= '0' && term[j] <= '9' {
				n = n*10 + int(term[j]-'0')
				j++
			}
			if j > i+1 && (j == len(term) || !isWord(term[j])) {
				if n < len(args) {
					out = append(out, args[n]...)
				} else {
					out = append(out, fmt.Sprintf("opaque:param%d", n)...)
				}
				i = j - 1
				continue
			}
		}
		out = append(out, c)
	}
	return string(out)
}

// c06InstrDominates: a executes before b on every path to b.
func c06InstrDominates(a, b ssa.Instruction) bool {
	if a.Block() == b.Block() {
		for _, in := range a.Block().Instrs {
			if in == a {
				return true
			}
			if in == b {
				return false
			}
		}
		return false
	}
	return a.Block().Dominates(b.Block())
}

// c06ReturnedValue is result i of a return; when the function spills its results to result variables (it has a
// deferred call), the value is the one the return statement stored into the variable in the returning block.
func c06ReturnedValue(ret *ssa.Return, i int) ssa.Value {
	v := ret.Results[i]
	ld, ok := v.(*ssa.UnOp)
	if !ok {
		return v
	}
	a, ok := ld.X.(*ssa.Alloc)
	if !ok {
		return v
	}
	var last ssa.Value
	for _, in := range ret.Block().Instrs {
		if in == ssa.Instruction(ld) {
			break
		}
		if st, ok := in.(*ssa.Store); ok && st.Addr == ssa.Value(a) {
			last = st.Val
		}
	}
	if last != nil {
		return last
	}
	return v
}

// c06Built: the local in which the struct a call receives was built.  When the value handed to the call (by
// address or boxed) lives in a local that is nothing but a whole-value copy of another local — written by exactly
// one store of the whole struct that is executed before the call on every path, never written field by field, its
// address given to nothing but this call, and no write into the source can execute after the copy — the call sees the contents
// of the source as they were built, and the source (chased through further copies) is returned; otherwise v itself.
func c06Built(v ssa.Value, at ssa.CallInstruction) ssa.Value {
	a := baseAlloc(v)
	for i := 0; i < 4 && a != nil; i++ {
		src := c06WholeCopyOf(a, at)
		if src == nil {
			return a
		}
		a = src
	}
	if a == nil {
		return v
	}
	return a
}

func c06WholeCopyOf(a *ssa.Alloc, at ssa.CallInstruction) *ssa.Alloc {
	if _, ok := a.Type().(*types.Pointer).Elem().Underlying().(*types.Struct); !ok {
		return nil
	}
	var st *ssa.Store
	ok := true
	var visit func(addr ssa.Value, top bool)
	visit = func(addr ssa.Value, top bool) {
		refs := addr.Referrers()
		if refs == nil {
			ok = false
			return
		}
		for _, ref := range *refs {
			switch x := ref.(type) {
			case *ssa.DebugRef:
			case *ssa.UnOp:
				if x.Op != token.MUL {
					ok = false
				}
			case *ssa.FieldAddr:
				visit(x, false)
			case *ssa.Store:
				if !top || x.Addr != addr || x.Val == addr || st != nil {
					ok = false // a field written separately, the address stored away, or a second whole store
				}
				st = x
			case *ssa.MakeInterface, *ssa.ChangeType:
				// the address boxed for the call under consideration only
				for _, r2 := range *x.(ssa.Value).Referrers() {
					if _, dbg := r2.(*ssa.DebugRef); !dbg && r2 != ssa.Instruction(at) {
						ok = false
					}
				}
			default:
				if ref != ssa.Instruction(at) {
					ok = false
				}
			}
		}
	}
	visit(a, true)
	if !ok || st == nil {
		return nil
	}
	u, isLoad := st.Val.(*ssa.UnOp)
	if !isLoad || u.Op != token.MUL {
		return nil
	}
	src, isAlloc := u.X.(*ssa.Alloc)
	if !isAlloc || !c06NoWriteAfter(src, st) || !c06InstrDominates(st, at) {
		return nil
	}
	return src
}

// c06NoWriteAfter: no instruction that writes into local src (a store to it or to a part of it, or anything its
// address is handed to) can execute after the copy cp; the address itself is never stored away.
func c06NoWriteAfter(src *ssa.Alloc, cp *ssa.Store) bool {
	after := map[*ssa.BasicBlock]bool{} // blocks that can execute after cp's block was left
	work := append([]*ssa.BasicBlock{}, cp.Block().Succs...)
	for len(work) > 0 {
		b := work[len(work)-1]
		work = work[:len(work)-1]
		if !after[b] {
			after[b] = true
			work = append(work, b.Succs...)
		}
	}
	okAll := true
	var visit func(addr ssa.Value)
	visit = func(addr ssa.Value) {
		refs := addr.Referrers()
		if refs == nil {
			okAll = false
			return
		}
		for _, ref := range *refs {
			switch x := ref.(type) {
			case *ssa.DebugRef:
			case *ssa.UnOp:
				if x.Op != token.MUL {
					okAll = false
				}
			case *ssa.FieldAddr:
				visit(x)
			case *ssa.IndexAddr:
				visit(x)
			default:
				if s, isStore := ref.(*ssa.Store); isStore && s.Val == addr {
					okAll = false
				}
				if after[ref.Block()] || ref.Block() == cp.Block() && instrIdx(ref) > instrIdx(cp) {
					okAll = false
				}
			}
		}
	}
	visit(src)
	return okAll
}
