package main

import (
	"fmt"

	"golang.org/x/tools/go/ssa"
)

func init() {
	register("C06", "Decides the front end's share of 'one verifiable, append-only history' — faithful relaying — as structural necessary conditions: "+
		"(R1) every STH returned by LogSTHGetter.GetSTH is built in that call from the backend root just fetched: TreeSize ← root.TreeSize, Timestamp ← root.TimestampNanos / 1 000 000 (ns → ms), SHA256RootHash ← root.RootHash, Version V1, signed by signV1TreeHead with the log's signer, and a signing error or empty signature is an error; getSignedLogRoot rejects backend errors, missing or garbled roots and hashes that are not 32 bytes; "+
		"(R2) signV1TreeHead signs SHA-256 of SerializeSTHSignatureInput(*sth) with SHA-256 options and uses a cached signature only when the cache holds a signature for exactly those bytes; "+
		"(R3) SignatureCache and ctutil.LogInfo state is accessed under its mutex; "+
		"(R4) get-sth-consistency / get-proof-by-hash / get-entry-and-proof forward first/second, hash/tree_size, leaf_index/tree_size to the backend fields of the same meaning on this log and relay the proof hashes, leaf index and leaf bytes of the backend's reply; first = 0 ⇒ empty proof; writeSTH serialises the STH it was given; "+
		"(R5) the client library sends each argument under its RFC 6962 parameter name and VerifyInclusionAt verifies (index, size, leaf hash, path, root) in that order and returns the index only after verification; the leaf hash is SHA-256(0x00 ‖ leaf); "+
		"(R6) the STH getter is chosen only in newLogInfo and get-sth reaches the backend only through it. "+
		"NOT covered: append-only-ness and proof validity (backend + Merkle library), linkage of STHs across a history, sequencing, concurrency of handlers beyond the shared state of R3.",
		runC06)
}

func runC06(r *Run) {
	r.Assume("the Trillian backend maintains an append-only Merkle tree and returns proofs for the sizes asked")
	root := "trillian/ctfe.getSignedLogRoot(*)#0"

	r.Rule("C06.R1")
	if fn := r.Fn("(*trillian/ctfe.LogSTHGetter).GetSTH"); fn != nil {
		nOK := 0
		for _, ret := range Returns(fn) {
			if errKind(ret.Results[1]) != "nil" {
				continue
			}
			nOK++
			a := baseAlloc(ret.Results[0])
			if a == nil || a.Parent() != fn {
				r.Fail("GetSTH:fresh", r.Where(ret), "a success return hands out "+r.D.D(ret.Results[0])+", not an STH built in this call from the root just fetched (stale size/timestamp/root can be served)")
				continue
			}
			r.Pass("GetSTH:fresh", r.Where(ret), "the returned STH is allocated in this call")
			r.ExpectFields(fn, "GetSTH", ret.Results[0], map[string]string{
				"Version":  "0",
				"TreeSize": root + ".TreeSize",
			})
			name := r.D.allocName(a)
			for _, st := range r.StoresTo(fn, "&("+name+".Timestamp)") {
				got := r.D.Lin(st.Val, nil).String()
				r.Check("GetSTH.Timestamp", glob("+quo(+"+root+".TimestampNanos, +1000000)", got), r.Where(st), "Timestamp = "+got+" (backend nanoseconds / 1 000 000 = RFC 6962 milliseconds)")
			}
			r.Check("GetSTH.Timestamp:set", len(r.StoresTo(fn, "&("+name+".Timestamp)")) == 1, r.Where(ret), "exactly one store to Timestamp")
			// root hash copied from the backend root
			okCopy := false
			for _, c := range CallsTo(fn, "copy") {
				if r.D.D(CallArgs(c)[0]) == name+".SHA256RootHash[:]" && glob(root+".RootHash", r.D.D(CallArgs(c)[1])) {
					okCopy = true
				}
			}
			r.Check("GetSTH.SHA256RootHash", okCopy, r.Where(ret), "SHA256RootHash ← copy(root.RootHash)")
			if c := r.OneCall(fn, "GetSTH:sign", "trillian/ctfe.signV1TreeHead"); c != nil {
				r.ExpectArg(c, "GetSTH:sign.signer", 0, "p0.li.signer")
				r.Check("GetSTH:sign.sth", baseAlloc(CallArgs(c)[1]) == a, r.Where(c), "the STH signed is the STH returned")
				r.ExpectArg(c, "GetSTH:sign.cache", 2, "&(p0.cache)")
			}
		}
		r.Check("GetSTH:success-return", nOK >= 1, r.FnPos(fn), fmt.Sprintf("%d success returns", nOK))
		if c := r.OneCall(fn, "GetSTH:root", "trillian/ctfe.getSignedLogRoot"); c != nil {
			r.ExpectArg(c, "GetSTH:root.client", 1, "p0.li.rpcClient")
			r.ExpectArg(c, "GetSTH:root.logID", 2, "p0.li.logID")
		}
		r.ErrorsGate(fn, "GetSTH:errors", "trillian/ctfe.*", 2)
		r.FailEdge(fn, "GetSTH", EdgeSpec{Name: "empty-signature", Atom: ordAtomR("len(*.TreeHeadSignature.Signature)", "0"), Bad: "=", Want: wantErr(true)})
	}
	if fn := r.Fn("trillian/ctfe.getSignedLogRoot"); fn != nil {
		if c := r.OneCall(fn, "getSignedLogRoot:rpc", "iface(trillian.TrillianLogClient).GetLatestSignedLogRoot"); c != nil {
			r.ExpectArg(c, "getSignedLogRoot:client", 0, "p1")
			r.ExpectFields(fn, "getSignedLogRoot:req", CallArgs(c)[2], map[string]string{"LogId": "p2"})
		}
		r.FailEdge(fn, "getSignedLogRoot", EdgeSpec{Name: "backend-error", Atom: nilAtom("iface(trillian.TrillianLogClient).GetLatestSignedLogRoot(*)#1"), Bad: "non", Want: wantErr(true)})
		r.FailEdge(fn, "getSignedLogRoot", EdgeSpec{Name: "root-absent", Atom: nilAtom("iface(trillian.TrillianLogClient).GetLatestSignedLogRoot(*)#0.SignedLogRoot"), Bad: "nil", Want: wantErr(true)})
		r.FailEdge(fn, "getSignedLogRoot", EdgeSpec{Name: "root-garbled", Atom: nilAtom("(*types.LogRootV1).UnmarshalBinary(*)"), Bad: "non", Want: wantErr(true)})
		r.FailEdge(fn, "getSignedLogRoot", EdgeSpec{Name: "hash-size", Atom: ordAtomR("len("+decodedRoot(r, fn)+".RootHash)", "32"), Bad: "<,>", Want: wantErr(true)})
		for _, ret := range Returns(fn) {
			if errKind(ret.Results[1]) == "nil" {
				a := baseAlloc(ret.Results[0])
				ok := false
				for _, c := range CallsTo(fn, "(*types.LogRootV1).UnmarshalBinary") {
					if a != nil && baseAlloc(CallArgs(c)[0]) == a && glob("(*trillian.SignedLogRoot).GetLogRoot(iface(trillian.TrillianLogClient).GetLatestSignedLogRoot(*)#0.SignedLogRoot)", r.D.D(CallArgs(c)[1])) {
						ok = true
					}
				}
				r.Check("getSignedLogRoot:result", ok, r.Where(ret), "returns the root decoded from the backend's SignedLogRoot.LogRoot")
			}
		}
	}

	r.Rule("C06.R2")
	if fn := r.Fn("trillian/ctfe.signV1TreeHead"); fn != nil {
		ser := r.OneCall(fn, "signV1TreeHead:serialize", "ct.SerializeSTHSignatureInput")
		if ser != nil {
			r.ExpectArg(ser, "signV1TreeHead:input", 0, "*p1")
		}
		if w := r.OneCall(fn, "signV1TreeHead:hash-write", "iface(hash.Hash).Write"); w != nil {
			r.ExpectArg(w, "signV1TreeHead:hash.h", 0, "sha256.New()")
			r.ExpectArg(w, "signV1TreeHead:hash.bytes", 1, "ct.SerializeSTHSignatureInput(*p1)#0")
		}
		if c := r.OneCall(fn, "signV1TreeHead:sign", "iface(crypto.Signer).Sign"); c != nil {
			r.ExpectArg(c, "signV1TreeHead:sign.signer", 0, "p0")
			r.ExpectArg(c, "signV1TreeHead:sign.digest", 2, "iface(hash.Hash).Sum(sha256.New(*), nil)")
			r.ExpectArg(c, "signV1TreeHead:sign.opts", 3, "5")
		}
		if g := r.OneCall(fn, "signV1TreeHead:cache-get", "(*trillian/ctfe.SignatureCache).GetSignature"); g != nil {
			r.ExpectArg(g, "signV1TreeHead:cache-get.key", 1, "ct.SerializeSTHSignatureInput(*p1)#0")
		}
		if s := r.OneCall(fn, "signV1TreeHead:cache-set", "(*trillian/ctfe.SignatureCache).SetSignature"); s != nil {
			r.ExpectArg(s, "signV1TreeHead:cache-set.key", 1, "ct.SerializeSTHSignatureInput(*p1)#0")
			r.ExpectArg(s, "signV1TreeHead:cache-set.sig", 2, "p1.TreeHeadSignature")
		}
		// the cached signature is used only on the ok edge
		hit := "(*trillian/ctfe.SignatureCache).GetSignature(*)#1"
		for _, st := range r.StoresTo(fn, "&(p1.TreeHeadSignature)") {
			if glob("(*trillian/ctfe.SignatureCache).GetSignature(*)#0", r.D.D(st.Val)) {
				r.MustGuardAfter(fn, "signV1TreeHead:cached-only-on-hit", hit, "F", []ssa.Instruction{st}, "use of the cached signature")
			} else {
				r.ExpectFields(fn, "signV1TreeHead:sig", st.Val, map[string]string{
					"Algorithm.Hash":      "4",
					"Algorithm.Signature": "tls.SignatureAlgorithmFromPubKey(iface(crypto.Signer).Public(p0))",
					"Signature":           "iface(crypto.Signer).Sign(*)#0",
				})
			}
		}
		r.Check("signV1TreeHead:stores", len(r.StoresTo(fn, "&(p1.TreeHeadSignature)")) == 2, r.FnPos(fn), "signature set on the cache-hit path and on the signing path")
		r.ErrorsGate(fn, "signV1TreeHead:errors", "*", 2)
	}
	if fn := r.Fn("(*trillian/ctfe.SignatureCache).GetSignature"); fn != nil {
		_, err := r.D.Table(fn, nil, nil, []RuleAtom{{Name: "eq", Pat: "bytes.Equal(p1, p0.input)"}}, func(val map[string]string, reach *Reach, s Sigma) {
			r.Valuations++
			var oks []string
			var sigs []string
			eachInstr(fn, func(in ssa.Instruction) {
				if st, ok := in.(*ssa.Store); ok && reach.Has(st) {
					switch r.D.D(st.Addr) {
					case "new:bool#0":
						oks = append(oks, r.D.D(st.Val))
					case "new:ct.DigitallySigned#0":
						sigs = append(sigs, r.D.D(st.Val))
					}
				}
			})
			if val["eq"] == "T" {
				r.Check("GetSignature[input-matches]", len(oks) == 1 && oks[0] == "true" && len(sigs) == 1 && sigs[0] == "p0.sig", r.FnPos(fn), fmt.Sprintf("input equal ⇒ (%v, %v)", sigs, oks))
			} else {
				r.Check("GetSignature[input-differs]", len(oks) == 1 && oks[0] == "false", r.FnPos(fn), fmt.Sprintf("input differs ⇒ ok=%v", oks))
			}
		})
		if err != nil {
			r.Fail("GetSignature", r.FnPos(fn), "undecided: "+err.Error())
		}
	}
	if fn := r.Fn("(*trillian/ctfe.SignatureCache).SetSignature"); fn != nil {
		r.ExpectStores(fn, "SetSignature.input", "&(p0.input)", "p1", 1)
		r.ExpectStores(fn, "SetSignature.sig", "&(p0.sig)", "p2", 1)
	}

	r.Rule("C06.R3")
	r.LockCheck(lockTable["SignatureCache"])
	r.LockCheck(lockTable["LogInfo"])

	r.Rule("C06.R4")
	c06Forwarding(r)

	r.Rule("C06.R5")
	c06Client(r)

	r.Rule("C06.R6")
	w := r.FieldWriters("trillian/ctfe.logInfo.sthGetter")
	for _, k := range keysOf(w) {
		r.Check("who-writes:sthGetter@"+k, k == "trillian/ctfe.newLogInfo", r.Where(w[k][0]), k+" assigns logInfo.sthGetter")
	}
	r.Check("who-writes:sthGetter", len(w["trillian/ctfe.newLogInfo"]) >= 3, "-", fmt.Sprintf("newLogInfo assigns the getter on %d paths (frozen / mirror / log)", len(w["trillian/ctfe.newLogInfo"])))
	if fn := r.Fn("trillian/ctfe.getSTH"); fn != nil {
		r.Check("getSTH:no-direct-rpc", len(CallsTo(fn, "iface(trillian.TrillianLogClient).*")) == 0, r.FnPos(fn), "the get-sth handler issues no backend call of its own")
		if c := r.OneCall(fn, "getSTH:getter", "(*trillian/ctfe.logInfo).getSTH"); c != nil {
			if w := r.OneCall(fn, "getSTH:write", "trillian/ctfe.writeSTH"); w != nil {
				r.ExpectArg(w, "getSTH:write.sth", 0, "(*trillian/ctfe.logInfo).getSTH(*)#0")
			}
		}
	}
	if fn := r.Fn("(*trillian/ctfe.logInfo).getSTH"); fn != nil {
		if c := r.OneCall(fn, "logInfo.getSTH", "iface(trillian/ctfe.STHGetter).GetSTH"); c != nil {
			r.ExpectArg(c, "logInfo.getSTH:getter", 0, "p0.sthGetter")
			for _, ret := range Returns(fn) {
				if errKind(ret.Results[1]) == "nil" {
					r.Check("logInfo.getSTH:result", glob("iface(trillian/ctfe.STHGetter).GetSTH(*)#0", r.D.D(ret.Results[0])), r.Where(ret), "returns the getter's STH unchanged")
				}
			}
		}
	}

	// every issued SCT names the stored leaf: it is built from the leaf the backend returned (rule set of C01.R1)
	r.Shared("C06.R7", func() {
		r.Rule("C01.R1")
		if fn := r.Fn("trillian/ctfe.addChainInternal"); fn != nil {
			c01ReturnedLeaf(r, fn)
		}
	})

	// the entry a client derives from certificate + SCT is the entry that was logged (rule set of C01.R7),
	// and an accepted submission's chain is retrievable (rule set of C14.R5)
	r.Shared("C06.R8", func() {
		r.Rule("C01.R7")
		c01Leaf(r)
		r.Rule("C14.R5")
		c14ChainStore(r)
	})
}

func c06Forwarding(r *Run) {
	if fn := r.Fn("trillian/ctfe.getSTHConsistency"); fn != nil {
		if c := r.OneCall(fn, "consistency:rpc", "iface(trillian.TrillianLogClient).GetConsistencyProof"); c != nil {
			r.ExpectArg(c, "consistency:client", 0, "p1.rpcClient")
			r.ExpectFields(fn, "consistency:req", CallArgs(c)[2], map[string]string{
				"LogId":          "p1.logID",
				"FirstTreeSize":  "trillian/ctfe.parseGetSTHConsistencyRange(p3)#0",
				"SecondTreeSize": "trillian/ctfe.parseGetSTHConsistencyRange(p3)#1",
			})
			// first == 0 ⇒ no RPC, empty proof
			r.MustGuardAfter(fn, "consistency:first-zero-no-rpc", "ord(0, trillian/ctfe.parseGetSTHConsistencyRange(p3)#0)", "=", []ssa.Instruction{c}, "GetConsistencyProof")
		}
		if j := r.OneCall(fn, "consistency:json", "json.Marshal"); j != nil {
			a := baseAlloc(CallArgs(j)[0])
			if a != nil {
				for _, st := range r.StoresTo(fn, "&("+r.D.allocName(a)+".Consistency)") {
					got := r.D.D(st.Val)
					r.Check("consistency:rsp", anyGlob("iface(trillian.TrillianLogClient).GetConsistencyProof(*)#0.Proof.Hashes || g:trillian/ctfe.emptyProof", got), r.Where(st), "Consistency ← "+got)
				}
				// with first != 0 and a non-nil hash list the relayed proof is the backend's
				got := ""
				for _, st := range r.StoresTo(fn, "&("+r.D.allocName(a)+".Consistency)") {
					if glob("*Proof.Hashes", r.D.D(st.Val)) {
						got = r.D.D(st.Val)
					}
				}
				r.Check("consistency:rsp.relayed", got != "", r.Where(j), "the backend's proof hashes are relayed: "+got)
			}
		}
	}
	if fn := r.Fn("trillian/ctfe.parseGetSTHConsistencyRange"); fn != nil {
		for _, ret := range Returns(fn) {
			if errKind(ret.Results[2]) == "nil" {
				r.Check("consistency:parse.first", glob("strconv.ParseInt((*http.Request).FormValue(p0, \"first\"), 10, 64)#0", r.D.D(ret.Results[0])), r.Where(ret), "result 0 = "+r.D.D(ret.Results[0]))
				r.Check("consistency:parse.second", glob("strconv.ParseInt((*http.Request).FormValue(p0, \"second\"), 10, 64)#0", r.D.D(ret.Results[1])), r.Where(ret), "result 1 = "+r.D.D(ret.Results[1]))
			}
		}
		F := "strconv.ParseInt((*http.Request).FormValue(p0, \"first\"), 10, 64)#0"
		Sx := "strconv.ParseInt((*http.Request).FormValue(p0, \"second\"), 10, 64)#0"
		r.FailEdge(fn, "consistency:parse", EdgeSpec{Name: "first-negative", Atom: ordAtomR(F, "0"), Bad: "<", Want: wantErr(true)})
		r.FailEdge(fn, "consistency:parse", EdgeSpec{Name: "second-negative", Atom: ordAtomR(Sx, "0"), Bad: "<", Want: wantErr(true)})
		r.FailEdge(fn, "consistency:parse", EdgeSpec{Name: "second-before-first", Atom: ordAtomR(Sx, F), Bad: "<", Want: wantErr(true)})
		r.ErrorsGate(fn, "consistency:parse.errors", "strconv.ParseInt", 2)
	}
	if fn := r.Fn("trillian/ctfe.getProofByHash"); fn != nil {
		if c := r.OneCall(fn, "proof:rpc", "iface(trillian.TrillianLogClient).GetInclusionProofByHash"); c != nil {
			r.ExpectFields(fn, "proof:req", CallArgs(c)[2], map[string]string{
				"LogId":           "p1.logID",
				"LeafHash":        "(*base64.Encoding).DecodeString(g:base64.StdEncoding, (*http.Request).FormValue(p3, \"hash\"))#0",
				"TreeSize":        "strconv.ParseInt((*http.Request).FormValue(p3, \"tree_size\"), 10, 64)#0",
				"OrderBySequence": "true",
			})
		}
		if j := r.OneCall(fn, "proof:json", "json.Marshal"); j != nil {
			r.ExpectFields(fn, "proof:rsp", CallArgs(j)[0], map[string]string{
				"LeafIndex": "iface(trillian.TrillianLogClient).GetInclusionProofByHash(*)#0.Proof[0].LeafIndex",
				"AuditPath": "iface(trillian.TrillianLogClient).GetInclusionProofByHash(*)#0.Proof[0].Hashes || g:trillian/ctfe.emptyProof",
			})
		}
	}
	if fn := r.Fn("trillian/ctfe.getEntryAndProof"); fn != nil {
		if c := r.OneCall(fn, "entry-proof:rpc", "trillian/ctfe.rpcGetEntryAndProof"); c != nil {
			r.ExpectFields(fn, "entry-proof:req", CallArgs(c)[2], map[string]string{
				"LogId":     "p1.logID",
				"LeafIndex": "trillian/ctfe.parseGetEntryAndProofParams(p3)#0",
				"TreeSize":  "trillian/ctfe.parseGetEntryAndProofParams(p3)#1",
			})
		}
		if j := r.OneCall(fn, "entry-proof:json", "json.Marshal"); j != nil {
			r.ExpectFields(fn, "entry-proof:rsp", CallArgs(j)[0], map[string]string{
				"LeafInput": "trillian/ctfe.rpcGetEntryAndProof(*)#0.Leaf.LeafValue",
				"ExtraData": "trillian/ctfe.rpcGetEntryAndProof(*)#0.Leaf.ExtraData",
				"AuditPath": "trillian/ctfe.rpcGetEntryAndProof(*)#0.Proof.Hashes",
			})
		}
	}
	if fn := r.Fn("trillian/ctfe.parseGetEntryAndProofParams"); fn != nil {
		for _, ret := range Returns(fn) {
			if errKind(ret.Results[2]) == "nil" {
				r.Check("entry-proof:parse.leaf_index", glob("strconv.ParseInt((*http.Request).FormValue(p0, \"leaf_index\"), 10, 64)#0", r.D.D(ret.Results[0])), r.Where(ret), "result 0 = "+r.D.D(ret.Results[0]))
				r.Check("entry-proof:parse.tree_size", glob("strconv.ParseInt((*http.Request).FormValue(p0, \"tree_size\"), 10, 64)#0", r.D.D(ret.Results[1])), r.Where(ret), "result 1 = "+r.D.D(ret.Results[1]))
			}
		}
		L := "strconv.ParseInt((*http.Request).FormValue(p0, \"leaf_index\"), 10, 64)#0"
		T := "strconv.ParseInt((*http.Request).FormValue(p0, \"tree_size\"), 10, 64)#0"
		r.FailEdge(fn, "entry-proof:parse", EdgeSpec{Name: "tree-size-not-positive", Atom: ordAtomR(T, "0"), Bad: "<,=", Want: wantErr(true)})
		r.FailEdge(fn, "entry-proof:parse", EdgeSpec{Name: "index-negative", Atom: ordAtomR(L, "0"), Bad: "<", Want: wantErr(true)})
		r.FailEdge(fn, "entry-proof:parse", EdgeSpec{Name: "index-beyond-tree", Atom: ordAtomR(L, T), Bad: "=,>", Want: wantErr(true)})
		r.ErrorsGate(fn, "entry-proof:parse.errors", "strconv.ParseInt", 2)
	}
	if fn := r.Fn("trillian/ctfe.writeSTH"); fn != nil {
		if j := r.OneCall(fn, "writeSTH:json", "json.Marshal"); j != nil {
			r.ExpectFields(fn, "writeSTH", CallArgs(j)[0], map[string]string{
				"TreeSize":          "p0.TreeSize",
				"Timestamp":         "p0.Timestamp",
				"SHA256RootHash":    "p0.SHA256RootHash[:]",
				"TreeHeadSignature": "tls.Marshal(p0.TreeHeadSignature)#0",
			})
			if w := r.OneCall(fn, "writeSTH:write", "iface(http.ResponseWriter).Write"); w != nil {
				r.ExpectArg(w, "writeSTH:body", 1, "json.Marshal(*)#0")
			}
		}
		r.ErrorsGate(fn, "writeSTH:errors", "*", 3)
	}
}

func c06Client(r *Run) {
	type row struct {
		fn, path string
		params   map[string]string
	}
	for _, x := range []row{
		{"(*client.LogClient).GetSTHConsistency", `"/ct/v1/get-sth-consistency"`, map[string]string{`"first"`: "strconv.FormatUint(p2, 10)", `"second"`: "strconv.FormatUint(p3, 10)"}},
		{"(*client.LogClient).GetProofByHash", `"/ct/v1/get-proof-by-hash"`, map[string]string{`"hash"`: "(*base64.Encoding).EncodeToString(g:base64.StdEncoding, p2)", `"tree_size"`: "strconv.FormatUint(p3, 10)"}},
		{"(*client.LogClient).GetEntryAndProof", `"/ct/v1/get-entry-and-proof"`, map[string]string{`"leaf_index"`: "strconv.FormatUint(p2, 10)", `"tree_size"`: "strconv.FormatUint(p3, 10)"}},
	} {
		fn := r.Fn(x.fn)
		if fn == nil {
			continue
		}
		for k, v := range x.params {
			r.ExpectMapEntry(fn, short(x.fn)+":param"+k, "make:map[string]string", k, v)
		}
		if c := r.OneCall(fn, short(x.fn)+":get", "(*jsonclient.JSONClient).GetAndParse"); c != nil {
			r.ExpectArg(c, short(x.fn)+":path", 2, x.path)
			r.ExpectArg(c, short(x.fn)+":params", 3, "make:map[string]string")
		}
		r.ErrorsGate(fn, short(x.fn)+":errors", "(*jsonclient.JSONClient).GetAndParse", 1)
	}
	for name, want := range map[string]string{"ct.GetSTHConsistencyPath": `"/ct/v1/get-sth-consistency"`, "ct.GetProofByHashPath": `"/ct/v1/get-proof-by-hash"`, "ct.GetEntryAndProofPath": `"/ct/v1/get-entry-and-proof"`, "ct.GetSTHPath": `"/ct/v1/get-sth"`, "ct.GetEntriesPath": `"/ct/v1/get-entries"`, "ct.GetRootsPath": `"/ct/v1/get-roots"`, "ct.AddChainPath": `"/ct/v1/add-chain"`, "ct.AddPreChainPath": `"/ct/v1/add-pre-chain"`} {
		c := r.P.LookupConst(name)
		r.Check("path:"+name, c != nil && c.Val().ExactString() == want, "-", name+" = "+want)
	}
	if fn := r.Fn("(*ctutil.LogInfo).VerifyInclusionAt"); fn != nil {
		r.ExpectStores(fn, "VerifyInclusionAt:timestamp", "&(p2.TimestampedEntry.Timestamp)", "p3", 1)
		if h := r.OneCall(fn, "VerifyInclusionAt:leafhash", "ct.LeafHashForLeaf"); h != nil {
			r.ExpectArg(h, "VerifyInclusionAt:leafhash.leaf", 0, "&(p2)")
		}
		if g := r.OneCall(fn, "VerifyInclusionAt:get", "iface(client.CheckLogClient).GetProofByHash"); g != nil {
			r.ExpectArg(g, "VerifyInclusionAt:get.hash", 2, "ct.LeafHashForLeaf(&(p2))#0[:]")
			r.ExpectArg(g, "VerifyInclusionAt:get.size", 3, "p4")
		}
		if v := r.OneCall(fn, "VerifyInclusionAt:verify", "proof.VerifyInclusion"); v != nil {
			r.ExpectArg(v, "VerifyInclusionAt:verify.hasher", 0, "g:rfc6962.DefaultHasher")
			r.ExpectArg(v, "VerifyInclusionAt:verify.index", 1, "iface(client.CheckLogClient).GetProofByHash(*)#0.LeafIndex")
			r.ExpectArg(v, "VerifyInclusionAt:verify.size", 2, "p4")
			r.ExpectArg(v, "VerifyInclusionAt:verify.leafhash", 3, "ct.LeafHashForLeaf(&(p2))#0[:]")
			r.ExpectArg(v, "VerifyInclusionAt:verify.path", 4, "iface(client.CheckLogClient).GetProofByHash(*)#0.AuditPath")
			r.ExpectArg(v, "VerifyInclusionAt:verify.root", 5, "p5")
		}
		r.ErrorsGate(fn, "VerifyInclusionAt:errors", "*", 3)
		for _, ret := range Returns(fn) {
			if errKind(ret.Results[1]) == "nil" {
				r.Check("VerifyInclusionAt:result", glob("iface(client.CheckLogClient).GetProofByHash(*)#0.LeafIndex", r.D.D(ret.Results[0])), r.Where(ret), "returns the proven index")
			}
		}
	}
	if fn := r.Fn("ct.LeafHashForLeaf"); fn != nil {
		if c := r.OneCall(fn, "LeafHashForLeaf:sum", "sha256.Sum256"); c != nil {
			r.ExpectArg(c, "LeafHashForLeaf:data", 0, "append(new:[1]byte#0[:], tls.Marshal(*p0)#0)")
			r.ExpectStores(fn, "LeafHashForLeaf:prefix", "&(new:[1]byte#0[0])", "0", 1)
		}
		r.ErrorsGate(fn, "LeafHashForLeaf:errors", "tls.Marshal", 1)
	}
	for name, want := range map[string]string{"ct.TreeLeafPrefix": "0", "ct.TreeNodePrefix": "1"} {
		c := r.P.LookupConst(name)
		r.Check("const:"+name, c != nil && c.Val().ExactString() == want, "-", name+" = "+want)
	}
}
